package main

// A source-level call graph over mkdb's declared functions. Calls made inside
// function literals are attributed to the enclosing declaration (a closure runs
// no earlier than its creation and, for the callbacks used in mkdb, inside a
// callee of the declaration). Interface method calls are resolved CHA-style to
// every non-test method of the repository whose receiver implements the
// interface. Calls of function values are not resolved (the only function
// values in mkdb are closures, which are folded into their creator).

import (
	"go/ast"
	"go/types"
	"sort"
)

type CallSite struct {
	Caller  *Func
	Call    *ast.CallExpr
	Callee  *types.Func  // static callee or interface method
	Targets []*Func      // resolved repository functions (may be empty: library call)
	InLit   *ast.FuncLit // innermost function literal containing the call, or nil
	InGo    bool         // the call is (inside) the operand of a go statement
}

type CG struct {
	w     *World
	Sites map[*Func][]*CallSite
	In    map[*Func][]*CallSite
}

func (w *World) CG() *CG {
	if w.astCG != nil {
		return w.astCG
	}
	g := &CG{w: w, Sites: map[*Func][]*CallSite{}, In: map[*Func][]*CallSite{}}
	for _, name := range w.SortedFuncNames() {
		f := w.Funcs[name]
		var lits []*ast.FuncLit
		var goDepth int
		var visit func(n ast.Node)
		visit = func(n ast.Node) {
			if n == nil {
				return
			}
			switch x := n.(type) {
			case *ast.FuncLit:
				lits = append(lits, x)
				ast.Inspect(x.Body, func(m ast.Node) bool {
					if m == nil || m == x.Body {
						return true
					}
					visit(m)
					return false
				})
				lits = lits[:len(lits)-1]
				return
			case *ast.GoStmt:
				goDepth++
				visit(x.Call)
				goDepth--
				return
			case *ast.CallExpr:
				if callee := f.Callee(x); callee != nil {
					cs := &CallSite{Caller: f, Call: x, Callee: callee, InGo: goDepth > 0}
					if len(lits) > 0 {
						cs.InLit = lits[len(lits)-1]
					}
					cs.Targets = w.resolve(callee)
					g.Sites[f] = append(g.Sites[f], cs)
					for _, t := range cs.Targets {
						g.In[t] = append(g.In[t], cs)
					}
				}
			}
			// generic descent
			ast.Inspect(n, func(m ast.Node) bool {
				if m == nil || m == n {
					return true
				}
				visit(m)
				return false
			})
		}
		visit(f.Decl.Body)
	}
	w.astCG = g
	return g
}

// resolve maps a callee object to repository functions.
func (w *World) resolve(callee *types.Func) []*Func {
	if callee == nil {
		return nil
	}
	if f := w.byObj[callee]; f != nil {
		return []*Func{f}
	}
	sig, _ := callee.Type().(*types.Signature)
	if sig == nil || sig.Recv() == nil {
		return nil
	}
	iface, ok := sig.Recv().Type().Underlying().(*types.Interface)
	if !ok {
		return nil
	}
	var out []*Func
	for _, name := range w.SortedFuncNames() {
		f := w.Funcs[name]
		if f.Obj.Name() != callee.Name() {
			continue
		}
		fsig := f.Obj.Type().(*types.Signature)
		if fsig.Recv() == nil {
			continue
		}
		rt := fsig.Recv().Type()
		if types.Implements(rt, iface) || types.Implements(types.NewPointer(rt), iface) {
			out = append(out, f)
		}
	}
	return out
}

// Reach returns every function reachable from the roots (roots included).
func (g *CG) Reach(roots ...*Func) map[*Func]bool {
	seen := map[*Func]bool{}
	var work []*Func
	for _, r := range roots {
		if r != nil && !seen[r] {
			seen[r] = true
			work = append(work, r)
		}
	}
	for len(work) > 0 {
		f := work[len(work)-1]
		work = work[:len(work)-1]
		for _, cs := range g.Sites[f] {
			for _, t := range cs.Targets {
				if !seen[t] {
					seen[t] = true
					work = append(work, t)
				}
			}
		}
	}
	return seen
}

// PathTo returns a call chain (function names) from root to a function satisfying pred, or nil.
func (g *CG) PathTo(root *Func, pred func(*Func) bool) []string {
	type item struct {
		f    *Func
		path []string
	}
	seen := map[*Func]bool{root: true}
	work := []item{{root, []string{root.Name}}}
	for len(work) > 0 {
		it := work[0]
		work = work[1:]
		if pred(it.f) {
			return it.path
		}
		for _, cs := range g.Sites[it.f] {
			for _, t := range cs.Targets {
				if !seen[t] {
					seen[t] = true
					work = append(work, item{t, append(append([]string{}, it.path...), t.Name)})
				}
			}
		}
	}
	return nil
}

func sortedFuncs(m map[*Func]bool) []*Func {
	var out []*Func
	for f := range m {
		out = append(out, f)
	}
	sort.Slice(out, func(i, j int) bool { return out[i].Name < out[j].Name })
	return out
}
