package main

import (
	"go/ast"
	"go/constant"
	"go/token"
	"go/types"
	"sort"
	"strings"

	"golang.org/x/tools/go/cfg"
)

func init() {
	register(&Property{
		ID:    "C10",
		Run:   runC10,
		Floor: 20,
		Assumptions: []string{
			"the vendored scanner classifies identifiers, integers and quoted tokens as text/scanner does",
		},
		NotDecided: "equality of the whole parsed tree with the statement for all renderings (needs generation and execution); whitespace/line-break handling of the vendored scanner.",
	})
}

func runC10(c *Ctx) {
	defer c05Comparisons(c, "C10.22")
	defer ruleVendoredEqualsUpstream(c, "C10.21", vendoredScanner)
	c10Lists(c, "C10.1")
	c10EndOfInput(c, "C10.2")
	c10TokenTable(c, "C10.3")
	c05TwoCharOps(c, "C10.4")
	c10ClauseMapping(c, "C10.5")
	c05Layering(c, "C10.6")
	c06JoinMapping(c, "C10.7")
	c05KeywordLookup(c, "C10.8")
	c08Literals(c, "C10.9")
	ruleStripQuotes(c, "C10.10")
	ruleCurOncePerNext(c, "C10.11")
	rulePresenceFlags(c, "C10.12")
	ruleEOFJudgedByParse(c, "C10.13")
	ruleScannerWhitespace(c, "C10.14")
	ruleNextStopsAtEOF(c, "C10.15")
	ruleNoGlobalState(c, "C10.16", "sql", "engine")
	ruleStatementTextUnmodified(c, "C10.17")
	ruleEnumIntervalLoops(c, "C10.18")
	ruleClauseOrder(c, "C10.19")
	ruleStatementFieldsFromProductions(c, "C10.20")
}

// ---- C10.1 --------------------------------------------------------------------

func c10Lists(c *Ctx, rule string) {
	c.Rule(rule, "every list production accepts its separator: in each parser loop that appends a parsed element to a list, every path from the append back to the loop head passes through a match of the separator (COMMA) — as the continue condition or as an optional consume")
	w := c.W
	n := 0
	for _, f := range parserFuncs(w) {
		g := f.Graph()
		li := 0
		inspectBody(f.Decl.Body, func(x ast.Node) bool {
			fs, ok := x.(*ast.ForStmt)
			if !ok {
				return true
			}
			// appends directly in this loop's body (not in nested loops)
			var appends []*ast.AssignStmt
			inspectBody(fs.Body, func(y ast.Node) bool {
				if inner, ok := y.(*ast.ForStmt); ok && inner != fs {
					return false
				}
				if as, ok := y.(*ast.AssignStmt); ok && len(as.Rhs) == 1 {
					if call, ok := ast.Unparen(as.Rhs[0]).(*ast.CallExpr); ok {
						if id, ok := call.Fun.(*ast.Ident); ok && id.Name == "append" {
							appends = append(appends, as)
						}
					}
				}
				return true
			})
			if len(appends) == 0 {
				return true
			}
			li++
			n++
			key := f.Name + "|list#" + itoa(li) + "|" + exprKey(appends[len(appends)-1].Lhs[0])
			as := appends[len(appends)-1]
			loc, ok := g.Locate(as)
			if !ok {
				c.Undecided(rule, key, "append not located")
				return true
			}
			isSep := func(e ast.Node) bool {
				found := false
				ast.Inspect(e, func(z ast.Node) bool {
					if call, ok := z.(*ast.CallExpr); ok && f.CallIs(call, "sql.Parser.match", "sql.Parser.requireMatch") {
						for _, a := range call.Args {
							if cst := f.namedConst(a); cst != nil && cst.Name() == "COMMA" {
								found = true
							}
						}
					}
					return true
				})
				return found
			}
			back := false
			g.Forward(&loc, func(b *cfg.Block, si int) bool {
				s := b.Succs[si]
				if (s.Kind == cfg.KindForLoop || s.Kind == cfg.KindForBody || s.Kind == cfg.KindForPost) && s.Stmt == ast.Stmt(fs) && s.Kind != cfg.KindForBody {
					back = true
					return false
				}
				// `for {` loops jump straight back to the body block
				if s.Kind == cfg.KindForBody && s.Stmt == ast.Stmt(fs) && fs.Cond == nil {
					back = true
					return false
				}
				return true
			}, func(nn ast.Node, at Loc) Verdict {
				if isSep(nn) {
					return Cut
				}
				if _, ok := nn.(*ast.ReturnStmt); ok {
					return Cut
				}
				return Go
			}, nil)
			if back {
				c.Fail(rule, key, as.Pos(), "the list loop can continue with the next element without having matched a comma: a comma separated list is cut short at the first comma (or elements run together)")
			} else {
				c.OK(rule, key, as.Pos(), 1, "the separator is matched between elements")
			}
			return true
		})
	}
	if n < 7 {
		c.Undecided(rule, "subjects", "only %d list productions found (select list, ORDER BY, GROUP BY, column list, VALUES rows, row values, SET, table elements expected)", n)
	}
}

// ---- C10.2 -----------------------------------------------------------------------

func c10EndOfInput(c *Ctx, rule string) {
	c.Rule(rule, "a successful parse implies end of input: every success return of Parser.Parse is dominated by the passing edge of a test that the current token is EOF (optionally after one SEMICOLON)")
	f := c.NeedFunc(rule, "sql.(*Parser).Parse")
	if f == nil {
		return
	}
	g := f.Graph()
	n := 0
	for _, r := range g.Returns() {
		if !g.ReturnMayBeNil(r) {
			continue
		}
		// `return stmt, err` under err != nil is an error return (handled by ReturnMayBeNil)
		n++
		key := f.Name + "|success-return#" + itoa(n)
		loc, _ := g.Locate(r)
		okEOF := false
		for _, b := range g.c.Blocks {
			if !g.Reachable(b) || len(b.Succs) != 2 {
				continue
			}
			for si := range b.Succs {
				info, ok := g.EdgeInfo(b, si)
				if !ok || info.Case {
					continue
				}
				be, ok := ast.Unparen(info.Cond).(*ast.BinaryExpr)
				if !ok {
					continue
				}
				cst := f.namedConst(be.Y)
				if cst == nil || cst.Name() != "EOF" || !strings.HasSuffix(exprKey(be.X), ".Type") {
					continue
				}
				isEOFEdge := (be.Op == token.EQL) == info.Val
				if isEOFEdge && g.BlockDominates(b.Succs[si], loc.B) && (onlyPred(g, b.Succs[si], b) || !reachesBlock(g, b.Succs[1-si], loc.B)) {
					okEOF = true
				}
			}
		}
		if okEOF {
			c.OK(rule, key, r.Pos(), 1, "dominated by the `token is EOF` edge")
		} else {
			c.Fail(rule, key, r.Pos(), "Parse can return a statement while tokens remain: trailing input (a list element after a missing comma, a second statement, garbage) is silently dropped")
		}
	}
	if n == 0 {
		c.Undecided(rule, f.Name+"|returns", "no success return found in Parse")
	}
	// the statement dispatcher maps each statement keyword to its own production
	disp := c.W.F("sql.(*Parser).statement")
	if disp == nil {
		disp = f
	}
	want := map[string]string{"CREATE": "Create", "SELECT": "Select", "INSERT": "Insert", "UPDATE": "Update", "USE": "Use", "DELETE": "Delete", "SHOW": "Show"}
	got := map[string]string{}
	inspectBody(disp.Decl.Body, func(x ast.Node) bool {
		if cc, ok := x.(*ast.CaseClause); ok {
			for _, e := range cc.List {
				if cst := disp.namedConst(e); cst != nil {
					for _, st := range cc.Body {
						if r, ok := st.(*ast.ReturnStmt); ok && len(r.Results) == 1 {
							if call, ok := r.Results[0].(*ast.CallExpr); ok {
								if fn := disp.Callee(call); fn != nil {
									got[cst.Name()] = fn.Name()
								}
							}
						}
					}
				}
			}
		}
		return true
	})
	if len(got) == 0 {
		// a table instead of a switch: `parse, ok := table[cur.Type]; …; return parse(p)`
		inspectBody(disp.Decl.Body, func(x ast.Node) bool {
			if ix, ok := x.(*ast.IndexExpr); ok {
				if tbl := tableLiteral(disp, ix.X); tbl != nil && strings.HasSuffix(exprKey(ix.Index), ".Type") {
					for k, v := range tbl {
						got[k] = methodNamed(disp, v)
					}
				}
			}
			return true
		})
	}
	var kws []string
	for k := range want {
		kws = append(kws, k)
	}
	sort.Strings(kws)
	if len(got) == 0 {
		c.Undecided(rule, disp.Name+"|dispatch", "no dispatch on the statement keyword recognised in %s (neither a switch nor a table)", disp.Name)
		kws = nil
	}
	for _, k := range kws {
		c.Check(got[k] == want[k], rule, disp.Name+"|dispatch|"+k, disp.Decl.Pos(), k+" -> "+want[k], "statement keyword "+k+" is dispatched to "+got[k]+", expected "+want[k])
	}
}

// ---- C10.3 -------------------------------------------------------------------------

type tokenTable struct {
	spelling map[string]string // constant name -> spelling
	value    map[string]int64  // constant name -> iota value
	lit      *ast.CompositeLit
}

func loadTokenTable(c *Ctx, rule string) *tokenTable {
	w := c.W
	pkg := w.Pkgs["sql"]
	tt := &tokenTable{spelling: map[string]string{}, value: map[string]int64{}}
	for _, file := range pkg.Syntax {
		ast.Inspect(file, func(n ast.Node) bool {
			vs, ok := n.(*ast.ValueSpec)
			if !ok || len(vs.Names) != 1 || vs.Names[0].Name != "Tokens" || len(vs.Values) != 1 {
				return true
			}
			if lit, ok := vs.Values[0].(*ast.CompositeLit); ok {
				tt.lit = lit
			}
			return true
		})
	}
	if tt.lit == nil {
		c.Undecided(rule, "anchor|sql.Tokens", "the token table was not found")
		return nil
	}
	for _, el := range tt.lit.Elts {
		kv, ok := el.(*ast.KeyValueExpr)
		if !ok {
			continue
		}
		id, ok := kv.Key.(*ast.Ident)
		if !ok {
			continue
		}
		if tv, ok := pkg.TypesInfo.Types[kv.Value]; ok && tv.Value != nil && tv.Value.Kind() == constant.String {
			tt.spelling[id.Name] = constant.StringVal(tv.Value)
		}
	}
	scope := pkg.Types.Scope()
	for _, n := range scope.Names() {
		if cst, ok := scope.Lookup(n).(*types.Const); ok && cst.Val().Kind() == constant.Int {
			if b, ok := cst.Type().Underlying().(*types.Basic); ok && b.Info()&types.IsInteger != 0 {
				v, _ := constant.Int64Val(cst.Val())
				tt.value[n] = v
			}
		}
	}
	return tt
}

func c10TokenTable(c *Ctx, rule string) {
	c.Rule(rule, "the keyword table is total and injective: every token constant strictly between reserved_word_start and reserved_word_end has a spelling in Tokens (a hole is silently skipped by init and the keyword is never recognised), spellings are pairwise distinct ignoring case (a duplicate makes one keyword unreachable), equal to their own upper-case form (the lookup upper-cases the input) and non-empty")
	tt := loadTokenTable(c, rule)
	if tt == nil {
		return
	}
	lo, ok1 := tt.value["reserved_word_start"]
	hi, ok2 := tt.value["reserved_word_end"]
	if !ok1 || !ok2 {
		c.Undecided(rule, "anchor|range-markers", "reserved_word_start/end not found")
		return
	}
	var names []string
	for n, v := range tt.value {
		if v > lo && v < hi && n != "literal_end" && n != "literal_start" && !strings.HasSuffix(n, "_JOIN") && n != "EOF" {
			// constants of other enumerations that happen to fall in the range are excluded by type below
			names = append(names, n)
		}
	}
	sort.Strings(names)
	// keep only the untyped-iota token constants (declared in the IDENT.. block): they are the keys usable in Tokens
	seen := map[string]string{}
	n := 0
	for _, name := range names {
		cst := c.W.Pkgs["sql"].Types.Scope().Lookup(name).(*types.Const)
		if !types.Identical(cst.Type(), types.Typ[types.UntypedInt]) && !types.Identical(cst.Type(), types.Typ[types.Int]) {
			continue
		}
		if _, isTok := tt.spelling[name]; !isTok && !tokenBlockMember(c.W, name) {
			continue
		}
		n++
		key := "sql.Tokens|" + name
		sp, has := tt.spelling[name]
		switch {
		case !has:
			c.Fail(rule, key, tt.lit.Pos(), "token %s lies in the reserved-word range but has no spelling in Tokens: init skips it and the keyword/operator is never recognised", name)
		case sp == "":
			c.Fail(rule, key, tt.lit.Pos(), "token %s has an empty spelling", name)
		case strings.ToUpper(sp) != sp:
			c.Fail(rule, key, tt.lit.Pos(), "spelling %q of %s is not upper case: the scanner upper-cases the input before the lookup, so it never matches", sp, name)
		default:
			if other, dup := seen[strings.ToUpper(sp)]; dup {
				c.Fail(rule, key, tt.lit.Pos(), "tokens %s and %s share the spelling %q: one of them can never be produced", other, name, sp)
			} else {
				seen[strings.ToUpper(sp)] = name
				c.OK(rule, key, tt.lit.Pos(), 1, "%s = %q", name, sp)
			}
		}
	}
	if n < 70 {
		c.Undecided(rule, "subjects", "only %d reserved-word tokens found", n)
	}
	// init builds the keyword map from exactly this range
	if f := c.W.F("sql.init#" + itoa(0)); f == nil {
		for name, fn := range c.W.Funcs {
			if strings.HasPrefix(name, "sql.init#") {
				okRange := false
				inspectBody(fn.Decl.Body, func(x ast.Node) bool {
					if fs, ok := x.(*ast.ForStmt); ok && fs.Init != nil && fs.Cond != nil {
						if as, isAs := fs.Init.(*ast.AssignStmt); isAs && len(as.Rhs) == 1 {
							s := exprKey(as.Rhs[0]) + ";" + exprKey(fs.Cond)
							if strings.Contains(s, "reserved_word_start") && strings.Contains(s, "+1") && strings.Contains(s, "<reserved_word_end") {
								okRange = true
							}
						}
					}
					// every token of the table, filtered by the range predicate, is the same set
					if rs, ok := x.(*ast.RangeStmt); ok && exprKey(rs.X) == "Tokens" && len(fn.Calls(rs.Body, false, "sql.TokenType.IsReservedWord")) > 0 {
						if isRangePredicate(c.W) {
							okRange = true
						}
					}
					return true
				})
				// the loop may have been moved into a function called from a package-level initialiser
				if !okRange && fn.w.opaque(fn) != "" {
					c.Undecided(rule, "sql.init|keyword-range", "not decided: %s", fn.w.opaque(fn))
					continue
				}
				c.Check(okRange, rule, "sql.init|keyword-range", fn.Decl.Pos(), "keywords are taken from (reserved_word_start, reserved_word_end)", "init does not build the keyword map from the open range (reserved_word_start, reserved_word_end)")
			}
		}
	}
}

// tokenBlockMember: the constant is declared in the same const block as IDENT.
func tokenBlockMember(w *World, name string) bool {
	for _, file := range w.Pkgs["sql"].Syntax {
		for _, d := range file.Decls {
			gd, ok := d.(*ast.GenDecl)
			if !ok || gd.Tok != token.CONST {
				continue
			}
			hasIdent, hasName := false, false
			for _, sp := range gd.Specs {
				for _, n := range sp.(*ast.ValueSpec).Names {
					if n.Name == "IDENT" {
						hasIdent = true
					}
					if n.Name == name {
						hasName = true
					}
				}
			}
			if hasIdent && hasName {
				return true
			}
		}
	}
	return false
}

// ---- C10.5 --------------------------------------------------------------------------------

func c10ClauseMapping(c *Ctx, rule string) {
	c.Rule(rule, "clause keywords map to themselves: ORDER BY stores the matched ASC/DESC token and defaults to ASC; the LIMIT arm stores Limit/LimitActive and the OFFSET arm Offset/OffsetActive, each selected by the keyword that was just matched")
	if f := c.NeedFunc(rule, "sql.(*Parser).SortSpecificationList"); f != nil {
		defASC, storesMatched := false, false
		for _, lit := range f.compositeLitsIn(f.Decl.Body, "sql", "Token") {
			if v := kvField(lit, "Type"); v != nil {
				if cst := f.namedConst(v); cst != nil && cst.Name() == "ASC" {
					defASC = true
				}
			}
		}
		inspectBody(f.Decl.Body, func(x ast.Node) bool {
			ifs, ok := x.(*ast.IfStmt)
			if !ok {
				return true
			}
			call, isM := isMatchCall(f, ifs.Cond)
			if !isM {
				return true
			}
			var toks []string
			for _, a := range call.Args {
				if cst := f.namedConst(a); cst != nil {
					toks = append(toks, cst.Name())
				}
			}
			sort.Strings(toks)
			if strings.Join(toks, ",") != "ASC,DESC" {
				return true
			}
			for _, st := range ifs.Body.List {
				if as, ok := st.(*ast.AssignStmt); ok && len(as.Lhs) == 1 && strings.HasSuffix(exprKey(as.Lhs[0]), ".OrderingSpecification") && exprKey(as.Rhs[0]) == recvName(f)+".Prev()" {
					storesMatched = true
				}
			}
			return true
		})
		c.Check(defASC, rule, f.Name+"|default-ASC", f.Decl.Pos(), "sort keys default to ASC", "the default ordering of a sort key is not ASC")
		c.Check(storesMatched, rule, f.Name+"|stores-matched-token", f.Decl.Pos(), "the matched ASC/DESC token is stored", "the ASC/DESC token that was matched is not what is stored as the ordering")
	}
	if f := c.NeedFunc(rule, "sql.(*Parser).LimitOffsetClause"); f != nil {
		inspectBody(f.Decl.Body, func(x ast.Node) bool {
			cc, ok := x.(*ast.CaseClause)
			if !ok || len(cc.List) != 1 {
				return true
			}
			cond := exprKey(cc.List[0])
			for _, kw := range []string{"LIMIT", "OFFSET"} {
				if !strings.Contains(cond, "=="+kw) {
					continue
				}
				field := map[string]string{"LIMIT": "Limit", "OFFSET": "Offset"}[kw]
				key := f.Name + "|arm|" + kw
				var stored []string
				for _, st := range cc.Body {
					if as, ok := st.(*ast.AssignStmt); ok {
						for _, l := range as.Lhs {
							if sel, ok := ast.Unparen(l).(*ast.SelectorExpr); ok {
								stored = append(stored, sel.Sel.Name)
							}
						}
					}
				}
				sort.Strings(stored)
				want := []string{field, field + "Active"}
				sort.Strings(want)
				okArm := strings.Join(stored, ",") == strings.Join(want, ",") && strings.Contains(cond, "."+field+"Active") && strings.Contains(cond, "!")
				c.Check(okArm, rule, key, cc.Pos(), kw+" stores "+strings.Join(want, "+"), "the "+kw+" arm stores ["+strings.Join(stored, ",")+"] instead of "+strings.Join(want, "+")+" (or is not guarded by its own Active flag)")
			}
			return true
		})
	}
}

// ---- C05.3 / C10.4 -------------------------------------------------------------------------

func c05TwoCharOps(c *Ctx, rule string) {
	c.Rule(rule, "two-character operators agree with the token table: for each scanner arm `kw == A && Peek() == c => Type = B`, Tokens[B] == Tokens[A] + string(c); the arm consumes the second character")
	tt := loadTokenTable(c, rule)
	f := c.NeedFunc(rule, "sql.(*tokenScanner).Cur")
	if tt == nil || f == nil {
		return
	}
	n := 0
	inspectBody(f.Decl.Body, func(x ast.Node) bool {
		cc, ok := x.(*ast.CaseClause)
		if !ok || len(cc.List) != 1 {
			return true
		}
		be, ok := ast.Unparen(cc.List[0]).(*ast.BinaryExpr)
		if !ok || be.Op != token.LAND {
			return true
		}
		l, ok1 := ast.Unparen(be.X).(*ast.BinaryExpr)
		r, ok2 := ast.Unparen(be.Y).(*ast.BinaryExpr)
		if !ok1 || !ok2 || l.Op != token.EQL || r.Op != token.EQL {
			return true
		}
		a := f.namedConst(l.Y)
		ch := f.constOf(r.Y)
		if a == nil || ch == nil {
			return true
		}
		n++
		key := f.Name + "|two-char|" + a.Name()
		var b string
		consumes := false
		for _, st0 := range cc.Body {
			ast.Inspect(st0, func(st ast.Node) bool {
				switch st.(type) {
				case *ast.FuncLit, *ast.CaseClause:
					return false
				}
				if as, ok := st.(*ast.AssignStmt); ok && len(as.Lhs) == 1 && len(as.Rhs) == 1 {
					isType := false
					if sel, ok := ast.Unparen(as.Lhs[0]).(*ast.SelectorExpr); ok {
						if v := fieldVar(f, sel); v != nil && v.Name() == "Type" {
							isType = true
						}
					}
					if isType {
						if cst := f.namedConst(as.Rhs[0]); cst != nil {
							b = cst.Name()
						}
					}
				}
				if call, ok := st.(*ast.CallExpr); ok && f.CallIs(call, "sql.tokenScanner.Next") {
					consumes = true
				}
				return true
			})
		}
		if b == "" {
			c.Undecided(rule, key, "the token type produced by this arm is not a direct store of a token constant")
			return true
		}
		chv, _ := constant.Int64Val(constant.ToInt(ch))
		want := tt.spelling[a.Name()] + string(rune(chv))
		// a second spelling of an operator the SQL standard defines: `<>` is `!=`
		if syn, ok := map[string]string{"<>": "!="}[want]; ok && tt.spelling[b] == syn {
			if !consumes {
				c.Fail(rule, key+"|<>", cc.Pos(), "the second character of %q is not consumed", want)
			} else {
				c.OK(rule, key+"|<>", cc.Pos(), 2, "%q is the standard's other spelling of %s", want, b)
			}
			return true
		}
		switch {
		case b == "" || tt.spelling[b] != want:
			c.Fail(rule, key, cc.Pos(), "after %q followed by %q the scanner produces token %s (spelled %q), expected the token spelled %q", tt.spelling[a.Name()], string(rune(chv)), b, tt.spelling[b], want)
		case !consumes:
			c.Fail(rule, key, cc.Pos(), "the second character of %q is not consumed", want)
		default:
			c.OK(rule, key, cc.Pos(), 2, "%q + %q -> %s", tt.spelling[a.Name()], string(rune(chv)), b)
		}
		return true
	})
	if n < 3 {
		c.Undecided(rule, "subjects", "only %d two-character operator arms found (!=, >=, <= expected)", n)
	}
}

// ---- keyword lookup on raw text (C05.7 / C10.8) ------------------------------------------------

func c05KeywordLookup(c *Ctx, rule string) {
	c.Rule(rule, "quoted text never becomes a keyword: the keyword lookup uses the raw token text (quotes included) and is not preceded by quote stripping; the arm for double-quoted identifiers does no keyword lookup at all; identifiers and operators are looked up upper-cased")
	f := c.NeedFunc(rule, "sql.(*tokenScanner).Cur")
	if f == nil {
		return
	}
	g := f.Graph()
	n := 0
	ast.Inspect(f.Decl.Body, func(x ast.Node) bool {
		ix, ok := x.(*ast.IndexExpr)
		if !ok || exprKey(ix.X) != "keywords" {
			return true
		}
		n++
		key := f.Name + "|keyword-lookup#" + itoa(n)
		arg := exprKey(ix.Index)
		upper := strings.HasPrefix(arg, "strings.ToUpper(")
		raw := strings.Contains(arg, "TokenText()")
		// the variable the key is read from (`text`, `tok.Text`): whatever name it has, a quote-stripping store into
		// it that reaches the lookup makes quoted text a keyword
		keyVar := strings.TrimSuffix(strings.TrimPrefix(arg, "strings.ToUpper("), ")")
		// which case clause?
		var arm *ast.CaseClause
		ast.Inspect(f.Decl.Body, func(y ast.Node) bool {
			if cc, ok := y.(*ast.CaseClause); ok && cc.Pos() <= ix.Pos() && ix.End() <= cc.End() {
				if arm == nil || (arm.Pos() <= cc.Pos() && cc.End() <= arm.End()) {
					// keep the outermost clause of the switch on ts.cur
					if arm == nil {
						arm = cc
					}
				}
			}
			return true
		})
		var problems []string
		if !upper {
			problems = append(problems, "the lookup key is not upper-cased")
		}
		if !raw {
			// uses tok.Text: must not be dominated by a quote-stripping assignment
			loc, _ := g.Locate(ix)
			stripped := false
			inspectBody(f.Decl.Body, func(y ast.Node) bool {
				if as, ok := y.(*ast.AssignStmt); ok && len(as.Lhs) == 1 && len(as.Rhs) == 1 && (exprKey(as.Lhs[0]) == "tok.Text" || exprKey(as.Lhs[0]) == keyVar) {
					rhs := exprKey(as.Rhs[0])
					if strings.Contains(rhs, "stripQuotes(") || strings.Contains(rhs, "[1:") || strings.Contains(rhs, "strings.Trim") {
						if al, ok := g.Locate(as); ok {
							reach, _ := g.Forward(&al, nil, func(_ ast.Node, at Loc) Verdict {
								if at == loc {
									return Hit
								}
								return Go
							}, nil)
							if reach {
								stripped = true
							}
						}
					}
				}
				return true
			})
			if stripped {
				problems = append(problems, "the lookup key has had its quotes stripped: a string literal such as 'from' or 'true' is read as the keyword")
			}
		}
		if arm != nil {
			for _, e := range arm.List {
				if id, ok := e.(*ast.Ident); ok && id.Name == "DelimIdent" {
					problems = append(problems, "double-quoted identifiers go through the keyword lookup: \"order\" or \"count\" become keywords")
				}
			}
		}
		if len(problems) > 0 {
			c.Fail(rule, key, ix.Pos(), "%s", strings.Join(problems, "; "))
		} else {
			c.OK(rule, key, ix.Pos(), 2, "raw, upper-cased token text; not in the quoted-identifier arm")
		}
		return true
	})
	if n < 2 {
		c.Undecided(rule, "subjects", "only %d keyword lookups found in tokenScanner.Cur", n)
	}
	// the String arm strips quotes only when the scanner classified the token as a string
	okStrip := false
	inspectBody(f.Decl.Body, func(x ast.Node) bool {
		if ifs, ok := x.(*ast.IfStmt); ok && exprKey(ifs.Cond) == recvName(f)+".cur==String" {
			if len(f.Calls(ifs.Body, false, "sql.stripQuotes")) > 0 {
				okStrip = true
			}
			// the stripping written out (a helper of another name, made transparent): x[1 : len(x)-1]
			ast.Inspect(ifs.Body, func(y ast.Node) bool {
				if sl, ok := y.(*ast.SliceExpr); ok && sl.Low != nil && sl.High != nil && exprKey(sl.Low) == "1" && strings.HasSuffix(exprKey(sl.High), ")-1") {
					okStrip = true
				}
				return true
			})
		}
		return true
	})
	c.Check(okStrip, rule, f.Name+"|strip-only-strings", f.Decl.Pos(), "quotes are stripped only from tokens the scanner classified as String", "quote stripping of literals is not guarded by ts.cur == String")
}

// isRangePredicate: TokenType.IsReservedWord is `reserved_word_start < t && t < reserved_word_end`.
func isRangePredicate(w *World) bool {
	f := w.F("sql.TokenType.IsReservedWord")
	if f == nil {
		return false
	}
	ok := false
	for _, r := range f.Graph().Returns() {
		if len(r.Results) == 1 {
			k := exprKey(r.Results[0])
			if strings.Contains(k, "reserved_word_start") && strings.Contains(k, "reserved_word_end") && strings.Contains(k, "&&") {
				ok = true
			}
		}
	}
	return ok
}
