package main

// Rules that came out of round 10 and of the defects its authors' notes led to (D21, D22, D23).

import (
	"go/ast"
	"go/constant"
	"go/token"
	"go/types"
	"regexp"
	"sort"
	"strings"

	"golang.org/x/tools/go/cfg"
)

// ---- catalog tables are not statement targets (D21) ---------------------------------------------

// ruleCatalogNotATarget: the reviewed argument behind the unchecked reads of catalog rows (getRelationFileOffset,
// getRelationSchema: "the writers fill every column") only holds if statements cannot write catalog rows. Every logged
// mutator of RelationService that takes the table name from the statement refuses the two catalog names before it
// looks the table up.
func ruleCatalogNotATarget(c *Ctx, rule string) {
	c.Rule(rule, "the catalog tables are not statement targets: every method of RelationService that returns a WALBatch and takes a table name (the logged mutators INSERT, UPDATE and DELETE run through) uses that name — looks the table up, fetches its schema — only where a branch condition has shown it to differ from BOTH catalog names (sys_pages, sys_schema) and the other branch leaves with an error. Catalog rows are read back without validation (unchecked type assertions, file offsets that are followed): a row a statement wrote there makes the next statement on the named table panic")
	w := c.W
	consts := catalogNameConsts(w)
	if len(consts) < 2 {
		c.Undecided(rule, "anchor|catalog-names", "the catalog table names (string constants naming sys_pages / sys_schema in storage) were not found")
		return
	}
	n := 0
	for _, name := range w.SortedFuncNames() {
		f := w.Funcs[name]
		if f.Pkg != w.Pkgs["storage"] || f.Decl.Recv == nil || !returnsWALBatch(f.Obj) || !f.Obj.Exported() || !strings.Contains(f.Name, "RelationService") {
			continue
		}
		pid := paramIdent(f, 0)
		if pid == nil {
			continue
		}
		pobj := f.ObjOf(pid)
		if b, ok := pobj.Type().Underlying().(*types.Basic); !ok || b.Kind() != types.String {
			continue
		}
		n++
		g := f.Graph()
		key := f.Name + "|catalog-refused|" + "param0"
		uses := 0
		bad := ""
		var badPos token.Pos
		inspectBody(f.Decl.Body, func(x ast.Node) bool {
			call, ok := x.(*ast.CallExpr)
			if !ok {
				return true
			}
			passes := false
			for _, a := range call.Args {
				if id, ok := ast.Unparen(a).(*ast.Ident); ok && f.ObjOf(id) == pobj {
					passes = true
				}
			}
			if !passes {
				return true
			}
			// the predicate that implements the refusal itself is not a use
			if callee := f.Callee(call); callee != nil {
				if hf := w.FuncOf(callee); hf != nil && predicateBody(hf) != nil {
					return true
				}
				if callee.Pkg() != nil && callee.Pkg().Path() == "fmt" {
					return true
				}
			}
			uses++
			loc, ok := g.Locate(call)
			if !ok {
				return true
			}
			for _, names := range consts {
				held := false
				for _, k := range names {
					if g.HoldsAt(loc, Rel{pid.Name, token.NEQ, k}) {
						held = true
					}
				}
				if !held && bad == "" {
					bad = "the table name reaches " + exprKey(call.Fun) + " without having been compared with " + strings.Join(names, " / ")
					badPos = call.Pos()
				}
			}
			return true
		})
		switch {
		case uses == 0:
			c.Undecided(rule, key, "%s does not hand its table name to any call", f.Name)
		case bad != "":
			c.Fail(rule, key, badPos, "%s: %s — a statement can change catalog rows, which are read back without validation (the next statement on the named table panics)", f.Name, bad)
		default:
			c.OK(rule, key, f.Decl.Pos(), uses, "every use of the table name (%d calls) lies behind the refusal of both catalog names", uses)
		}
	}
	if n < 3 {
		c.Undecided(rule, "subjects|logged-mutators", "only %d logged mutators with a table-name parameter found (expected Insert, Update, MarkDeleted)", n)
	}
}

// catalogNameConsts: the package-level string constants of storage whose values are the catalog table names.
func catalogNameConsts(w *World) [][]string {
	pkg := w.Pkgs["storage"]
	if pkg == nil {
		return nil
	}
	by := map[string][]string{}
	sc := pkg.Types.Scope()
	for _, n := range sc.Names() {
		cst, ok := sc.Lookup(n).(*types.Const)
		if !ok || cst.Val() == nil {
			continue
		}
		if v := cst.Val().ExactString(); v == `"sys_pages"` || v == `"sys_schema"` {
			by[v] = append(by[v], n) // several constants may name one table (an exported alias)
		}
	}
	var out [][]string
	for _, v := range []string{`"sys_pages"`, `"sys_schema"`} {
		if len(by[v]) > 0 {
			out = append(out, by[v])
		}
	}
	return out
}

// predicateBody: f is a boolean predicate written as one expression (`return a == K1 || a == K2`) over plain named
// parameters; the expression is returned.
func predicateBody(f *Func) ast.Expr {
	if f == nil || f.Decl == nil || f.Decl.Body == nil || len(f.Decl.Body.List) != 1 {
		return nil
	}
	ret, ok := f.Decl.Body.List[0].(*ast.ReturnStmt)
	if !ok || len(ret.Results) != 1 {
		return nil
	}
	sig := f.Obj.Type().(*types.Signature)
	if sig.Results().Len() != 1 {
		return nil
	}
	if b, ok := sig.Results().At(0).Type().Underlying().(*types.Basic); !ok || b.Kind() != types.Bool {
		return nil
	}
	return ret.Results[0]
}

// expandPredicateCall: `if isSystemTable(name) {…}` tests what the one-expression predicate returns, with the
// arguments put in place of the parameters. Only comparisons, && / || / ! over identifiers, selectors and literals are
// copied; anything else leaves the condition as it is.
func (g *Graph) expandPredicateCall(cond ast.Expr) ast.Expr {
	if g.f == nil || g.f.w == nil {
		return cond
	}
	if u, ok := ast.Unparen(cond).(*ast.UnaryExpr); ok && u.Op == token.NOT {
		if inner := g.expandPredicateCall(u.X); inner != u.X {
			return &ast.UnaryExpr{Op: token.NOT, X: &ast.ParenExpr{X: inner}}
		}
		return cond
	}
	call, ok := ast.Unparen(cond).(*ast.CallExpr)
	if !ok {
		return cond
	}
	callee := g.f.Callee(call)
	if callee == nil {
		return cond
	}
	hf := g.f.w.FuncOf(callee)
	if hf == nil || hf.Pkg != g.f.Pkg || hf.Decl.Recv != nil {
		return cond
	}
	body := predicateBody(hf)
	if body == nil {
		return cond
	}
	subst := map[types.Object]ast.Expr{}
	i := 0
	for _, p := range hf.Decl.Type.Params.List {
		for _, nm := range p.Names {
			if i >= len(call.Args) {
				return cond
			}
			switch ast.Unparen(call.Args[i]).(type) {
			case *ast.Ident, *ast.SelectorExpr, *ast.BasicLit:
			default:
				return cond
			}
			subst[hf.ObjOf(nm)] = call.Args[i]
			i++
		}
	}
	if i != len(call.Args) {
		return cond
	}
	okAll := true
	var cp func(e ast.Expr) ast.Expr
	cp = func(e ast.Expr) ast.Expr {
		switch y := e.(type) {
		case *ast.ParenExpr:
			return &ast.ParenExpr{X: cp(y.X)}
		case *ast.BinaryExpr:
			return &ast.BinaryExpr{X: cp(y.X), Op: y.Op, Y: cp(y.Y)}
		case *ast.UnaryExpr:
			if y.Op == token.NOT {
				return &ast.UnaryExpr{Op: y.Op, X: cp(y.X)}
			}
		case *ast.Ident:
			if a, ok := subst[hf.ObjOf(y)]; ok {
				return a
			}
			if obj := hf.ObjOf(y); obj != nil && obj.Parent() != nil && obj.Parent() != hf.Pkg.Types.Scope() && obj.Parent() != types.Universe {
				okAll = false // a local of the predicate
			}
			return y
		case *ast.SelectorExpr, *ast.BasicLit:
			return y
		}
		okAll = false
		return e
	}
	out := cp(body)
	if !okAll {
		return cond
	}
	return out
}

// ---- a projection does not rename the caller's fields (D22) --------------------------------------

// ruleHeaderFieldsAreCopies: the result header is built from Field objects. A Field that reached the function through
// a parameter is shared: with the caller's field list and with every other select-list entry that names the same
// column. Writing an alias (or a table id) into it renames the column for all of them.
func ruleHeaderFieldsAreCopies(c *Ctx, rule string) {
	c.Rule(rule, "a result column is renamed on a Field of its own: in the engine, a store `p.Column = …` or `p.TableID = …` through a *storage.Field never goes through a pointer that was taken from a field list the function received as a parameter (directly, or as the element of a range over it) — such a Field is shared with the caller and with every other select-list entry naming the same column, so `SELECT a AS x, a AS y` would show the last alias twice; the field is copied first (`c := *fields[i]; p = &c`) or built fresh (&storage.Field{…}). Field lists the function fetched itself are its own")
	w := c.W
	n := 0
	for _, name := range w.SortedFuncNames() {
		f := w.Funcs[name]
		if f.Pkg != w.Pkgs["engine"] {
			continue
		}
		params := map[types.Object]bool{}
		for i := 0; ; i++ {
			id := paramIdent(f, i)
			if id == nil {
				break
			}
			params[f.ObjOf(id)] = true
		}
		ast.Inspect(f.Decl.Body, func(x ast.Node) bool {
			as, ok := x.(*ast.AssignStmt)
			if !ok {
				return true
			}
			for _, l := range as.Lhs {
				sel, ok := ast.Unparen(l).(*ast.SelectorExpr)
				if !ok || (sel.Sel.Name != "Column" && sel.Sel.Name != "TableID") {
					continue
				}
				t := f.TypeOf(sel.X)
				if t == nil || !strings.HasSuffix(typeName(t), "storage.Field") {
					continue
				}
				n++
				key := f.Name + "|field-store|" + sel.Sel.Name
				shared, how := sharedFieldPointer(f, sel.X, params, 0)
				if shared {
					c.Fail(rule, key, as.Pos(), "%s stores into %s of a Field it received from its caller (%s): the caller's field list and every other result column that names the same source column are renamed too", f.Name, sel.Sel.Name, how)
				} else {
					c.OK(rule, key, as.Pos(), 1, "the Field written is the function's own (%s)", how)
				}
			}
			return true
		})
	}
	if n < 2 {
		c.Undecided(rule, "subjects|field-stores", "only %d stores into Field.Column / Field.TableID found in engine (expected the alias in projectColumns and the table id in EvaluateSelect)", n)
	}
}

// sharedFieldPointer: can the pointer expression e be an element of a field list that is a parameter of f?
func sharedFieldPointer(f *Func, e ast.Expr, params map[types.Object]bool, depth int) (bool, string) {
	e = ast.Unparen(e)
	if depth > 4 {
		return false, "not followed further"
	}
	switch y := e.(type) {
	case *ast.IndexExpr:
		if root := rootIdent(y.X); root != nil && params[f.ObjOf(root)] {
			return true, exprKey(y) + " is an element of parameter " + root.Name
		}
		if root := rootIdent(y.X); root != nil {
			return sharedSlice(f, f.ObjOf(root), params, depth+1)
		}
		return false, "element of " + exprKey(y.X)
	case *ast.UnaryExpr:
		if y.Op == token.AND {
			return false, "address of a local copy or literal"
		}
	case *ast.Ident:
		obj := f.ObjOf(y)
		if obj == nil {
			return false, "unresolved"
		}
		// range value over a list
		shared, how := false, "local "+y.Name
		ast.Inspect(f.Decl.Body, func(x ast.Node) bool {
			switch z := x.(type) {
			case *ast.RangeStmt:
				if vid, ok := z.Value.(*ast.Ident); ok && f.ObjOf(vid) == obj {
					if root := rootIdent(z.X); root != nil {
						if params[f.ObjOf(root)] {
							shared, how = true, y.Name+" ranges over parameter "+root.Name
						} else if s, h := sharedSlice(f, f.ObjOf(root), params, depth+1); s {
							shared, how = true, h
						} else if !shared {
							how = y.Name + " ranges over " + exprKey(z.X) + ", which the function obtained itself"
						}
					}
				}
			case *ast.AssignStmt:
				for i, l := range z.Lhs {
					lid, ok := l.(*ast.Ident)
					if !ok || f.ObjOf(lid) != obj || len(z.Rhs) != len(z.Lhs) {
						continue
					}
					if s, h := sharedFieldPointer(f, z.Rhs[i], params, depth+1); s {
						shared, how = true, h
					}
				}
			}
			return true
		})
		return shared, how
	}
	return false, exprKey(e)
}

// sharedSlice: the slice variable obj is (a copy of) a parameter.
func sharedSlice(f *Func, obj types.Object, params map[types.Object]bool, depth int) (bool, string) {
	if obj == nil || depth > 4 {
		return false, ""
	}
	if params[obj] {
		return true, "parameter " + obj.Name()
	}
	shared, how := false, ""
	ast.Inspect(f.Decl.Body, func(x ast.Node) bool {
		as, ok := x.(*ast.AssignStmt)
		if !ok || len(as.Lhs) != len(as.Rhs) {
			return true
		}
		for i, l := range as.Lhs {
			lid, ok := l.(*ast.Ident)
			if !ok || f.ObjOf(lid) != obj {
				continue
			}
			r := ast.Unparen(as.Rhs[i])
			if sl, ok := r.(*ast.SliceExpr); ok {
				r = ast.Unparen(sl.X)
			}
			if id, ok := r.(*ast.Ident); ok {
				if s, h := sharedSlice(f, f.ObjOf(id), params, depth+1); s {
					shared, how = true, obj.Name()+" is "+h
				}
			}
		}
		return true
	})
	return shared, how
}

func rootIdent(e ast.Expr) *ast.Ident {
	for {
		switch y := ast.Unparen(e).(type) {
		case *ast.Ident:
			return y
		case *ast.SelectorExpr:
			e = y.X
		case *ast.IndexExpr:
			e = y.X
		case *ast.SliceExpr:
			e = y.X
		case *ast.StarExpr:
			e = y.X
		default:
			return nil
		}
	}
}

// ---- a page that is appended to the store is dirty (C16-r10m3) ---------------------------------------

// ruleAppendedPageDirty: store.append registers a new page in the cache and hands out its offset; nothing is written.
// Until its first flush the page exists only in the cache. If it is clean there it may be evicted (only clean pages
// are), and then its offset names a hole in the data file: zeros, which read back as an empty internal node.
func ruleAppendedPageDirty(c *Ctx, rule string) {
	c.Rule(rule, "a new page never sits in the cache clean: in every function outside the store that calls store.append(p), p.markDirty(…) is called before the append or on every success path from the append to the function's return — an appended page exists only in the cache; clean, it can be evicted before it was ever written, and its offset then names a hole in the data file (zeros: an empty internal node, on which SELECT panics and INSERT recurses for ever). An empty table's root that leaves a small cache is exactly that case")
	w := c.W
	n := 0
	for _, name := range w.SortedFuncNames() {
		f := w.Funcs[name]
		if f.Pkg != w.Pkgs["storage"] || strings.Contains(f.Name, "fileStore") || strings.Contains(f.Name, "memoryStore") {
			continue
		}
		g := f.Graph()
		for _, call := range f.Calls(f.Decl.Body, false, "storage.*.append") {
			if len(call.Args) != 1 {
				continue
			}
			id, ok := ast.Unparen(call.Args[0]).(*ast.Ident)
			if !ok {
				continue
			}
			if t := f.TypeOf(id); t == nil || !namedTypeIs(t, "storage", "btreeNode") {
				continue
			}
			obj := f.ObjOf(id)
			n++
			key := f.Name + "|appended-dirty|" + id.Name
			loc, ok := g.Locate(call)
			if !ok {
				c.Undecided(rule, key, "append call not located in the flow graph of %s", f.Name)
				continue
			}
			marks := func(nn ast.Node) bool {
				for _, d := range f.Calls(nn, false, "storage.btreeNode.markDirty") {
					if sel, ok := d.Fun.(*ast.SelectorExpr); ok {
						if mid, ok := ast.Unparen(sel.X).(*ast.Ident); ok && f.ObjOf(mid) == obj {
							return true
						}
					}
				}
				return false
			}
			before := false
			for _, d := range f.Calls(f.Decl.Body, false, "storage.btreeNode.markDirty") {
				if marks(d) {
					if dl, ok := g.Locate(d); ok && g.Dominates(dl, loc) {
						before = true
					}
				}
			}
			if before {
				c.OK(rule, key, call.Pos(), 1, "%s is marked dirty before it is appended", id.Name)
				continue
			}
			// the appended page variable is non-nil (it was handed to append): the nil side of a later nil test is dead
			edge := func(b *cfg.Block, si int) bool {
				if !g.SuccessEdges(b, si) {
					return false
				}
				if info, ok := g.EdgeInfo(b, si); ok && !info.Case {
					if be, ok := ast.Unparen(info.Cond).(*ast.BinaryExpr); ok && isNilIdent(f, be.Y) {
						if nid, ok := ast.Unparen(be.X).(*ast.Ident); ok && f.ObjOf(nid) == obj {
							if (be.Op == token.NEQ && !info.Val) || (be.Op == token.EQL && info.Val) {
								return false
							}
						}
					}
				}
				return true
			}
			miss, _ := g.Forward(&loc, edge, func(nn ast.Node, at Loc) Verdict {
				if marks(nn) {
					return Cut
				}
				if r, ok := nn.(*ast.ReturnStmt); ok {
					if g.ReturnMayBeNil(r) {
						return Hit
					}
					return Cut
				}
				return Go
			}, func(b *cfg.Block) Verdict { return Hit })
			if miss {
				c.Fail(rule, key, call.Pos(), "%s appends page %s and can return successfully without ever marking it dirty: the page is in the cache only, clean, and may be evicted before it was written — its offset then reads back as zeros", f.Name, id.Name)
			} else {
				c.OK(rule, key, call.Pos(), 2, "%s is marked dirty on every success path after the append", id.Name)
			}
		}
	}
	if n < 5 {
		c.Undecided(rule, "subjects|append-sites", "only %d store.append call sites found outside the store (expected the two split paths with their new roots, and createPage)", n)
	}
}

// ---- the decoder admits an empty node (C12-r10m3) ----------------------------------------------------

// ruleFreeAreaBound: after the slot array the rest of a page image is free area + cells. A node without cells (the
// root of every new table) has a free area that reaches exactly to the end: a decoder that refuses freeSize >= rest
// refuses every empty table after a restart.
func ruleFreeAreaBound(c *Ctx, rule string) {
	c.Rule(rule, "the page decoders admit an empty node: where decodeLeaf / decodeInternal refuse a page because of its free-area size, the comparison with the bytes that are left (buf.Len()) is strict — freeSize > left. A node without cells (the root of every new table) has a free area that ends exactly where the buffer ends; `>=` refuses it, and the table cannot be opened after a restart or an eviction")
	for _, name := range []string{"storage.(*btreeNode).decodeLeaf", "storage.(*btreeNode).decodeInternal"} {
		f := c.NeedFunc(rule, name)
		if f == nil {
			continue
		}
		g := f.Graph()
		key := f.Name + "|free-area-bound"
		bad := ""
		var badPos token.Pos
		seen := 0
		inspectBody(f.Decl.Body, func(x ast.Node) bool {
			ifs, ok := x.(*ast.IfStmt)
			if !ok {
				return true
			}
			var visit func(e ast.Expr)
			visit = func(e ast.Expr) {
				be, ok := ast.Unparen(e).(*ast.BinaryExpr)
				if !ok {
					return
				}
				if be.Op == token.LAND || be.Op == token.LOR {
					visit(be.X)
					visit(be.Y)
					return
				}
				l, r := exprKey(be.X), exprKey(be.Y)
				op := be.Op
				if strings.Contains(r, "freeSize") && strings.Contains(l, ".Len()") {
					l, r, op = r, l, mirrorOp(op)
				}
				if !strings.Contains(l, "freeSize") || !strings.Contains(r, ".Len()") || strings.Contains(r, "+") || strings.Contains(r, "-") || strings.Contains(l, "+") || strings.Contains(l, "-") {
					return
				}
				// does the branch refuse?
				refuses := false
				ast.Inspect(ifs.Body, func(y ast.Node) bool {
					if ret, ok := y.(*ast.ReturnStmt); ok && len(ret.Results) > 0 && !g.ReturnMayBeNil(ret) {
						refuses = true
					}
					return true
				})
				if !refuses {
					return
				}
				seen++
				if op == token.GEQ || op == token.EQL || op == token.LEQ {
					bad = "`" + exprKey(be) + "` refuses a page whose free area ends exactly at the end of the buffer"
					badPos = be.Pos()
				}
			}
			visit(ifs.Cond)
			return true
		})
		if bad != "" {
			c.Fail(rule, key, badPos, "%s: %s — that is every node without cells, the root of a new table", f.Name, bad)
		} else {
			c.OK(rule, key, f.Decl.Pos(), 1+seen, "no refusal of a free area that reaches the end of the page (%d bounds on the free area examined)", seen)
		}
	}
}

// ---- integers never pass through a floating-point type (C19-r10m3) ------------------------------------

func ruleNoFloatDetour(c *Ctx, rule string, roots ...string) {
	c.Rule(rule, "an integer field never passes through a floating-point type: in the call cone of the record conversion (csvToSql) there is no conversion from a float type to an integer type — a float64 has 53 bits of mantissa, so a BIGINT above 2^53 parsed with ParseFloat and converted back is silently rounded to a neighbouring value while the record is reported as stored")
	w := c.W
	var rs []*Func
	for _, r := range roots {
		if f := c.NeedFunc(rule, r); f != nil {
			rs = append(rs, f)
		}
	}
	if len(rs) == 0 {
		return
	}
	cone := w.CG().Reach(rs...)
	var names []string
	for f := range cone {
		names = append(names, f.Name)
	}
	sort.Strings(names)
	n := 0
	for _, nm := range names {
		f := w.Funcs[nm]
		if f == nil || f.Decl == nil || f.Decl.Body == nil {
			continue
		}
		if f.Pkg != w.Pkgs["csvimport"] && f.Pkg != w.Pkgs["sql"] {
			continue
		}
		n++
		bad := ""
		var badPos token.Pos
		ast.Inspect(f.Decl.Body, func(x ast.Node) bool {
			call, ok := x.(*ast.CallExpr)
			if !ok || len(call.Args) != 1 {
				return true
			}
			tv, ok := f.Pkg.TypesInfo.Types[call.Fun]
			if !ok || !tv.IsType() {
				return true
			}
			to, ok1 := tv.Type.Underlying().(*types.Basic)
			at := f.TypeOf(call.Args[0])
			if at == nil || !ok1 {
				return true
			}
			from, ok2 := at.Underlying().(*types.Basic)
			if ok2 && to.Info()&types.IsInteger != 0 && from.Info()&types.IsFloat != 0 {
				bad = exprKey(call)
				badPos = call.Pos()
			}
			return true
		})
		key := f.Name + "|float-to-int"
		if bad != "" {
			c.FailConfined(rule, key, badPos, "%s converts a floating-point value to an integer (%s) on the way from the record to the row: integers above 2^53 are rounded silently", f.Name, bad)
		} else {
			c.OK(rule, key, f.Decl.Pos(), 1, "no float-to-integer conversion")
		}
	}
	if n == 0 {
		c.Undecided(rule, "subjects|cone", "the conversion cone is empty")
	}
}

// ---- storage errors keep their identity (C19-r10m2) ----------------------------------------------------

// ruleErrorsWrappedWithW: callers tell storage errors apart with errors.Is (the import loop: a refused record or a
// failing store; replay: a row that is already there). An error value that is re-formatted with %s / %v / .Error()
// is a new, anonymous error.
func ruleErrorsWrappedWithW(c *Ctx, rule string) {
	c.Rule(rule, "storage errors keep their identity: in the storage package every fmt.Errorf that formats an error value (an argument of type error, or x.Error()) does so with %w — the sentinels a storage call can return (row too large, key exists, cache full, type mismatch) are told apart by callers with errors.Is; an error re-formatted with %s or %v is a new anonymous error, a refused record is then taken for a failing store (or the reverse) and the import stops or carries on wrongly")
	w := c.W
	n := 0
	for _, name := range w.SortedFuncNames() {
		f := w.Funcs[name]
		if f.Pkg != w.Pkgs["storage"] {
			continue
		}
		k := 0
		ast.Inspect(f.Decl.Body, func(x ast.Node) bool {
			call, ok := x.(*ast.CallExpr)
			if !ok || len(call.Args) < 2 {
				return true
			}
			callee := f.Callee(call)
			if callee == nil || callee.Pkg() == nil || callee.Pkg().Path() != "fmt" || callee.Name() != "Errorf" {
				return true
			}
			format := ""
			if cv := f.constOf(call.Args[0]); cv != nil {
				if cv.Kind() != constant.String {
					return true
				}
				format = constant.StringVal(cv)
			} else {
				return true
			}
			verbs := formatVerbs(format)
			for i, a := range call.Args[1:] {
				isErr := false
				if t := f.TypeOf(a); t != nil && isErrorType(t) {
					isErr = true
				}
				if ce, ok := ast.Unparen(a).(*ast.CallExpr); ok && len(ce.Args) == 0 {
					if sel, ok := ce.Fun.(*ast.SelectorExpr); ok && sel.Sel.Name == "Error" {
						if t := f.TypeOf(sel.X); t != nil && isErrorType(t) {
							isErr = true
						}
					}
				}
				if !isErr {
					continue
				}
				if !mayCarryRepoSentinel(f, a) {
					continue // an error of the library (strconv, time, os): no sentinel of this repository to lose
				}
				n++
				k++
				key := f.Name + "|errorf#" + itoa(k)
				if i < len(verbs) && verbs[i] == 'w' {
					c.OK(rule, key, call.Pos(), 1, "error argument %s is wrapped with %%w", exprKey(a))
				} else {
					c.FailConfined(rule, key, call.Pos(), "%s formats the error %s without %%w: whatever sentinel it carries is no longer recognised by errors.Is in the callers", f.Name, exprKey(a))
				}
			}
			return true
		})
	}
	if n < 5 {
		c.Undecided(rule, "subjects|errorf", "only %d fmt.Errorf calls with an error argument found in storage", n)
	}
}

func formatVerbs(format string) []byte {
	var out []byte
	for i := 0; i < len(format); i++ {
		if format[i] != '%' {
			continue
		}
		i++
		for i < len(format) && strings.IndexByte("+-# 0123456789.*[]", format[i]) >= 0 {
			i++
		}
		if i >= len(format) {
			break
		}
		if format[i] == '%' {
			continue
		}
		out = append(out, format[i])
	}
	return out
}

// ---- a page is written as one whole image (C12-r10m2) ---------------------------------------------------

func ruleWholePageWrite(c *Ctx, rule string) {
	c.Rule(rule, "a page reaches the data file as one whole image: fileStore.update issues exactly one WriteAt, its data argument is the complete buffer node.encode() returned (buf.Bytes(), not a sub-slice of it) and its position is the node's file offset — what is in the file after a flush is then exactly the encoding, whatever a decoder chooses to look at; a page written in pieces keeps bytes of its previous image (and a crash between the pieces leaves a page that is neither)")
	f := c.NeedFunc(rule, "storage.(*fileStore).update")
	if f == nil {
		return
	}
	key := f.Name + "|whole-image"
	var writes []*ast.CallExpr
	ast.Inspect(f.Decl.Body, func(x ast.Node) bool {
		if call, ok := x.(*ast.CallExpr); ok {
			if callee := f.Callee(call); callee != nil && callee.Name() == "WriteAt" {
				writes = append(writes, call)
			}
		}
		return true
	})
	var enc types.Object
	inspectBody(f.Decl.Body, func(x ast.Node) bool {
		if as, ok := x.(*ast.AssignStmt); ok && len(as.Rhs) == 1 && len(as.Lhs) >= 1 {
			if call, ok := ast.Unparen(as.Rhs[0]).(*ast.CallExpr); ok {
				if callee := f.Callee(call); callee != nil && callee.Name() == "encode" {
					if id, ok := as.Lhs[0].(*ast.Ident); ok {
						enc = f.ObjOf(id)
					}
				}
			}
		}
		return true
	})
	switch {
	case len(writes) == 0 || enc == nil:
		c.Fail(rule, key, f.Decl.Pos(), "fileStore.update does not write the buffer returned by node.encode() with WriteAt")
	case len(writes) > 1:
		c.Fail(rule, key, writes[1].Pos(), "fileStore.update writes a page with %d separate WriteAt calls: the bytes between the pieces keep their previous content and a crash between the calls leaves a page that is neither the old nor the new image", len(writes))
	default:
		wcall := writes[0]
		okData := false
		if len(wcall.Args) == 2 {
			a := ast.Unparen(wcall.Args[0])
			if ce, ok := a.(*ast.CallExpr); ok && len(ce.Args) == 0 {
				if sel, ok := ce.Fun.(*ast.SelectorExpr); ok && sel.Sel.Name == "Bytes" {
					if id, ok := ast.Unparen(sel.X).(*ast.Ident); ok && f.ObjOf(id) == enc {
						okData = true
					}
				}
			}
			if id, ok := a.(*ast.Ident); ok {
				// a local holding buf.Bytes()
				if rhs, _, ok := f.definedBy(f.Decl.Body, f.ObjOf(id)); ok && strings.HasSuffix(exprKey(rhs), ".Bytes()") && !strings.Contains(exprKey(rhs), "[") {
					okData = true
				}
				if f.ObjOf(id) == enc {
					okData = true
				}
			}
		}
		if !okData {
			c.Fail(rule, key, wcall.Pos(), "the data written (%s) is not the complete encoded image of the page", exprKey(wcall.Args[0]))
		} else if !strings.Contains(exprKey(wcall.Args[1]), "FileOffset") && !strings.Contains(exprKey(wcall.Args[1]), "fileOffset") {
			c.Fail(rule, key, wcall.Pos(), "the page is not written at the node's file offset (%s)", exprKey(wcall.Args[1]))
		} else {
			c.OK(rule, key, wcall.Pos(), 2, "one WriteAt of the whole encoded buffer at the node's offset")
		}
	}
}

// writtenOutHelpers: the helpers the rules have never seen whose bodies were written out inside f before analysis
// (helper transparency leaves a comment at each site).
func writtenOutHelpers(f *Func) []string {
	var out []string
	seen := map[string]bool{}
	for _, file := range f.Pkg.Syntax {
		if !(file.Pos() <= f.Decl.Pos() && f.Decl.End() <= file.End()) {
			continue
		}
		for _, cg := range file.Comments {
			if cg.Pos() < f.Decl.Pos() || cg.End() > f.Decl.End() {
				continue
			}
			for _, cm := range cg.List {
				t := cm.Text
				if i := strings.Index(t, "// helper "); i >= 0 && strings.Contains(t, "made transparent for analysis") {
					name := strings.TrimSpace(strings.TrimSuffix(strings.TrimPrefix(t[i:], "// helper "), "made transparent for analysis"))
					if !seen[name] {
						seen[name] = true
						out = append(out, name)
					}
				}
			}
		}
	}
	sort.Strings(out)
	return out
}

// mayCarryRepoSentinel: the error expression (err, or err.Error()) can hold an error produced inside this repository:
// it is a parameter, a package-level value, or a local that some assignment defines from a call of a repository
// function. A local only ever assigned from library calls carries none of the repository's sentinels.
func mayCarryRepoSentinel(f *Func, a ast.Expr) bool {
	e := ast.Unparen(a)
	if ce, ok := e.(*ast.CallExpr); ok && len(ce.Args) == 0 {
		if sel, ok := ce.Fun.(*ast.SelectorExpr); ok && sel.Sel.Name == "Error" {
			e = ast.Unparen(sel.X)
		}
	}
	repoCall := func(x ast.Expr) (isCall, repo bool) {
		call, ok := ast.Unparen(x).(*ast.CallExpr)
		if !ok {
			return false, false
		}
		callee := f.Callee(call)
		if callee == nil || callee.Pkg() == nil {
			return true, true // a call through a function value: unknown
		}
		return true, strings.HasPrefix(callee.Pkg().Path(), "github.com/mk6i/mkdb")
	}
	if isCall, repo := repoCall(e); isCall {
		return repo
	}
	id, ok := e.(*ast.Ident)
	if !ok {
		return true
	}
	obj := f.ObjOf(id)
	v, isVar := obj.(*types.Var)
	if !isVar || v.Parent() == nil || v.Parent() == f.Pkg.Types.Scope() {
		return true
	}
	defs := f.assignsTo(f.Decl, obj)
	if len(defs) == 0 {
		return true // a parameter or named result
	}
	for _, as := range defs {
		var rhs ast.Expr
		if len(as.Rhs) == 1 {
			rhs = as.Rhs[0]
		} else {
			for i, l := range as.Lhs {
				if lid, ok := l.(*ast.Ident); ok && f.ObjOf(lid) == obj && i < len(as.Rhs) {
					rhs = as.Rhs[i]
				}
			}
		}
		if rhs == nil {
			return true
		}
		if isCall, repo := repoCall(rhs); !isCall || repo {
			return true
		}
	}
	return false
}

// ---- GROUP BY groups, with or without aggregates (D24) ---------------------------------------------------

func ruleGroupByAlwaysGroups(c *Ctx, rule string) {
	c.Rule(rule, "GROUP BY groups whether or not the select list has an aggregate: wherever aggregateRows hands its input rows back unchanged (`return rows, nil`), a branch condition has shown the GROUP BY list to be empty — an early 'nothing to aggregate' return that looks at the select list only returns `SELECT a FROM t GROUP BY a` ungrouped, one row per input row instead of one per group")
	f := c.NeedFunc(rule, "engine.aggregateRows")
	if f == nil {
		return
	}
	g := f.Graph()
	rowsP, groupP := paramIdent(f, 2), paramIdent(f, 1)
	if rowsP == nil || groupP == nil {
		c.Undecided(rule, f.Name+"|params", "aggregateRows does not have the parameters (selectList, groupBy, rows)")
		return
	}
	n := 0
	inspectBody(f.Decl.Body, func(x ast.Node) bool {
		ret, ok := x.(*ast.ReturnStmt)
		if !ok || len(ret.Results) != 2 {
			return true
		}
		id, ok := ast.Unparen(ret.Results[0]).(*ast.Ident)
		if !ok || f.ObjOf(id) != f.ObjOf(rowsP) || !isNilIdent(f, ret.Results[1]) {
			return true
		}
		loc, ok := g.Locate(ret)
		if ok {
			// the grouped result is written back into the same variable: a return behind such a store is not the input
			for _, as := range f.assignsTo(f.Decl.Body, f.ObjOf(rowsP)) {
				if al, ok2 := g.Locate(as); ok2 && g.Dominates(al, loc) {
					return true
				}
			}
		}
		n++
		key := f.Name + "|returns-input#" + itoa(n)
		if ok && (g.HoldsAt(loc, Rel{"len(" + groupP.Name + ")", token.EQL, "0"}) || g.HoldsAt(loc, Rel{groupP.Name, token.EQL, "nil"})) {
			c.OK(rule, key, ret.Pos(), 2, "the input rows are handed back only where the GROUP BY list is known to be empty")
		} else {
			c.Fail(rule, key, ret.Pos(), "aggregateRows hands its input rows back unchanged without having established that there is no GROUP BY: a GROUP BY over a select list without aggregates is not grouped")
		}
		return true
	})
	if n == 0 {
		c.OK(rule, f.Name+"|returns-input", f.Decl.Pos(), 1, "aggregateRows never hands its input back unchanged")
	}
}

// ---- Fetch hands out Field objects of its own (C05-r10m1) -----------------------------------------------

// ruleFetchFreshFields: the executor writes into the fields a Fetch returns (the table id of the FROM item, and before
// D22 the alias). They must belong to that one statement.
func ruleFetchFreshFields(c *Ctx, rule string) {
	c.Rule(rule, "a Fetch hands out Field objects of its own: the field list RelationService.Fetch returns is filled only with &Field{…} literals created in that call (append or index store), never copied from a cache, from the schema object or from an earlier call — the executor writes the FROM item's table id into these objects, so a Field shared between two Fetches (a memoised schema) lets one statement rename or re-qualify the columns of the next")
	f := c.NeedFunc(rule, "storage.(*RelationService).Fetch")
	if f == nil {
		return
	}
	key := f.Name + "|fresh-fields"
	var fobj types.Object
	inspectBody(f.Decl.Body, func(x ast.Node) bool {
		if ret, ok := x.(*ast.ReturnStmt); ok && len(ret.Results) == 3 {
			if id, ok := ast.Unparen(ret.Results[1]).(*ast.Ident); ok && !isNilIdent(f, id) {
				fobj = f.ObjOf(id)
			}
		}
		return true
	})
	if fobj == nil {
		c.Fail(rule, key, f.Decl.Pos(), "Fetch does not return a local field list")
		return
	}
	fresh := func(e ast.Expr) bool {
		u, ok := ast.Unparen(e).(*ast.UnaryExpr)
		if !ok || u.Op != token.AND {
			return false
		}
		lit, ok := ast.Unparen(u.X).(*ast.CompositeLit)
		return ok && namedTypeIs(f.TypeOf(lit), "storage", "Field")
	}
	bad := ""
	unknown := ""
	var badPos token.Pos
	stores := 0
	note := func(pos token.Pos, what string) {
		if bad == "" {
			bad, badPos = what, pos
		}
	}
	ast.Inspect(f.Decl.Body, func(x ast.Node) bool {
		switch y := x.(type) {
		case *ast.AssignStmt:
			for i, l := range y.Lhs {
				var rhs ast.Expr
				if len(y.Rhs) == len(y.Lhs) {
					rhs = y.Rhs[i]
				}
				switch lt := ast.Unparen(l).(type) {
				case *ast.Ident:
					if f.ObjOf(lt) != fobj {
						continue
					}
					if rhs == nil {
						unknown = "the field list is a result of " + exprKey(y.Rhs[0])
						continue
					}
					if call, ok := ast.Unparen(rhs).(*ast.CallExpr); ok {
						if id, ok := call.Fun.(*ast.Ident); ok && id.Name == "make" {
							continue
						}
						if id, ok := call.Fun.(*ast.Ident); ok && id.Name == "append" && len(call.Args) >= 1 && call.Ellipsis == token.NoPos {
							if a0, ok := ast.Unparen(call.Args[0]).(*ast.Ident); ok && f.ObjOf(a0) == fobj {
								allFresh := true
								for _, a := range call.Args[1:] {
									if !fresh(a) {
										allFresh = false
									}
								}
								if allFresh {
									stores++
									continue
								}
							}
						}
					}
					if isNilIdent(f, rhs) {
						continue
					}
					if call, ok := ast.Unparen(rhs).(*ast.CallExpr); ok {
						// built by a helper: fresh if a function literal handed to it returns &Field{…} only; otherwise not read
						lits, freshLits := 0, 0
						for _, a := range call.Args {
							if fl, ok := ast.Unparen(a).(*ast.FuncLit); ok {
								lits++
								allFresh, rets := true, 0
								ast.Inspect(fl.Body, func(z ast.Node) bool {
									if ret, ok := z.(*ast.ReturnStmt); ok && len(ret.Results) == 1 {
										rets++
										if !fresh(ret.Results[0]) {
											allFresh = false
										}
									}
									return true
								})
								if allFresh && rets > 0 {
									freshLits++
								}
							}
						}
						if lits > 0 && lits == freshLits {
							stores++
							continue
						}
						unknown = "the field list is the result of " + exprKey(call.Fun)
						continue
					}
					note(y.Pos(), "the field list receives "+exprKey(rhs))
				case *ast.IndexExpr:
					if id, ok := ast.Unparen(lt.X).(*ast.Ident); ok && f.ObjOf(id) == fobj {
						if rhs != nil && fresh(rhs) {
							stores++
						} else {
							note(y.Pos(), "an element of the field list receives "+exprKey(y.Rhs[0]))
						}
					}
				}
			}
		case *ast.CallExpr:
			if id, ok := y.Fun.(*ast.Ident); ok && id.Name == "copy" && len(y.Args) == 2 {
				if a0, ok := ast.Unparen(y.Args[0]).(*ast.Ident); ok && f.ObjOf(a0) == fobj {
					note(y.Pos(), "the field list is filled by copy from "+exprKey(y.Args[1]))
				}
			}
		}
		return true
	})
	switch {
	case bad != "":
		c.FailConfined(rule, key, badPos, "%s: the Field objects a Fetch hands out are not created for that call — the executor's stores into them (table id) reach every statement that shares them", bad)
	case unknown != "":
		c.Undecided(rule, key, "%s: whether the Field objects are created for this call is not decided", unknown)
	case stores == 0:
		c.Fail(rule, key, f.Decl.Pos(), "no store of a fresh &Field{…} into the returned field list found")
	default:
		c.OK(rule, key, f.Decl.Pos(), stores, "the returned field list is filled with &Field{…} literals only (%d stores)", stores)
	}
}

// ---- a three-way comparison can say "equal" in every arm (C05-r10m2) ------------------------------------

func ruleThreeWayArmsAgree(c *Ctx, rule string, pkgs ...string) {
	c.Rule(rule, "sibling agreement inside a three-way comparison: in a function that returns one int and decides it in a type switch over a value's kind, if some arms can answer 0 (`return 0`, or the result of a library Compare), every arm that answers with constants can — an arm whose only answers are -1 and +1 never reports two equal values of that kind as equal, so a multi-key ORDER BY never reaches its later keys for rows tied on such a column")
	w := c.W
	n := 0
	for _, name := range w.SortedFuncNames() {
		f := w.Funcs[name]
		inPkg := false
		for _, p := range pkgs {
			if f.Pkg == w.Pkgs[p] {
				inPkg = true
			}
		}
		if !inPkg {
			continue
		}
		sig := f.Obj.Type().(*types.Signature)
		if sig.Results().Len() != 1 {
			continue
		}
		if b, ok := sig.Results().At(0).Type().Underlying().(*types.Basic); !ok || b.Info()&types.IsInteger == 0 {
			continue
		}
		ast.Inspect(f.Decl.Body, func(x ast.Node) bool {
			ts, ok := x.(*ast.TypeSwitchStmt)
			if !ok {
				return true
			}
			type armInfo struct {
				cc       *ast.CaseClause
				zero     bool // can answer 0 or a computed value
				constant bool // answers with constants only
				rets     int
			}
			var arms []armInfo
			for _, st := range ts.Body.List {
				cc := st.(*ast.CaseClause)
				if cc.List == nil {
					continue
				}
				ai := armInfo{cc: cc, constant: true}
				for _, s := range cc.Body {
					ast.Inspect(s, func(y ast.Node) bool {
						if _, isLit := y.(*ast.FuncLit); isLit {
							return false
						}
						ret, ok := y.(*ast.ReturnStmt)
						if !ok || len(ret.Results) != 1 {
							return true
						}
						ai.rets++
						if cv := f.constOf(ret.Results[0]); cv != nil {
							if cv.String() == "0" {
								ai.zero = true
							}
						} else {
							ai.constant = false
							ai.zero = true
						}
						return true
					})
				}
				if ai.rets > 0 {
					arms = append(arms, ai)
				}
			}
			zeros := 0
			for _, a := range arms {
				if a.zero {
					zeros++
				}
			}
			if len(arms) < 3 || zeros < 2 {
				return true
			}
			for _, a := range arms {
				n++
				key := f.Name + "|three-way-arm|" + exprKey(a.cc.List[0])
				if !a.zero && a.constant {
					c.FailConfined(rule, key, a.cc.Pos(), "%s: the %s arm of this three-way comparison can only answer with non-zero constants while %d sibling arms can answer 0: two equal values of that kind never compare equal", f.Name, exprKey(a.cc.List[0]), zeros)
				} else {
					c.OK(rule, key, a.cc.Pos(), 1, "the arm can answer 0")
				}
			}
			return true
		})
	}
	if n == 0 {
		c.OK(rule, "subjects|none", token.NoPos, 1, "no three-way comparison by type switch in %v", pkgs)
	}
}

// ---- the split's rest position indexes the buffer it was computed over (C20-r10m2) ----------------------

func ruleRestIndexesItsBuffer(c *Ctx, rule string) {
	c.Rule(rule, "the rest position the statement splitter returns is used on the very sequence it was computed over: where a function calls splitStatements(X) and slices or indexes some Y with the returned position, X and Y are the same access path — a position counted in the bytes of string(line) is not a position in the runes of line once a non-ASCII character precedes it (the check 'only blanks after the last terminator' then looks at the wrong tail: a panic, or a statement tail silently dropped)")
	w := c.W
	n := 0
	for _, name := range w.SortedFuncNames() {
		f := w.Funcs[name]
		if f.Pkg != w.Pkgs["console"] {
			continue
		}
		for _, as := range assignsFromCall(f, "splitStatements") {
			if len(as.Lhs) != 2 {
				continue
			}
			call := ast.Unparen(as.Rhs[0]).(*ast.CallExpr)
			rid, ok := as.Lhs[1].(*ast.Ident)
			if !ok || len(call.Args) != 1 {
				continue
			}
			robj := f.ObjOf(rid)
			arg := exprKey(call.Args[0])
			ast.Inspect(f.Decl.Body, func(x ast.Node) bool {
				var seq ast.Expr
				uses := false
				switch y := x.(type) {
				case *ast.SliceExpr:
					for _, b := range []ast.Expr{y.Low, y.High} {
						if id, ok := b.(*ast.Ident); ok && f.ObjOf(id) == robj {
							uses = true
						}
					}
					seq = y.X
				case *ast.IndexExpr:
					if id, ok := y.Index.(*ast.Ident); ok && f.ObjOf(id) == robj {
						uses = true
					}
					seq = y.X
				}
				if !uses {
					return true
				}
				n++
				key := f.Name + "|rest-position#" + itoa(n)
				if exprKey(seq) == arg {
					c.OK(rule, key, x.Pos(), 1, "the position is used on %s, the sequence handed to the splitter", arg)
				} else {
					c.FailConfined(rule, key, x.Pos(), "%s: the splitter was given %s, its rest position is used on %s — positions in one are not positions in the other (bytes vs. runes)", f.Name, arg, exprKey(seq))
				}
				return true
			})
		}
	}
	if n == 0 {
		c.Undecided(rule, "subjects|rest-position", "no use of the splitter's rest position as an index found in the console")
	}
}

func assignsFromCall(f *Func, callee string) []*ast.AssignStmt {
	var out []*ast.AssignStmt
	ast.Inspect(f.Decl.Body, func(x ast.Node) bool {
		as, ok := x.(*ast.AssignStmt)
		if !ok || len(as.Rhs) != 1 {
			return true
		}
		if call, ok := ast.Unparen(as.Rhs[0]).(*ast.CallExpr); ok {
			if fn := f.Callee(call); fn != nil && fn.Name() == callee {
				out = append(out, as)
			}
		}
		return true
	})
	return out
}

// ---- the stored bytes of a row are replaced, never written into (C08-r10m1, C08-r10m3) ------------------

func ruleStoredBytesImmutable(c *Ctx, rule string) {
	c.Rule(rule, "the stored bytes of a row are replaced as a whole, never written into: in the storage package no code re-slices a cell's valueBytes to length 0 to encode into them (bytes.NewBuffer(x.valueBytes[:0]), append(x.valueBytes[:0], …)), copies into them (copy(x.valueBytes, …)) or stores single bytes — a statement that is refused half way through its encoding (wrong type in a later column, row too large) has then already overwritten the row it was supposed to leave alone, and a shorter new value leaves the tail of the old one behind the recorded size")
	w := c.W
	reads := 0
	isVB := func(f *Func, e ast.Expr) bool {
		for {
			switch y := ast.Unparen(e).(type) {
			case *ast.SliceExpr:
				e = y.X
				continue
			case *ast.SelectorExpr:
				if v := fieldVar(f, y); v != nil && v.Name() == "valueBytes" {
					return true
				}
			}
			return false
		}
	}
	for _, name := range w.SortedFuncNames() {
		f := w.Funcs[name]
		if f.Pkg != w.Pkgs["storage"] {
			continue
		}
		k := 0
		report := func(pos token.Pos, what string) {
			k++
			c.FailConfined(rule, f.Name+"|writes-into-stored-bytes#"+itoa(k), pos, "%s %s: the bytes of the stored row are written in place — a refusal later in the same operation leaves the row half overwritten, a shorter value leaves stale bytes behind its size", f.Name, what)
		}
		ast.Inspect(f.Decl.Body, func(x ast.Node) bool {
			switch y := x.(type) {
			case *ast.SelectorExpr:
				if v := fieldVar(f, y); v != nil && v.Name() == "valueBytes" {
					reads++
				}
			case *ast.SliceExpr:
				if isVB(f, y.X) && y.High != nil {
					if cv := f.constOf(y.High); cv != nil && cv.String() == "0" {
						report(y.Pos(), "re-slices "+exprKey(y.X)+" to length 0 (to append or encode into it)")
					}
				}
			case *ast.CallExpr:
				if id, ok := y.Fun.(*ast.Ident); ok && id.Name == "copy" && len(y.Args) == 2 && isVB(f, y.Args[0]) {
					report(y.Pos(), "copies into "+exprKey(y.Args[0]))
				}
			case *ast.AssignStmt:
				for _, l := range y.Lhs {
					if ix, ok := ast.Unparen(l).(*ast.IndexExpr); ok && isVB(f, ix.X) {
						report(y.Pos(), "stores a byte into "+exprKey(ix.X))
					}
				}
			}
			return true
		})
	}
	if reads < 5 {
		c.Undecided(rule, "subjects|valueBytes", "only %d uses of the cell field valueBytes found in storage", reads)
	} else {
		c.OK(rule, "storage|stored-bytes-replaced-only", token.NoPos, reads, "%d uses of valueBytes examined: none writes into the stored bytes", reads)
	}
}

// ---- a record read from the log owns its payload (C08-r10m2) --------------------------------------------

func ruleReadRecordOwnsPayload(c *Ctx, rule string) {
	c.Rule(rule, "a record read back from the log owns its payload: either WALEntry.decode copies the value into a slice it makes itself, or the log reader makes a new body buffer in every iteration of its record loop — if the decoder keeps a slice of the buffer it was handed AND the reader reuses one buffer for all records, every record of the batch ends up with the bytes of the last one read, and redo rewrites earlier rows with a later row's content")
	dec := c.NeedFunc(rule, "storage.(*WALEntry).decode")
	rd := c.NeedFunc(rule, "storage.(*wal).read")
	if dec == nil || rd == nil {
		return
	}
	key := dec.Name + "<->" + rd.Name + "|payload-owned"
	isMake := func(f *Func, e ast.Expr) bool {
		id, ok := ast.Unparen(e).(*ast.Ident)
		if !ok {
			return false
		}
		rhs, _, ok := f.definedBy(f.Decl.Body, f.ObjOf(id))
		if !ok {
			return false
		}
		call, ok := ast.Unparen(rhs).(*ast.CallExpr)
		if !ok {
			return false
		}
		fid, ok := call.Fun.(*ast.Ident)
		return ok && fid.Name == "make"
	}
	copies, stores := false, 0
	inspectBody(dec.Decl.Body, func(x ast.Node) bool {
		as, ok := x.(*ast.AssignStmt)
		if !ok || len(as.Lhs) != 1 || len(as.Rhs) != 1 {
			return true
		}
		if sel, ok := ast.Unparen(as.Lhs[0]).(*ast.SelectorExpr); ok && sel.Sel.Name == "val" {
			stores++
			if isMake(dec, as.Rhs[0]) {
				copies = true
			}
			if call, ok := ast.Unparen(as.Rhs[0]).(*ast.CallExpr); ok {
				if fid, ok := call.Fun.(*ast.Ident); ok && (fid.Name == "append" || fid.Name == "make") {
					copies = true
				}
				if fn := dec.Callee(call); fn != nil && (fn.Name() == "Clone" || fn.Name() == "ReadAll") {
					copies = true
				}
			}
		}
		return true
	})
	freshPerRecord := false
	for _, call := range rd.Calls(rd.Decl.Body, false, "storage.WALEntry.decode") {
		if len(call.Args) != 1 {
			continue
		}
		nb, ok := ast.Unparen(call.Args[0]).(*ast.CallExpr)
		if !ok || len(nb.Args) != 1 {
			continue
		}
		id, ok := ast.Unparen(nb.Args[0]).(*ast.Ident)
		if !ok || !isMake(rd, id) {
			continue
		}
		// the make sits inside the loop that contains the decode call
		loop := enclosingLoop(rd.Decl.Body, call)
		for _, as := range rd.assignsTo(rd.Decl.Body, rd.ObjOf(id)) {
			if loop != nil && loop.Pos() <= as.Pos() && as.End() <= loop.End() && len(rd.assignsTo(rd.Decl.Body, rd.ObjOf(id))) == 1 {
				freshPerRecord = true
			}
		}
	}
	switch {
	case stores == 0:
		c.Fail(rule, key, dec.Decl.Pos(), "WALEntry.decode does not store the record's value")
	case copies:
		c.OK(rule, key, dec.Decl.Pos(), 2, "decode copies the value into a slice of its own (reader buffer fresh per record: %v)", freshPerRecord)
	case freshPerRecord:
		c.OK(rule, key, rd.Decl.Pos(), 2, "decode keeps a slice of the buffer it is handed, and the reader makes that buffer anew for every record")
	default:
		c.FailConfined(rule, key, dec.Decl.Pos(), "WALEntry.decode keeps a slice of the buffer it is handed and wal.read does not make a new body buffer for every record: all records of a batch share one payload buffer, and redo applies the last record's bytes to every row")
	}
}

// ---- a store is not touched unlocked once its flusher runs (D25) -----------------------------------------

func ruleStoreInitUnderLock(c *Ctx, rule string) {
	c.Rule(rule, "a store is not touched without its lock once its flusher runs: in every function that creates a store with the background flusher (newFileStore(path, true)), every later call of a method on that store that reads or writes its shared state (open, save, fetch, update, append, setPageTableRoot, flush …) and every direct store to one of its fields sits inside a lock bracket, or the method takes the lock itself — the flusher's first tick reads the header fields and the page cache; filling them unlocked after the goroutine was started is a data race whenever the caller is still at it when the tick comes (or, for the race detector, whenever nothing orders the two). A store created without the flusher (recovery, CREATE DATABASE) needs no lock")
	w := c.W
	m := w.Locks()
	n := 0
	for _, name := range w.SortedFuncNames() {
		f := w.Funcs[name]
		if f.Pkg != w.Pkgs["storage"] {
			continue
		}
		g := f.Graph()
		for _, as := range assignsFromCall(f, "newFileStore") {
			call := ast.Unparen(as.Rhs[0]).(*ast.CallExpr)
			if len(call.Args) != 2 {
				continue
			}
			cv := f.constOf(call.Args[1])
			if cv != nil && cv.String() == "false" {
				continue
			}
			sid, ok := as.Lhs[0].(*ast.Ident)
			if !ok {
				continue
			}
			sobj := f.ObjOf(sid)
			n++
			key := f.Name + "|flusher-store|" + sid.Name
			br := m.BracketsOf(g)
			startLoc, _ := g.Locate(as)
			bad := ""
			var badPos token.Pos
			uses := 0
			inspectBody(f.Decl.Body, func(x ast.Node) bool {
				if x.Pos() <= as.End() {
					return true
				}
				var at ast.Node
				what := ""
				switch y := x.(type) {
				case *ast.CallExpr:
					sel, ok := y.Fun.(*ast.SelectorExpr)
					if !ok {
						return true
					}
					id, ok := ast.Unparen(sel.X).(*ast.Ident)
					if !ok || f.ObjOf(id) != sobj {
						return true
					}
					if _, _, isLock := m.lockCall(f, y); isLock {
						return true
					}
					callee := w.FuncOf(f.Callee(y))
					if callee == nil {
						return true
					}
					if k, _, self := m.wrapperKind(callee); self && k != lockNone {
						return true
					}
					if selfLocking(m, callee) {
						return true
					}
					at, what = y, "calls "+sid.Name+"."+sel.Sel.Name+"()"
				case *ast.AssignStmt:
					for _, l := range y.Lhs {
						if sel, ok := ast.Unparen(l).(*ast.SelectorExpr); ok {
							if id, ok := ast.Unparen(sel.X).(*ast.Ident); ok && f.ObjOf(id) == sobj {
								at, what = y, "stores into "+sid.Name+"."+sel.Sel.Name
							}
						}
					}
				}
				if at == nil {
					return true
				}
				uses++
				loc, ok := g.Locate(at)
				if !ok {
					return true
				}
				if !g.Dominates(startLoc, loc) {
					return true
				}
				if in, _ := br.Inside(loc, lockNone); !in && bad == "" {
					bad, badPos = what, at.Pos()
				}
				return true
			})
			if bad != "" {
				c.Fail(rule, key, badPos, "%s starts the flusher with newFileStore(…, true) and then %s outside any lock bracket: the flusher's tick reads the same state unsynchronised", f.Name, bad)
			} else {
				c.OK(rule, key, as.Pos(), 1+uses, "%d later uses of the store are inside a lock bracket or self-locking", uses)
			}
		}
	}
	if n == 0 {
		c.Undecided(rule, "subjects|flusher-stores", "no function creates a store with the background flusher")
	}
}

// selfLocking: every path through the method starts by taking the store lock (flushPages and the like).
func selfLocking(m *LockModel, callee *Func) bool {
	if callee == nil || callee.Decl == nil || callee.Decl.Body == nil {
		return false
	}
	for _, st := range callee.Decl.Body.List {
		switch y := st.(type) {
		case *ast.ExprStmt:
			if call, ok := y.X.(*ast.CallExpr); ok {
				if _, rel, isLock := m.lockCall(callee, call); isLock && !rel {
					return true
				}
			}
			return false
		case *ast.DeferStmt:
			continue
		default:
			return false
		}
	}
	return false
}

// ================================ rules from round 11 (small slips) ========================================

// ruleLengthIsByteLength: what a length prefix counts is bytes.
func ruleLengthIsByteLength(c *Ctx, rule string) {
	c.Rule(rule, "a length that is written in front of bytes counts bytes: in the storage codecs no operand of a binary.Write / PutUintN / size field is a count of runes (len([]rune(s)), utf8.RuneCountInString(s), utf8.RuneCount(b)) — for a non-ASCII string the prefix is then smaller than the payload, the reader stops early and every column behind it reads back as garbage or NULL")
	w := c.W
	n := 0
	for _, name := range w.SortedFuncNames() {
		f := w.Funcs[name]
		if f.Pkg != w.Pkgs["storage"] {
			continue
		}
		k := 0
		ast.Inspect(f.Decl.Body, func(x ast.Node) bool {
			call, ok := x.(*ast.CallExpr)
			if !ok {
				return true
			}
			what := ""
			if fn := f.Callee(call); fn != nil && fn.Pkg() != nil && fn.Pkg().Path() == "unicode/utf8" && strings.HasPrefix(fn.Name(), "RuneCount") {
				what = "utf8." + fn.Name()
			}
			if id, ok := call.Fun.(*ast.Ident); ok && id.Name == "len" && len(call.Args) == 1 {
				n++
				if conv, ok := ast.Unparen(call.Args[0]).(*ast.CallExpr); ok && len(conv.Args) == 1 {
					if tv, ok := f.Pkg.TypesInfo.Types[conv.Fun]; ok && tv.IsType() {
						if sl, ok := tv.Type.Underlying().(*types.Slice); ok {
							if b, ok := sl.Elem().Underlying().(*types.Basic); ok && b.Kind() == types.Int32 {
								what = "len([]rune(…))"
							}
						}
					}
				}
			}
			if what != "" {
				k++
				c.FailConfined(rule, f.Name+"|rune-count#"+itoa(k), call.Pos(), "%s computes a length in runes (%s) in the storage layer, where every length is a byte length on the wire: a multi-byte character makes the prefix smaller than the payload", f.Name, what)
			}
			return true
		})
	}
	if n < 5 {
		c.Undecided(rule, "subjects|len-calls", "only %d len() calls found in storage", n)
	} else {
		c.OK(rule, "storage|lengths-are-byte-lengths", token.NoPos, n, "%d len() calls examined, none counts runes", n)
	}
}

// ruleBatchNotOverwritten: the batch a logged mutator returns is only ever appended to once it holds a record.
func ruleBatchNotOverwritten(c *Ctx, rule string) {
	c.Rule(rule, "a record that was put into a log batch stays in it: in every storage function that returns a WALBatch, once the returned batch has received a record (B = append(B, …)) it is never assigned anything but an append to itself — `B, err = callee()` after the row's own record was appended replaces that record by the callee's (the root-move record overwrites the insert record of the row that caused it, and recovery finds a catalog entry pointing at a page whose row was never logged)")
	w := c.W
	n := 0
	for _, name := range w.SortedFuncNames() {
		f := w.Funcs[name]
		if f.Pkg != w.Pkgs["storage"] || !returnsWALBatch(f.Obj) {
			continue
		}
		g := f.Graph()
		// the returned batch variables
		batches := map[types.Object]bool{}
		inspectBody(f.Decl.Body, func(x ast.Node) bool {
			if ret, ok := x.(*ast.ReturnStmt); ok && len(ret.Results) >= 1 {
				if id, ok := ast.Unparen(ret.Results[0]).(*ast.Ident); ok && !isNilIdent(f, id) {
					batches[f.ObjOf(id)] = true
				}
			}
			return true
		})
		for b := range batches {
			var appends, plain []*ast.AssignStmt
			for _, as := range f.assignsTo(f.Decl.Body, b) {
				isAppend := false
				if len(as.Rhs) == 1 {
					if call, ok := ast.Unparen(as.Rhs[0]).(*ast.CallExpr); ok {
						if id, ok := call.Fun.(*ast.Ident); ok && id.Name == "append" && len(call.Args) >= 1 {
							if a0, ok := ast.Unparen(call.Args[0]).(*ast.Ident); ok && f.ObjOf(a0) == b {
								isAppend = true
							}
						}
						// B = helper(B, …): the batch is handed to a helper that returns it extended
						for _, a := range call.Args {
							if aid, ok := ast.Unparen(a).(*ast.Ident); ok && f.ObjOf(aid) == b {
								isAppend = true
							}
						}
					}
				}
				if isAppend {
					appends = append(appends, as)
				} else if as.Tok == token.ASSIGN {
					plain = append(plain, as)
				}
			}
			if len(appends) == 0 {
				continue
			}
			n++
			key := f.Name + "|batch-kept|" + b.Name()
			bad := false
			var badPos token.Pos
			for _, p := range plain {
				pl, ok := g.Locate(p)
				if !ok {
					continue
				}
				for _, a := range appends {
					al, ok := g.Locate(a)
					if !ok {
						continue
					}
					start := al
					reach, _ := g.Forward(&start, nil, func(_ ast.Node, at Loc) Verdict {
						if at == pl {
							return Hit
						}
						return Go
					}, nil)
					if reach {
						bad, badPos = true, p.Pos()
					}
				}
			}
			if bad {
				c.Fail(rule, key, badPos, "%s assigns a new value to its batch %s after records were appended to it: the records collected so far are dropped from the log", f.Name, b.Name())
			} else {
				c.OK(rule, key, appends[0].Pos(), len(appends)+len(plain), "after its first append the batch is only appended to")
			}
		}
	}
	if n == 0 {
		c.Undecided(rule, "subjects|batches", "no storage function appends to a WALBatch it returns")
	}
}

// rulePrecheckChecksEveryRow: the loop that encodes and size-checks the catalog rows walks the rows it built.
func rulePrecheckChecksEveryRow(c *Ctx, rule string) {
	c.Rule(rule, "the CREATE TABLE pre-check looks at every row it builds: in checkCatalogRows the loop that encodes and size-checks the rows ranges over the very slice the rows were appended to (or counts to its length) — a loop bounded by the number of columns stops one short (there is one row for the page table in front), the last column's row is never checked, and a CREATE TABLE that is refused for it has already registered the table")
	f := c.W.F("storage.checkCatalogRows")
	if f == nil {
		c.OK(rule, "storage.checkCatalogRows|absent", token.NoPos, 1, "no function checkCatalogRows (C14.16 judges the pre-check wherever it is written out)")
		return
	}
	key := f.Name + "|walks-its-rows"
	// the slice that receives the constructed rows
	var rowsObj types.Object
	inspectBody(f.Decl.Body, func(x ast.Node) bool {
		if as, ok := x.(*ast.AssignStmt); ok && len(as.Lhs) == 1 && len(as.Rhs) == 1 {
			if call, ok := ast.Unparen(as.Rhs[0]).(*ast.CallExpr); ok {
				if id, ok := call.Fun.(*ast.Ident); ok && id.Name == "append" {
					if l, ok := as.Lhs[0].(*ast.Ident); ok {
						rowsObj = f.ObjOf(l)
					}
				}
			}
		}
		return true
	})
	encs := f.Calls(f.Decl.Body, false, "storage.Tuple.Encode")
	if rowsObj == nil || len(encs) == 0 {
		c.Undecided(rule, key, "the rows slice or the Encode call was not found in checkCatalogRows")
		return
	}
	okAll := true
	why := ""
	for _, e := range encs {
		loop := enclosingLoop(f.Decl.Body, e)
		switch l := loop.(type) {
		case *ast.RangeStmt:
			if id, ok := ast.Unparen(l.X).(*ast.Ident); !ok || f.ObjOf(id) != rowsObj {
				okAll, why = false, "the encode loop ranges over "+exprKey(l.X)+", not over the rows it built"
			}
		case *ast.ForStmt:
			if l.Cond == nil || !strings.Contains(exprKey(l.Cond), "len("+rowsObj.Name()+")") {
				okAll, why = false, "the encode loop is bounded by `"+exprKey(l.Cond)+"`, not by the number of rows it built"
			}
		default:
			okAll, why = false, "Encode is not called in a loop over the rows"
		}
	}
	if okAll {
		c.OK(rule, key, encs[0].Pos(), 2, "every row that was built is encoded and size-checked")
	} else {
		c.Fail(rule, key, encs[0].Pos(), "%s: a row the insert path will store is never validated, and its refusal comes after the table has been registered", why)
	}
}

// ruleValidLenAfterBody: the length the log is cut back to counts complete records only.
func ruleValidLenAfterBody(c *Ctx, rule string) {
	c.Rule(rule, "the length the log is cut back to counts complete records only: in the log reader the variable handed to Truncate is advanced only at a point that every io.ReadFull of the current record (length and body) dominates — advanced right after the length prefix, a record whose body is torn is counted as present, Truncate then EXTENDS the file with zeros up to that length, and the next start reads a record of zeros (a page of kind 0) and panics")
	f := c.NeedFunc(rule, "storage.(*wal).read")
	if f == nil {
		return
	}
	g := f.Graph()
	key := f.Name + "|valid-length"
	var lenObj types.Object
	inspectBody(f.Decl.Body, func(x ast.Node) bool {
		if call, ok := x.(*ast.CallExpr); ok && len(call.Args) == 1 {
			if sel, ok := call.Fun.(*ast.SelectorExpr); ok && sel.Sel.Name == "Truncate" {
				if id, ok := ast.Unparen(call.Args[0]).(*ast.Ident); ok {
					lenObj = f.ObjOf(id)
				}
			}
		}
		return true
	})
	if lenObj == nil {
		c.Undecided(rule, key, "no Truncate(<variable>) in the log reader")
		return
	}
	reads := f.Calls(f.Decl.Body, false, "io.ReadFull")
	bad := ""
	var badPos token.Pos
	incs := 0
	inspectBody(f.Decl.Body, func(x ast.Node) bool {
		as, ok := x.(*ast.AssignStmt)
		if !ok || len(as.Lhs) != 1 || as.Tok == token.DEFINE {
			return true
		}
		id, ok := as.Lhs[0].(*ast.Ident)
		if !ok || f.ObjOf(id) != lenObj || (as.Tok == token.ASSIGN && f.constOf(as.Rhs[0]) != nil) {
			return true
		}
		if enclosingLoop(f.Decl.Body, as) == nil {
			return true
		}
		incs++
		// the amount: the record's prefix AND its body
		if as.Tok == token.ADD_ASSIGN && len(reads) >= 2 && len(reads[0].Args) == 2 && len(reads[1].Args) == 2 {
			// the amount with its locals resolved (`prefixLen := len(lenBuf)`) and named constants folded
			amt := exprKey(as.Rhs[0])
			ast.Inspect(as.Rhs[0], func(z ast.Node) bool {
				if id, ok := z.(*ast.Ident); ok {
					if _, isConst := f.ObjOf(id).(*types.Const); isConst {
						if cv := f.constOf(id); cv != nil && cv.String() == "4" {
							amt += " 4 "
						}
					} else if rhs, _, ok := f.definedBy(f.Decl.Body, f.ObjOf(id)); ok {
						amt += " " + exprKey(rhs) + " " // one step: `prefixLen := len(lenBuf)`
					}
				}
				return true
			})
			pre, body := exprKey(reads[0].Args[1]), exprKey(reads[1].Args[1])
			bodyLen := ""
			if id, ok := ast.Unparen(reads[1].Args[1]).(*ast.Ident); ok {
				if rhs, _, ok := f.definedBy(f.Decl.Body, f.ObjOf(id)); ok {
					if mk, ok := ast.Unparen(rhs).(*ast.CallExpr); ok && len(mk.Args) >= 2 {
						bodyLen = exprKey(mk.Args[1])
					}
				}
			}
			hasPre := strings.Contains(amt, "len("+pre+")") || regexp.MustCompile(`(^|[^0-9A-Za-z_])4([^0-9A-Za-z_]|$)`).MatchString(amt)
			hasBody := strings.Contains(amt, "len("+body+")") || (bodyLen != "" && strings.Contains(amt, bodyLen))
			if !hasPre || !hasBody {
				bad, badPos = "the valid length is advanced by `"+exprKey(as.Rhs[0])+"`, which is not the length prefix plus the body of the record", as.Pos()
			}
		}
		al, ok := g.Locate(as)
		if !ok {
			return true
		}
		for _, r := range reads {
			if enclosingLoop(f.Decl.Body, r) == nil {
				continue
			}
			if rl, ok := g.Locate(r); ok && !g.Dominates(rl, al) {
				bad, badPos = "the valid length is advanced at a point the read at "+c.W.Pos(r.Pos())+" does not dominate", as.Pos()
			}
		}
		return true
	})
	switch {
	case incs == 0:
		c.Undecided(rule, key, "the variable handed to Truncate is never advanced inside the record loop")
	case bad != "":
		c.Fail(rule, key, badPos, "%s: the log is cut at a point that is not a record boundary (a torn body counted as complete pads the log with zeros; a prefix left out cuts into the last acknowledged records)", bad)
	default:
		c.OK(rule, key, f.Decl.Pos(), incs+len(reads), "the valid length is advanced only after the length and the body of the record were read in full")
	}
}

// ruleHitDoesNotEvict: storing under a key that is cached replaces the page; nothing is evicted for it.
func ruleHitDoesNotEvict(c *Ctx, rule string) {
	c.Rule(rule, "a store under a cached key evicts nothing: in LRUCache.set the eviction (list.Remove of a searched victim) is dominated by the test of the map lookup's `found` result, whose found branch leaves the function — with the make-room block in front of that test, re-storing a cached key in a full cache evicts a clean page for nothing, and if the key's own entry is the victim the entry found earlier is stale: the page vanishes while set reports success")
	f := c.NeedFunc(rule, "storage.(*LRUCache).set")
	if f == nil {
		return
	}
	g := f.Graph()
	key := f.Name + "|hit-first"
	_, foundObj := lruHitVars(f)
	if foundObj == nil {
		c.Undecided(rule, key, "the map lookup with its found result was not recognised in set")
		return
	}
	var foundIf *ast.IfStmt
	inspectBody(f.Decl.Body, func(x ast.Node) bool {
		if ifs, ok := x.(*ast.IfStmt); ok && foundIf == nil {
			cond := ast.Unparen(ifs.Cond)
			if u, ok := cond.(*ast.UnaryExpr); ok && u.Op == token.NOT {
				cond = ast.Unparen(u.X)
			}
			if id, ok := cond.(*ast.Ident); ok && f.ObjOf(id) == foundObj {
				foundIf = ifs
			}
		}
		return true
	})
	removes := f.Calls(f.Decl.Body, false, "list.List.Remove")
	if foundIf == nil || len(removes) == 0 {
		c.Undecided(rule, key, "the found test or the eviction was not recognised in set")
		return
	}
	fl, _ := g.Locate(foundIf.Cond)
	for _, r := range removes {
		rl, ok := g.Locate(r)
		if !ok {
			continue
		}
		if !g.Dominates(fl, rl) {
			c.Fail(rule, key, r.Pos(), "list.Remove is reachable before the lookup's found result has been tested: a store under a cached key evicts a page, possibly its own entry")
			return
		}
	}
	c.OK(rule, key, foundIf.Pos(), 1+len(removes), "the found test dominates every eviction")
}

// ruleEveryStatementSubmitted: one failing statement does not swallow the ones typed after it.
func ruleEveryStatementSubmitted(c *Ctx, rule string) {
	c.Rule(rule, "every statement of an entered line reaches the engine: the console loop that hands the split statements to ExecQuery has no break and no return in its body — a statement that fails is reported and the next one is still submitted; leaving the loop on the first error silently drops the statements typed after it on the same line")
	f := c.NeedFunc(rule, "console.runTerminal")
	if f == nil {
		return
	}
	key := f.Name + "|submits-all"
	n := 0
	for _, call := range f.Calls(f.Decl.Body, false, "engine.Session.ExecQuery") {
		loop, ok := enclosingLoop(f.Decl.Body, call).(*ast.RangeStmt)
		if !ok {
			continue
		}
		n++
		bad := ""
		var stack []ast.Node
		ast.Inspect(loop.Body, func(x ast.Node) bool {
			if x == nil {
				stack = stack[:len(stack)-1]
				return true
			}
			stack = append(stack, x)
			// only an exit that depends on how a statement went drops statements unduly: an exit inside the test of
			// ExecQuery's error (or an unconditional one). A quit command recognised before the statement is run ends
			// the session by design.
			onErrorPath := func() bool {
				guarded := false
				for _, a := range stack[:len(stack)-1] {
					if ifs, ok := a.(*ast.IfStmt); ok {
						guarded = true
						k := exprKey(ifs.Cond)
						if ifs.Init != nil && len(f.Calls(ifs.Init, false, "engine.Session.ExecQuery")) > 0 {
							return true
						}
						if strings.Contains(k, "err!=nil") || strings.Contains(k, "err==nil") {
							return true
						}
					}
				}
				return !guarded
			}
			switch y := x.(type) {
			case *ast.FuncLit:
				return false
			case *ast.ReturnStmt:
				if onErrorPath() {
					bad = "a return"
				}
			case *ast.BranchStmt:
				if (y.Tok == token.BREAK || y.Tok == token.GOTO) && onErrorPath() {
					inner := false
					for _, a := range stack[:len(stack)-1] {
						switch a.(type) {
						case *ast.ForStmt, *ast.RangeStmt, *ast.SwitchStmt, *ast.SelectStmt, *ast.TypeSwitchStmt:
							inner = true
						}
					}
					if !inner || y.Label != nil {
						bad = "a " + y.Tok.String()
					}
				}
			}
			return true
		})
		if bad != "" {
			c.Fail(rule, key, loop.Pos(), "the loop that submits the statements of a line has %s in its body: once it is taken the remaining statements of the line never reach the engine", bad)
		} else {
			c.OK(rule, key, loop.Pos(), 2, "the loop submits every statement of the line")
		}
	}
	if n == 0 {
		c.Undecided(rule, key, "no loop over the split statements that calls ExecQuery found in runTerminal")
	}
}

// lruHitVars: the two results of the map lookup `entry, found := m[key]`.
func lruHitVars(f *Func) (entry, found types.Object) {
	inspectBody(f.Decl.Body, func(x ast.Node) bool {
		if as, ok := x.(*ast.AssignStmt); ok && len(as.Lhs) == 2 && len(as.Rhs) == 1 {
			if ix, ok := ast.Unparen(as.Rhs[0]).(*ast.IndexExpr); ok {
				if _, isMap := f.TypeOf(ix.X).Underlying().(*types.Map); isMap {
					if a, ok := as.Lhs[0].(*ast.Ident); ok {
						entry = f.ObjOf(a)
					}
					if b, ok := as.Lhs[1].(*ast.Ident); ok {
						found = f.ObjOf(b)
					}
				}
			}
		}
		return true
	})
	return
}

// ================================ rules from round 12 ======================================================

// ruleMadeThenAppended: make([]T, n) followed by append leaves n zero values in front.
func ruleMadeThenAppended(c *Ctx, rule string, pkgs ...string) {
	c.Rule(rule, "a slice that is filled with append starts empty: a local made with a non-zero LENGTH (`make([]T, n)`, two arguments) is not afterwards extended with append while nothing ever stores into its elements by index — the n zero values stay in front of what was appended (`make([]int, len(groupBy))` + append puts select column 0 into the group key once per grouping column, and groups split on the value of that column)")
	w := c.W
	n := 0
	for _, name := range w.SortedFuncNames() {
		f := w.Funcs[name]
		inPkg := false
		for _, p := range pkgs {
			if f.Pkg == w.Pkgs[p] {
				inPkg = true
			}
		}
		if !inPkg {
			continue
		}
		inspectBody(f.Decl.Body, func(x ast.Node) bool {
			as, ok := x.(*ast.AssignStmt)
			if !ok || len(as.Lhs) != 1 || len(as.Rhs) != 1 {
				return true
			}
			id, ok := as.Lhs[0].(*ast.Ident)
			if !ok {
				return true
			}
			mk, ok := ast.Unparen(as.Rhs[0]).(*ast.CallExpr)
			if !ok || len(mk.Args) != 2 {
				return true
			}
			if fid, ok := mk.Fun.(*ast.Ident); !ok || fid.Name != "make" {
				return true
			}
			if _, isSlice := f.TypeOf(mk.Args[0]).Underlying().(*types.Slice); !isSlice {
				return true
			}
			if cv := f.constOf(mk.Args[1]); cv != nil && cv.String() == "0" {
				return true
			}
			obj := f.ObjOf(id)
			n++
			appended, indexed, escapes := false, false, false
			ast.Inspect(f.Decl.Body, func(y ast.Node) bool {
				switch z := y.(type) {
				case *ast.AssignStmt:
					for i, l := range z.Lhs {
						if ix, ok := ast.Unparen(l).(*ast.IndexExpr); ok {
							if xid, ok := ast.Unparen(ix.X).(*ast.Ident); ok && f.ObjOf(xid) == obj {
								indexed = true
							}
						}
						if lid, ok := l.(*ast.Ident); ok && f.ObjOf(lid) == obj && i < len(z.Rhs) {
							if call, ok := ast.Unparen(z.Rhs[i]).(*ast.CallExpr); ok {
								if fid, ok := call.Fun.(*ast.Ident); ok && fid.Name == "append" && len(call.Args) >= 1 {
									if a0, ok := ast.Unparen(call.Args[0]).(*ast.Ident); ok && f.ObjOf(a0) == obj {
										appended = true
									}
								}
							}
						}
					}
				case *ast.CallExpr:
					if fid, ok := z.Fun.(*ast.Ident); ok && (fid.Name == "append" || fid.Name == "len" || fid.Name == "cap") {
						return true
					}
					for _, a := range z.Args {
						if aid, ok := ast.Unparen(a).(*ast.Ident); ok && f.ObjOf(aid) == obj {
							escapes = true // copy(x, …), io.ReadFull(r, x), binary.Read …: filled by a callee
						}
						if sl, ok := ast.Unparen(a).(*ast.SliceExpr); ok {
							if aid, ok := ast.Unparen(sl.X).(*ast.Ident); ok && f.ObjOf(aid) == obj {
								escapes = true
							}
						}
					}
				case *ast.RangeStmt:
					// for i := range x { x[i] = … } is covered by indexed
				}
				return true
			})
			key := f.Name + "|made-then-appended|" + id.Name
			if appended && !indexed && !escapes {
				c.FailConfined(rule, key, as.Pos(), "%s makes %s with length %s and then only appends to it: the first %s elements stay zero values in front of the appended ones", f.Name, id.Name, exprKey(mk.Args[1]), exprKey(mk.Args[1]))
			} else {
				c.OK(rule, key, as.Pos(), 1, "made with a length and filled by index / by a callee, or never appended to")
			}
			return true
		})
	}
	if n == 0 {
		c.OK(rule, "subjects|none", token.NoPos, 1, "no slice is made with a non-zero length in %v", pkgs)
	}
}

// ruleStampAfterSuccess: a page is stamped with an LSN only when the change the LSN belongs to has happened.
func ruleStampAfterSuccess(c *Ctx, rule string) {
	c.Rule(rule, "a page is stamped only once its change cannot be refused any more: in the logged mutators of RelationService (Insert goes through BTree.insert, which has its own rule; Update, MarkDeleted, updatePageTable) after a markDirty(nextLSN) call nothing that can refuse (a repository function returning an error) is called any more in the same function or callback — a stamp placed in front of updateCell survives a refused (oversized) UPDATE, the flusher writes the page with an LSN no record carries, and redo skips the next logged change of that page after a crash")
	w := c.W
	n := 0
	for _, name := range []string{"storage.(*RelationService).Update", "storage.(*RelationService).MarkDeleted", "storage.(*RelationService).updatePageTable"} {
		f := w.F(name)
		if f == nil {
			continue
		}
		check := func(g *Graph, body ast.Node, where string) {
			for _, call := range f.Calls(body, false, "storage.btreeNode.markDirty") {
				n++
				key := f.Name + where + "|stamp-after-success#" + itoa(n)
				loc, ok := g.Locate(call)
				if !ok {
					continue
				}
				start := loc
				hit, _ := g.Forward(&start, nil, func(nn ast.Node, at Loc) Verdict {
					// something that can still refuse: a call of a repository function that returns an error
					refuses := false
					ast.Inspect(nn, func(z ast.Node) bool {
						if _, isLit := z.(*ast.FuncLit); isLit {
							return false
						}
						if cl, ok := z.(*ast.CallExpr); ok {
							if fn := f.Callee(cl); fn != nil && fn.Pkg() != nil && strings.HasPrefix(fn.Pkg().Path(), "github.com/mk6i/mkdb") {
								if sg, ok := fn.Type().(*types.Signature); ok && sg.Results().Len() > 0 && isErrorType(sg.Results().At(sg.Results().Len()-1).Type()) {
									refuses = true
								}
							}
						}
						return true
					})
					if refuses {
						return Hit
					}
					if _, ok := nn.(*ast.ReturnStmt); ok {
						return Cut
					}
					return Go
				}, nil)
				if hit {
					c.Fail(rule, key, call.Pos(), "%s calls something that can still refuse after it has stamped the page with markDirty: a refused change leaves a page carrying an LSN that is in no log record", f.Name)
				} else {
					c.OK(rule, key, call.Pos(), 2, "no error return is reachable after the stamp")
				}
			}
		}
		check(f.Graph(), f.Decl.Body, "")
		ast.Inspect(f.Decl.Body, func(x ast.Node) bool {
			if lit, ok := x.(*ast.FuncLit); ok {
				check(f.LitGraph(lit), lit.Body, "$lit")
				return false
			}
			return true
		})
	}
	if n == 0 {
		c.Undecided(rule, "subjects|stamps", "no markDirty call found in Update / MarkDeleted / updatePageTable")
	}
}
