package main

// Rules that came out of round 10 and of the defects its authors' notes led to (D21, D22, D23).

import (
	"go/ast"
	"go/token"
	"go/types"
	"strings"
)

// ---- catalog tables are not statement targets (D21) ---------------------------------------------

// ruleCatalogNotATarget: the reviewed argument behind the unchecked reads of catalog rows (getRelationFileOffset,
// getRelationSchema: "the writers fill every column") only holds if statements cannot write catalog rows. Every logged
// mutator of RelationService that takes the table name from the statement refuses the two catalog names before it
// looks the table up.
func ruleCatalogNotATarget(c *Ctx, rule string) {
	c.Rule(rule, "the catalog tables are not statement targets: every method of RelationService that returns a WALBatch and takes a table name (the logged mutators INSERT, UPDATE and DELETE run through) uses that name — looks the table up, fetches its schema — only where a branch condition has shown it to differ from BOTH catalog names (sys_pages, sys_schema) and the other branch leaves with an error. Catalog rows are read back without validation (unchecked type assertions, file offsets that are followed): a row a statement wrote there makes the next statement on the named table panic")
	w := c.W
	consts := catalogNameConsts(w)
	if len(consts) < 2 {
		c.Undecided(rule, "anchor|catalog-names", "the catalog table names (string constants naming sys_pages / sys_schema in storage) were not found")
		return
	}
	n := 0
	for _, name := range w.SortedFuncNames() {
		f := w.Funcs[name]
		if f.Pkg != w.Pkgs["storage"] || f.Decl.Recv == nil || !returnsWALBatch(f.Obj) || !f.Obj.Exported() || !strings.Contains(f.Name, "RelationService") {
			continue
		}
		pid := paramIdent(f, 0)
		if pid == nil {
			continue
		}
		pobj := f.ObjOf(pid)
		if b, ok := pobj.Type().Underlying().(*types.Basic); !ok || b.Kind() != types.String {
			continue
		}
		n++
		g := f.Graph()
		key := f.Name + "|catalog-refused|" + "param0"
		uses := 0
		bad := ""
		var badPos token.Pos
		inspectBody(f.Decl.Body, func(x ast.Node) bool {
			call, ok := x.(*ast.CallExpr)
			if !ok {
				return true
			}
			passes := false
			for _, a := range call.Args {
				if id, ok := ast.Unparen(a).(*ast.Ident); ok && f.ObjOf(id) == pobj {
					passes = true
				}
			}
			if !passes {
				return true
			}
			// the predicate that implements the refusal itself is not a use
			if callee := f.Callee(call); callee != nil {
				if hf := w.FuncOf(callee); hf != nil && predicateBody(hf) != nil {
					return true
				}
				if callee.Pkg() != nil && callee.Pkg().Path() == "fmt" {
					return true
				}
			}
			uses++
			loc, ok := g.Locate(call)
			if !ok {
				return true
			}
			for _, k := range consts {
				if !g.HoldsAt(loc, Rel{pid.Name, token.NEQ, k}) {
					if bad == "" {
						bad = "the table name reaches " + exprKey(call.Fun) + " without having been compared with " + k
						badPos = call.Pos()
					}
				}
			}
			return true
		})
		switch {
		case uses == 0:
			c.Undecided(rule, key, "%s does not hand its table name to any call", f.Name)
		case bad != "":
			c.Fail(rule, key, badPos, "%s: %s — a statement can change catalog rows, which are read back without validation (the next statement on the named table panics)", f.Name, bad)
		default:
			c.OK(rule, key, f.Decl.Pos(), uses, "every use of the table name (%d calls) lies behind the refusal of both catalog names", uses)
		}
	}
	if n < 3 {
		c.Undecided(rule, "subjects|logged-mutators", "only %d logged mutators with a table-name parameter found (expected Insert, Update, MarkDeleted)", n)
	}
}

// catalogNameConsts: the package-level string constants of storage whose values are the catalog table names.
func catalogNameConsts(w *World) []string {
	var out []string
	pkg := w.Pkgs["storage"]
	if pkg == nil {
		return nil
	}
	sc := pkg.Types.Scope()
	for _, n := range sc.Names() {
		cst, ok := sc.Lookup(n).(*types.Const)
		if !ok || cst.Val() == nil {
			continue
		}
		if v := cst.Val().ExactString(); v == `"sys_pages"` || v == `"sys_schema"` {
			out = append(out, n)
		}
	}
	return out
}

// predicateBody: f is a boolean predicate written as one expression (`return a == K1 || a == K2`) over plain named
// parameters; the expression is returned.
func predicateBody(f *Func) ast.Expr {
	if f == nil || f.Decl == nil || f.Decl.Body == nil || len(f.Decl.Body.List) != 1 {
		return nil
	}
	ret, ok := f.Decl.Body.List[0].(*ast.ReturnStmt)
	if !ok || len(ret.Results) != 1 {
		return nil
	}
	sig := f.Obj.Type().(*types.Signature)
	if sig.Results().Len() != 1 {
		return nil
	}
	if b, ok := sig.Results().At(0).Type().Underlying().(*types.Basic); !ok || b.Kind() != types.Bool {
		return nil
	}
	return ret.Results[0]
}

// expandPredicateCall: `if isSystemTable(name) {…}` tests what the one-expression predicate returns, with the
// arguments put in place of the parameters. Only comparisons, && / || / ! over identifiers, selectors and literals are
// copied; anything else leaves the condition as it is.
func (g *Graph) expandPredicateCall(cond ast.Expr) ast.Expr {
	if g.f == nil || g.f.w == nil {
		return cond
	}
	if u, ok := ast.Unparen(cond).(*ast.UnaryExpr); ok && u.Op == token.NOT {
		if inner := g.expandPredicateCall(u.X); inner != u.X {
			return &ast.UnaryExpr{Op: token.NOT, X: &ast.ParenExpr{X: inner}}
		}
		return cond
	}
	call, ok := ast.Unparen(cond).(*ast.CallExpr)
	if !ok {
		return cond
	}
	callee := g.f.Callee(call)
	if callee == nil {
		return cond
	}
	hf := g.f.w.FuncOf(callee)
	if hf == nil || hf.Pkg != g.f.Pkg || hf.Decl.Recv != nil {
		return cond
	}
	body := predicateBody(hf)
	if body == nil {
		return cond
	}
	subst := map[types.Object]ast.Expr{}
	i := 0
	for _, p := range hf.Decl.Type.Params.List {
		for _, nm := range p.Names {
			if i >= len(call.Args) {
				return cond
			}
			switch ast.Unparen(call.Args[i]).(type) {
			case *ast.Ident, *ast.SelectorExpr, *ast.BasicLit:
			default:
				return cond
			}
			subst[hf.ObjOf(nm)] = call.Args[i]
			i++
		}
	}
	if i != len(call.Args) {
		return cond
	}
	okAll := true
	var cp func(e ast.Expr) ast.Expr
	cp = func(e ast.Expr) ast.Expr {
		switch y := e.(type) {
		case *ast.ParenExpr:
			return &ast.ParenExpr{X: cp(y.X)}
		case *ast.BinaryExpr:
			return &ast.BinaryExpr{X: cp(y.X), Op: y.Op, Y: cp(y.Y)}
		case *ast.UnaryExpr:
			if y.Op == token.NOT {
				return &ast.UnaryExpr{Op: y.Op, X: cp(y.X)}
			}
		case *ast.Ident:
			if a, ok := subst[hf.ObjOf(y)]; ok {
				return a
			}
			if obj := hf.ObjOf(y); obj != nil && obj.Parent() != nil && obj.Parent() != hf.Pkg.Types.Scope() && obj.Parent() != types.Universe {
				okAll = false // a local of the predicate
			}
			return y
		case *ast.SelectorExpr, *ast.BasicLit:
			return y
		}
		okAll = false
		return e
	}
	out := cp(body)
	if !okAll {
		return cond
	}
	return out
}

// ---- a projection does not rename the caller's fields (D22) --------------------------------------

// ruleHeaderFieldsAreCopies: the result header is built from Field objects. A Field that reached the function through
// a parameter is shared: with the caller's field list and with every other select-list entry that names the same
// column. Writing an alias (or a table id) into it renames the column for all of them.
func ruleHeaderFieldsAreCopies(c *Ctx, rule string) {
	c.Rule(rule, "a result column is renamed on a Field of its own: in the engine, a store `p.Column = …` or `p.TableID = …` through a *storage.Field never goes through a pointer that was taken from a field list the function received as a parameter (directly, or as the element of a range over it) — such a Field is shared with the caller and with every other select-list entry naming the same column, so `SELECT a AS x, a AS y` would show the last alias twice; the field is copied first (`c := *fields[i]; p = &c`) or built fresh (&storage.Field{…}). Field lists the function fetched itself are its own")
	w := c.W
	n := 0
	for _, name := range w.SortedFuncNames() {
		f := w.Funcs[name]
		if f.Pkg != w.Pkgs["engine"] {
			continue
		}
		params := map[types.Object]bool{}
		for i := 0; ; i++ {
			id := paramIdent(f, i)
			if id == nil {
				break
			}
			params[f.ObjOf(id)] = true
		}
		ast.Inspect(f.Decl.Body, func(x ast.Node) bool {
			as, ok := x.(*ast.AssignStmt)
			if !ok {
				return true
			}
			for _, l := range as.Lhs {
				sel, ok := ast.Unparen(l).(*ast.SelectorExpr)
				if !ok || (sel.Sel.Name != "Column" && sel.Sel.Name != "TableID") {
					continue
				}
				t := f.TypeOf(sel.X)
				if t == nil || !strings.HasSuffix(typeName(t), "storage.Field") {
					continue
				}
				n++
				key := f.Name + "|field-store|" + sel.Sel.Name
				shared, how := sharedFieldPointer(f, sel.X, params, 0)
				if shared {
					c.Fail(rule, key, as.Pos(), "%s stores into %s of a Field it received from its caller (%s): the caller's field list and every other result column that names the same source column are renamed too", f.Name, sel.Sel.Name, how)
				} else {
					c.OK(rule, key, as.Pos(), 1, "the Field written is the function's own (%s)", how)
				}
			}
			return true
		})
	}
	if n < 2 {
		c.Undecided(rule, "subjects|field-stores", "only %d stores into Field.Column / Field.TableID found in engine (expected the alias in projectColumns and the table id in EvaluateSelect)", n)
	}
}

// sharedFieldPointer: can the pointer expression e be an element of a field list that is a parameter of f?
func sharedFieldPointer(f *Func, e ast.Expr, params map[types.Object]bool, depth int) (bool, string) {
	e = ast.Unparen(e)
	if depth > 4 {
		return false, "not followed further"
	}
	switch y := e.(type) {
	case *ast.IndexExpr:
		if root := rootIdent(y.X); root != nil && params[f.ObjOf(root)] {
			return true, exprKey(y) + " is an element of parameter " + root.Name
		}
		if root := rootIdent(y.X); root != nil {
			return sharedSlice(f, f.ObjOf(root), params, depth+1)
		}
		return false, "element of " + exprKey(y.X)
	case *ast.UnaryExpr:
		if y.Op == token.AND {
			return false, "address of a local copy or literal"
		}
	case *ast.Ident:
		obj := f.ObjOf(y)
		if obj == nil {
			return false, "unresolved"
		}
		// range value over a list
		shared, how := false, "local "+y.Name
		ast.Inspect(f.Decl.Body, func(x ast.Node) bool {
			switch z := x.(type) {
			case *ast.RangeStmt:
				if vid, ok := z.Value.(*ast.Ident); ok && f.ObjOf(vid) == obj {
					if root := rootIdent(z.X); root != nil {
						if params[f.ObjOf(root)] {
							shared, how = true, y.Name+" ranges over parameter "+root.Name
						} else if s, h := sharedSlice(f, f.ObjOf(root), params, depth+1); s {
							shared, how = true, h
						} else if !shared {
							how = y.Name + " ranges over " + exprKey(z.X) + ", which the function obtained itself"
						}
					}
				}
			case *ast.AssignStmt:
				for i, l := range z.Lhs {
					lid, ok := l.(*ast.Ident)
					if !ok || f.ObjOf(lid) != obj || len(z.Rhs) != len(z.Lhs) {
						continue
					}
					if s, h := sharedFieldPointer(f, z.Rhs[i], params, depth+1); s {
						shared, how = true, h
					}
				}
			}
			return true
		})
		return shared, how
	}
	return false, exprKey(e)
}

// sharedSlice: the slice variable obj is (a copy of) a parameter.
func sharedSlice(f *Func, obj types.Object, params map[types.Object]bool, depth int) (bool, string) {
	if obj == nil || depth > 4 {
		return false, ""
	}
	if params[obj] {
		return true, "parameter " + obj.Name()
	}
	shared, how := false, ""
	ast.Inspect(f.Decl.Body, func(x ast.Node) bool {
		as, ok := x.(*ast.AssignStmt)
		if !ok || len(as.Lhs) != len(as.Rhs) {
			return true
		}
		for i, l := range as.Lhs {
			lid, ok := l.(*ast.Ident)
			if !ok || f.ObjOf(lid) != obj {
				continue
			}
			r := ast.Unparen(as.Rhs[i])
			if sl, ok := r.(*ast.SliceExpr); ok {
				r = ast.Unparen(sl.X)
			}
			if id, ok := r.(*ast.Ident); ok {
				if s, h := sharedSlice(f, f.ObjOf(id), params, depth+1); s {
					shared, how = true, obj.Name()+" is "+h
				}
			}
		}
		return true
	})
	return shared, how
}

func rootIdent(e ast.Expr) *ast.Ident {
	for {
		switch y := ast.Unparen(e).(type) {
		case *ast.Ident:
			return y
		case *ast.SelectorExpr:
			e = y.X
		case *ast.IndexExpr:
			e = y.X
		case *ast.SliceExpr:
			e = y.X
		case *ast.StarExpr:
			e = y.X
		default:
			return nil
		}
	}
}
