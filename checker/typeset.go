package main

// A flow-insensitive type-set inference over the syntax tree (DESIGN.md T6 D-b):
// for an interface-typed expression, the set of concrete types (and nil) it can
// hold, computed from composite literals, stores to struct fields, assignments to
// locals, and return statements of repository functions. Values from maps,
// slices, channels and code outside the repository are Top (unknown).

import (
	"go/ast"
	"go/token"
	"go/types"
	"sort"
	"strings"
	"sync"
)

type TS struct {
	Top   bool
	Types map[string]bool // type strings; "nil" for the nil interface
}

func tsOf(names ...string) TS {
	t := TS{Types: map[string]bool{}}
	for _, n := range names {
		t.Types[n] = true
	}
	return t
}

func (a TS) union(b TS) TS {
	if a.Top || b.Top {
		return TS{Top: true}
	}
	out := TS{Types: map[string]bool{}}
	for k := range a.Types {
		out.Types[k] = true
	}
	for k := range b.Types {
		out.Types[k] = true
	}
	return out
}

func (a TS) String() string {
	if a.Top {
		return "{anything}"
	}
	var ks []string
	for k := range a.Types {
		ks = append(ks, k)
	}
	sort.Strings(ks)
	return "{" + strings.Join(ks, ", ") + "}"
}

func (a TS) without(name string) TS {
	if a.Top {
		return a
	}
	out := TS{Types: map[string]bool{}}
	for k := range a.Types {
		if k != name {
			out.Types[k] = true
		}
	}
	return out
}

type tsEngine struct {
	w        *World
	fieldMem map[*types.Var]*TS
	funcMem  map[string]*TS
	busy     map[string]bool
}

func (w *World) TypeSets() *tsEngine {
	if e, ok := w.memo["ts"].(*tsEngine); ok {
		return e
	}
	if w.memo == nil {
		w.memo = map[string]any{}
	}
	e := &tsEngine{w: w, fieldMem: map[*types.Var]*TS{}, funcMem: map[string]*TS{}, busy: map[string]bool{}}
	w.memo["ts"] = e
	return e
}

// tsTypes remembers the type behind each rendered name (for method-set questions about a type set).
var tsTypes = map[string]types.Type{}
var tsTypesMu sync.Mutex

func typeName(t types.Type) string {
	n := types.TypeString(t, func(p *types.Package) string { return p.Name() })
	tsTypesMu.Lock()
	tsTypes[n] = t
	tsTypesMu.Unlock()
	return n
}

func isInterface(t types.Type) bool {
	if t == nil {
		return false
	}
	_, ok := t.Underlying().(*types.Interface)
	return ok
}

// Of computes the type set of expression e evaluated in function f.
func (e *tsEngine) Of(f *Func, x ast.Expr, depth int) TS {
	if depth > 6 {
		return TS{Top: true}
	}
	x = ast.Unparen(x)
	if isNilIdent(f, x) {
		return tsOf("nil")
	}
	t := f.TypeOf(x)
	if t == nil {
		return TS{Top: true}
	}
	if tup, ok := t.(*types.Tuple); ok && tup.Len() > 0 {
		t = tup.At(0).Type() // the value of a comma-ok expression
	}
	if !isInterface(t) {
		return tsOf(typeName(t))
	}
	switch y := x.(type) {
	case *ast.Ident:
		return e.ofIdent(f, y, depth)
	case *ast.SelectorExpr:
		if v := fieldVar(f, y); v != nil {
			return e.ofField(v, depth)
		}
		if obj, ok := f.ObjOf(y.Sel).(*types.Var); ok && obj.Pkg() != nil && pkgKey(obj.Pkg().Path()) != "" {
			return TS{Top: true} // package-level variable
		}
	case *ast.CallExpr:
		// conversion to an interface type keeps the operand's set
		if tv, ok := f.Pkg.TypesInfo.Types[y.Fun]; ok && tv.IsType() && len(y.Args) == 1 {
			return e.Of(f, y.Args[0], depth+1)
		}
		return e.ofCall(f, y, 0, depth)
	case *ast.IndexExpr:
		// a lookup in a package-level table literal yields one of the literal's values (or the zero value: nil)
		if tbl := tableLiteral(f, y.X); tbl != nil {
			out := tsOf("nil")
			for _, v := range tbl {
				out = out.union(e.Of(f, v, depth+1))
			}
			return out
		}
	case *ast.TypeAssertExpr:
		if y.Type != nil {
			if tt := f.TypeOf(y.Type); tt != nil && !isInterface(tt) {
				return tsOf(typeName(tt))
			}
			return e.Of(f, y.X, depth+1)
		}
	}
	return TS{Top: true}
}

func (e *tsEngine) ofCall(f *Func, call *ast.CallExpr, idx, depth int) TS {
	callee := f.Callee(call)
	targets := e.w.resolve(callee)
	if len(targets) == 0 {
		return TS{Top: true}
	}
	out := tsOf()
	for _, t := range targets {
		out = out.union(e.ofResult(t, idx, depth+1))
	}
	return out
}

func (e *tsEngine) ofResult(t *Func, idx, depth int) TS {
	key := t.Name + "#" + itoa(idx)
	if m, ok := e.funcMem[key]; ok {
		return *m
	}
	if e.busy[key] {
		return tsOf() // recursion: least fixpoint
	}
	e.busy[key] = true
	out := tsOf()
	sig := t.Obj.Type().(*types.Signature)
	inspectBody(t.Decl.Body, func(n ast.Node) bool {
		r, ok := n.(*ast.ReturnStmt)
		if !ok {
			return true
		}
		switch {
		case len(r.Results) == sig.Results().Len() && idx < len(r.Results):
			// a result paired with a definitely non-nil error is never used by callers that test the error first
			if sig.Results().Len() >= 2 && isErrorType(sig.Results().At(sig.Results().Len()-1).Type()) && !t.Graph().ReturnMayBeNil(r) {
				return true
			}
			out = out.union(e.Of(t, r.Results[idx], depth+1))
		case len(r.Results) == 1 && sig.Results().Len() > 1:
			if call, ok := ast.Unparen(r.Results[0]).(*ast.CallExpr); ok {
				out = out.union(e.ofCall(t, call, idx, depth+1))
			} else {
				out = TS{Top: true}
			}
		default:
			out = TS{Top: true}
		}
		return true
	})
	delete(e.busy, key)
	e.funcMem[key] = &out
	return out
}

func (e *tsEngine) ofIdent(f *Func, id *ast.Ident, depth int) TS {
	obj, ok := f.ObjOf(id).(*types.Var)
	if !ok {
		return TS{Top: true}
	}
	// type-switch binding?
	var bound *TS
	ast.Inspect(f.Decl.Body, func(n ast.Node) bool {
		ts, ok := n.(*ast.TypeSwitchStmt)
		if !ok {
			return true
		}
		for _, s := range ts.Body.List {
			cc := s.(*ast.CaseClause)
			if imp, ok := f.Pkg.TypesInfo.Implicits[cc].(*types.Var); ok && imp == obj {
				if len(cc.List) == 0 {
					b := TS{Top: true}
					bound = &b
				} else {
					b := tsOf()
					for _, te := range cc.List {
						if isNilIdent(f, te) {
							b.Types["nil"] = true
						} else if tt := f.TypeOf(te); tt != nil {
							b.Types[typeName(tt)] = true
						}
					}
					bound = &b
				}
			}
		}
		return true
	})
	if bound != nil {
		return *bound
	}
	// parameter?
	if isParam(f, obj) {
		if !ast.IsExported(f.Decl.Name.Name) && len(e.w.CG().In[f]) > 0 {
			out := tsOf()
			pi := paramIndex(f, obj)
			for _, cs := range e.w.CG().In[f] {
				if pi < 0 || pi >= len(cs.Call.Args) || cs.Call.Ellipsis.IsValid() {
					return TS{Top: true}
				}
				out = out.union(e.Of(cs.Caller, cs.Call.Args[pi], depth+1))
			}
			return out
		}
		return TS{Top: true}
	}
	out := tsOf()
	found := false
	ast.Inspect(f.Decl.Body, func(n ast.Node) bool {
		switch y := n.(type) {
		case *ast.AssignStmt:
			for i, l := range y.Lhs {
				lid, ok := l.(*ast.Ident)
				if !ok || f.ObjOf(lid) != obj {
					continue
				}
				found = true
				switch {
				case len(y.Rhs) == len(y.Lhs):
					out = out.union(e.Of(f, y.Rhs[i], depth+1))
				case len(y.Rhs) == 1:
					if call, ok := ast.Unparen(y.Rhs[0]).(*ast.CallExpr); ok {
						out = out.union(e.ofCall(f, call, i, depth+1))
					} else if ta, ok := ast.Unparen(y.Rhs[0]).(*ast.TypeAssertExpr); ok && i == 0 {
						out = out.union(e.Of(f, ta, depth+1))
					} else if ix, ok := ast.Unparen(y.Rhs[0]).(*ast.IndexExpr); ok && i == 0 {
						out = out.union(e.Of(f, ix, depth+1)) // v, ok := table[k]
					} else {
						out = TS{Top: true}
					}
				}
			}
		case *ast.ValueSpec:
			for i, nm := range y.Names {
				if f.ObjOf(nm) != obj {
					continue
				}
				found = true
				if len(y.Values) == 0 {
					// the zero value counts only if some path reads the variable before it is assigned
					if zeroValueObserved(f, y, obj) {
						out = out.union(tsOf("nil"))
					}
				} else if i < len(y.Values) {
					out = out.union(e.Of(f, y.Values[i], depth+1))
				}
			}
		case *ast.RangeStmt:
			for _, kv := range []ast.Expr{y.Key, y.Value} {
				if kid, ok := kv.(*ast.Ident); ok && f.ObjOf(kid) == obj {
					found = true
					out = TS{Top: true}
				}
			}
		}
		return true
	})
	if !found {
		return TS{Top: true}
	}
	return out
}

func isParam(f *Func, obj *types.Var) bool { return paramIndex(f, obj) >= 0 }

func paramIndex(f *Func, obj *types.Var) int {
	i := 0
	for _, p := range f.Decl.Type.Params.List {
		if len(p.Names) == 0 {
			i++
			continue
		}
		for _, n := range p.Names {
			if f.ObjOf(n) == obj {
				return i
			}
			i++
		}
	}
	return -1
}

// ofField: union over every store to the struct field in the repository; nil
// when some composite literal of the struct omits the field.
func (e *tsEngine) ofField(v *types.Var, depth int) TS {
	if m, ok := e.fieldMem[v]; ok {
		return *m
	}
	placeholder := tsOf()
	e.fieldMem[v] = &placeholder
	out := tsOf()
	for _, name := range e.w.SortedFuncNames() {
		f := e.w.Funcs[name]
		ast.Inspect(f.Decl.Body, func(n ast.Node) bool {
			switch y := n.(type) {
			case *ast.AssignStmt:
				for i, l := range y.Lhs {
					sel, ok := ast.Unparen(l).(*ast.SelectorExpr)
					if !ok || fieldVar(f, sel) != v {
						continue
					}
					switch {
					case len(y.Rhs) == len(y.Lhs):
						out = out.union(e.Of(f, y.Rhs[i], depth+1))
					case len(y.Rhs) == 1:
						if call, ok := ast.Unparen(y.Rhs[0]).(*ast.CallExpr); ok {
							out = out.union(e.ofCall(f, call, i, depth+1))
						} else {
							out = TS{Top: true}
						}
					}
				}
			case *ast.UnaryExpr:
				if y.Op == token.AND {
					if sel, ok := ast.Unparen(y.X).(*ast.SelectorExpr); ok && fieldVar(f, sel) == v {
						out = TS{Top: true} // address taken
					}
				}
			case *ast.CompositeLit:
				st := structOf(f.TypeOf(y))
				if st == nil {
					return true
				}
				idx := -1
				for i := 0; i < st.NumFields(); i++ {
					if st.Field(i) == v {
						idx = i
					}
				}
				if idx < 0 {
					return true
				}
				set := false
				for i, el := range y.Elts {
					if kv, ok := el.(*ast.KeyValueExpr); ok {
						if id, ok := kv.Key.(*ast.Ident); ok && id.Name == v.Name() {
							out = out.union(e.Of(f, kv.Value, depth+1))
							set = true
						}
					} else if i == idx {
						out = out.union(e.Of(f, el, depth+1))
						set = true
					}
				}
				if !set {
					out = out.union(tsOf("nil"))
				}
			}
			return true
		})
	}
	// package-level composite literals (var x = T{...}) are rare for these AST types; ignored
	e.fieldMem[v] = &out
	return out
}

func structOf(t types.Type) *types.Struct {
	if t == nil {
		return nil
	}
	if p, ok := t.(*types.Pointer); ok {
		t = p.Elem()
	}
	s, _ := t.Underlying().(*types.Struct)
	return s
}

// zeroValueObserved: from the declaration `var v T` some path reaches a read of v without passing an assignment to v.
func zeroValueObserved(f *Func, spec *ast.ValueSpec, obj types.Object) bool {
	body := f.EnclosingBody(spec)
	if body == nil {
		return true
	}
	g := body.Graph()
	loc, ok := g.Locate(spec)
	if !ok {
		return true
	}
	hit, _ := g.Forward(&loc, nil, func(nn ast.Node, at Loc) Verdict {
		if as, ok := nn.(*ast.AssignStmt); ok {
			reads := false
			for _, r := range as.Rhs {
				if usesIn(f, r, obj) {
					reads = true
				}
			}
			if reads {
				return Hit
			}
			for _, l := range as.Lhs {
				if id, ok := ast.Unparen(l).(*ast.Ident); ok && f.ObjOf(id) == obj {
					return Cut
				}
			}
			for _, l := range as.Lhs {
				if usesIn(f, l, obj) {
					return Hit
				}
			}
			return Go
		}
		if nn == ast.Node(spec) {
			return Go
		}
		if usesIn(f, nn, obj) {
			return Hit
		}
		return Go
	}, nil)
	return hit
}
