package main

import (
	"go/ast"
	"go/constant"
	"go/token"
	"go/types"
	"strings"

	"golang.org/x/tools/go/cfg"
)

func init() {
	register(&Property{
		ID:    "C08",
		Run:   runC08,
		Floor: 14,
		Assumptions: []string{
			"values reach the store only through Tuple.Encode (engine Insert/Update paths) and cell bytes only through insertLeafCell/updateCell, split and decode",
		},
		NotDecided: "byte-exactness of strings through the vendored scanner's escape handling; 32-bit builds (strconv.Atoi is int-sized: the thorough tier analyses GOARCH=386 for compilation only); equality over all values (round trip is implied by codec symmetry, not executed).",
	})
	register(&Property{
		ID:    "C14",
		Run:   runC14,
		Floor: 6,
		Assumptions: []string{
			"row-validation failures are exactly the sentinels ErrColCountMismatch, ErrTypeMismatch, ErrIntOutOfRange, ErrRowTooLarge, ErrTableNotExist, ErrTableAlreadyExist; I/O errors are outside the property",
		},
		NotDecided: "equality of the states before and after a failing statement; effects of I/O errors. A refused oversized INSERT still advances the row-id and LSN counters (a skipped number, no table changes): not a subject.",
	})
}

func runC08(c *Ctx) {
	defer ruleLengthIsByteLength(c, "C08.21")
	defer ruleSizeWithBytes(c, "C08.18")
	defer ruleStoredBytesImmutable(c, "C08.19")
	defer ruleReadRecordOwnsPayload(c, "C08.20")
	c08ValidateDominates(c, "C08.1")
	c08IntRange(c, "C08.2")
	c08SizeGuard(c, "C08.3")
	c.Rule("C08.4", "the row codec (Tuple.Encode/Decode) and the schema codec (Relation.Encode/Decode) have equal wire grammars per column type: NULL marker byte, int32, int64, bool, u32 length + bytes; switch arms paired by type constant")
	checkCodecPair(c, "C08.4", "storage.(*Tuple).Encode", "storage.(*Tuple).Decode")
	checkCodecPair(c, "C08.4", "storage.(*Relation).Encode", "storage.(*Relation).Decode")
	c08Literals(c, "C08.5")
	c08FreshDecodeTarget(c, "C08.6")
	c08TypeMapping(c, "C08.7")
	ruleStripQuotes(c, "C08.8")
	ruleEncodeFreshBuffer(c, "C08.9")
	ruleMutatorAtomic(c, "C08.10")
	c01RootRelocation(c, "C08.11")
	c02RecordDescribes(c, "C08.12")
	c05KeywordLookup(c, "C08.13")
	ruleLogLengthBound(c, "C08.14")
	ruleRawReadOnBuffer(c, "C08.15", "storage.(*Tuple).Decode", "storage.(*Relation).Decode")
	ruleErrorsNotDropped(c, "C08.16", "storage.(*BTree).insert", "storage.(*RelationService).Insert")
	ruleVendoredEqualsUpstream(c, "C08.17", vendoredScanner)
}

// ---- C08.1 -----------------------------------------------------------------

func c08ValidateDominates(c *Ctx, rule string) {
	c.Rule(rule, "in Tuple.Encode every typed value write is dominated by the nil edge of fd.Validate(val) on that same value, and the NULL marker is written before it")
	f := c.NeedFunc(rule, "storage.(*Tuple).Encode")
	if f == nil {
		return
	}
	g := f.Graph()
	vals := f.Calls(f.Decl.Body, false, "storage.FieldDef.Validate")
	var sw *ast.SwitchStmt
	inspectBody(f.Decl.Body, func(x ast.Node) bool {
		if s, ok := x.(*ast.SwitchStmt); ok && sw == nil && s.Tag != nil {
			sw = s
		}
		return true
	})
	if sw == nil {
		c.Undecided(rule, f.Name+"|shape", "no switch over the column type in Tuple.Encode")
		return
	}
	// a typed write: any call that puts a column value on the wire, whichever library routine does it
	valueArg := map[*ast.CallExpr]ast.Expr{}
	var writes []*ast.CallExpr
	for _, call := range f.Calls(sw, false, "binary.Write", "bytes.Buffer.WriteByte", "bytes.Buffer.WriteString", "bytes.Buffer.Write",
		"binary.littleEndian.PutUint16", "binary.littleEndian.PutUint32", "binary.littleEndian.PutUint64") {
		var v ast.Expr
		switch {
		case f.CallIs(call, "binary.Write") && len(call.Args) == 3:
			v = call.Args[2]
		case f.CallIs(call, "bytes.Buffer.Write"):
			// the transfer of a scratch array that PutUintN filled is not a value write of its own
			if t := f.TypeOf(ast.Unparen(call.Args[0])); t != nil {
				if sl, ok := ast.Unparen(call.Args[0]).(*ast.SliceExpr); ok {
					if _, isArr := f.TypeOf(sl.X).Underlying().(*types.Array); isArr {
						continue
					}
				}
			}
			v = call.Args[0]
		case len(call.Args) == 2:
			v = call.Args[1]
		case len(call.Args) == 1:
			v = call.Args[0]
		}
		if v != nil {
			valueArg[call] = v
			writes = append(writes, call)
		}
	}
	if len(writes) < 4 {
		c.Undecided(rule, f.Name+"|writes", "only %d typed writes found", len(writes))
	}
	for i, wr := range writes {
		key := f.Name + "|typed-write#" + itoa(i+1)
		wl, _ := g.Locate(wr)
		ok := false
		// a write whose operand is an interface value (the arms computed a payload and one write emits it) has no
		// static type to check against the arm: the value's route from Validate is not followed
		{
			if t := f.TypeOf(valueArg[wr]); t != nil {
				if _, isIface := t.Underlying().(*types.Interface); isIface {
					c.Undecided(rule, key, "the value written at %s has interface type: which arm's value it is, and whether it passed Validate, is not decided", c.W.Pos(wr.Pos()))
					continue
				}
			}
		}
		for _, v := range vals {
			es := errSucc(f, g, f.Decl.Body, v)
			vl, _ := g.Locate(v)
			if es == nil || !g.Dominates(vl, wl) {
				continue
			}
			// not reachable through the error edge
			viaErr := false
			start := Loc{es, -1}
			g.Forward(&start, func(b *cfg.Block, si int) bool {
				k := b.Succs[si].Kind
				return k != cfg.KindRangeLoop && k != cfg.KindForLoop
			}, func(n ast.Node, at Loc) Verdict {
				if at == wl {
					viaErr = true
					return Hit
				}
				return Go
			}, nil)
			// Validate must be applied to the value that is written
			// (through locals: `str := val.(string)` … uint32(len(str)), or a byte chosen by `if val.(bool)`)
			written := f.provenanceText(valueArg[wr])
			// a constant chosen by a test of the value (`if val.(bool) { write(1) } else { write(0) }`) comes from it
			ast.Inspect(sw, func(y ast.Node) bool {
				if ifs, ok := y.(*ast.IfStmt); ok && ifs.Pos() <= wr.Pos() && wr.End() <= ifs.End() {
					written += " " + f.provenanceText(ifs.Cond)
				}
				return true
			})
			sameVal := len(v.Args) == 1 && strings.Contains(written, exprKey(v.Args[0]))
			if !viaErr && sameVal {
				ok = true
			}
		}
		if ok {
			c.OK(rule, key, wr.Pos(), 1, "dominated by the nil edge of Validate on the written value")
		} else {
			c.Fail(rule, key, wr.Pos(), "a typed value is encoded without having passed fd.Validate: a value of the wrong type or an out-of-range INT is stored truncated or panics the type assertion")
		}
	}
}

// ---- C08.2 -----------------------------------------------------------------------

// rejectInterval: cond rejects v when true; returns accepted [lo, hi] as big ints (nil = unbounded).
func rejectInterval(f *Func, cond ast.Expr, lo, hi *constant.Value) bool {
	e := ast.Unparen(cond)
	if u, ok := e.(*ast.UnaryExpr); ok && u.Op == token.NOT {
		e = ast.Unparen(negateExpr(u.X)) // !(a <= hi && a >= lo) rejects a > hi || a < lo
	}
	be, ok := e.(*ast.BinaryExpr)
	if !ok {
		return false
	}
	if be.Op == token.LOR {
		return rejectInterval(f, be.X, lo, hi) && rejectInterval(f, be.Y, lo, hi)
	}
	cv := f.constOf(be.Y)
	op := be.Op
	if cv == nil {
		cv = f.constOf(be.X)
		flip := map[token.Token]token.Token{token.LSS: token.GTR, token.LEQ: token.GEQ, token.GTR: token.LSS, token.GEQ: token.LEQ}
		if cv == nil {
			return false
		}
		op = flip[op]
	}
	cv = constant.ToInt(cv)
	one := constant.MakeInt64(1)
	switch op {
	case token.GTR: // reject v > C  => hi = C
		*hi = cv
	case token.GEQ: // reject v >= C => hi = C-1
		v := constant.BinaryOp(cv, token.SUB, one)
		*hi = v
	case token.LSS:
		*lo = cv
	case token.LEQ:
		v := constant.BinaryOp(cv, token.ADD, one)
		*lo = v
	default:
		return false
	}
	return true
}

func c08IntRange(c *Ctx, rule string) {
	c.Rule(rule, "the only narrowing conversion on the value path (int32 of an int64 in Tuple.Encode's INT arm) is guarded in Validate's INT arm by comparisons whose accepted interval, computed from operators and constants, is exactly [math.MinInt32, math.MaxInt32]; BIGINT is stored as the full int64")
	f := c.NeedFunc(rule, "storage.(*FieldDef).Validate")
	if f == nil {
		return
	}
	var arm *ast.CaseClause
	inspectBody(f.Decl.Body, func(x ast.Node) bool {
		if cc, ok := x.(*ast.CaseClause); ok {
			for _, e := range cc.List {
				if cst := f.namedConst(e); cst != nil && cst.Name() == "TypeInt" {
					arm = cc
				}
			}
		}
		return true
	})
	key := f.Name + "|int32-interval"
	// the INT arm may also be written `if f.DataType == TypeInt { … }`
	var armBody []ast.Stmt
	var armPos token.Pos
	if arm != nil {
		armBody, armPos = arm.Body, arm.Pos()
	} else {
		inspectBody(f.Decl.Body, func(x ast.Node) bool {
			if ifs, ok := x.(*ast.IfStmt); ok && armBody == nil {
				if be, ok := ast.Unparen(ifs.Cond).(*ast.BinaryExpr); ok && be.Op == token.EQL {
					for _, side := range []ast.Expr{be.X, be.Y} {
						if cst := f.namedConst(side); cst != nil && cst.Name() == "TypeInt" {
							armBody, armPos = ifs.Body.List, ifs.Pos()
						}
					}
				}
			}
			return true
		})
	}
	if armBody == nil {
		c.Fail(rule, key, f.Decl.Pos(), "Validate has no TypeInt arm")
		return
	}
	var lo, hi constant.Value
	found := false
	for _, st := range armBody {
		ifs, ok := st.(*ast.IfStmt)
		if !ok {
			continue
		}
		returnsRange := false
		ast.Inspect(ifs.Body, func(y ast.Node) bool {
			if id, ok := y.(*ast.Ident); ok && id.Name == "ErrIntOutOfRange" {
				returnsRange = true
			}
			return true
		})
		if !returnsRange {
			continue
		}
		var l, h constant.Value
		if rejectInterval(f, ifs.Cond, &l, &h) {
			found = true
			if l != nil {
				lo = l
			}
			if h != nil {
				hi = h
			}
		}
	}
	wantLo, wantHi := constant.MakeInt64(-2147483648), constant.MakeInt64(2147483647)
	switch {
	case !found:
		c.Fail(rule, key, armPos, "no range check returning ErrIntOutOfRange in the INT arm: values outside 32 bits are truncated by int32()")
	case lo == nil || hi == nil || !constant.Compare(lo, token.EQL, wantLo) || !constant.Compare(hi, token.EQL, wantHi):
		c.Fail(rule, key, armPos, "the INT arm accepts [%v, %v], not [-2147483648, 2147483647]: a boundary value is refused or an out-of-range value is stored truncated", lo, hi)
	default:
		c.OK(rule, key, armPos, 2, "accepted interval is exactly [MinInt32, MaxInt32]")
	}
	// the type test precedes the range test in each arm (Kind check)
	kinds := map[string]string{"TypeInt": "Int64", "TypeBigInt": "Int64", "TypeVarchar": "String", "TypeBoolean": "Bool"}
	inspectBody(f.Decl.Body, func(x ast.Node) bool {
		cc, ok := x.(*ast.CaseClause)
		if !ok {
			return true
		}
		for _, e := range cc.List {
			cst := f.namedConst(e)
			if cst == nil || kinds[cst.Name()] == "" {
				continue
			}
			want := kinds[cst.Name()]
			okKind := false
			ast.Inspect(cc, func(y ast.Node) bool {
				if be, ok := y.(*ast.BinaryExpr); ok && be.Op == token.NEQ {
					if sel, ok := ast.Unparen(be.Y).(*ast.SelectorExpr); ok && sel.Sel.Name == want {
						okKind = true
					}
				}
				return true
			})
			c.Check(okKind, rule, f.Name+"|kind|"+cst.Name(), cc.Pos(), "values of column type "+cst.Name()+" must have kind "+want, "the "+cst.Name()+" arm does not reject values whose kind is not "+want)
		}
		return true
	})
	// Encode: INT arm narrows with int32(val.(int64)), BIGINT writes int64
	if ef := c.W.F("storage.(*Tuple).Encode"); ef != nil {
		wi, probs := Grammar(ef, true, nil)
		if len(probs) > 0 {
			c.Undecided(rule, ef.Name+"|widths", "the wire grammar of Tuple.Encode could not be extracted (%s)", strings.Join(probs, "; "))
			wi = nil
		}
		var walk func(items []Item)
		widths := map[string]int{}
		walk = func(items []Item) {
			for _, it := range items {
				if it.Kind == itSwitch {
					for k, arm := range it.Arms {
						for _, a := range arm {
							if a.Kind == itScalar && widths[k] == 0 {
								widths[k] = a.Width
							}
						}
					}
				}
				walk(it.Body)
			}
		}
		walk(wi)
		if wi != nil {
			c.Check(widths["TypeInt"] == 4 && widths["TypeBigInt"] == 8 && widths["TypeBoolean"] == 1, rule, ef.Name+"|widths", ef.Decl.Pos(), "INT 4 bytes, BIGINT 8 bytes, BOOLEAN 1 byte", "column types are not encoded with widths INT=4, BIGINT=8, BOOLEAN=1")
		}
	}
}

// ---- C08.3 / C14.1 ----------------------------------------------------------------------

func c08SizeGuard(c *Ctx, rule string) { c08SizeGuardOpt(c, rule, true) }

func c08SizeGuardOpt(c *Ctx, rule string, coAssign bool) {
	c.Rule(rule, "every store of externally supplied bytes into a leaf cell (insertLeafCell, updateCell) is dominated by the nil edge of checkRowSizeLimit on those bytes, whose accepted interval is len <= maxValueSize; valueSize is co-assigned as uint32(len(bytes)) with every valueBytes store (copies made by split and decode are exempt by origin)")
	// the limit itself
	if f := c.NeedFunc(rule, "storage.checkRowSizeLimit"); f != nil {
		key := f.Name + "|limit"
		var lo, hi constant.Value
		okI := false
		inspectBody(f.Decl.Body, func(x ast.Node) bool {
			if ifs, ok := x.(*ast.IfStmt); ok {
				if rejectIntervalLen(f, ifs.Cond, &lo, &hi) {
					okI = true
				}
			}
			return true
		})
		max, _ := storageConst(c.W, "maxValueSize")
		if okI && hi != nil && constant.Compare(hi, token.EQL, constant.MakeInt64(max)) {
			c.OK(rule, key, f.Decl.Pos(), 1, "rows of up to maxValueSize = %d bytes are accepted, longer ones refused", max)
		} else {
			c.Fail(rule, key, f.Decl.Pos(), "checkRowSizeLimit does not accept exactly len <= maxValueSize (accepts up to %v): a row at the limit is refused or an oversized row is stored and overflows the page layout", hi)
		}
	}
	n := 0
	for _, name := range []string{"storage.(*btreeNode).insertLeafCell", "storage.(*btreeNode).updateCell"} {
		f := c.NeedFunc(rule, name)
		if f == nil {
			continue
		}
		g := f.Graph()
		guards := f.Calls(f.Decl.Body, false, "storage.checkRowSizeLimit")
		// the parameter holding the bytes
		var param types.Object
		for _, p := range f.Decl.Type.Params.List {
			for _, nm := range p.Names {
				if isByteSlice(f.ObjOf(nm).Type()) {
					param = f.ObjOf(nm)
				}
			}
		}
		if param == nil {
			c.Undecided(rule, name+"|param", "no []byte parameter")
			continue
		}
		// stores of the param into valueBytes (assignment or composite literal field)
		type st struct {
			n        ast.Node
			sizeExpr ast.Expr
		}
		var stores []st
		inspectBody(f.Decl.Body, func(x ast.Node) bool {
			switch y := x.(type) {
			case *ast.AssignStmt:
				for i, l := range y.Lhs {
					if sel, ok := ast.Unparen(l).(*ast.SelectorExpr); ok {
						if v := fieldVar(f, sel); v != nil && v.Name() == "valueBytes" && i < len(y.Rhs) {
							// the parameter itself, or a copy of it made on the spot (append(dst[:0], value...),
							// append([]byte(nil), value...), bytes.Clone(value))
							stored := false
							if id, ok := ast.Unparen(y.Rhs[i]).(*ast.Ident); ok && f.ObjOf(id) == param {
								stored = true
							} else if call, ok := ast.Unparen(y.Rhs[i]).(*ast.CallExpr); ok {
								for _, a := range call.Args {
									if id, ok := ast.Unparen(a).(*ast.Ident); ok && f.ObjOf(id) == param {
										stored = true
									}
								}
							}
							if stored {
								// find the sibling valueSize assignment in the same block on the same base
								var size ast.Expr
								if blk := innermostBlock(f.Decl.Body, y); blk != nil {
									for _, s2 := range blk.List {
										if as2, ok := s2.(*ast.AssignStmt); ok && len(as2.Lhs) == 1 && len(as2.Rhs) == 1 {
											if sel2, ok := ast.Unparen(as2.Lhs[0]).(*ast.SelectorExpr); ok {
												if v2 := fieldVar(f, sel2); v2 != nil && v2.Name() == "valueSize" && exprKey(sel2.X) == exprKey(sel.X) {
													size = as2.Rhs[0]
												}
											}
										}
									}
								}
								stores = append(stores, st{y, size})
							}
						}
					}
				}
			case *ast.CompositeLit:
				if t := f.TypeOf(y); t != nil && namedTypeIs(t, "storage", "leafCell") {
					if v := kvField(y, "valueBytes"); v != nil {
						if id, ok := ast.Unparen(v).(*ast.Ident); ok && f.ObjOf(id) == param {
							stores = append(stores, st{y, kvField(y, "valueSize")})
						}
					}
				}
			}
			return true
		})
		if len(stores) == 0 {
			c.Undecided(rule, name+"|stores", "no store of the value parameter into a cell found")
			continue
		}
		for i, s := range stores {
			n++
			key := name + "|value-store#" + itoa(i+1)
			sl, _ := g.Locate(s.n)
			guarded := false
			for _, gd := range guards {
				if len(gd.Args) != 1 {
					continue
				}
				if id, ok := ast.Unparen(gd.Args[0]).(*ast.Ident); !ok || f.ObjOf(id) != param {
					continue
				}
				gl, _ := g.Locate(gd)
				es := errSucc(f, g, f.Decl.Body, gd)
				if !g.Dominates(gl, sl) || es == nil {
					continue
				}
				viaErr := false
				start := Loc{es, -1}
				g.Forward(&start, nil, func(nn ast.Node, at Loc) Verdict {
					if at == sl {
						viaErr = true
						return Hit
					}
					return Go
				}, nil)
				if !viaErr {
					guarded = true
				}
			}
			sizeOK := false
			if s.sizeExpr != nil {
				inner := f.stripConv(s.sizeExpr)
				if call, ok := ast.Unparen(inner).(*ast.CallExpr); ok {
					if id, ok := call.Fun.(*ast.Ident); ok && id.Name == "len" && len(call.Args) == 1 {
						if aid, ok := ast.Unparen(call.Args[0]).(*ast.Ident); ok && f.ObjOf(aid) == param {
							sizeOK = true
						}
					}
				}
			}
			switch {
			case !guarded:
				c.Fail(rule, key, s.n.Pos(), "the value bytes are stored into the cell without (or before) the row-size check: an oversized row is stored (and the statement may still report ErrRowTooLarge), overflowing the page layout")
			case !sizeOK && coAssign:
				c.Fail(rule, key, s.n.Pos(), "valueBytes is stored without valueSize = uint32(len(value)) next to it: the page image then carries a stale length and the row reads back truncated or shifts the following cells after a reload")
			default:
				c.OK(rule, key, s.n.Pos(), 2, "guarded by checkRowSizeLimit; valueSize co-assigned")
			}
		}
	}
	// who else stores valueBytes? only split (via appendLeafCell), decode and the two above
	allowed := map[string]bool{"storage.(*btreeNode).insertLeafCell": true, "storage.(*btreeNode).updateCell": true, "storage.(*btreeNode).appendLeafCell": true, "storage.(*btreeNode).decodeLeaf": true}
	w := c.W
	for _, name := range w.SortedFuncNames() {
		f := w.Funcs[name]
		if f.Pkg != w.Pkgs["storage"] || allowed[name] {
			continue
		}
		ast.Inspect(f.Decl.Body, func(x ast.Node) bool {
			if as, ok := x.(*ast.AssignStmt); ok {
				for _, l := range as.Lhs {
					if sel, ok := ast.Unparen(l).(*ast.SelectorExpr); ok {
						if v := fieldVar(f, sel); v != nil && v.Name() == "valueBytes" {
							c.Fail(rule, name+"|foreign-value-store", as.Pos(), "cell bytes are stored outside insertLeafCell/updateCell/appendLeafCell/decodeLeaf: the size limit is bypassed")
						}
					}
				}
			}
			return true
		})
	}
	// appendLeafCell is only called by split (copies of already checked cells)
	if cg := w.CG(); w.F("storage.(*btreeNode).appendLeafCell") != nil {
		for _, cs := range cg.In[w.F("storage.(*btreeNode).appendLeafCell")] {
			key := cs.Caller.Name + "|appendLeafCell-caller"
			c.Check(cs.Caller.Name == "storage.(*btreeNode).split", rule, key, cs.Call.Pos(), "unchecked append is used by split only (copies of cells that passed the check)", "appendLeafCell (no size check) is called from "+cs.Caller.Name+": external bytes bypass the row-size limit")
		}
	}
	if n < 2 {
		c.Undecided(rule, "subjects", "fewer than 2 guarded value stores found")
	}
}

func rejectIntervalLen(f *Func, cond ast.Expr, lo, hi *constant.Value) bool {
	be, ok := ast.Unparen(cond).(*ast.BinaryExpr)
	if !ok {
		return false
	}
	call, ok := ast.Unparen(be.X).(*ast.CallExpr)
	if !ok {
		return false
	}
	if id, ok := call.Fun.(*ast.Ident); !ok || id.Name != "len" {
		return false
	}
	return rejectInterval(f, cond, lo, hi)
}

// ---- C08.5 ---------------------------------------------------------------------------------

func c08Literals(c *Ctx, rule string) {
	c.Rule(rule, "literal tokens become typed values faithfully: STR -> the token text, INT -> a base-10 conversion widened to int64 with its error returned, TRUE -> true, FALSE -> false")
	f := c.NeedFunc(rule, "sql.Token.Val")
	if f == nil {
		return
	}
	arms := map[string]*ast.CaseClause{}
	inspectBody(f.Decl.Body, func(x ast.Node) bool {
		if cc, ok := x.(*ast.CaseClause); ok {
			for _, e := range cc.List {
				if cst := f.namedConst(e); cst != nil {
					arms[cst.Name()] = cc
				}
			}
		}
		return true
	})
	retVal := func(cc *ast.CaseClause) ast.Expr {
		var out ast.Expr
		for _, st := range cc.Body {
			if r, ok := st.(*ast.ReturnStmt); ok && len(r.Results) == 2 && isNilIdent(f, ast.Unparen(r.Results[1])) {
				out = r.Results[0]
			}
		}
		return out
	}
	for _, spec := range []struct{ tok, want string }{{"STR", recvName(f) + ".Text"}, {"TRUE", "true"}, {"FALSE", "false"}} {
		key := f.Name + "|" + spec.tok
		cc := arms[spec.tok]
		if cc == nil {
			c.Fail(rule, key, f.Decl.Pos(), "Token.Val has no arm for %s", spec.tok)
			continue
		}
		v := retVal(cc)
		okVal := v != nil && exprKey(v) == spec.want
		// a merged TRUE/FALSE arm that returns `tag == TRUE` (or `tag != FALSE`) returns true exactly for TRUE
		if !okVal && v != nil && (spec.tok == "TRUE" || spec.tok == "FALSE") && len(cc.List) == 2 {
			if be, ok := ast.Unparen(v).(*ast.BinaryExpr); ok && strings.HasSuffix(exprKey(be.X), ".Type") {
				if cst := f.namedConst(be.Y); cst != nil {
					okVal = (be.Op == token.EQL && cst.Name() == "TRUE") || (be.Op == token.NEQ && cst.Name() == "FALSE")
				}
			}
		}
		c.Check(okVal, rule, key, cc.Pos(), spec.tok+" -> "+spec.want, "the "+spec.tok+" arm does not return "+spec.want)
	}
	key := f.Name + "|INT"
	if cc := arms["INT"]; cc == nil {
		c.Fail(rule, key, f.Decl.Pos(), "Token.Val has no arm for INT")
	} else {
		body := &ast.BlockStmt{List: cc.Body}
		ok := false
		detail := "no strconv conversion"
		for _, call := range f.Calls(body, false, "strconv.Atoi") {
			if len(call.Args) == 1 && exprKey(call.Args[0]) == recvName(f)+".Text" {
				ok = true
			}
		}
		for _, call := range f.Calls(body, false, "strconv.ParseInt") {
			if len(call.Args) == 3 && exprKey(call.Args[0]) == recvName(f)+".Text" {
				base := f.constOf(call.Args[1])
				bits := f.constOf(call.Args[2])
				if base != nil && base.String() == "10" && bits != nil && bits.String() != "64" {
					detail = "ParseInt with bit size " + exprKey(call.Args[2]) + ": a BIGINT literal above that width is refused although the column can hold it (the INT range is Validate's business, not the scanner's)"
				} else if base != nil && base.String() == "10" {
					ok = true
				} else {
					detail = "ParseInt with base " + exprKey(call.Args[1]) + ": literals with a leading 0 / 0x are read in another base (010 is stored as 8)"
				}
			}
		}
		// the conversion error is returned
		errRet := false
		ast.Inspect(body, func(y ast.Node) bool {
			if r, isRet := y.(*ast.ReturnStmt); isRet && len(r.Results) == 2 {
				if id, isId := ast.Unparen(r.Results[1]).(*ast.Ident); isId && !isNilIdent(f, id) && isErrorType(f.TypeOf(id)) {
					errRet = true
				}
			}
			return true
		})
		if ok && errRet {
			c.OK(rule, key, cc.Pos(), 2, "INT -> base-10 conversion of the token text, error returned")
		} else if ok {
			c.Fail(rule, key, cc.Pos(), "the conversion error of an INT literal is not returned")
		} else {
			c.Fail(rule, key, cc.Pos(), "INT literals are not converted base-10 from the token text (%s)", detail)
		}
	}
}

// ---- C08.6 -------------------------------------------------------------------------------------

func c08FreshDecodeTarget(c *Ctx, rule string) {
	c.Rule(rule, "Tuple.Decode leaves the map entry of a NULL column untouched, so every Decode must fill a map created for that one row: the Tuple literal (with Vals: make(...)) is created in the same function body or closure invocation as the Decode call, never captured from an enclosing scope or reused across loop iterations — or Decode itself stores nil for NULL columns")
	w := c.W
	dec := c.NeedFunc(rule, "storage.(*Tuple).Decode")
	if dec == nil {
		return
	}
	// does Decode assign on the NULL path?
	storesNil := false
	inspectBody(dec.Decl.Body, func(x ast.Node) bool {
		// the NULL marker, under whatever name: a boolean local that a read of the stream filled (&marker)
		isMarker := func(e ast.Expr) bool {
			id, ok := ast.Unparen(e).(*ast.Ident)
			if !ok {
				return false
			}
			if b, ok := dec.TypeOf(id).Underlying().(*types.Basic); !ok || b.Kind() != types.Bool {
				return false
			}
			filled := false
			ast.Inspect(dec.Decl.Body, func(y ast.Node) bool {
				if u, ok := y.(*ast.UnaryExpr); ok && u.Op == token.AND {
					if uid, ok := ast.Unparen(u.X).(*ast.Ident); ok && dec.ObjOf(uid) == dec.ObjOf(id) {
						filled = true
					}
				}
				return true
			})
			return filled
		}
		if ifs, ok := x.(*ast.IfStmt); ok && isMarker(ifs.Cond) {
			ast.Inspect(ifs.Body, func(y ast.Node) bool {
				if as, ok := y.(*ast.AssignStmt); ok {
					for _, l := range as.Lhs {
						if ix, ok := ast.Unparen(l).(*ast.IndexExpr); ok && strings.HasSuffix(exprKey(ix.X), ".Vals") {
							storesNil = true
						}
					}
				}
				return true
			})
		}
		return true
	})
	n := 0
	for _, name := range w.SortedFuncNames() {
		f := w.Funcs[name]
		if f.Pkg != w.Pkgs["storage"] {
			continue
		}
		for _, call := range f.Calls(f.Decl.Body, true, "storage.Tuple.Decode") {
			n++
			body := f.EnclosingBody(call)
			key := body.Name() + "|decode-target"
			if storesNil {
				c.OK(rule, key, call.Pos(), 1, "Decode stores nil for NULL columns itself")
				continue
			}
			recv, ok := ast.Unparen(call.Fun.(*ast.SelectorExpr).X).(*ast.Ident)
			if !ok {
				c.Undecided(rule, key, "Decode receiver is not a plain variable")
				continue
			}
			obj := f.ObjOf(recv)
			fresh := false
			inLoopOutside := false
			inspectBody(body.Node, func(x ast.Node) bool {
				as, ok := x.(*ast.AssignStmt)
				if !ok || as.Tok != token.DEFINE || len(as.Lhs) != 1 || len(as.Rhs) != 1 {
					return true
				}
				if id, ok := as.Lhs[0].(*ast.Ident); !ok || f.ObjOf(id) != obj {
					return true
				}
				if lit, ok := ast.Unparen(as.Rhs[0]).(*ast.CompositeLit); ok {
					if v := kvField(lit, "Vals"); v != nil {
						if mk, ok := ast.Unparen(v).(*ast.CallExpr); ok {
							if id, ok := mk.Fun.(*ast.Ident); ok && id.Name == "make" {
								fresh = true
								// the literal and the Decode must be in the same loop nesting
								l1 := enclosingLoop(body.Node, as)
								l2 := enclosingLoop(body.Node, call)
								if l1 != l2 {
									inLoopOutside = true
								}
							}
						}
					}
				}
				return true
			})
			switch {
			case !fresh:
				c.Fail(rule, key, call.Pos(), "the tuple decoded into is not created (with a fresh Vals map) in this function invocation: a NULL column keeps the value decoded for the previous row")
			case inLoopOutside:
				c.Fail(rule, key, call.Pos(), "the tuple decoded into is created outside the loop that decodes: a NULL column keeps the previous row's value")
			default:
				c.OK(rule, key, call.Pos(), 1, "decodes into a Tuple with a fresh map created in the same invocation")
			}
		}
	}
	if n < 4 {
		c.Undecided(rule, "subjects", "only %d Decode call sites found", n)
	}
}

// ---- C08.7 ------------------------------------------------------------------------------------------

func c08TypeMapping(c *Ctx, rule string) {
	c.Rule(rule, "column types map to themselves along parser -> CREATE TABLE -> storage: T_INT->NumericType->TypeInt, T_BIGINT->BigIntType->TypeBigInt, T_VARCHAR->CharacterStringType->TypeVarchar (with its length), T_BOOL->BooleanType->TypeBoolean (table frozen from the pinned tree, one row per SQL type)")
	want1 := map[string]string{"T_INT": "NumericType", "T_BIGINT": "BigIntType", "T_VARCHAR": "CharacterStringType", "T_BOOL": "BooleanType"}
	want2 := map[string]string{"NumericType": "TypeInt", "BigIntType": "TypeBigInt", "CharacterStringType": "TypeVarchar", "BooleanType": "TypeBoolean"}
	if f := c.NeedFunc(rule, "sql.(*Parser).TableElements"); f != nil {
		got := map[string]string{}
		inspectBody(f.Decl.Body, func(x ast.Node) bool {
			cc, ok := x.(*ast.CaseClause)
			if !ok {
				return true
			}
			for _, e := range cc.List {
				cst := f.namedConst(e)
				if cst == nil {
					continue
				}
				// the type assigned to te.ColumnDefinition.DataType in this arm
				for _, st := range cc.Body {
					ast.Inspect(st, func(y ast.Node) bool {
						as, ok := y.(*ast.AssignStmt)
						if !ok || len(as.Lhs) != 1 || len(as.Rhs) != 1 {
							return true
						}
						if sel, ok := ast.Unparen(as.Lhs[0]).(*ast.SelectorExpr); ok && sel.Sel.Name == "DataType" {
							if t := f.TypeOf(as.Rhs[0]); t != nil {
								if n, ok := t.(*types.Named); ok {
									got[cst.Name()] = n.Obj().Name()
								}
							}
						}
						return true
					})
				}
			}
			return true
		})
		// other spellings: if/else-if on the token type, and a table for the types without parameters
		g := f.Graph()
		var tagKeys []string
		ast.Inspect(f.Decl.Body, func(y ast.Node) bool {
			switch z := y.(type) {
			case *ast.SwitchStmt:
				if z.Tag != nil && strings.HasSuffix(exprKey(z.Tag), ".Type") {
					tagKeys = append(tagKeys, exprKey(z.Tag))
				}
			case *ast.BinaryExpr:
				if z.Op == token.EQL && strings.HasSuffix(exprKey(z.X), ".Type") {
					tagKeys = append(tagKeys, exprKey(z.X))
				}
			}
			return true
		})
		inspectBody(f.Decl.Body, func(y ast.Node) bool {
			as, ok := y.(*ast.AssignStmt)
			if !ok || len(as.Lhs) != 1 || len(as.Rhs) != 1 {
				return true
			}
			sel, ok := ast.Unparen(as.Lhs[0]).(*ast.SelectorExpr)
			if !ok || sel.Sel.Name != "DataType" {
				return true
			}
			if id, ok := ast.Unparen(as.Rhs[0]).(*ast.Ident); ok {
				if rhs, _, ok := f.definedBy(f.Decl.Body, f.ObjOf(id)); ok {
					if ix, ok := ast.Unparen(rhs).(*ast.IndexExpr); ok && strings.HasSuffix(exprKey(ix.Index), ".Type") {
						for k, v := range tableLiteral(f, ix.X) {
							if n, ok := f.TypeOf(v).(*types.Named); ok && got[k] == "" {
								got[k] = n.Obj().Name()
							}
						}
						return true
					}
				}
			}
			n, ok := f.TypeOf(as.Rhs[0]).(*types.Named)
			loc, located := g.Locate(as)
			if !ok || !located {
				return true
			}
			for tok := range want1 {
				for _, tk := range tagKeys {
					if got[tok] == "" && g.HoldsAt(loc, Rel{tk, token.EQL, tok}) {
						got[tok] = n.Obj().Name()
					}
				}
			}
			return true
		})
		if len(got) == 0 {
			c.Undecided(rule, f.Name+"|types", "no dispatch on the type keyword recognised in TableElements")
		} else {
			for tok, typ := range want1 {
				c.Check(got[tok] == typ, rule, f.Name+"|"+tok, f.Decl.Pos(), tok+" -> "+typ, "the parser maps "+tok+" to "+got[tok]+", expected "+typ)
			}
		}
	}
	if f := c.NeedFunc(rule, "engine.EvaluateCreateTable"); f != nil {
		got := map[string]string{}
		lenOK := false
		inspectBody(f.Decl.Body, func(x ast.Node) bool {
			cc, ok := x.(*ast.CaseClause)
			if !ok {
				return true
			}
			for _, e := range cc.List {
				tv, ok := f.Pkg.TypesInfo.Types[e]
				if !ok || !tv.IsType() {
					continue
				}
				n, ok := tv.Type.(*types.Named)
				if !ok {
					continue
				}
				for _, st := range cc.Body {
					if as, ok := st.(*ast.AssignStmt); ok && len(as.Lhs) == 1 && len(as.Rhs) == 1 {
						if sel, ok := ast.Unparen(as.Lhs[0]).(*ast.SelectorExpr); ok {
							if sel.Sel.Name == "DataType" {
								if cst := f.namedConst(as.Rhs[0]); cst != nil {
									got[n.Obj().Name()] = cst.Name()
								}
							}
							if sel.Sel.Name == "Len" && n.Obj().Name() == "CharacterStringType" {
								lenOK = true
							}
						}
					}
				}
			}
			return true
		})
		for typ, st := range want2 {
			c.Check(got[typ] == st, rule, f.Name+"|"+typ, f.Decl.Pos(), typ+" -> "+st, "CREATE TABLE maps "+typ+" to "+got[typ]+", expected "+st)
		}
		c.Check(lenOK, rule, f.Name+"|varchar-len", f.Decl.Pos(), "VARCHAR length carried over", "the VARCHAR length is not carried into the field definition")
	}
}

// =========================== C14 ==================================================================

var validationSentinels = map[string]bool{"ErrColCountMismatch": true, "ErrTypeMismatch": true, "ErrIntOutOfRange": true, "ErrRowTooLarge": true}

// returnsSentinel: the function body returns one of the validation sentinels directly.
func returnsSentinel(f *Func) []string {
	var out []string
	ast.Inspect(f.Decl.Body, func(x ast.Node) bool {
		if r, ok := x.(*ast.ReturnStmt); ok {
			for _, e := range r.Results {
				ast.Inspect(e, func(y ast.Node) bool {
					if id, ok := y.(*ast.Ident); ok && validationSentinels[id.Name] {
						out = append(out, id.Name)
					}
					return true
				})
			}
		}
		return true
	})
	return out
}

func coneSentinels(w *World, roots ...*Func) []string {
	set := map[string]bool{}
	for f := range w.CG().Reach(roots...) {
		for _, s := range returnsSentinel(f) {
			set[s] = true
		}
	}
	var out []string
	for s := range set {
		out = append(out, s)
	}
	sortStrings(out)
	return out
}

func runC14(c *Ctx) {
	defer ruleStampAfterSuccess(c, "C14.19")
	defer rulePrecheckChecksEveryRow(c, "C14.18")
	defer ruleStoredBytesImmutable(c, "C14.17")
	c14RowValidationFirst(c, "C14.1")
	c08SizeGuardOpt(c, "C14.1s", false)
	c14StatementLoops(c, "C14.2")
	c14CreateTable(c, "C14.3")
	ruleCatalogNameMatch(c, "C14.4")
	ruleEncodeFreshBuffer(c, "C14.5")
	ruleLoopOnlyMutatorFails(c, "C14.6")
	ruleMutatorAtomic(c, "C14.7")
	ruleErrorsNotDropped(c, "C14.8", "storage.(*BTree).insert", "storage.(*RelationService).Insert")
	rulePostMutationInfallible(c, "C14.9")
	c08Literals(c, "C14.10")
	ruleNoRedundantSwitchBreak(c, "C14.11", "storage", "engine")
	ruleNoStateBeforeRefusal(c, "C14.12")
	c14CreateAtomic(c, "C14.13")
	ruleLogLengthBound(c, "C14.14")
	ruleUpdateValuesLoopInvariant(c, "C14.15")
	rulePrecheckSameRows(c, "C14.16")
}

func c14RowValidationFirst(c *Ctx, rule string) {
	c.Rule(rule, "per row, validation precedes the first change: in RelationService.Insert the tree insert is dominated by the nil edges of the table lookup, the column-count test and Tuple.Encode (type/range validation); in the Update callback updateCell is dominated by the nil edge of Tuple.Encode and nothing is marked dirty or logged on updateCell's error edge")
	f := c.NeedFunc(rule, "storage.(*RelationService).Insert")
	if f != nil {
		g := f.Graph()
		ins := f.Calls(f.Decl.Body, false, "storage.BTree.insert")
		key := f.Name + "|validate-before-insert"
		if len(ins) != 1 {
			c.Undecided(rule, key, "expected one BTree.insert call")
		} else {
			il, _ := g.Locate(ins[0])
			var problems []string
			for _, need := range []struct{ callee, what string }{{"storage.Tuple.Encode", "Tuple.Encode"}, {"storage.RelationService.getRelationFileOffset", "table lookup"}} {
				okD := false
				for _, call := range f.Calls(f.Decl.Body, false, need.callee) {
					cl, _ := g.Locate(call)
					es := errSucc(f, g, f.Decl.Body, call)
					if es != nil && g.Dominates(cl, il) && !g.BlockDominates(es, il.B) {
						okD = true
					}
				}
				if !okD {
					problems = append(problems, "the insert is not dominated by the success of "+need.what)
				}
			}
			// column count
			okCount := false
			inspectBody(f.Decl.Body, func(x ast.Node) bool {
				if ifs, ok := x.(*ast.IfStmt); ok {
					returns := false
					ast.Inspect(ifs.Body, func(y ast.Node) bool {
						if id, ok := y.(*ast.Ident); ok && id.Name == "ErrColCountMismatch" {
							returns = true
						}
						return true
					})
					if returns {
						if cl, ok := g.Locate(ifs.Cond); ok && g.Dominates(cl, il) {
							okCount = true
						}
					}
				}
				return true
			})
			if !okCount {
				problems = append(problems, "the column-count test does not dominate the insert")
			}
			if len(problems) > 0 {
				c.Fail(rule, key, ins[0].Pos(), "%v: a row that is going to be refused has already been stored", problems)
			} else {
				c.OK(rule, key, ins[0].Pos(), 3, "lookup, column count and Encode (type/range) all succeed before the row is stored")
			}
		}
	}
	uf := c.NeedFunc(rule, "storage.(*RelationService).Update")
	if uf != nil {
		for _, up := range uf.Calls(uf.Decl.Body, true, "storage.btreeNode.updateCell") {
			body := uf.EnclosingBody(up)
			g := body.Graph()
			key := body.Name() + "|validate-before-update"
			ul, _ := g.Locate(up)
			okEnc := false
			for _, enc := range uf.Calls(body.Node, false, "storage.Tuple.Encode") {
				el, _ := g.Locate(enc)
				es := errSucc(uf, g, body.Node, enc)
				if es != nil && g.Dominates(el, ul) && !g.BlockDominates(es, ul.B) {
					okEnc = true
				}
			}
			// on updateCell's error edge: no markDirty / literal
			es := errSucc(uf, g, body.Node, up)
			leak := false
			if es != nil {
				start := Loc{es, -1}
				g.Forward(&start, nil, func(nn ast.Node, at Loc) Verdict {
					if g.containsCall(nn, "storage.btreeNode.markDirty") != nil {
						leak = true
						return Hit
					}
					return Go
				}, nil)
			}
			switch {
			case !okEnc:
				c.Fail(rule, key, up.Pos(), "updateCell is not dominated by the success of Tuple.Encode")
			case es == nil:
				c.Fail(rule, key, up.Pos(), "the error of updateCell (row too large) is not examined")
			case leak:
				c.Fail(rule, key, up.Pos(), "the page is marked dirty on the path where updateCell refused the row")
			default:
				c.OK(rule, key, up.Pos(), 3, "Encode succeeds before updateCell; nothing is marked on updateCell's error edge")
			}
		}
	}
}

func c14StatementLoops(c *Ctx, rule string) {
	c.Rule(rule, "a statement loop that applies one logged mutator per row must not be able to fail with a row-validation error after an earlier iteration has changed pages: either the mutator's call cone returns no validation sentinel, or all rows are validated before the first one is applied")
	w := c.W
	cg := w.CG()
	n := 0
	for _, name := range w.SortedFuncNames() {
		f := w.Funcs[name]
		if f.Pkg == w.Pkgs["storage"] {
			continue
		}
		for _, cs := range cg.Sites[f] {
			if !returnsWALBatch(cs.Callee) {
				continue
			}
			loop := enclosingLoop(f.Decl.Body, cs.Call)
			if loop == nil {
				continue
			}
			n++
			key := f.Name + "|loop|" + calleeKey(cs.Callee)
			// a mutator call nested in a second loop (per assignment, per column) is a different construct from
			// the per-row loop: it gets its own key, so a recorded finding about the row loop does not cover it
			depth := 0
			for l := ast.Stmt(loop); l != nil; l = enclosingLoop(f.Decl.Body, l) {
				depth++
				if depth > 8 {
					break
				}
			}
			if depth > 1 {
				key = f.Name + "|loop^" + itoa(depth) + "|" + calleeKey(cs.Callee)
			}
			// nothing else in the loop can refuse the statement: an error exit of the loop body that is not the
			// mutator's own (a WHERE clause evaluated row by row, a value converted inside the loop) leaves the
			// rows before it applied
			{
				var lb *ast.BlockStmt
				switch l := loop.(type) {
				case *ast.RangeStmt:
					lb = l.Body
				case *ast.ForStmt:
					lb = l.Body
				}
				sig, _ := f.TypeOf(cs.Call.Fun).(*types.Signature)
				var mutErr types.Object
				if sig != nil && sig.Results().Len() > 0 {
					mutErr = f.resultVar(f.Decl.Body, cs.Call, sig.Results().Len()-1)
				}
				otherExit := token.NoPos
				what := ""
				if lb != nil {
					inspectBody(lb, func(x ast.Node) bool {
						r, ok := x.(*ast.ReturnStmt)
						if !ok || len(r.Results) == 0 {
							return true
						}
						last := ast.Unparen(r.Results[len(r.Results)-1])
						if isNilIdent(f, last) || !isErrorType(f.TypeOf(last)) {
							return true
						}
						if id, ok := last.(*ast.Ident); ok && mutErr != nil && f.ObjOf(id) == mutErr && r.Pos() > cs.Call.Pos() {
							return true // the mutator's own error
						}
						if !otherExit.IsValid() {
							otherExit, what = r.Pos(), f.Src(last)
						}
						return true
					})
				}
				k2 := key + "|no-other-refusal"
				if otherExit.IsValid() {
					c.FailConfined(rule, k2, otherExit, "the loop that applies %s row by row can also leave with the error %s, which is not the mutator's own: a row for which this happens is reached after rows 1..k-1 have been applied, so the failing statement changes the table (everything that can refuse the statement belongs before the first mutation)", calleeKey(cs.Callee), what)
				} else {
					c.OK(rule, k2, cs.Call.Pos(), 1, "the mutator's error is the loop's only error exit")
				}
			}
			sent := coneSentinels(w, cs.Targets...)
			if len(sent) == 0 {
				c.OK(rule, key, cs.Call.Pos(), len(cg.Reach(cs.Targets...)), "the mutator's call cone returns no row-validation error")
				continue
			}
			// a preceding validation pass over the same rows?
			prevalidated := false
			inspectBody(f.Decl.Body, func(x ast.Node) bool {
				var l2 ast.Stmt
				switch y := x.(type) {
				case *ast.RangeStmt:
					l2 = y
				case *ast.ForStmt:
					l2 = y
				}
				if l2 == nil || l2 == loop || l2.Pos() > loop.Pos() {
					return true
				}
				for _, cs2 := range cg.Sites[f] {
					if cs2.Call.Pos() >= l2.Pos() && cs2.Call.End() <= l2.End() && !returnsWALBatch(cs2.Callee) {
						s2 := coneSentinels(w, cs2.Targets...)
						if len(s2) >= len(sent) {
							prevalidated = true
						}
					}
				}
				return true
			})
			if prevalidated {
				c.OK(rule, key, cs.Call.Pos(), 2, "all rows are validated by an earlier pass")
			} else {
				c.Fail(rule, key, cs.Call.Pos(), "row k of a multi-row statement can be refused (%s) after rows 1..k-1 have been applied and left unlogged: the failing statement changes the table", strings.Join(sent, ", "))
			}
		}
	}
	if n < 3 {
		c.Undecided(rule, "subjects", "only %d per-row mutator loops found", n)
	}
}

func c14CreateTable(c *Ctx, rule string) {
	c.Rule(rule, "CREATE TABLE refuses a duplicate before touching anything: the existence test (lookup returning ErrTableNotExist, otherwise ErrTableAlreadyExist) dominates the page allocation and both catalog inserts")
	var f *Func
	for _, name := range []string{"storage.(*RelationService).createTable", "storage.(*RelationService).CreateTable"} {
		if cand := c.W.F(name); cand != nil && len(cand.Calls(cand.Decl.Body, false, "storage.RelationService.createPage")) > 0 {
			f = cand
		}
	}
	if f == nil {
		c.Undecided(rule, "anchor|createTable", "no function allocating the table's first page found")
		return
	}
	g := f.Graph()
	var test *ast.IfStmt
	inspectBody(f.Decl.Body, func(x ast.Node) bool {
		if ifs, ok := x.(*ast.IfStmt); ok && test == nil {
			ret := false
			ast.Inspect(ifs.Body, func(y ast.Node) bool {
				if id, ok := y.(*ast.Ident); ok && id.Name == "ErrTableAlreadyExist" {
					ret = true
				}
				return true
			})
			if ret {
				test = ifs
			}
		}
		return true
	})
	key := f.Name + "|exists-before-create"
	if test == nil {
		c.Fail(rule, key, f.Decl.Pos(), "no duplicate-table test returning ErrTableAlreadyExist")
		return
	}
	tl, _ := g.Locate(test.Cond)
	var bad []string
	for _, call := range f.Calls(f.Decl.Body, false, "storage.RelationService.createPage", "storage.RelationService.insertPageTable", "storage.RelationService.insertSchemaTable") {
		cl, _ := g.Locate(call)
		if !g.Dominates(tl, cl) {
			bad = append(bad, calleeKey(f.Callee(call)))
		}
	}
	if len(bad) > 0 {
		c.Fail(rule, key, test.Pos(), "%v run before the duplicate-table test: a refused CREATE TABLE leaves pages or catalog rows behind", bad)
	} else {
		c.OK(rule, key, test.Pos(), 3, "page allocation and both catalog inserts are dominated by the existence test")
	}
	// polarity: error unless lookup says ErrTableNotExist
	be, ok := ast.Unparen(test.Cond).(*ast.BinaryExpr)
	okPol := ok && be.Op == token.NEQ && strings.HasSuffix(exprKey(be.Y), "ErrTableNotExist")
	if u, isNot := ast.Unparen(test.Cond).(*ast.UnaryExpr); isNot && u.Op == token.NOT {
		// !errors.Is(err, ErrTableNotExist)
		if _, y, isIs := errorsIsOperands(u.X); isIs && strings.HasSuffix(exprKey(y), "ErrTableNotExist") {
			okPol = true
		}
	}
	c.Check(okPol, rule, f.Name+"|exists-polarity", test.Pos(), "refused unless the lookup reports ErrTableNotExist", "the duplicate test does not refuse exactly when the lookup did not report ErrTableNotExist")
}
