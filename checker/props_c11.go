package main

import (
	"go/ast"
	"go/token"
	"go/types"

	"golang.org/x/tools/go/cfg"
)

func init() {
	register(&Property{
		ID:    "C11",
		Run:   runC11,
		Floor: 14,
		Assumptions: []string{
			"keys arrive in ascending order (append-at-rightmost-leaf), so `offsets` is the identity on its prefix; direct indexing of the cell slices in updateCell, split's internal arm and replay is therefore harmless and only reported as an advisory note",
		},
		NotDecided: "key order, separator bounds and equal depth as inductive invariants over histories; that the split midpoint balances the tree.",
	})
}

func runC11(c *Ctx) {
	defer borrow(c, runC12, "C12.2", "C11.27", "", "no node over capacity and every cell where the layout puts it: the page-layout arithmetic over the extracted grammar and the declared constants holds (C12.2) — a cell size constant that counts a field too narrow lets a node outgrow its page")
	defer c04FlushOrder(c, "C11.25")
	defer func() {
		c.Rule("C11.26", "the tree read back from disk is the tree that was written: the page codecs are symmetric item by item — both sibling links, the rightmost child, every cell (C12.1)")
		checkCodecPair(c, "C11.26", "storage.(*btreeNode).encodeLeaf", "storage.(*btreeNode).decodeLeaf")
		checkCodecPair(c, "C11.26", "storage.(*btreeNode).encodeInternal", "storage.(*btreeNode).decodeInternal")
	}()
	c11SiblingLinks(c, "C11.1")
	c11Fullness(c, "C11.2")
	c11SplitArithmetic(c, "C11.3")
	c01Tombstone(c, "C11.3t")
	c11Allocator(c, "C11.4")
	c11NewRoot(c, "C11.5")
	c11MarkDirty(c, "C11.6")
	ruleAppendedPageDirty(c, "C11.24")
	c11ParentUpdate(c, "C11.7")
	c01RootRelocation(c, "C11.8")
	ruleCatalogNameMatch(c, "C11.9")
	c02RedoGuard(c, "C11.10")
	ruleStaleDerived(c, "C11.11")
	c04PageLSN(c, "C11.12")
	ruleDescentAgreement(c, "C11.13")
	ruleNoDeadStores(c, "C11.14", "storage")
	ruleSizeWithBytes(c, "C11.15")
	c17Existence(c, "C11.16")
	ruleFlushLoopComplete(c, "C11.17")
	borrow(c, runC12, "C12.2", "C11.18", "storage.(*btreeNode).isFull", "no node over capacity: isFull — the split trigger of insertLeaf/insertInternal — compares the node's whole occupancy (every cell, tombstones included: they take room on the page) with exactly the capacity constants the page layout was computed for (C12.2)")
	c.Rule("C11.19", "the tree on disk changes only through the flush: the data file (pages and the header with the allocation pointer) is written only inside the exclusive section of the flush — a header or page written on its own makes the file describe an allocation the pages do not have, and after a crash the reloaded tree reaches pages twice or not at all (C04.1)")
	checkDataFileWrites(c, "C11.19")
	c02RecordDescribes(c, "C11.20")
	ruleSeparatorIsFirstKey(c, "C11.21")
	rulePagesOnlyGrow(c, "C11.22")
	ruleRootCarriedThroughLoop(c, "C11.23")
	// advisory: direct indexing
	for _, name := range []string{"storage.(*btreeNode).updateCell", "storage.(*btreeNode).split", "storage.WALBatch.replay"} {
		f := c.W.F(name)
		if f == nil {
			continue
		}
		inspectBody(f.Decl.Body, func(x ast.Node) bool {
			ix, ok := x.(*ast.IndexExpr)
			if !ok {
				return true
			}
			sel, ok := ast.Unparen(ix.X).(*ast.SelectorExpr)
			if !ok {
				return true
			}
			v := fieldVar(f, sel)
			if v == nil || (v.Name() != "leafCells" && v.Name() != "internalCells") {
				return true
			}
			direct := true
			ast.Inspect(ix.Index, func(y ast.Node) bool {
				if id, ok := y.(*ast.Ident); ok && id.Name == "len" {
					direct = false
				}
				if s2, ok := y.(*ast.SelectorExpr); ok {
					if v2 := fieldVar(f, s2); v2 != nil && v2.Name() == "offsets" {
						direct = false
					}
				}
				return true
			})
			if direct {
				c.Note("advisory (not armed): %s indexes %s directly at %s instead of through offsets; harmless while keys are append-only (offsets is the identity)", name, v.Name(), c.W.Pos(ix.Pos()))
			}
			return true
		})
	}
}

// fieldStore describes `X.field = rhs` with X an identifier.
type fieldStore struct {
	as    *ast.AssignStmt
	obj   types.Object
	field string
	rhs   ast.Expr
}

func fieldStores(f *Func, body ast.Node) []fieldStore {
	var out []fieldStore
	inspectBody(body.(*ast.BlockStmt), func(x ast.Node) bool {
		as, ok := x.(*ast.AssignStmt)
		if !ok || len(as.Lhs) != len(as.Rhs) {
			return true
		}
		for i, l := range as.Lhs {
			sel, ok := ast.Unparen(l).(*ast.SelectorExpr)
			if !ok {
				continue
			}
			v := fieldVar(f, sel)
			id, isId := ast.Unparen(sel.X).(*ast.Ident)
			if v == nil || !isId {
				continue
			}
			out = append(out, fieldStore{as, f.ObjOf(id), v.Name(), as.Rhs[i]})
		}
		return true
	})
	return out
}

// offsetOf: rhs is `Y.fileOffset` or `Y.getFileOffset()` -> object Y.
func offsetOf(f *Func, e ast.Expr) types.Object {
	e = ast.Unparen(e)
	if call, ok := e.(*ast.CallExpr); ok && f.CallIs(call, "storage.btreeNode.getFileOffset") {
		e = call.Fun.(*ast.SelectorExpr).X
		if id, ok := ast.Unparen(e).(*ast.Ident); ok {
			return f.ObjOf(id)
		}
		return nil
	}
	if sel, ok := e.(*ast.SelectorExpr); ok {
		if v := fieldVar(f, sel); v != nil && v.Name() == "fileOffset" {
			if id, ok := ast.Unparen(sel.X).(*ast.Ident); ok {
				return f.ObjOf(id)
			}
		}
	}
	return nil
}

func c11SiblingLinks(c *Ctx, rule string) {
	c.Rule(rule, "sibling links are assigned in matched pairs: whenever a leaf's right (left) link is pointed at page Y, the has-link flag is set with it and Y's left (right) link is pointed back at that leaf on the same paths (Y identified directly, or through fetch(offset) when the link value is a saved offset)")
	f := c.NeedFunc(rule, "storage.(*BTree).insertLeaf")
	if f == nil {
		return
	}
	g := f.Graph()
	stores := fieldStores(f, f.Decl.Body)
	has := func(obj types.Object, field string, pred func(fs fieldStore) bool, from fieldStore) bool {
		floc, _ := g.Locate(from.as)
		for _, s := range stores {
			if s.obj == obj && s.field == field && (pred == nil || pred(s)) {
				sloc, _ := g.Locate(s.as)
				// on the same paths: one dominates the other
				if g.Dominates(floc, sloc) || g.Dominates(sloc, floc) || floc == sloc {
					return true
				}
			}
		}
		return false
	}
	n := 0
	for _, s := range stores {
		var flag, back, backFlag string
		switch s.field {
		case "rSibFileOffset":
			flag, back, backFlag = "hasRSib", "lSibFileOffset", "hasLSib"
		case "lSibFileOffset":
			flag, back, backFlag = "hasLSib", "rSibFileOffset", "hasRSib"
		default:
			continue
		}
		n++
		key := f.Name + "|link|" + s.obj.Name() + "." + s.field
		isTrue := func(fs fieldStore) bool { cv := f.constOf(fs.rhs); return cv != nil && cv.String() == "true" }
		var problems []string
		// the flag: set in this function, unless the object is a fetched existing sibling (its flag is already set)
		fetched := false
		for _, fc := range f.Calls(f.Decl.Body, false, "storage.*.fetch") {
			if f.resultVar(f.Decl.Body, fc, 0) == s.obj {
				fetched = true
			}
		}
		if !fetched && !has(s.obj, flag, isTrue, s) {
			problems = append(problems, s.obj.Name()+"."+flag+" is not set together with the link")
		}
		if Y := offsetOf(f, s.rhs); Y != nil {
			// direct: Y.back = off(s.obj), Y.backFlag = true  (unless this store IS the back link of an already checked pair)
			backOK := has(Y, back, func(fs fieldStore) bool {
				if offsetOf(f, fs.rhs) == s.obj {
					return true
				}
				// Y.back = saved, where s.obj = fetch(saved)
				if id, ok := ast.Unparen(fs.rhs).(*ast.Ident); ok {
					for _, fc := range f.Calls(f.Decl.Body, false, "storage.*.fetch") {
						if len(fc.Args) == 1 && f.resultVar(f.Decl.Body, fc, 0) == s.obj {
							if aid, ok := ast.Unparen(fc.Args[0]).(*ast.Ident); ok && f.ObjOf(aid) == f.ObjOf(id) {
								return true
							}
						}
					}
				}
				return false
			}, s)
			if !backOK {
				problems = append(problems, Y.Name()+"."+back+" is not pointed back at "+s.obj.Name())
			}
			yFetched := false
			for _, fc := range f.Calls(f.Decl.Body, false, "storage.*.fetch") {
				if f.resultVar(f.Decl.Body, fc, 0) == Y {
					yFetched = true
				}
			}
			if !yFetched && !has(Y, backFlag, isTrue, s) {
				problems = append(problems, Y.Name()+"."+backFlag+" is not set")
			}
		} else if id, ok := ast.Unparen(s.rhs).(*ast.Ident); ok {
			// saved offset: R := fetch(saved); R.back = off(s.obj)
			saved := f.ObjOf(id)
			okBack := false
			for _, fc := range f.Calls(f.Decl.Body, false, "storage.*.fetch") {
				if len(fc.Args) == 1 {
					if aid, ok := ast.Unparen(fc.Args[0]).(*ast.Ident); ok && f.ObjOf(aid) == saved {
						R := f.resultVar(f.Decl.Body, fc, 0)
						if R != nil && has(R, back, func(fs fieldStore) bool { return offsetOf(f, fs.rhs) == s.obj }, s) {
							okBack = true
						}
					}
				}
			}
			if !okBack {
				problems = append(problems, "the page at the saved offset "+saved.Name()+" is not fetched and pointed back at "+s.obj.Name())
			}
			// the saved offset must be the old link of the node being split, read before it is overwritten
			savedOK := false
			for _, as := range f.assignsTo(f.Decl.Body, saved) {
				if len(as.Rhs) == 1 {
					if sel, ok := ast.Unparen(as.Rhs[0]).(*ast.SelectorExpr); ok {
						if v := fieldVar(f, sel); v != nil && v.Name() == s.field {
							// must precede the overwrite of that field on the same object
							savedOK = true
							for _, o := range stores {
								if o.field == s.field && exprKey(sel.X) == o.obj.Name() && o.as.Pos() < as.Pos() {
									savedOK = false
								}
							}
						}
					}
				}
			}
			if !savedOK {
				problems = append(problems, "the saved offset "+saved.Name()+" is not the node's old "+s.field+" read before it is overwritten")
			}
		} else {
			c.Undecided(rule, key, "link value %s not recognised", exprKey(s.rhs))
			continue
		}
		if len(problems) > 0 {
			c.Fail(rule, key, s.as.Pos(), "%v: the left-to-right and right-to-left leaf chains diverge", problems)
		} else {
			c.OK(rule, key, s.as.Pos(), 3, "flag set and back link assigned on the same paths")
		}
	}
	if n < 3 {
		c.Undecided(rule, "subjects", "only %d sibling-link stores found in insertLeaf", n)
	}
}

func c11Fullness(c *Ctx, rule string) {
	c.Rule(rule, "no node can be left over capacity: after a cell is added to the current node (directly in insertLeaf, through the recursive call that receives it as `parent` in insertInternal) every success return is preceded by a test of that node's isFull(), whose full edge leads to split")
	for _, spec := range []struct {
		fn   string
		adds []string
	}{
		{"storage.(*BTree).insertLeaf", []string{"storage.btreeNode.insertLeafCell"}},
		{"storage.(*BTree).insertInternal", []string{"storage.BTree.insertLeaf", "storage.BTree.insertInternal"}},
	} {
		f := c.NeedFunc(rule, spec.fn)
		if f == nil {
			continue
		}
		g := f.Graph()
		adds := f.Calls(f.Decl.Body, false, spec.adds...)
		if len(adds) == 0 {
			c.Undecided(rule, spec.fn+"|adds", "no cell-adding call found")
			continue
		}
		cur := paramName(f, 1) // the node being inserted into (second parameter of both functions)
		for i, a := range adds {
			key := spec.fn + "|add#" + itoa(i+1)
			loc, _ := g.Locate(a)
			miss, _ := g.Forward(&loc, g.SuccessEdges, func(nn ast.Node, at Loc) Verdict {
				for _, fc := range f.Calls(nn, false, "storage.btreeNode.isFull") {
					if id, ok := ast.Unparen(fc.Fun.(*ast.SelectorExpr).X).(*ast.Ident); ok && id.Name == cur {
						return Cut
					}
				}
				if r, ok := nn.(*ast.ReturnStmt); ok {
					if g.ReturnMayBeNil(r) {
						return Hit
					}
					return Cut
				}
				return Go
			}, func(b *cfg.Block) Verdict { return Hit })
			if miss {
				c.Fail(rule, key, a.Pos(), "after a cell is added to curNode a success return is reachable without testing curNode.isFull(): the node can exceed the capacity the page layout allows and the encoder panics inside the flush")
			} else {
				c.OK(rule, key, a.Pos(), 1, "curNode.isFull() is tested on every success path after the add")
			}
		}
		// the full edge leads to split
		key := spec.fn + "|full-edge-splits"
		okSplit := false
		for _, b := range g.c.Blocks {
			if !g.Reachable(b) || len(b.Succs) != 2 {
				continue
			}
			info, ok := g.EdgeInfo(b, 0)
			if !ok {
				continue
			}
			cond := ast.Unparen(info.Cond)
			neg := false
			if u, ok := cond.(*ast.UnaryExpr); ok && u.Op == token.NOT {
				neg, cond = true, ast.Unparen(u.X)
			}
			call, ok := cond.(*ast.CallExpr)
			if !ok || !f.CallIs(call, "storage.btreeNode.isFull") {
				continue
			}
			fullSucc := b.Succs[0]
			if neg {
				fullSucc = b.Succs[1]
			}
			for _, sp := range f.Calls(f.Decl.Body, false, "storage.btreeNode.split") {
				if sl, ok := g.Locate(sp); ok && g.BlockDominates(fullSucc, sl.B) {
					okSplit = true
				}
			}
		}
		c.Check(okSplit, rule, key, f.Decl.Pos(), "split is reached exactly on the full edge", "the isFull() test does not lead to split on its full edge")
	}
	// the same obligation for every other caller: whoever hands a node to insertLeaf / insertInternal as `parent`
	// (where a split of the child adds a separator to it) tests that node's fullness afterwards
	for _, name := range c.W.SortedFuncNames() {
		f := c.W.Funcs[name]
		if f.Pkg != c.W.Pkgs["storage"] || f.Name == "storage.(*BTree).insertInternal" {
			continue
		}
		for i, call := range f.Calls(f.Decl.Body, false, "storage.BTree.insertLeaf", "storage.BTree.insertInternal") {
			if len(call.Args) == 0 || isNilIdent(f, ast.Unparen(call.Args[0])) {
				continue
			}
			key := f.Name + "|hands-parent#" + itoa(i+1)
			pid, ok := ast.Unparen(call.Args[0]).(*ast.Ident)
			if !ok {
				c.Undecided(rule, key, "the parent handed to %s is not a plain variable", exprKey(call.Fun))
				continue
			}
			g := f.Graph()
			loc, _ := g.Locate(call)
			miss, _ := g.Forward(&loc, g.SuccessEdges, func(nn ast.Node, at Loc) Verdict {
				for _, fc := range f.Calls(nn, false, "storage.btreeNode.isFull") {
					if id, ok := ast.Unparen(fc.Fun.(*ast.SelectorExpr).X).(*ast.Ident); ok && f.ObjOf(id) == f.ObjOf(pid) {
						return Cut
					}
				}
				if r, ok := nn.(*ast.ReturnStmt); ok {
					if g.ReturnMayBeNil(r) {
						return Hit
					}
					return Cut
				}
				return Go
			}, func(b *cfg.Block) Verdict { return Hit })
			if miss {
				c.FailConfined(rule, key, call.Pos(), "%s hands %s to %s as the parent of the node it inserts into — a split of that node adds a separator to %s — and can return successfully without testing %s.isFull(): the code that splits a full internal node is bypassed and the node grows past the capacity the page layout allows", f.Name, pid.Name, exprKey(call.Fun), pid.Name, pid.Name)
			} else {
				c.OK(rule, key, call.Pos(), 1, "%s.isFull() is tested on every success path after the child insert", pid.Name)
			}
		}
	}
}

func c11SplitArithmetic(c *Ctx, rule string) {
	c.Rule(rule, "split moves exactly the cells it cuts off. Let M be the index the node's offsets are truncated to. Leaf arm: the copy loop starts at M and runs to the end. Internal arm: the promoted cell is the one at index M, the copy loop starts at M+1, the promoted cell's child becomes the old node's rightmost child and the old rightmost child becomes the new node's rightmost child; copied internal cells keep key and child")
	f := c.NeedFunc(rule, "storage.(*btreeNode).split")
	if f == nil {
		return
	}
	// the leaf arm is the body of `if n.isLeaf {`; the rest is the internal arm
	var leafArm *ast.BlockStmt
	var rest []ast.Stmt
	for i, st := range f.Decl.Body.List {
		if ifs, ok := st.(*ast.IfStmt); ok && leafArm == nil {
			if sel, ok := ast.Unparen(ifs.Cond).(*ast.SelectorExpr); ok {
				if v := fieldVar(f, sel); v != nil && v.Name() == "isLeaf" {
					leafArm = ifs.Body
					rest = f.Decl.Body.List[i+1:]
				}
			}
		}
	}
	if leafArm == nil {
		c.Undecided(rule, f.Name+"|shape", "split has no `if n.isLeaf` arm")
		return
	}
	type armInfo struct {
		trunc     ast.Expr // M in n.offsets = n.offsets[0:M]
		loopStart ast.Expr
		loopEndOK bool
		loop      *ast.ForStmt
	}
	analyse := func(arm *ast.BlockStmt) armInfo {
		var ai armInfo
		inspectBody(arm, func(x ast.Node) bool {
			switch y := x.(type) {
			case *ast.AssignStmt:
				if len(y.Lhs) == 1 && len(y.Rhs) == 1 {
					if sel, ok := ast.Unparen(y.Lhs[0]).(*ast.SelectorExpr); ok {
						if v := fieldVar(f, sel); v != nil && v.Name() == "offsets" {
							if sl, ok := ast.Unparen(y.Rhs[0]).(*ast.SliceExpr); ok && sl.High != nil {
								lowZero := sl.Low == nil
								if sl.Low != nil {
									if cv := f.constOf(sl.Low); cv != nil && cv.String() == "0" {
										lowZero = true
									}
								}
								if lowZero {
									ai.trunc = sl.High
								}
							}
						}
					}
				}
			case *ast.ForStmt:
				if ai.loop == nil {
					ai.loop = y
					if as, ok := y.Init.(*ast.AssignStmt); ok && len(as.Rhs) == 1 {
						ai.loopStart = as.Rhs[0]
					}
					if be, ok := y.Cond.(*ast.BinaryExpr); ok && (be.Op == token.LSS || be.Op == token.LEQ) {
						bound := ast.Unparen(be.Y)
						if be.Op == token.LEQ {
							// i <= len(x)-1 is i < len(x)
							bound = nil
							if sub, ok := ast.Unparen(be.Y).(*ast.BinaryExpr); ok && sub.Op == token.SUB {
								if cv := f.constOf(sub.Y); cv != nil && cv.String() == "1" {
									bound = ast.Unparen(sub.X)
								}
							}
						}
						if call, ok := bound.(*ast.CallExpr); ok {
							if id, ok := call.Fun.(*ast.Ident); ok && id.Name == "len" && len(call.Args) == 1 {
								if sel, ok := ast.Unparen(call.Args[0]).(*ast.SelectorExpr); ok {
									if v := fieldVar(f, sel); v != nil && v.Name() == "offsets" {
										ai.loopEndOK = true
									}
								}
							}
						}
					}
				}
			}
			return true
		})
		return ai
	}
	plusOne := func(e ast.Expr, base string) bool {
		be, ok := ast.Unparen(e).(*ast.BinaryExpr)
		if !ok || be.Op != token.ADD {
			return false
		}
		cv := f.constOf(be.Y)
		return cv != nil && cv.String() == "1" && exprKey(be.X) == base
	}
	// leaf
	la := analyse(leafArm)
	key := f.Name + "|leaf|copy-range"
	switch {
	case la.trunc == nil || la.loop == nil || la.loopStart == nil:
		c.Undecided(rule, key, "leaf arm: truncation or copy loop not recognised")
	case exprKey(la.loopStart) != exprKey(la.trunc):
		c.Fail(rule, key, la.loop.Pos(), "leaf split keeps cells [0,%s) but copies from %s: a row is lost or appears in both leaves", exprKey(la.trunc), exprKey(la.loopStart))
	case !la.loopEndOK:
		c.Fail(rule, key, la.loop.Pos(), "leaf split does not copy up to len(offsets)")
	default:
		c.OK(rule, key, la.loop.Pos(), 2, "keeps [0,%s), copies [%s,len)", exprKey(la.trunc), exprKey(la.loopStart))
	}
	// the copied cell is read through offsets[i]
	// internal
	ia := analyse(&ast.BlockStmt{List: rest})
	key = f.Name + "|internal|copy-range"
	if ia.trunc == nil || ia.loop == nil || ia.loopStart == nil {
		c.Undecided(rule, key, "internal arm: truncation or copy loop not recognised")
		return
	}
	M := exprKey(ia.trunc)
	switch {
	case !plusOne(ia.loopStart, M):
		c.Fail(rule, key, ia.loop.Pos(), "internal split keeps cells [0,%s), promotes cell %s, but copies from %s instead of %s+1: the promoted cell's child page becomes reachable twice (or a child is lost)", M, M, exprKey(ia.loopStart), M)
	case !ia.loopEndOK:
		c.Fail(rule, key, ia.loop.Pos(), "internal split does not copy up to len(offsets)")
	default:
		c.OK(rule, key, ia.loop.Pos(), 2, "keeps [0,%s), promotes %s, copies [%s+1,len)", M, M, M)
	}
	// promoted key and rightmost hand-over
	body := &ast.BlockStmt{List: rest}
	idxOf := func(e ast.Expr) (string, string) { // X.internalCells[IDX].field -> (IDX, field)
		sel, ok := ast.Unparen(e).(*ast.SelectorExpr)
		if !ok {
			return "", ""
		}
		base := ast.Unparen(sel.X)
		// a cell taken into a local first: `sep := n.internalCells[n.offsets[mid]]` … `sep.key`
		if id, isID := base.(*ast.Ident); isID {
			if rhs, _, found := f.definedBy(f.Decl.Body, f.ObjOf(id)); found {
				base = ast.Unparen(rhs)
			}
		}
		ix, ok := base.(*ast.IndexExpr)
		if !ok {
			return "", ""
		}
		idx := exprKey(ix.Index)
		// through offsets: n.offsets[mid]
		if inner, ok := ast.Unparen(ix.Index).(*ast.IndexExpr); ok {
			idx = exprKey(inner.Index)
		}
		return idx, sel.Sel.Name
	}
	var promotedIdx string
	for _, r := range (&Graph{f: f, body: body}).returnsIn(body) {
		if len(r.Results) == 2 {
			if id, ok := ast.Unparen(r.Results[0]).(*ast.Ident); ok {
				for _, as := range f.assignsTo(body, f.ObjOf(id)) {
					if len(as.Rhs) == 1 {
						if i, fld := idxOf(as.Rhs[0]); fld == "key" {
							promotedIdx = i
						}
					}
				}
			} else if i, fld := idxOf(r.Results[0]); fld == "key" {
				promotedIdx = i
			}
		}
	}
	key = f.Name + "|internal|promoted-key"
	c.Check(promotedIdx == M, rule, key, ia.loop.Pos(), "the separator handed to the parent is the key of cell "+M, "the separator handed to the parent is the key of cell ["+promotedIdx+"], not of the first cell cut off ["+M+"]")
	var newRight, oldRight bool
	for _, call := range f.Calls(body, false, "storage.btreeNode.setRightMostKey") {
		recv := exprKey(call.Fun.(*ast.SelectorExpr).X)
		if len(call.Args) != 1 {
			continue
		}
		if recv == recvName(f) {
			if i, fld := idxOf(call.Args[0]); fld == "fileOffset" && i == M {
				oldRight = true
			}
		} else {
			if sel, ok := ast.Unparen(call.Args[0]).(*ast.SelectorExpr); ok && exprKey(sel.X) == recvName(f) {
				if v := fieldVar(f, sel); v != nil && v.Name() == "rightOffset" {
					newRight = true
				}
			}
		}
	}
	// order: new node must take n.rightOffset before n's is overwritten
	key = f.Name + "|internal|rightmost-handover"
	c.Check(newRight && oldRight, rule, key, ia.loop.Pos(), "new node takes the old rightmost child; old node's rightmost becomes the promoted cell's child", "the rightmost children are not handed over correctly (new node <- n.rightOffset, n <- child of cell "+M+")")
	if newRight && oldRight {
		var posNew, posOld token.Pos
		for _, call := range f.Calls(body, false, "storage.btreeNode.setRightMostKey") {
			if exprKey(call.Fun.(*ast.SelectorExpr).X) == recvName(f) {
				posOld = call.Pos()
			} else {
				posNew = call.Pos()
			}
		}
		c.Check(posNew < posOld, rule, f.Name+"|internal|handover-order", ia.loop.Pos(), "n.rightOffset is read for the new node before it is overwritten", "n.rightOffset is overwritten before the new node takes it")
	}
	// copied internal cells keep key and child
	key = f.Name + "|internal|cell-transfer"
	okT := false
	for _, call := range f.Calls(ia.loop.Body, false, "storage.btreeNode.appendInternalCell") {
		if len(call.Args) == 2 {
			a0, ok0 := ast.Unparen(call.Args[0]).(*ast.SelectorExpr)
			a1, ok1 := ast.Unparen(call.Args[1]).(*ast.SelectorExpr)
			if ok0 && ok1 && a0.Sel.Name == "key" && a1.Sel.Name == "fileOffset" && exprKey(a0.X) == exprKey(a1.X) {
				okT = true
			}
		}
	}
	c.Check(okT, rule, key, ia.loop.Pos(), "moved cells keep (key, child)", "moved internal cells do not keep their (key, fileOffset) pair")
}

func (g *Graph) returnsIn(body *ast.BlockStmt) []*ast.ReturnStmt {
	var out []*ast.ReturnStmt
	inspectBody(body, func(x ast.Node) bool {
		if r, ok := x.(*ast.ReturnStmt); ok {
			out = append(out, r)
		}
		return true
	})
	return out
}

func c11Allocator(c *Ctx, rule string) {
	c.Rule(rule, "no page offset is handed out twice: fileStore.nextFreeOffset is stored only as `+= pageSize` in append (plus its load in open and the initial value in CreateDB), and append gives the node the current value before advancing it")
	w := c.W
	n := 0
	for _, name := range w.SortedFuncNames() {
		f := w.Funcs[name]
		if f.Pkg != w.Pkgs["storage"] {
			continue
		}
		ast.Inspect(f.Decl.Body, func(x ast.Node) bool {
			var sel *ast.SelectorExpr
			kind := ""
			var rhs ast.Expr
			switch y := x.(type) {
			case *ast.AssignStmt:
				for i, l := range y.Lhs {
					if s, ok := ast.Unparen(l).(*ast.SelectorExpr); ok {
						if v := fieldVar(f, s); v != nil && v.Name() == "nextFreeOffset" {
							sel, kind = s, y.Tok.String()
							if i < len(y.Rhs) {
								rhs = y.Rhs[i]
							}
						}
					}
				}
			case *ast.IncDecStmt:
				if s, ok := ast.Unparen(y.X).(*ast.SelectorExpr); ok {
					if v := fieldVar(f, s); v != nil && v.Name() == "nextFreeOffset" {
						sel, kind = s, y.Tok.String()
					}
				}
			case *ast.UnaryExpr:
				if y.Op == token.AND && !addrIsWriteOperand(f, y) {
					if s, ok := ast.Unparen(y.X).(*ast.SelectorExpr); ok {
						if v := fieldVar(f, s); v != nil && v.Name() == "nextFreeOffset" {
							sel, kind = s, "&"
						}
					}
				}
			}
			if sel == nil {
				return true
			}
			n++
			key := f.Name + "|store|nextFreeOffset|" + kind
			isPage := func(e ast.Expr) bool {
				cst := f.namedConst(e)
				return cst != nil && cst.Name() == "pageSize"
			}
			ok := false
			switch {
			case f.Name == "storage.(*fileStore).append" && kind == "+=" && rhs != nil && isPage(rhs):
				ok = true
			case f.Name == "storage.(*fileStore).open" && kind == "&":
				ok = true
			case f.Name == "storage.CreateDB" && kind == "=" && rhs != nil && isPage(rhs):
				ok = true
			}
			c.Check(ok, rule, key, sel.Pos(), "allocator store in an owner function", "fileStore.nextFreeOffset is stored ("+kind+") in "+f.Name+" other than by `+= pageSize` in append: two pages can receive the same offset")
			return true
		})
	}
	if n < 3 {
		c.Undecided(rule, "subjects", "only %d stores of nextFreeOffset found", n)
	}
	if f := c.NeedFunc(rule, "storage.(*fileStore).append"); f != nil {
		g := f.Graph()
		var setOff, adv ast.Node
		for _, call := range f.Calls(f.Decl.Body, false, "storage.btreeNode.setFileOffset") {
			if len(call.Args) == 1 {
				if sel, ok := ast.Unparen(call.Args[0]).(*ast.SelectorExpr); ok {
					if v := fieldVar(f, sel); v != nil && v.Name() == "nextFreeOffset" {
						setOff = call
					}
				}
			}
		}
		inspectBody(f.Decl.Body, func(x ast.Node) bool {
			if as, ok := x.(*ast.AssignStmt); ok && as.Tok == token.ADD_ASSIGN {
				adv = as
			}
			return true
		})
		key := f.Name + "|assign-then-advance"
		if setOff == nil || adv == nil {
			c.Fail(rule, key, f.Decl.Pos(), "append does not give the node the current free offset and then advance it")
		} else {
			l1, _ := g.Locate(setOff)
			l2, _ := g.Locate(adv)
			miss, _ := g.Forward(&l1, g.SuccessEdges, func(nn ast.Node, at Loc) Verdict {
				if nn == adv {
					return Cut
				}
				if r, ok := nn.(*ast.ReturnStmt); ok {
					if g.ReturnMayBeNil(r) {
						return Hit
					}
					return Cut // an error return ends the path
				}
				return Go
			}, func(b *cfg.Block) Verdict { return Hit })
			c.Check(g.Dominates(l1, l2) && !miss, rule, key, setOff.Pos(), "the node receives the offset, then the allocator advances on every success path", "append can succeed without advancing the allocator, or advances it before assigning")
		}
	}
}

// c11ParentUpdate: after a split the parent receives the separator with the correct children.
func c11ParentUpdate(c *Ctx, rule string) {
	c.Rule(rule, "after a split the existing parent is updated consistently: when the separator is appended at the right end, the cell's child is the parent's previous rightmost child and the new page becomes the rightmost child (in that order); when it is inserted in the middle, the new page is handed to insertInternalCell; the new-root arm points the separator at the old page and the rightmost child at the new page")
	for _, name := range []string{"storage.(*BTree).insertLeaf", "storage.(*BTree).insertInternal"} {
		f := c.NeedFunc(rule, name)
		if f == nil {
			continue
		}
		n := 0
		parent, cur := paramName(f, 0), paramName(f, 1)
		newPg, newKey := "?", "?"
		for _, sp := range f.Calls(f.Decl.Body, false, "storage.btreeNode.split") {
			if len(sp.Args) == 1 {
				newPg = exprKey(sp.Args[0])
			}
			if o := f.resultVar(f.Decl.Body, sp, 0); o != nil {
				newKey = o.Name()
			}
		}
		inspectBody(f.Decl.Body, func(x ast.Node) bool {
			blk, ok := x.(*ast.BlockStmt)
			if !ok {
				return true
			}
			var app, setR *ast.CallExpr
			for _, st := range blk.List {
				for _, call := range f.Calls(st, false, "storage.btreeNode.appendInternalCell") {
					if exprKey(call.Fun.(*ast.SelectorExpr).X) == parent && enclosingBlockIs(blk, call, f) {
						app = call
					}
				}
				for _, call := range f.Calls(st, false, "storage.btreeNode.setRightMostKey") {
					if exprKey(call.Fun.(*ast.SelectorExpr).X) == parent && enclosingBlockIs(blk, call, f) {
						setR = call
					}
				}
			}
			if app == nil || setR == nil || len(app.Args) != 2 || len(setR.Args) != 1 {
				return true
			}
			n++
			key := name + "|parent-update#" + itoa(n)
			child := exprKey(app.Args[1])
			right := exprKey(setR.Args[0])
			switch {
			case child == parent+".rightOffset":
				// append at right end of an existing parent
				ok := right == newPg+".fileOffset" && app.Pos() < setR.Pos()
				c.Check(ok, rule, key, app.Pos(), "separator keeps the old rightmost child, then the new page becomes rightmost", "existing parent: the separator must take the parent's previous rightmost child BEFORE the rightmost child is replaced by the new page")
			case child == cur+".fileOffset":
				ok := right == newPg+".fileOffset"
				c.Check(ok, rule, key, app.Pos(), "new root: separator -> old page, rightmost -> new page", "new root: rightmost child must be the new page when the separator points at the old page")
			default:
				c.Fail(rule, key, app.Pos(), "the separator's child (%s) is neither the old page nor the parent's previous rightmost child", child)
			}
			return true
		})
		if n < 2 {
			c.Undecided(rule, name+"|parent-update", "only %d parent-update blocks recognised", n)
		}
		if name == "storage.(*BTree).insertLeaf" {
			key := name + "|parent-insert-middle"
			okMid := false
			for _, call := range f.Calls(f.Decl.Body, false, "storage.btreeNode.insertInternalCell") {
				if len(call.Args) == 3 && exprKey(call.Args[1]) == newKey && exprKey(call.Args[2]) == newPg+".fileOffset" {
					okMid = true
				}
			}
			c.Check(okMid, rule, key, f.Decl.Pos(), "middle insert hands (newKey, newPg.fileOffset) to insertInternalCell", "the middle insert does not hand the new page to insertInternalCell")
		}
	}
}

func enclosingBlockIs(blk *ast.BlockStmt, n ast.Node, f *Func) bool {
	// the call must be directly in blk (possibly inside an if-init of a direct child statement)
	for _, st := range blk.List {
		if st.Pos() <= n.Pos() && n.End() <= st.End() {
			switch y := st.(type) {
			case *ast.IfStmt:
				return y.Init != nil && y.Init.Pos() <= n.Pos() && n.End() <= y.Init.End()
			case *ast.ExprStmt, *ast.AssignStmt:
				return true
			}
			return false
		}
	}
	return false
}
