package main

import (
	"go/ast"
	"go/token"
	"go/types"
	"sort"
	"strings"

	"golang.org/x/tools/go/cfg"
)

func init() {
	register(&Property{
		ID:    "C09",
		Run:   runC09,
		Floor: 20,
		Assumptions: []string{
			"sql/go_scanner.go is a copy of text/scanner with documented edits; only its buffer-refill bound is checked, the rest of its indexing is trusted",
			"T6 enforces a discipline slightly stronger than 'cannot panic': an unchecked type assertion or unguarded constant index in the front end is reported even if it is safe for a reason this analysis cannot see (documented in DESIGN.md §6)",
		},
		NotDecided: "memory use beyond 'linear in the input'; panics inside the vendored scanner other than the refill bound.",
	})
}

// ---- token consumption model (T11) --------------------------------------------------

type consumeModel struct {
	w        *World
	sqlPkg   bool
	boolProd map[*Func]bool // productions returning (bool, T, error): consume iff the bool is true
	must     map[*Func]bool // productions that have consumed >= 1 token on every success return
}

func parserFuncs(w *World) []*Func {
	var out []*Func
	for _, n := range w.SortedFuncNames() {
		f := w.Funcs[n]
		if strings.HasPrefix(n, "sql.(*Parser).") {
			out = append(out, f)
		}
	}
	return out
}

func isMatchCall(f *Func, e ast.Expr) (*ast.CallExpr, bool) {
	call, ok := ast.Unparen(e).(*ast.CallExpr)
	if ok && f.CallIs(call, "sql.Parser.match") {
		return call, true
	}
	return nil, false
}

// condConsumes: does taking the edge (cond == val) imply that a token was consumed?
func (m *consumeModel) condConsumes(f *Func, body ast.Node, cond ast.Expr, val bool) bool {
	e := ast.Unparen(cond)
	switch x := e.(type) {
	case *ast.UnaryExpr:
		if x.Op == token.NOT {
			return m.condConsumes(f, body, x.X, !val)
		}
	case *ast.BinaryExpr:
		if x.Op == token.LAND && val {
			return m.condConsumes(f, body, x.X, true) || m.condConsumes(f, body, x.Y, true)
		}
		if x.Op == token.LOR && !val {
			return m.condConsumes(f, body, x.X, false) || m.condConsumes(f, body, x.Y, false)
		}
	case *ast.CallExpr:
		if _, ok := isMatchCall(f, x); ok {
			return val
		}
	case *ast.Ident:
		// a bool bound to the first result of a (bool, T, error) production
		obj := f.ObjOf(x)
		found := false
		ast.Inspect(body, func(n ast.Node) bool {
			as, ok := n.(*ast.AssignStmt)
			if !ok || len(as.Rhs) != 1 || len(as.Lhs) < 1 {
				return true
			}
			call, ok := ast.Unparen(as.Rhs[0]).(*ast.CallExpr)
			if !ok {
				return true
			}
			if id, ok := as.Lhs[0].(*ast.Ident); ok && f.ObjOf(id) == obj {
				for _, t := range m.w.resolve(f.Callee(call)) {
					if m.boolProd[t] {
						found = true
					}
				}
			}
			return true
		})
		if found {
			return val
		}
	}
	return false
}

// nodeConsumes: passing this node on a success path implies consumption.
func (m *consumeModel) nodeConsumes(f *Func, n ast.Node) bool {
	consumed := false
	ast.Inspect(n, func(x ast.Node) bool {
		if _, ok := x.(*ast.FuncLit); ok {
			return false
		}
		call, ok := x.(*ast.CallExpr)
		if !ok {
			return true
		}
		if f.CallIs(call, "sql.Parser.requireMatch") {
			consumed = true // on the nil-error edge, which is the only one success paths follow
		}
		for _, t := range m.w.resolve(f.Callee(call)) {
			if m.must[t] {
				consumed = true
			}
		}
		return true
	})
	return consumed
}

// nodeConsumesNonRecursive: consumption that does not rely on a callee's summary.
func (m *consumeModel) nodeConsumesNonRecursive(f *Func, n ast.Node) bool {
	consumed := false
	ast.Inspect(n, func(x ast.Node) bool {
		if _, ok := x.(*ast.FuncLit); ok {
			return false
		}
		if call, ok := x.(*ast.CallExpr); ok {
			if f.CallIs(call, "sql.Parser.requireMatch") {
				consumed = true
			}
			for _, t := range m.w.resolve(f.Callee(call)) {
				if m.must[t] && !m.w.CG().Reach(t)[f] {
					consumed = true // a non-recursive callee that always consumes
				}
			}
		}
		return true
	})
	return consumed
}

func newConsumeModel(w *World) *consumeModel {
	m := &consumeModel{w: w, boolProd: map[*Func]bool{}, must: map[*Func]bool{}}
	pf := parserFuncs(w)
	for _, f := range pf {
		sig := f.Obj.Type().(*types.Signature)
		if sig.Results().Len() == 3 {
			if b, ok := sig.Results().At(0).Type().(*types.Basic); ok && b.Kind() == types.Bool {
				m.boolProd[f] = true
			}
		}
	}
	// greatest fixpoint for must-consume of (T, error) productions
	for _, f := range pf {
		sig := f.Obj.Type().(*types.Signature)
		n := sig.Results().Len()
		if n >= 1 && isErrorType(sig.Results().At(n-1).Type()) && !m.boolProd[f] {
			switch f.Decl.Name.Name {
			case "match", "requireMatch", "curType", "unexpectedTypeErr":
			default:
				m.must[f] = true
			}
		}
	}
	for changed := true; changed; {
		changed = false
		for _, f := range pf {
			if !m.must[f] {
				continue
			}
			if !m.consumesBeforeSuccess(f, false) {
				m.must[f] = false
				changed = true
			}
		}
	}
	// verify bool productions: (true, ...) returns only after consumption
	for _, f := range pf {
		if m.boolProd[f] && !m.consumesBeforeSuccess(f, true) {
			m.boolProd[f] = false
		}
	}
	return m
}

// consumesBeforeSuccess: every success return (for bool productions: returning true) is preceded by consumption.
func (m *consumeModel) consumesBeforeSuccess(f *Func, boolTrueOnly bool) bool {
	g := f.Graph()
	bad, _ := g.Forward(nil, func(b *cfg.Block, si int) bool {
		if !g.SuccessEdges(b, si) {
			return false
		}
		if info, ok := g.EdgeInfo(b, si); ok && !info.Case && m.condConsumes(f, f.Decl.Body, info.Cond, info.Val) {
			return false // consumed: this path is fine
		}
		return true
	}, func(n ast.Node, at Loc) Verdict {
		if r, ok := n.(*ast.ReturnStmt); ok {
			if !g.ReturnMayBeNil(r) {
				return Cut
			}
			if boolTrueOnly {
				if len(r.Results) == 3 {
					if cv := f.constOf(r.Results[0]); cv != nil && cv.String() == "false" {
						return Cut
					}
					// `return setFunc != nil, ...`: true only if a case consumed — treated conservatively as true
				}
			}
			// `return p.Other()` delegates: consumption by the callee counts
			if m.nodeConsumes(f, r) {
				return Cut
			}
			return Hit
		}
		if m.nodeConsumes(f, n) {
			return Cut
		}
		return Go
	}, func(b *cfg.Block) Verdict { return Hit })
	return !bad
}

func runC09(c *Ctx) {
	c09Progress(c, "C09.1")
	c09PanicSources(c, "C09.2")
	c09ScannerRefill(c, "C09.3")
	ruleVendoredEqualsUpstream(c, "C09.4", vendoredScanner)
	ruleNoSelfFormat(c, "C09.5", "sql")
	ruleNoGlobalState(c, "C09.6", "sql")
}

func c09Progress(c *Ctx, rule string) {
	c.Rule(rule, "parsing terminates: every non-range loop of the parser consumes a token on every path around it (true edge of match, nil edge of requireMatch, a production that has consumed on every success return, or the true result of a (bool,T,error) production), and every recursive call of a production is preceded by consumption on all paths from the production's entry: remaining tokens are a ranking function")
	w := c.W
	m := newConsumeModel(w)
	nLoops := 0
	for _, f := range parserFuncs(w) {
		g := f.Graph()
		li := 0
		inspectBody(f.Decl.Body, func(x ast.Node) bool {
			fs, ok := x.(*ast.ForStmt)
			if !ok {
				return true
			}
			li++
			nLoops++
			key := f.Name + "|loop#" + itoa(li)
			// loop head block
			var head *cfg.Block
			for _, b := range g.c.Blocks {
				if b.Stmt == ast.Stmt(fs) && (b.Kind == cfg.KindForLoop) {
					head = b
				}
			}
			var bodyBlk *cfg.Block
			for _, b := range g.c.Blocks {
				if b.Stmt == ast.Stmt(fs) && b.Kind == cfg.KindForBody {
					bodyBlk = b
				}
			}
			if bodyBlk == nil {
				c.Undecided(rule, key, "loop blocks not found")
				return true
			}
			if head == nil {
				head = bodyBlk // `for {` has no separate head
			}
			// is there a cycle head -> ... -> head without consumption?
			spin := false
			var explore func(start *cfg.Block)
			seen := map[*cfg.Block]bool{}
			explore = func(start *cfg.Block) {
				type item struct{ b *cfg.Block }
				work := []item{{start}}
				first := true
				for len(work) > 0 && !spin {
					it := work[len(work)-1]
					work = work[:len(work)-1]
					if it.b == head && !first {
						spin = true
						return
					}
					if seen[it.b] && !first {
						continue
					}
					seen[it.b] = true
					first = false
					consumed := false
					exits := false
					for _, n := range it.b.Nodes {
						// the condition node is handled per edge below
						if len(it.b.Succs) == 2 && n == it.b.Nodes[len(it.b.Nodes)-1] {
							if _, isExpr := n.(ast.Expr); isExpr {
								continue
							}
						}
						if _, ok := n.(*ast.ReturnStmt); ok {
							exits = true
						}
						if m.nodeConsumes(f, n) {
							consumed = true
						}
					}
					if consumed || exits {
						continue
					}
					for si, s := range it.b.Succs {
						if !g.SuccessEdges(it.b, si) {
							continue
						}
						if info, ok := g.EdgeInfo(it.b, si); ok && !info.Case && m.condConsumes(f, f.Decl.Body, info.Cond, info.Val) {
							continue
						}
						// leaving the loop is not spinning
						if !reachesBlock(g, s, head) {
							continue
						}
						work = append(work, item{s})
					}
				}
			}
			explore(head)
			if spin {
				c.Fail(rule, key, fs.Pos(), "the loop can go round without consuming a token: on some input the parser never terminates")
			} else {
				c.OK(rule, key, fs.Pos(), 1, "every path around the loop consumes a token")
			}
			return true
		})
	}
	if nLoops < 8 {
		c.Undecided(rule, "subjects|loops", "only %d parser loops found", nLoops)
	}
	// recursion: the call edges among productions that can be taken WITHOUT a token having been
	// consumed since the caller's entry must not form a cycle
	cg := w.CG()
	free := map[*Func][]*Func{} // non-consuming edges
	freeAt := map[[2]*Func]token.Pos{}
	nEdges := 0
	for _, f := range parserFuncs(w) {
		g := f.Graph()
		for _, cs := range cg.Sites[f] {
			for _, t := range cs.Targets {
				if !strings.HasPrefix(t.Name, "sql.(*Parser).") || !cg.Reach(t)[f] {
					continue
				}
				nEdges++
				loc, ok := g.Locate(cs.Call)
				if !ok {
					continue
				}
				unconsumed, _ := g.Forward(nil, func(b *cfg.Block, si int) bool {
					if !g.SuccessEdges(b, si) {
						return false
					}
					if info, ok := g.EdgeInfo(b, si); ok && !info.Case && m.condConsumes(f, f.Decl.Body, info.Cond, info.Val) {
						return false
					}
					return true
				}, func(n ast.Node, at Loc) Verdict {
					if at == loc {
						return Hit
					}
					if m.nodeConsumesNonRecursive(f, n) {
						return Cut
					}
					return Go
				}, nil)
				if unconsumed {
					free[f] = append(free[f], t)
					freeAt[[2]*Func{f, t}] = cs.Call.Pos()
				}
			}
		}
	}
	// cycle detection on the free-edge graph
	state := map[*Func]int{}
	var cyc []string
	var dfs func(f *Func, path []string) bool
	dfs = func(f *Func, path []string) bool {
		state[f] = 1
		for _, t := range free[f] {
			if state[t] == 1 {
				cyc = append(append([]string{}, path...), f.Decl.Name.Name, t.Decl.Name.Name)
				return true
			}
			if state[t] == 0 && dfs(t, append(path, f.Decl.Name.Name)) {
				return true
			}
		}
		state[f] = 2
		return false
	}
	key := "sql.(*Parser)|recursion"
	found := false
	for _, f := range parserFuncs(w) {
		if state[f] == 0 && dfs(f, nil) {
			found = true
			break
		}
	}
	if found {
		c.Fail(rule, key, parserFuncs(w)[0].Decl.Pos(), "productions %s can call each other in a cycle without consuming a token: unbounded recursion on some input", strings.Join(cyc, " -> "))
	} else {
		c.OK(rule, key, parserFuncs(w)[0].Decl.Pos(), nEdges, "every cycle of production calls passes a token consumption (%d recursive call edges examined)", nEdges)
	}
	if nEdges < 2 {
		c.Undecided(rule, "subjects|recursion", "only %d recursive production calls found (OrCondition, AndCondition expected)", nEdges)
	}
	// the scanner loop in parseSQL: `for ts.Next() { tl.Add(ts.Cur()) }` — Next scans one token
	if f := w.F("sql.(*tokenScanner).Next"); f != nil {
		ok := len(f.Calls(f.Decl.Body, false, "sql.Scanner.Scan")) == 1
		c.Check(ok, rule, f.Name+"|scans-one-token", f.Decl.Pos(), "Next scans exactly one token and reports EOF", "tokenScanner.Next does not advance the underlying scanner exactly once")
	}
}

func reachesBlock(g *Graph, from, to *cfg.Block) bool {
	seen := map[*cfg.Block]bool{}
	var dfs func(b *cfg.Block) bool
	dfs = func(b *cfg.Block) bool {
		if b == to {
			return true
		}
		if seen[b] {
			return false
		}
		seen[b] = true
		for _, s := range b.Succs {
			if dfs(s) {
				return true
			}
		}
		return false
	}
	return dfs(from)
}

// ---- C09.2: panic sources in the front end ------------------------------------------------

func frontEndCone(w *World) map[*Func]bool {
	var roots []*Func
	for _, n := range []string{"sql.NewTokenScanner", "sql.(*tokenScanner).Next", "sql.(*tokenScanner).Cur", "sql.(*TokenList).Add", "sql.(*Parser).Parse"} {
		if f := w.F(n); f != nil {
			roots = append(roots, f)
		}
	}
	return w.CG().Reach(roots...)
}

func isVendoredScanner(w *World, f *Func) bool {
	return strings.HasSuffix(w.Fset.Position(f.Decl.Pos()).Filename, "go_scanner.go")
}

func c09PanicSources(c *Ctx, rule string) {
	c.Rule(rule, "every panic source reachable from tokenise+parse (NewTokenScanner, Next, Cur, TokenList.Add, Parser.Parse) in sql/parser.go and sql/scanner.go is discharged: type assertions are in comma-ok or type-switch form; explicit panics do not occur; slice/index expressions are either over a range index, a map, or dominated by the length guard that makes them safe (x[i] after the `i == len(x)` return, x[i-1] after the `i == 0` return, s[1:len(s)-1] after the `len(s) < 2` return); the token cursor is stored only by Advance (guarded increment)")
	w := c.W
	cone := frontEndCone(w)
	nf := 0
	for _, f := range sortedFuncs(cone) {
		if f.Pkg != w.Pkgs["sql"] || isVendoredScanner(w, f) {
			continue
		}
		nf++
		g := f.Graph()
		// parents
		parent := map[ast.Node]ast.Node{}
		var stack []ast.Node
		ast.Inspect(f.Decl.Body, func(n ast.Node) bool {
			if n == nil {
				stack = stack[:len(stack)-1]
				return false
			}
			if len(stack) > 0 {
				parent[n] = stack[len(stack)-1]
			}
			stack = append(stack, n)
			return true
		})
		idx := 0
		ast.Inspect(f.Decl.Body, func(x ast.Node) bool {
			switch y := x.(type) {
			case *ast.TypeAssertExpr:
				if y.Type == nil {
					return true // type switch
				}
				idx++
				key := f.Name + "|assert|" + exprKey(y.X) + ".(" + exprKey(y.Type) + ")"
				commaOK := false
				switch p := parent[y].(type) {
				case *ast.AssignStmt:
					if len(p.Lhs) == 2 && len(p.Rhs) == 1 && p.Rhs[0] == ast.Expr(y) {
						commaOK = true
					}
				case *ast.ValueSpec:
					if len(p.Names) == 2 && len(p.Values) == 1 {
						commaOK = true
					}
				}
				if commaOK {
					c.OK(rule, key, y.Pos(), 1, "checked (comma-ok) assertion")
				} else {
					c.Fail(rule, key, y.Pos(), "unchecked type assertion in the SQL front end: an input that yields a value of another type (or nil) here panics instead of returning a syntax error")
				}
			case *ast.CallExpr:
				if id, ok := y.Fun.(*ast.Ident); ok && id.Name == "panic" {
					if _, isB := f.Pkg.TypesInfo.Uses[id].(*types.Builtin); isB {
						if bad, why := newPanicVerdict(f, y); bad {
							c.Fail(rule, f.Name+"|panic", y.Pos(), "explicit panic reachable from parsing: %s", why)
						} else {
							c.Undecided(rule, f.Name+"|panic", "an explicit panic at %s in the SQL front end: %s", c.W.Pos(y.Pos()), why)
						}
					}
				}
			case *ast.IndexExpr:
				t := f.TypeOf(y.X)
				if t == nil {
					return true
				}
				switch t.Underlying().(type) {
				case *types.Map:
					return true
				case *types.Signature:
					return true
				}
				if tv, ok := f.Pkg.TypesInfo.Types[y.X]; ok && tv.IsType() {
					return true // generic instantiation
				}
				key := f.Name + "|index|" + exprKey(y)
				if ok, how := indexGuarded(f, g, y, y.X, y.Index); ok {
					c.OK(rule, key, y.Pos(), 1, "%s", how)
				} else if ok2, how2 := lookaheadCallersHaveToken(c.W, f, g, y); ok2 {
					c.OK(rule, key, y.Pos(), 2, "%s", how2)
				} else if cv := f.constOf(y.Index); cv != nil && cv.String() == "0" && namedTypeIs(f.TypeOf(y.X), "sql", "SelectList") {
					// element 0 of a parsed select list: the production never returns an empty list on success (the
					// reviewed invariant the executor relies on as well, re-checked here)
					if okS, why := sideSelectListNonEmpty(c); okS {
						c.OK(rule, key, y.Pos(), 2, "first element of a select list: Parser.SelectList never returns an empty list on success")
					} else {
						excBroken(c, rule, key, y.Pos(), "index 0 of a select list", "Parser.SelectList never returns an empty list on success", why)
					}
				} else {
					c.Fail(rule, key, y.Pos(), "index expression without a dominating bound guard: %s", how)
				}
			case *ast.SliceExpr:
				key := f.Name + "|slice|" + exprKey(y)
				if ok, how := sliceGuarded(f, g, y); ok {
					c.OK(rule, key, y.Pos(), 1, "%s", how)
				} else {
					c.Fail(rule, key, y.Pos(), "slice expression without a dominating length guard: %s", how)
				}
			}
			return true
		})
	}
	if nf < 10 {
		c.Undecided(rule, "subjects", "only %d front-end functions in the cone", nf)
	}
	// cursor confinement: TokenList.cur is stored only in Advance, as an increment guarded by cur != len
	nStores := 0
	for _, name := range w.SortedFuncNames() {
		f := w.Funcs[name]
		if f.Pkg != w.Pkgs["sql"] {
			continue
		}
		ast.Inspect(f.Decl.Body, func(x ast.Node) bool {
			var tgt ast.Expr
			switch y := x.(type) {
			case *ast.AssignStmt:
				for _, l := range y.Lhs {
					tgt = l
					if sel, ok := ast.Unparen(tgt).(*ast.SelectorExpr); ok {
						if v := fieldVar(f, sel); v != nil && v.Name() == "cur" && namedTypeIs(f.TypeOf(sel.X), "sql", "TokenList") {
							nStores++
							c.Fail(rule, f.Name+"|cursor-store", y.Pos(), "the token cursor is assigned outside Advance's guarded increment: the invariant 0 <= cur <= len(tokens) that makes Cur/Prev safe no longer holds")
						}
					}
				}
			case *ast.IncDecStmt:
				if sel, ok := ast.Unparen(y.X).(*ast.SelectorExpr); ok {
					if v := fieldVar(f, sel); v != nil && v.Name() == "cur" && namedTypeIs(f.TypeOf(sel.X), "sql", "TokenList") {
						nStores++
						key := f.Name + "|cursor-store"
						okG := false
						if f.Name == "sql.(*TokenList).Advance" && y.Tok == token.INC {
							g := f.Graph()
							if loc, ok := g.Locate(y); ok {
								r := recvName(f)
								okG = g.HoldsAt(loc, Rel{r + ".cur", token.NEQ, "len(" + r + ".tokens)"})
							}
						}
						c.Check(okG, rule, key, y.Pos(), "cursor advanced only while cur != len(tokens)", "the cursor can be advanced past the end of the token list (or is changed outside Advance)")
					}
				}
			}
			return true
		})
	}
	if nStores == 0 {
		c.Undecided(rule, "subjects|cursor", "no store of TokenList.cur found")
	}
}

// dominatedByReturnGuard: loc is dominated by the FALSE edge of an `if cond { return ... }` whose cond satisfies pred.
func dominatedByReturnGuard(f *Func, g *Graph, loc Loc, pred func(ast.Expr) bool) bool {
	for _, b := range g.c.Blocks {
		if !g.Reachable(b) || len(b.Succs) != 2 {
			continue
		}
		info, ok := g.EdgeInfo(b, 1)
		if !ok || info.Case || !pred(info.Cond) {
			continue
		}
		// the true successor must leave the function (return) without reaching loc
		if g.BlockDominates(b.Succs[1], loc.B) && onlyPred(g, b.Succs[1], b) {
			return true
		}
		// `if cond { return }` followed by code: false edge goes to IfDone which may have other preds only via the then-branch that returned
		if g.BlockDominates(b, loc.B) && !reachesBlock(g, b.Succs[0], loc.B) {
			return true
		}
	}
	return false
}

func indexGuarded(f *Func, g *Graph, n ast.Node, x, index ast.Expr) (bool, string) {
	loc, ok := g.Locate(n)
	if !ok {
		return false, "not located"
	}
	xs := exprKey(x)
	is := exprKey(index)
	// range index / value over the same slice
	var inRange bool
	ast.Inspect(f.Decl.Body, func(y ast.Node) bool {
		if rs, ok := y.(*ast.RangeStmt); ok && rs.Body.Pos() <= n.Pos() && n.End() <= rs.Body.End() {
			if k, ok := rs.Key.(*ast.Ident); ok && k.Name == is && exprKey(rs.X) == xs {
				inRange = true
			}
		}
		return true
	})
	if inRange {
		return true, "range index over the same slice"
	}
	// range index over S into a slice that was made with len(S) and is never re-sliced or reassigned
	var sameLen bool
	if xid, ok := ast.Unparen(x).(*ast.Ident); ok {
		defs := f.assignsTo(f.Decl.Body, f.ObjOf(xid))
		if len(defs) == 1 && len(defs[0].Rhs) == 1 {
			if mk, ok := ast.Unparen(defs[0].Rhs[0]).(*ast.CallExpr); ok && len(mk.Args) == 2 {
				if fid, ok := mk.Fun.(*ast.Ident); ok && fid.Name == "make" {
					madeLen := exprKey(mk.Args[1])
					ast.Inspect(f.Decl.Body, func(y ast.Node) bool {
						if rs, ok := y.(*ast.RangeStmt); ok && rs.Body.Pos() <= n.Pos() && n.End() <= rs.Body.End() {
							if k, ok := rs.Key.(*ast.Ident); ok && k.Name == is && madeLen == "len("+exprKey(rs.X)+")" {
								sameLen = true
							}
						}
						return true
					})
				}
			}
		}
	}
	if sameLen {
		return true, "range index over a slice of the length this one was made with"
	}
	// x[i-1] after `if i == 0 { return }`
	if be, ok := ast.Unparen(index).(*ast.BinaryExpr); ok && be.Op == token.SUB {
		if cv := f.constOf(be.Y); cv != nil && cv.String() == "1" {
			base := exprKey(be.X)
			if dominatedByReturnGuard(f, g, loc, func(cond ast.Expr) bool {
				s := exprKey(cond)
				return s == base+"==0" || s == base+"<=0" || s == base+"<1"
			}) {
				return true, "dominated by the `" + base + " == 0` return"
			}
			// the same guard written as part of a wider condition (`i <= 0 || i > len(x)`): relational form
			if g.HoldsAt(loc, Rel{base, token.GTR, "0"}) || g.HoldsAt(loc, Rel{base, token.GEQ, "1"}) || g.HoldsAt(loc, Rel{base, token.NEQ, "0"}) {
				return true, "every path to the index has passed a test that excludes `" + base + " == 0`"
			}
			// an upper-bound test alone does not keep base-1 from being -1
			return false, exprKey(n.(ast.Expr)) + " is not guarded against " + base + " == 0 (index -1)"
		}
	}
	// x[i] after `if i == len(x) { return }`
	if g.HoldsAt(loc, Rel{is, token.NEQ, "len(" + xs + ")"}) && !modifiedSinceGuard(f, g, loc, index, xs) {
		return true, "dominated by the `" + is + " == len(" + xs + ")` return (cursor never exceeds the length: stored only by the guarded increment)"
	}
	return false, exprKey(n.(ast.Expr)) + " can be out of range for some input"
}

func sliceGuarded(f *Func, g *Graph, s *ast.SliceExpr) (bool, string) {
	loc, ok := g.Locate(s)
	if !ok {
		return false, "not located"
	}
	xs := exprKey(s.X)
	// s[1 : len(s)-1] needs len(s) >= 2 (>= 1 suffices for no panic only if low <= high: 1 <= len-1)
	lowC, highOK := int64(0), false
	if s.Low != nil {
		if cv := f.constOf(s.Low); cv != nil {
			if v, ok := constantInt(cv); ok {
				lowC = v
			}
		} else {
			return false, "non-constant low bound"
		}
	}
	need := lowC // len must be >= need
	if s.High == nil {
		highOK = true
	} else if be, ok := ast.Unparen(s.High).(*ast.BinaryExpr); ok && be.Op == token.SUB && exprKey(be.X) == "len("+xs+")" {
		if cv := f.constOf(be.Y); cv != nil {
			if v, ok := constantInt(cv); ok {
				highOK = true
				need = lowC + v
			}
		}
	} else if cv := f.constOf(s.High); cv != nil {
		if v, ok := constantInt(cv); ok {
			highOK, need = true, v
		}
	}
	if !highOK {
		return false, "bounds not recognised"
	}
	if need == 0 {
		return true, "bounds are trivially within any length"
	}
	if dominatedByReturnGuard(f, g, loc, func(cond ast.Expr) bool {
		be, ok := ast.Unparen(cond).(*ast.BinaryExpr)
		if !ok || exprKey(be.X) != "len("+xs+")" {
			return false
		}
		cv := f.constOf(be.Y)
		if cv == nil {
			return false
		}
		v, ok := constantInt(cv)
		if !ok {
			return false
		}
		// guard rejects len < v (or len <= v-1): remaining len >= v
		switch be.Op {
		case token.LSS:
			return v >= need
		case token.LEQ:
			return v+1 >= need
		}
		return false
	}) {
		return true, "dominated by a return for len(" + xs + ") < " + itoa(int(need))
	}
	return false, exprKey(s) + " panics when len(" + xs + ") < " + itoa(int(need))
}

func constantInt(cv interface{ String() string }) (int64, bool) {
	s := cv.String()
	var v int64
	neg := false
	if strings.HasPrefix(s, "-") {
		neg = true
		s = s[1:]
	}
	if s == "" {
		return 0, false
	}
	for _, ch := range s {
		if ch < '0' || ch > '9' {
			return 0, false
		}
		v = v*10 + int64(ch-'0')
	}
	if neg {
		v = -v
	}
	return v, true
}

// ---- C09.3 -------------------------------------------------------------------------------

func c09ScannerRefill(c *Ctx, rule string) {
	c.Rule(rule, "the vendored scanner never fills the slot reserved for its sentinel: every Read into the fixed-size source buffer uses a constant upper bound smaller than the array length, so the sentinel store srcBuf[srcEnd] stays in range for inputs longer than the buffer")
	w := c.W
	n := 0
	for _, name := range w.SortedFuncNames() {
		f := w.Funcs[name]
		if f.Pkg != w.Pkgs["sql"] || !isVendoredScanner(w, f) {
			continue
		}
		for _, call := range f.Calls(f.Decl.Body, false, "io.Reader.Read") {
			if len(call.Args) != 1 {
				continue
			}
			sl, ok := ast.Unparen(call.Args[0]).(*ast.SliceExpr)
			if !ok {
				continue
			}
			arr, ok := f.TypeOf(sl.X).Underlying().(*types.Array)
			if !ok {
				continue
			}
			n++
			key := f.Name + "|refill|" + exprKey(sl.X)
			okB := false
			if sl.High != nil {
				if cv := f.constOf(sl.High); cv != nil {
					if v, ok := constantInt(cv); ok && v < arr.Len() {
						okB = true
					}
				}
			}
			c.Check(okB, rule, key, call.Pos(), "Read is bounded by a constant below the array length ("+itoa(int(arr.Len()))+")", "the refill can fill the whole "+itoa(int(arr.Len()))+"-byte array including the sentinel slot: for an input of that many bytes the sentinel store indexes out of range and the scanner panics")
		}
	}
	if n == 0 {
		c.Undecided(rule, "subjects", "no buffered Read found in the vendored scanner")
	}
}

var _ = sort.Strings

// modifiedSinceGuard: the index is a local variable that is stored (i++, i = …) on a path that reaches loc without
// re-evaluating a condition that compares it with the length again.
func modifiedSinceGuard(f *Func, g *Graph, loc Loc, index ast.Expr, xs string) bool {
	id, ok := ast.Unparen(index).(*ast.Ident)
	if !ok {
		return false
	}
	obj := f.ObjOf(id)
	if v, ok := obj.(*types.Var); !ok || v.IsField() {
		return false
	}
	var mods []ast.Node
	inspectBody(g.body, func(x ast.Node) bool {
		switch y := x.(type) {
		case *ast.IncDecStmt:
			if i2, ok := ast.Unparen(y.X).(*ast.Ident); ok && f.ObjOf(i2) == obj {
				mods = append(mods, y)
			}
		case *ast.AssignStmt:
			if y.Tok == token.DEFINE {
				return true
			}
			for _, l := range y.Lhs {
				if i2, ok := ast.Unparen(l).(*ast.Ident); ok && f.ObjOf(i2) == obj {
					mods = append(mods, y)
				}
			}
		}
		return true
	})
	for _, m := range mods {
		ml, ok := g.Locate(m)
		if !ok {
			continue
		}
		hit, _ := g.Forward(&ml, nil, func(nn ast.Node, at Loc) Verdict {
			if at == loc {
				return Hit
			}
			if e, isExpr := nn.(ast.Expr); isExpr {
				k := exprKey(e)
				if strings.Contains(k, id.Name) && strings.Contains(k, "len("+xs+")") {
					return Cut // compared with the length again
				}
			}
			return Go
		}, nil)
		if hit {
			return true
		}
	}
	return false
}

// lookaheadCallersHaveToken: the look-ahead `tokens[cur+1]` of a TokenList method is guarded in the method against
// cur == len-1 only; cur == len (the cursor past the last token) is excluded where every caller asks for the next
// token only after it has seen that there is a current one — the call is the right operand of `&&` after a
// `curType(…)` / `match(…)` conjunct, the right operand of `||` after a negated one, or dominated by the true edge of
// such a test.
func lookaheadCallersHaveToken(w *World, f *Func, g *Graph, ix *ast.IndexExpr) (bool, string) {
	be, ok := ast.Unparen(ix.Index).(*ast.BinaryExpr)
	if !ok || be.Op != token.ADD || !strings.HasSuffix(exprKey(be.X), ".cur") {
		return false, ""
	}
	if cv := f.constOf(be.Y); cv == nil || cv.String() != "1" {
		return false, ""
	}
	loc, ok := g.Locate(ix)
	if !ok || !g.HoldsAt(loc, Rel{exprKey(be.X), token.NEQ, "len(" + exprKey(ix.X) + ")-1"}) {
		return false, ""
	}
	in := w.CG().In[f]
	if len(in) == 0 {
		return true, "guarded against the last token; the look-ahead has no caller in the parser"
	}
	hasTokenTest := func(caller *Func, e ast.Expr, truth bool) bool {
		// e (with the given truth value) implies that a token-type test succeeded
		var walk func(e ast.Expr, truth bool) bool
		walk = func(e ast.Expr, truth bool) bool {
			e = ast.Unparen(e)
			switch y := e.(type) {
			case *ast.UnaryExpr:
				if y.Op == token.NOT {
					return walk(y.X, !truth)
				}
			case *ast.BinaryExpr:
				if y.Op == token.LAND && truth {
					return walk(y.X, true) || walk(y.Y, true)
				}
				if y.Op == token.LOR && !truth {
					return walk(y.X, false) || walk(y.Y, false)
				}
				// `cur.Type == IDENT` (any type but EOF): the cursor is on a token
				if (y.Op == token.EQL && truth) || (y.Op == token.NEQ && !truth) {
					if strings.HasSuffix(exprKey(y.X), ".Type") {
						if cst := caller.namedConst(y.Y); cst != nil && cst.Name() != "EOF" {
							return true
						}
					}
				}
			case *ast.CallExpr:
				if !truth {
					return false
				}
				if sel, ok := ast.Unparen(y.Fun).(*ast.SelectorExpr); ok && (sel.Sel.Name == "curType" || sel.Sel.Name == "match") {
					return true
				}
			}
			return false
		}
		return walk(e, truth)
	}
	for _, cs := range in {
		caller := cs.Caller
		// operand position inside a short-circuit expression
		guarded := false
		var stack []ast.Node
		ast.Inspect(caller.Decl.Body, func(x ast.Node) bool {
			if x == nil {
				stack = stack[:len(stack)-1]
				return true
			}
			stack = append(stack, x)
			if x != ast.Node(cs.Call) {
				return true
			}
			for i := len(stack) - 2; i >= 0; i-- {
				b, ok := stack[i].(*ast.BinaryExpr)
				if !ok {
					continue
				}
				inRight := b.Y.Pos() <= cs.Call.Pos() && cs.Call.End() <= b.Y.End()
				if !inRight {
					continue
				}
				if b.Op == token.LAND && hasTokenTest(caller, b.X, true) {
					guarded = true
				}
				if b.Op == token.LOR && hasTokenTest(caller, b.X, false) {
					guarded = true
				}
			}
			return true
		})
		if !guarded {
			// dominated by the true edge of a token test
			cg := caller.Graph()
			if cl, ok := cg.Locate(cs.Call); ok {
				for _, b := range cg.c.Blocks {
					if !cg.Reachable(b) || len(b.Succs) != 2 {
						continue
					}
					for si := 0; si < 2; si++ {
						info, ok := cg.EdgeInfo(b, si)
						if !ok || info.Case {
							continue
						}
						if hasTokenTest(caller, info.Cond, info.Val) && cg.BlockDominates(b.Succs[si], cl.B) && onlyPred(cg, b.Succs[si], b) {
							guarded = true
						}
					}
				}
			}
		}
		if !guarded {
			return false, ""
		}
	}
	return true, "guarded against the last token, and every caller looks ahead only after a token-type test on the current token succeeded (the cursor is not past the end)"
}
