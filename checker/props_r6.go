package main

// Rules added after the sixth seeded-change campaign (bug fixes, small features and clean-ups that break a property).

import (
	"go/ast"
	"go/token"
	"go/types"
	"strings"

	"golang.org/x/tools/go/cfg"
)

// ---- the cache stores what it is given -------------------------------------------------------------------------------------

// ruleSetCacheStores: fileStore.setCache has no success return that skipped cache.set.
func ruleSetCacheStores(c *Ctx, rule string) {
	c.Rule(rule, "a page handed to the cache is in the cache: fileStore.setCache reaches LRUCache.set(key, val) with its own arguments on every path to a success return — a guard that returns nil without storing ('keep the copy that is there') leaves the caller with a page object that no lookup returns and no flush writes")
	c.Robust(rule)
	f := c.NeedFunc(rule, "storage.(*fileStore).setCache")
	if f == nil {
		return
	}
	g := f.Graph()
	key := f.Name + "|stores-on-success"
	sets := f.Calls(f.Decl.Body, false, "storage.LRUCache.set")
	if len(sets) == 0 {
		c.Fail(rule, key, f.Decl.Pos(), "setCache never calls LRUCache.set")
		return
	}
	for _, s := range sets {
		if len(s.Args) != 2 || exprKey(s.Args[0]) != paramName(f, 0) || exprKey(s.Args[1]) != paramName(f, 1) {
			c.Fail(rule, key, s.Pos(), "setCache stores (%s, %s) instead of the key and page it was given", exprKey(s.Args[0]), exprKey(s.Args[1]))
			return
		}
	}
	miss, wit := g.Forward(nil, nil, func(nn ast.Node, at Loc) Verdict {
		if len(f.Calls(nn, false, "storage.LRUCache.set")) > 0 {
			return Cut
		}
		if r, ok := nn.(*ast.ReturnStmt); ok {
			if g.ReturnMayBeNil(r) {
				return Hit
			}
			return Cut
		}
		return Go
	}, func(b *cfg.Block) Verdict { return Hit })
	if miss {
		at := f.Decl.Pos()
		if len(wit) > 0 && wit[len(wit)-1] != nil {
			at = wit[len(wit)-1].Pos()
		}
		c.Fail(rule, key, at, "setCache can return success without having stored the page (return at %s): the caller goes on with a page object that is not in the cache — its changes are never flushed and the next lookup returns another object", c.W.Pos(at))
	} else {
		c.OK(rule, key, f.Decl.Pos(), len(sets), "every success return of setCache is preceded by LRUCache.set(key, val)")
	}
}

// ---- every database directory is listed -----------------------------------------------------------------------------------

// ruleListEveryDB: listDBs skips an entry only because it is not a directory.
func ruleListEveryDB(c *Ctx, rule string) {
	c.Rule(rule, "SHOW DATABASES and start-up recovery see every database: the loop of listDBs over the entries of the data directory skips an entry only on its IsDir() test — a filter on the name (a whitelist of characters, a prefix) hides databases whose names CREATE DATABASE accepts, and recovery, which walks the same list, never replays their logs")
	c.Robust(rule)
	f := c.NeedFunc(rule, "storage.listDBs")
	if f == nil {
		return
	}
	n := 0
	ast.Inspect(f.Decl.Body, func(x ast.Node) bool {
		var body *ast.BlockStmt
		switch y := x.(type) {
		case *ast.RangeStmt:
			body = y.Body
		case *ast.ForStmt:
			body = y.Body
		}
		if body == nil {
			return true
		}
		ast.Inspect(body, func(y ast.Node) bool {
			ifs, ok := y.(*ast.IfStmt)
			if !ok {
				return true
			}
			// a test that decides whether the entry is appended
			skips := containsBranch(ifs.Body)
			ast.Inspect(ifs.Body, func(z ast.Node) bool {
				if call, ok := z.(*ast.CallExpr); ok {
					if id, ok := call.Fun.(*ast.Ident); ok && id.Name == "append" {
						skips = true
					}
				}
				return true
			})
			if ifs.Else != nil {
				skips = true
			}
			if !skips {
				return true
			}
			n++
			key := f.Name + "|entry-test#" + itoa(n)
			k := exprKey(ifs.Cond)
			k = strings.TrimPrefix(k, "!")
			if strings.HasSuffix(k, ".IsDir()") {
				c.OK(rule, key, ifs.Pos(), 1, "the entry is tested for being a directory only")
			} else {
				c.Fail(rule, key, ifs.Pos(), "listDBs keeps or drops an entry on `%s`: a database whose name does not pass this test exists and can be used, but SHOW DATABASES omits it and start-up recovery never replays its log (acknowledged rows are lost after a crash)", exprKey(ifs.Cond))
			}
			return true
		})
		return false
	})
	if n == 0 {
		c.OK(rule, f.Name+"|entry-test|none", f.Decl.Pos(), 1, "no entry of the data directory is filtered")
	}
}

// ---- a rejected record is always reported -----------------------------------------------------------------------------------

// ruleBlockingErrorSend: sends on the importer's error channel are plain blocking sends.
func ruleBlockingErrorSend(c *Ctx, rule string) {
	c.Rule(rule, "every rejected record is reported: in csvimport a value is sent on an error channel by a plain blocking send — not from a select with a timeout or default arm, which drops the report when the consumer is slow (the record is then neither stored nor reported)")
	c.Robust(rule)
	w := c.W
	n := 0
	for _, name := range w.SortedFuncNames() {
		f := w.Funcs[name]
		if f.Pkg != w.Pkgs["csvimport"] || f.Decl.Body == nil {
			continue
		}
		k := 0
		ast.Inspect(f.Decl.Body, func(x ast.Node) bool {
			sel, ok := x.(*ast.SelectStmt)
			if !ok {
				return true
			}
			sendsErr := false
			other := false
			for _, cl := range sel.Body.List {
				cc := cl.(*ast.CommClause)
				if s, ok := cc.Comm.(*ast.SendStmt); ok {
					if t := f.TypeOf(s.Value); t != nil && isErrorType(t) {
						sendsErr = true
						continue
					}
				}
				if cc.Comm == nil { // default
					other = true
					continue
				}
				// a receive from a timer / done channel
				other = true
			}
			if sendsErr {
				n++
				k++
				key := f.Name + "|error-send-in-select#" + itoa(k)
				if other {
					c.Fail(rule, key, sel.Pos(), "%s sends a record's error inside a select that has another way out (a timeout, a default): when the consumer is not receiving at that moment the report is dropped — the record is neither stored nor reported", f.Name)
				} else {
					c.OK(rule, key, sel.Pos(), 1, "the select has no other arm")
				}
			}
			return true
		})
	}
	if n == 0 {
		c.OK(rule, "csvimport|error-sends", token.NoPos, 1, "no error is sent from inside a select")
	}
}

// ---- the column mapping is not reordered --------------------------------------------------------------------------------------

// ruleMappingNotReordered: the parallel slices of the import configuration are never sorted or otherwise permuted.
func ruleMappingNotReordered(c *Ctx, rule string) {
	c.Rule(rule, "the column mapping stays as given: srcCols, dstCols and colTypes are parallel slices (position i of each describes one mapped column); none of them is handed to a function that permutes its argument in place (sort.Ints, sort.Strings, sort.Slice, sort.Sort, slices.Sort…) — sorting one of them for a validity check silently pairs every source field with another destination column")
	c.Robust(rule)
	w := c.W
	n := 0
	for _, name := range w.SortedFuncNames() {
		f := w.Funcs[name]
		if f.Pkg != w.Pkgs["csvimport"] || f.Decl.Body == nil {
			continue
		}
		k := 0
		ast.Inspect(f.Decl.Body, func(x ast.Node) bool {
			call, ok := x.(*ast.CallExpr)
			if !ok || len(call.Args) == 0 {
				return true
			}
			callee := f.Callee(call)
			if callee == nil || callee.Pkg() == nil {
				return true
			}
			p := callee.Pkg().Path()
			if p != "sort" && p != "slices" {
				return true
			}
			if !strings.HasPrefix(callee.Name(), "Sort") && callee.Name() != "Ints" && callee.Name() != "Strings" && callee.Name() != "Slice" && callee.Name() != "SliceStable" && callee.Name() != "Stable" && callee.Name() != "Reverse" {
				return true
			}
			arg := exprKey(call.Args[0])
			for _, m := range []string{"srcCols", "dstCols", "colTypes"} {
				if strings.HasSuffix(arg, "."+m) || arg == m {
					n++
					k++
					c.Fail(rule, f.Name+"|permutes|"+m, call.Pos(), "%s permutes %s in place (%s.%s): the other mapping slices keep their order, so source fields are stored in the wrong destination columns whenever the mapping was not already sorted", f.Name, arg, p, callee.Name())
				}
			}
			return true
		})
	}
	if n == 0 {
		c.OK(rule, "csvimport|mapping-order", token.NoPos, 1, "no mapping slice is sorted or permuted in place")
	}
}

// ---- a value goes into the column the statement names -----------------------------------------------------------------------

// ruleInsertByName: in RelationService.Insert a value is stored under the name at the same position of the column list.
func ruleInsertByName(c *Ctx, rule string) {
	c.Rule(rule, "INSERT stores each value in the column the statement names for it: in RelationService.Insert every store tuple.Vals[K] = vals[i] takes K from position i of the statement's column list (the loop variable of a range over cols, or cols[i]); taking K from the schema is allowed only where the column list is known to be empty — a column list of full length in another order is otherwise read as 'no column list' and the values land in the wrong columns")
	c.Robust(rule)
	f := c.NeedFunc(rule, "storage.(*RelationService).Insert")
	if f == nil {
		return
	}
	colsName, valsName := paramName(f, 1), paramName(f, 2)
	g := f.Graph()
	n := 0
	inspectBody(f.Decl.Body, func(x ast.Node) bool {
		as, ok := x.(*ast.AssignStmt)
		if !ok || len(as.Lhs) != 1 || len(as.Rhs) != 1 {
			return true
		}
		ix, ok := ast.Unparen(as.Lhs[0]).(*ast.IndexExpr)
		if !ok || !strings.HasSuffix(exprKey(ix.X), ".Vals") {
			return true
		}
		vx, ok := ast.Unparen(as.Rhs[0]).(*ast.IndexExpr)
		if !ok || exprKey(vx.X) != valsName {
			return true
		}
		n++
		key := f.Name + "|value-by-name#" + itoa(n)
		idx := exprKey(vx.Index)
		rs, _ := enclosingLoop(f.Decl.Body, as).(*ast.RangeStmt)
		okName := false
		k := exprKey(ix.Index)
		if k == colsName+"["+idx+"]" {
			okName = true
		}
		if rs != nil && exprKey(rs.X) == colsName && rs.Key != nil && exprKey(rs.Key) == idx && rs.Value != nil && exprKey(rs.Value) == k {
			okName = true
		}
		if okName {
			c.OK(rule, key, as.Pos(), 1, "the name is position %s of the column list", idx)
			return true
		}
		if loc, ok := g.Locate(as); ok && g.HoldsAt(loc, Rel{"len(" + colsName + ")", token.EQL, "0"}) {
			c.OK(rule, key, as.Pos(), 1, "positional, where the statement has no column list")
			return true
		}
		c.Fail(rule, key, as.Pos(), "Insert stores %s under %s, which is not position %s of the statement's column list, on a path where the list may be non-empty: INSERT INTO t (b, a) VALUES (…) puts the values into the wrong columns", exprKey(as.Rhs[0]), k, idx)
		return true
	})
	if n == 0 {
		c.Undecided(rule, f.Name+"|value-by-name", "no store of a statement value into the tuple found in Insert")
	}
}

// ---- the statement text reaches the scanner as it was given -------------------------------------------------------------------

// ruleStatementTextUnmodified: parseSQL hands the string it received to the scanner.
func ruleStatementTextUnmodified(c *Ctx, rule string) {
	c.Rule(rule, "the scanner sees the statement as it was written: the reader the token scanner is built on in engine.parseSQL wraps parseSQL's own string parameter — text that was edited first (comments stripped, trimmed, case-folded) was edited without knowing where string literals begin and end, so a literal containing the edited pattern is stored altered or cuts the statement short")
	c.Robust(rule)
	var f *Func
	for _, name := range []string{"engine.parseSQL", "engine.parseStatement"} {
		if cand := c.W.F(name); cand != nil {
			f = cand
		}
	}
	if f == nil {
		c.Undecided(rule, "anchor|engine.parseSQL", "parseSQL not found")
		return
	}
	param := paramName(f, 0)
	key := f.Name + "|text-unmodified"
	n := 0
	bad := ""
	ast.Inspect(f.Decl.Body, func(x ast.Node) bool {
		call, ok := x.(*ast.CallExpr)
		if !ok {
			return true
		}
		callee := f.Callee(call)
		if callee == nil || callee.Pkg() == nil {
			return true
		}
		if (callee.Pkg().Path() == "strings" && callee.Name() == "NewReader") || (callee.Pkg().Path() == "bytes" && (callee.Name() == "NewBufferString" || callee.Name() == "NewReader")) {
			n++
			arg := ast.Unparen(call.Args[0])
			if cv, ok := arg.(*ast.CallExpr); ok && len(cv.Args) == 1 {
				if tv, isT := f.Pkg.TypesInfo.Types[cv.Fun]; isT && tv.IsType() {
					arg = ast.Unparen(cv.Args[0]) // []byte(q)
				}
			}
			if exprKey(arg) != param {
				bad = exprKey(call.Args[0])
			}
		}
		return true
	})
	// the parameter itself must not be reassigned
	if pid := paramIdent(f, 0); pid != nil && len(f.assignsTo(f.Decl.Body, f.ObjOf(pid))) > 0 {
		bad = param + " (reassigned before it is scanned)"
	}
	switch {
	case n == 0:
		c.Undecided(rule, key, "no reader over the statement text found in %s", f.Name)
	case bad != "":
		c.Fail(rule, key, f.Decl.Pos(), "%s scans %s instead of the statement text it was given: an edit of the raw text cannot know where string literals begin and end", f.Name, bad)
	default:
		c.OK(rule, key, f.Decl.Pos(), n, "the scanner reads the parameter itself")
	}
}

// ---- the log append reaches the file before the statement returns --------------------------------------------------------------

// ruleLogWritesReachFile: wal.flush writes to the log file itself, or flushes whatever buffer it writes to.
func ruleLogWritesReachFile(c *Ctx, rule string) {
	c.Rule(rule, "a record is in the log file when the log append returns: the Write calls of wal.flush go to the file (the wal's reader field); if they go to a buffered writer, that writer is flushed on every success path before flush returns — the page flusher writes pages as soon as the statement has released the store lock, and a page must never reach the data file before its log record is in the log file")
	c.Robust(rule)
	f := c.NeedFunc(rule, "storage.(*wal).flush")
	if f == nil {
		return
	}
	g := f.Graph()
	key := f.Name + "|writes-reach-file"
	buffered := false
	var firstBuffered ast.Node
	n := 0
	inspectBody(f.Decl.Body, func(x ast.Node) bool {
		call, ok := x.(*ast.CallExpr)
		if !ok {
			return true
		}
		sel, ok := ast.Unparen(call.Fun).(*ast.SelectorExpr)
		if !ok || sel.Sel.Name != "Write" || len(call.Args) != 1 {
			return true
		}
		t := f.TypeOf(sel.X)
		if t == nil {
			return true
		}
		if strings.HasSuffix(types.TypeString(t, nil), "bytes.Buffer") {
			return true // building the record in memory
		}
		n++
		// direct: the wal's file field
		if s2, ok := ast.Unparen(sel.X).(*ast.SelectorExpr); ok {
			if v := fieldVar(f, s2); v != nil && v.Name() == "reader" {
				return true
			}
		}
		buffered = true
		if firstBuffered == nil {
			firstBuffered = call
		}
		return true
	})
	if n == 0 {
		c.Undecided(rule, key, "no Write call found in wal.flush")
		return
	}
	if !buffered {
		c.OK(rule, key, f.Decl.Pos(), n, "%d writes, all to the log file itself", n)
		return
	}
	// every success path from a non-file write passes a Flush() of something
	loc, _ := g.Locate(firstBuffered)
	miss, _ := g.Forward(&loc, g.SuccessEdges, func(nn ast.Node, at Loc) Verdict {
		flushed := false
		ast.Inspect(nn, func(y ast.Node) bool {
			if call, ok := y.(*ast.CallExpr); ok {
				if sel, ok := ast.Unparen(call.Fun).(*ast.SelectorExpr); ok && sel.Sel.Name == "Flush" && len(call.Args) == 0 {
					flushed = true
				}
			}
			return true
		})
		if flushed {
			return Cut
		}
		if r, ok := nn.(*ast.ReturnStmt); ok {
			if g.ReturnMayBeNil(r) {
				return Hit
			}
			return Cut
		}
		return Go
	}, func(b *cfg.Block) Verdict { return Hit })
	if miss {
		c.Fail(rule, key, firstBuffered.Pos(), "wal.flush writes a record to something other than the log file (%s) and can return success without flushing it: the statement is acknowledged, the store lock is released and the page flusher may write the statement's pages while its log records are still in memory — after a crash the data file is ahead of the log", exprKey(firstBuffered.(*ast.CallExpr).Fun))
	} else {
		c.OK(rule, key, firstBuffered.Pos(), n, "writes to a buffer are flushed on every success path")
	}
}

// ---- reflect.TypeOf(nil) is nil ------------------------------------------------------------------------------------------------

// ruleReflectNil: a method is called on reflect.TypeOf(x) only where x is known not to be nil.
func ruleReflectNil(c *Ctx, rule string, pkgs ...string) {
	c.Rule(rule, "reflect.TypeOf(nil) is a nil Type: a method is called on reflect.TypeOf(x) (x of interface type) only where a dominating test has excluded x == nil — NULL reaches the evaluator as an untyped nil, so an unguarded reflect.TypeOf(v).Kind() crashes on every row that holds a NULL")
	c.Robust(rule)
	w := c.W
	n := 0
	for _, name := range w.SortedFuncNames() {
		f := w.Funcs[name]
		okPkg := false
		for _, p := range pkgs {
			if f.Pkg == w.Pkgs[p] {
				okPkg = true
			}
		}
		if !okPkg || f.Decl.Body == nil {
			continue
		}
		var g *Graph
		k := 0
		inspectBody(f.Decl.Body, func(x ast.Node) bool {
			outer, ok := x.(*ast.CallExpr)
			if !ok {
				return true
			}
			sel, ok := ast.Unparen(outer.Fun).(*ast.SelectorExpr)
			if !ok {
				return true
			}
			inner, ok := ast.Unparen(sel.X).(*ast.CallExpr)
			if !ok || len(inner.Args) != 1 {
				return true
			}
			callee := f.Callee(inner)
			if callee == nil || callee.Pkg() == nil || callee.Pkg().Path() != "reflect" || callee.Name() != "TypeOf" {
				return true
			}
			arg := inner.Args[0]
			if t := f.TypeOf(arg); t == nil || !isInterface(t) {
				return true
			}
			n++
			k++
			key := f.Name + "|reflect-typeof#" + itoa(k)
			if g == nil {
				g = f.Graph()
			}
			loc, located := g.Locate(outer)
			a := exprKey(arg)
			if located && (g.HoldsAt(loc, Rel{a, token.NEQ, "nil"}) || dominatedByReturnGuard(f, g, loc, func(cond ast.Expr) bool { return exprKey(cond) == a+"==nil" })) {
				c.OK(rule, key, outer.Pos(), 1, "%s != nil is known here", a)
				return true
			}
			// a parameter: every caller passes a value it knows not to be nil
			if id, ok := ast.Unparen(arg).(*ast.Ident); ok {
				if j := paramIndexOf(f, f.ObjOf(id)); j >= 0 && !ast.IsExported(f.Decl.Name.Name) || j >= 0 && len(w.CG().In[f]) > 0 {
					in := w.CG().In[f]
					all := len(in) > 0
					for _, cs := range in {
						if j >= len(cs.Call.Args) {
							all = false
							continue
						}
						cg := cs.Caller.Graph()
						if cs.InLit != nil {
							all = false
							continue
						}
						cl, ok := cg.Locate(cs.Call)
						ca := exprKey(cs.Call.Args[j])
						if !ok || !cg.HoldsAt(cl, Rel{ca, token.NEQ, "nil"}) {
							all = false
						}
					}
					if all {
						c.OK(rule, key, outer.Pos(), len(in), "%s is a parameter and every caller passes a value it has tested against nil", a)
						return true
					}
				}
			}
			c.Fail(rule, key, outer.Pos(), "%s calls %s on reflect.TypeOf(%s) where %s may be nil: reflect.TypeOf(nil) is a nil Type and the call panics — a NULL operand crashes the engine", f.Name, sel.Sel.Name, a, a)
			return true
		})
	}
	if n == 0 {
		c.OK(rule, "reflect|typeof", token.NoPos, 1, "no method call on reflect.TypeOf of an interface value")
	}
}

// ---- one log record per row operation -----------------------------------------------------------------------------------------

// ruleOneRecordPerRow: the logged mutator is called once per row, not once per assignment or column.
func ruleOneRecordPerRow(c *Ctx, rule string) {
	c.Rule(rule, "a row operation is one log record: in EvaluateInsert / EvaluateUpdate / EvaluateDelete the logged mutator of the RelationManager (Insert, Update, MarkDeleted) is called at loop depth one — once per row. Called inside a second loop (once per SET assignment, per column) it logs several records for one row, and a crash between two of them recovers a half-applied row")
	c.Robust(rule)
	w := c.W
	n := 0
	for _, name := range []string{"engine.EvaluateInsert", "engine.EvaluateUpdate", "engine.EvaluateDelete"} {
		f := c.NeedFunc(rule, name)
		if f == nil {
			continue
		}
		for _, cs := range w.CG().Sites[f] {
			if cs.InLit != nil || !returnsWALBatch(cs.Callee) {
				continue
			}
			depth := 0
			var stack []ast.Node
			ast.Inspect(f.Decl.Body, func(x ast.Node) bool {
				if x == nil {
					stack = stack[:len(stack)-1]
					return true
				}
				stack = append(stack, x)
				if x == ast.Node(cs.Call) {
					for _, a := range stack {
						switch a.(type) {
						case *ast.ForStmt, *ast.RangeStmt:
							depth++
						}
					}
				}
				return true
			})
			n++
			key := f.Name + "|one-record-per-row|" + calleeKey(cs.Callee)
			if depth <= 1 {
				c.OK(rule, key, cs.Call.Pos(), 1, "called at loop depth %d", depth)
			} else {
				c.Fail(rule, key, cs.Call.Pos(), "%s calls %s inside %d nested loops: one row is changed and logged in several steps, so a crash while the statement is being logged can recover a row with some of its assignments applied and others not", f.Name, calleeKey(cs.Callee), depth)
			}
		}
	}
	if n < 3 {
		c.Undecided(rule, "subjects", "only %d logged mutator calls found in the statement evaluators", n)
	}
}

// ---- the separator is the first key of the new page ------------------------------------------------------------------------------

// ruleSeparatorIsFirstKey: what a leaf split hands to the parent is the key of the first cell (in key order) of the new page.
func ruleSeparatorIsFirstKey(c *Ctx, rule string) {
	c.Rule(rule, "the separator of a leaf split is the smallest key of the new page: every value btreeNode.split returns from the new page's leaf cells is the key of the cell at offsets[0] — tombstones included. A separator chosen among the live cells only lies above a deleted key that stays in the page: that key is then below its parent's bound, and a redo of its insert stores it a second time in the left leaf")
	c.Robust(rule)
	f := c.NeedFunc(rule, "storage.(*btreeNode).split")
	if f == nil {
		return
	}
	np := paramName(f, 0)
	n := 0
	for _, r := range f.Graph().Returns() {
		if len(r.Results) == 0 {
			continue
		}
		e := ast.Unparen(r.Results[0])
		// X.key with X a local bound to a cell
		sel, ok := e.(*ast.SelectorExpr)
		if !ok || sel.Sel.Name != "key" {
			continue
		}
		cellExpr := ast.Unparen(sel.X)
		if id, ok := cellExpr.(*ast.Ident); ok {
			if rhs, _, ok := f.definedBy(f.Decl.Body, f.ObjOf(id)); ok {
				cellExpr = ast.Unparen(rhs)
			}
		}
		ix, ok := cellExpr.(*ast.IndexExpr)
		if !ok || exprKey(ix.X) != np+".leafCells" {
			continue
		}
		n++
		key := f.Name + "|leaf-separator#" + itoa(n)
		if exprKey(ix.Index) == np+".offsets[0]" {
			c.OK(rule, key, r.Pos(), 1, "the key at offsets[0] of the new page")
		} else {
			c.Fail(rule, key, r.Pos(), "split returns the key of %s.leafCells[%s] as separator, which need not be the first cell of the new page: a key that stays in the page below the separator is outside its parent's bounds", np, exprKey(ix.Index))
		}
	}
	if n == 0 {
		c.Undecided(rule, f.Name+"|leaf-separator", "no return of a key of the new page's leaf cells found in split")
	}
}

// ---- an operation that changes several pages and a flush that writes them one by one ----------------------------------------------

// ruleMultiPageRedo: redo decides per record, by the LSN of ONE page, whether an operation has reached the disk. That is
// only right if the pages one operation stamps reach the disk together.
func ruleMultiPageRedo(c *Ctx, rule string) {
	c.Rule(rule, "a crash inside a flush loses nothing only if recovery can tell, for every logged operation, whether ALL the pages it changed are on disk. Three facts are read from the code: (1) which tree operations stamp more than one page with the same LSN (a split marks the old page, the new sibling, the parent and a neighbour dirty with the LSN of the one insert); (2) whether the flush writes dirty pages one at a time (a WriteAt per page inside a loop over the cache, no journal or shadow copy in between); (3) whether redo skips a record on the LSN of one page only (the page the record names). If all three hold, a crash between two page writes of one operation leaves a state redo does not repair: it either skips the whole operation (the named page is on disk, its sibling is not) or re-applies it on top of a half-written tree")
	c.Robust(rule)
	w := c.W
	// (1) multi-page stamps
	type multi struct {
		f     *Func
		short string // the name the rules know the function by (it may have been renamed)
		pages []string
		pos   token.Pos
	}
	var multis []multi
	for _, name := range []string{"storage.(*BTree).insertLeaf", "storage.(*BTree).insertInternal"} {
		f := w.F(name)
		if f == nil {
			continue
		}
		byLSN := map[string]map[string]bool{}
		var first token.Pos
		for _, call := range f.Calls(f.Decl.Body, false, "storage.btreeNode.markDirty") {
			if len(call.Args) != 1 {
				continue
			}
			lsn := exprKey(call.Args[0])
			page := exprKey(call.Fun.(*ast.SelectorExpr).X)
			if byLSN[lsn] == nil {
				byLSN[lsn] = map[string]bool{}
			}
			byLSN[lsn][page] = true
			if first == token.NoPos {
				first = call.Pos()
			}
		}
		for _, pages := range byLSN {
			if len(pages) >= 2 {
				var ps []string
				for p := range pages {
					ps = append(ps, p)
				}
				sortStrings(ps)
				multis = append(multis, multi{f, name[strings.LastIndex(name, ".")+1:], ps, first})
			}
		}
	}
	// (2) the flush writes page by page
	flush := w.F("storage.(*fileStore).flushPages")
	perPage := false
	if flush != nil {
		ast.Inspect(flush.Decl.Body, func(x ast.Node) bool {
			var body *ast.BlockStmt
			switch y := x.(type) {
			case *ast.RangeStmt:
				body = y.Body
			case *ast.ForStmt:
				body = y.Body
			}
			if body != nil && len(flush.Calls(body, false, "storage.*.update", "os.File.WriteAt")) > 0 {
				perPage = true
			}
			return true
		})
	}
	// (3) redo's skip test looks at one page
	replay := w.F("storage.WALBatch.replay")
	onePage := false
	if replay != nil {
		inspectBody(replay.Decl.Body, func(x ast.Node) bool {
			ifs, ok := x.(*ast.IfStmt)
			if !ok || !endsWithContinue(ifs.Body) {
				return true
			}
			k := exprKey(ifs.Cond)
			if strings.Contains(k, ".LSN") && strings.Count(k, "getLastLSN()") == 1 {
				onePage = true
			}
			return true
		})
	}
	if flush == nil || replay == nil || len(multis) == 0 && (w.F("storage.(*BTree).insertLeaf") == nil) {
		c.Undecided(rule, "anchor|flush-replay-insert", "flushPages, replay or the tree insert was not found")
		return
	}
	if len(multis) == 0 {
		c.OK(rule, "tree-operations|single-page", token.NoPos, 2, "no tree operation stamps more than one page with one LSN")
		return
	}
	var names, descr []string
	for _, m := range multis {
		names = append(names, m.short)
		descr = append(descr, m.f.Name+" stamps "+itoa(len(m.pages))+" pages ("+strings.Join(m.pages, ", ")+")")
	}
	key := "storage.(*fileStore).flushPages|page-by-page|multi-page-operations|" + strings.Join(names, "+")
	switch {
	case !perPage:
		c.OK(rule, key, flush.Decl.Pos(), 3, "%s with one LSN, and the flush does not write pages one at a time", strings.Join(descr, "; "))
	case !onePage:
		c.Undecided(rule, key, "%s with one LSN and the flush writes page by page; how redo decides to skip a record was not recognised", strings.Join(descr, "; "))
	default:
		c.Fail(rule, key, flush.Decl.Pos(), "%s with the LSN of one insert; flushPages writes dirty pages one at a time in map order; replay skips a record when the ONE page it names carries its LSN. A crash after some of these page writes and before the others leaves a tree that recovery does not repair: with the old leaf on disk and the new sibling not, the insert is skipped and the rows that moved to the sibling are gone (and the logged root move points at a page that was never written)", strings.Join(descr, "; "))
	}
}

// ---- a row operation that needs two records ----------------------------------------------------------------------------------------

// ruleRowRecordsAtomic: a mutator that can return more than one record for ONE row operation, and a log append that
// writes record by record.
func ruleRowRecordsAtomic(c *Ctx, rule string) {
	c.Rule(rule, "a crash while a statement is being logged leaves whole row operations: either every logged mutator returns exactly one record per row operation, or the log append writes the records of one row operation in one write. Read from the code: which mutators of RelationService append the batch of a callee (updatePageTable: the root move that goes with an insert that split the root) to their own record, and whether wal.flush issues its Write calls inside the loop over the records")
	c.Robust(rule)
	w := c.W
	flush := c.NeedFunc(rule, "storage.(*wal).flush")
	if flush == nil {
		return
	}
	perRecord := false
	ast.Inspect(flush.Decl.Body, func(x ast.Node) bool {
		var body *ast.BlockStmt
		switch y := x.(type) {
		case *ast.RangeStmt:
			body = y.Body
		case *ast.ForStmt:
			body = y.Body
		}
		if body == nil {
			return true
		}
		ast.Inspect(body, func(y ast.Node) bool {
			if call, ok := y.(*ast.CallExpr); ok {
				if sel, ok := ast.Unparen(call.Fun).(*ast.SelectorExpr); ok && sel.Sel.Name == "Write" {
					if t := flush.TypeOf(sel.X); t != nil && !strings.HasSuffix(types.TypeString(t, nil), "bytes.Buffer") {
						perRecord = true
					}
				}
			}
			return true
		})
		return true
	})
	n := 0
	for _, name := range []string{"storage.(*RelationService).Insert", "storage.(*RelationService).Update", "storage.(*RelationService).MarkDeleted"} {
		f := c.NeedFunc(rule, name)
		if f == nil {
			continue
		}
		n++
		own := 0
		for _, lit := range f.compositeLits("storage", "WALEntry") {
			_ = lit
			own++
		}
		var callee []string
		for _, cs := range w.CG().Sites[f] {
			if cs.InLit == nil && returnsWALBatch(cs.Callee) {
				callee = append(callee, calleeKey(cs.Callee))
			}
		}
		key := f.Name + "|records-per-row-operation"
		switch {
		case own <= 1 && len(callee) == 0:
			c.OK(rule, key, f.Decl.Pos(), 1, "one record per row operation")
		case !perRecord:
			c.OK(rule, key, f.Decl.Pos(), 2, "several records, written together")
		default:
			c.Fail(rule, key, f.Decl.Pos(), "%s can return more than one record for one row (its own and the batch of %s), and wal.flush writes the records one by one: a crash between the two writes leaves the insert in the log without the root move that belongs to it — recovery redoes the split, the catalog keeps the old root, and the next rows go into the wrong leaf", f.Name, strings.Join(callee, ", "))
		}
	}
	if n == 0 {
		c.Undecided(rule, "subjects", "no logged mutator found")
	}
}
