package main

// Shared-state and lock-bracket analysis (template T8), used by C13, C04, C18.

import (
	"go/ast"
	"go/token"
	"go/types"

	"golang.org/x/tools/go/cfg"
)

type lockKind int

const (
	lockNone lockKind = iota
	lockSharedK
	lockExclK
)

type LockModel struct {
	w *World
	// roles resolved structurally
	storeType  *types.Named       // storage.fileStore
	mtxField   *types.Var         // the sync.RWMutex field of fileStore
	acquire    map[*Func]lockKind // functions that return with the store lock held (wrappers included)
	release    map[*Func]lockKind
	sharedFld  map[*types.Var]string // shared mutable fields -> "Type.field"
	touching   map[*Func]bool        // functions whose cone touches shared state / data file / log
	direct     map[*Func][]ast.Node  // direct shared accesses in the function (incl. closures)
	selfLocked map[*Func]bool
	problems   []string
}

var sharedStructs = map[string]bool{"btreeNode": true, "leafCell": true, "internalCell": true, "LRUCache": true, "cacheEntry": true}

// constructor functions: assignments to fileStore fields here initialise an object not yet shared.
var storeConstructors = map[string]bool{"storage.newFileStore": true}

// isStoreConstructor: newFileStore, or a function the rules have never seen that returns a *fileStore it has just
// built — from a composite literal or from another constructor (a bool parameter replaced by two named
// constructors, a constructor with options): the object is not shared before the function returns.
func (w *World) isStoreConstructor(f *Func) bool {
	if storeConstructors[f.Name] {
		return true
	}
	if v, ok := w.memo["ctor:"+f.Name].(bool); ok {
		return v
	}
	if w.memo == nil {
		w.memo = map[string]any{}
	}
	w.memo["ctor:"+f.Name] = false // cycles
	res := false
	defer func() { w.memo["ctor:"+f.Name] = res }()
	if _, pinned := pinnedFuncs[f.Name]; pinned || f.Decl.Body == nil {
		return false
	}
	sig := f.Obj.Type().(*types.Signature)
	returnsStore := false
	for i := 0; i < sig.Results().Len(); i++ {
		if namedTypeIs(sig.Results().At(i).Type(), "storage", "fileStore") {
			returnsStore = true
		}
	}
	if !returnsStore || sig.Recv() != nil {
		return false
	}
	ast.Inspect(f.Decl.Body, func(x ast.Node) bool {
		switch y := x.(type) {
		case *ast.CompositeLit:
			if t := f.TypeOf(y); t != nil && namedTypeIs(t, "storage", "fileStore") {
				res = true
			}
		case *ast.CallExpr:
			if h := w.FuncOf(f.Callee(y)); h != nil && h != f && w.isStoreConstructor(h) {
				res = true
			}
		}
		return true
	})
	return res
}

func (w *World) Locks() *LockModel {
	if m, ok := w.memo["locks"].(*LockModel); ok {
		return m
	}
	if w.memo == nil {
		w.memo = map[string]any{}
	}
	m := &LockModel{w: w, acquire: map[*Func]lockKind{}, release: map[*Func]lockKind{}, sharedFld: map[*types.Var]string{},
		touching: map[*Func]bool{}, direct: map[*Func][]ast.Node{}, selfLocked: map[*Func]bool{}}
	w.memo["locks"] = m
	st := w.Pkgs["storage"]
	if obj, ok := st.Types.Scope().Lookup("fileStore").(*types.TypeName); ok {
		m.storeType, _ = obj.Type().(*types.Named)
	}
	if m.storeType == nil {
		m.problems = append(m.problems, "type storage.fileStore not found")
		return m
	}
	stStruct, _ := m.storeType.Underlying().(*types.Struct)
	for i := 0; i < stStruct.NumFields(); i++ {
		f := stStruct.Field(i)
		if n, ok := f.Type().(*types.Named); ok && n.Obj().Pkg() != nil && n.Obj().Pkg().Path() == "sync" && n.Obj().Name() == "RWMutex" {
			m.mtxField = f
		}
	}
	if m.mtxField == nil {
		m.problems = append(m.problems, "fileStore has no sync.RWMutex field")
		return m
	}
	// shared struct types: all fields
	for name := range sharedStructs {
		obj, ok := st.Types.Scope().Lookup(name).(*types.TypeName)
		if !ok {
			m.problems = append(m.problems, "type storage."+name+" not found")
			continue
		}
		s, ok := obj.Type().Underlying().(*types.Struct)
		if !ok {
			continue
		}
		for i := 0; i < s.NumFields(); i++ {
			m.sharedFld[s.Field(i)] = name + "." + s.Field(i).Name()
		}
	}
	// fileStore fields assigned outside the constructor are mutable shared state
	for _, name := range w.SortedFuncNames() {
		f := w.Funcs[name]
		if f.Pkg != st || w.isStoreConstructor(f) {
			continue
		}
		ast.Inspect(f.Decl.Body, func(n ast.Node) bool {
			var lhs []ast.Expr
			switch x := n.(type) {
			case *ast.AssignStmt:
				lhs = x.Lhs
			case *ast.IncDecStmt:
				lhs = []ast.Expr{x.X}
			case *ast.UnaryExpr:
				if x.Op == token.AND { // &f.field handed to binary.Read etc.
					lhs = []ast.Expr{x.X}
				}
			}
			for _, e := range lhs {
				if sel, ok := ast.Unparen(e).(*ast.SelectorExpr); ok {
					if v := fieldVar(f, sel); v != nil && m.isStoreField(v) && v != m.mtxField {
						// a store into an object this very function has just allocated (x := &fileStore{…};
						// x.f = …) is construction, wherever the constructor's code ended up
						if id, ok := ast.Unparen(sel.X).(*ast.Ident); ok {
							if rhs, _, ok := f.definedBy(f.Decl.Body, f.ObjOf(id)); ok {
								r := ast.Unparen(rhs)
								if u, ok := r.(*ast.UnaryExpr); ok && u.Op == token.AND {
									r = ast.Unparen(u.X)
								}
								if _, isLit := r.(*ast.CompositeLit); isLit {
									continue
								}
								// … or has just received from a constructor, and is still setting up: the store comes
								// before the function starts any goroutine (the flusher is started last)
								if call, isCall := r.(*ast.CallExpr); isCall {
									if cf := w.FuncOf(f.Callee(call)); cf != nil && w.isStoreConstructor(cf) {
										beforeGo := true
										ast.Inspect(f.Decl.Body, func(z ast.Node) bool {
											if g, ok := z.(*ast.GoStmt); ok && g.Pos() < e.Pos() {
												beforeGo = false
											}
											return true
										})
										if beforeGo {
											continue
										}
									}
								}
							}
						}
						m.sharedFld[v] = "fileStore." + v.Name()
					}
				}
			}
			return true
		})
	}
	// acquire / release primitives and wrappers
	for changed := true; changed; {
		changed = false
		for _, name := range w.SortedFuncNames() {
			f := w.Funcs[name]
			if _, done := m.acquire[f]; done {
				continue
			}
			if _, done := m.release[f]; done {
				continue
			}
			if k, rel, ok := m.wrapperKind(f); ok {
				if rel {
					m.release[f] = k
				} else {
					m.acquire[f] = k
				}
				changed = true
			}
		}
	}
	// direct touches
	cg := w.CG()
	for _, name := range w.SortedFuncNames() {
		f := w.Funcs[name]
		if _, isA := m.acquire[f]; isA {
			continue
		}
		if _, isR := m.release[f]; isR {
			continue
		}
		ast.Inspect(f.Decl.Body, func(n ast.Node) bool {
			switch x := n.(type) {
			case *ast.SelectorExpr:
				if v := fieldVar(f, x); v != nil {
					if _, sh := m.sharedFld[v]; sh {
						m.direct[f] = append(m.direct[f], x)
					}
				}
			case *ast.CallExpr:
				if f.CallIs(x, "os.File.WriteAt", "os.File.ReadAt") {
					m.direct[f] = append(m.direct[f], x)
				}
			}
			return true
		})
		if len(m.direct[f]) > 0 {
			m.touching[f] = true
		}
	}
	for changed := true; changed; {
		changed = false
		for _, name := range w.SortedFuncNames() {
			f := w.Funcs[name]
			if m.touching[f] {
				continue
			}
			for _, cs := range cg.Sites[f] {
				for _, t := range cs.Targets {
					if m.touching[t] {
						m.touching[f] = true
						changed = true
					}
				}
			}
		}
	}
	return m
}

func (m *LockModel) isStoreField(v *types.Var) bool {
	s, _ := m.storeType.Underlying().(*types.Struct)
	for i := 0; i < s.NumFields(); i++ {
		if s.Field(i) == v {
			return true
		}
	}
	return false
}

func fieldVar(f *Func, sel *ast.SelectorExpr) *types.Var {
	if s, ok := f.Pkg.TypesInfo.Selections[sel]; ok && s.Kind() == types.FieldVal {
		v, _ := s.Obj().(*types.Var)
		return v
	}
	return nil
}

// primitiveLockCall classifies x.mtx.RLock() etc. on the store mutex.
func (m *LockModel) primitiveLockCall(f *Func, call *ast.CallExpr) (k lockKind, release bool, ok bool) {
	sel, isSel := call.Fun.(*ast.SelectorExpr)
	if !isSel {
		return
	}
	inner, isSel2 := ast.Unparen(sel.X).(*ast.SelectorExpr)
	if !isSel2 || fieldVar(f, inner) != m.mtxField {
		return
	}
	switch sel.Sel.Name {
	case "RLock":
		return lockSharedK, false, true
	case "RUnlock":
		return lockSharedK, true, true
	case "Lock":
		return lockExclK, false, true
	case "Unlock":
		return lockExclK, true, true
	}
	return
}

// lockCall classifies any call as acquire/release of the store lock (primitive or wrapper).
func (m *LockModel) lockCall(f *Func, call *ast.CallExpr) (k lockKind, release bool, ok bool) {
	if k, r, ok := m.primitiveLockCall(f, call); ok {
		return k, r, true
	}
	// a local closure that releases/acquires: `endTxn := func() { ... rm.EndTxn() ... }; endTxn()`
	if id, isId := call.Fun.(*ast.Ident); isId {
		if v, isVar := f.ObjOf(id).(*types.Var); isVar && v.Pkg() != nil && v.Parent() != v.Pkg().Scope() {
			if rhs, _, okDef := f.definedBy(f.Decl.Body, v); okDef {
				if lit, isLit := ast.Unparen(rhs).(*ast.FuncLit); isLit {
					var kk lockKind
					var rel, found bool
					ast.Inspect(lit.Body, func(y ast.Node) bool {
						if c2, isCall := y.(*ast.CallExpr); isCall && c2 != call {
							if k2, r2, ok2 := m.lockCall(f, c2); ok2 {
								kk, rel, found = k2, r2, true
							}
						}
						return true
					})
					if found {
						return kk, rel, true
					}
				}
			}
		}
	}
	callee := f.Callee(call)
	if callee == nil {
		return
	}
	targets := m.w.resolve(callee)
	if len(targets) == 0 {
		return
	}
	// every implementation reachable from a main must agree (test doubles are not loaded)
	var kk lockKind
	var rel bool
	for i, t := range targets {
		ak, isA := m.acquire[t]
		rk, isR := m.release[t]
		switch {
		case isA:
			if i > 0 && (kk != ak || rel) {
				return lockNone, false, false
			}
			kk, rel = ak, false
		case isR:
			if i > 0 && (kk != rk || !rel) {
				return lockNone, false, false
			}
			kk, rel = rk, true
		default:
			return lockNone, false, false
		}
	}
	return kk, rel, kk != lockNone
}

// wrapperKind: a function whose body is a single lock/unlock call (primitive or wrapper).
func (m *LockModel) wrapperKind(f *Func) (lockKind, bool, bool) {
	if len(f.Decl.Body.List) == 1 {
		if es, ok := f.Decl.Body.List[0].(*ast.ExprStmt); ok {
			if call, ok := es.X.(*ast.CallExpr); ok {
				return m.lockCall(f, call)
			}
		}
	}
	// a function that takes (or gives back) the lock unconditionally as one of its top-level statements and does
	// nothing else with it — `func begin(rm) *stmt { rm.StartTxn(); return &stmt{rm} }` — returns with the lock held
	// (released) on every path
	var kind lockKind
	var rel bool
	n := 0
	for _, st := range f.Decl.Body.List {
		if es, ok := st.(*ast.ExprStmt); ok {
			if call, ok := es.X.(*ast.CallExpr); ok {
				if k, r, ok := m.lockCall(f, call); ok {
					kind, rel = k, r
					n++
					continue
				}
			}
		}
	}
	if n != 1 {
		return lockNone, false, false
	}
	// no other lock call anywhere in the body (nested, deferred, in a literal)
	total := 0
	ast.Inspect(f.Decl.Body, func(x ast.Node) bool {
		if call, ok := x.(*ast.CallExpr); ok {
			if _, _, ok := m.lockCall(f, call); ok {
				total++
			}
		}
		return true
	})
	if total != 1 {
		return lockNone, false, false
	}
	// and no return before it
	for _, st := range f.Decl.Body.List {
		if es, ok := st.(*ast.ExprStmt); ok {
			if call, ok := es.X.(*ast.CallExpr); ok {
				if _, _, ok := m.lockCall(f, call); ok {
					break
				}
			}
		}
		early := false
		ast.Inspect(st, func(x ast.Node) bool {
			if _, ok := x.(*ast.ReturnStmt); ok {
				early = true
			}
			return true
		})
		if early {
			return lockNone, false, false
		}
	}
	return kind, rel, true
}

// Brackets computes, for graph g of function f, which node locations are inside
// a lock bracket of the given kind (lockNone = any kind).
type Brackets struct {
	m    *LockModel
	g    *Graph
	acqs []acqSite
}

type acqSite struct {
	loc  Loc
	kind lockKind
	call *ast.CallExpr
}

func (m *LockModel) BracketsOf(g *Graph) *Brackets {
	b := &Brackets{m: m, g: g}
	for _, blk := range g.c.Blocks {
		if !g.Reachable(blk) {
			continue
		}
		for i, n := range blk.Nodes {
			var call *ast.CallExpr
			switch y := n.(type) {
			case *ast.ExprStmt:
				call, _ = y.X.(*ast.CallExpr)
			case *ast.AssignStmt:
				// st := begin(rm): a wrapper that returns a handle with the lock held
				if len(y.Rhs) == 1 {
					call, _ = ast.Unparen(y.Rhs[0]).(*ast.CallExpr)
				}
			}
			if call == nil {
				continue
			}
			if k, rel, ok := m.lockCall(g.f, call); ok && !rel {
				b.acqs = append(b.acqs, acqSite{Loc{blk, i}, k, call})
			}
		}
	}
	return b
}

// Inside reports whether location l is inside a bracket of kind k (lockNone: any):
// an acquire dominates l and no non-deferred release lies on a path from it to l.
func (b *Brackets) Inside(l Loc, k lockKind) (bool, lockKind) {
	for _, a := range b.acqs {
		if k != lockNone && a.kind != k {
			continue
		}
		if !b.g.Dominates(a.loc, l) {
			continue
		}
		released := false
		start := a.loc
		b.g.Forward(&start, nil, func(n ast.Node, at Loc) Verdict {
			if at == l {
				return Cut
			}
			if es, ok := n.(*ast.ExprStmt); ok {
				if call, ok := es.X.(*ast.CallExpr); ok {
					if kk, rel, ok := b.m.lockCall(b.g.f, call); ok && rel && kk == a.kind {
						// a release that can be followed by l?
						reach := false
						from := at
						b.g.Forward(&from, nil, func(_ ast.Node, at2 Loc) Verdict {
							if at2 == l {
								reach = true
								return Hit
							}
							return Go
						}, nil)
						if reach {
							released = true
							return Hit
						}
						return Cut
					}
				}
			}
			return Go
		}, nil)
		if !released {
			return true, a.kind
		}
	}
	return false, lockNone
}

// Paired reports for every acquire whether a release of the same kind is
// guaranteed on every path to a function exit (deferred after the acquire, or
// explicit on every path). Returns the unpaired acquires.
func (b *Brackets) Unpaired() []acqSite {
	var bad []acqSite
	for _, a := range b.acqs {
		// deferred release dominated by the acquire and dominating ... (simply: located after, dominated by acquire, in a block that post-dominates? we accept: acquire dominates the defer and the defer is reached on every path from the acquire before any exit)
		start := a.loc
		leak, _ := b.g.Forward(&start, nil, func(n ast.Node, at Loc) Verdict {
			switch x := n.(type) {
			case *ast.DeferStmt:
				if kk, rel, ok := b.m.lockCall(b.g.f, x.Call); ok && rel && kk == a.kind {
					return Cut
				}
				// defer func() { ...release... }()
				if lit, isLit := x.Call.Fun.(*ast.FuncLit); isLit {
					released := false
					ast.Inspect(lit.Body, func(y ast.Node) bool {
						if call, isCall := y.(*ast.CallExpr); isCall {
							if kk, rel, ok := b.m.lockCall(b.g.f, call); ok && rel && kk == a.kind {
								released = true
							}
						}
						return true
					})
					if released {
						return Cut
					}
				}
			case *ast.ExprStmt:
				if call, ok := x.X.(*ast.CallExpr); ok {
					if kk, rel, ok := b.m.lockCall(b.g.f, call); ok && rel && kk == a.kind {
						return Cut
					}
				}
			case *ast.ReturnStmt:
				return Hit
			}
			return Go
		}, func(blk *cfg.Block) Verdict {
			if b.g.IsNoReturnExit(blk) {
				return Go
			}
			return Hit
		})
		if leak {
			bad = append(bad, a)
		}
	}
	return bad
}
