package main

import (
	"go/ast"
	"go/token"
	"go/types"
	"sort"
	"strings"

	"golang.org/x/tools/go/cfg"
)

func init() {
	register(&Property{
		ID:    "C01",
		Run:   runC01,
		Floor: 12,
		Assumptions: []string{
			"row ids are handed out only by BTree.insert; keys arrive in ascending order",
		},
		NotDecided: "that scans visit every live row exactly once over arbitrary split patterns (C11 decides link pairing and split index arithmetic only); catalog/value equality with a model over histories.",
	})
}

func runC01(c *Ctx) {
	defer c08SizeGuard(c, "C01.27")
	defer ruleErrorsNotDropped(c, "C01.26", "storage.(*BTree).insert", "storage.(*RelationService).Insert", "storage.(*RelationService).MarkDeleted", "storage.(*RelationService).FlushWALBatch")
	defer ruleLengthIsByteLength(c, "C01.25")
	c01Tombstone(c, "C01.1")
	c01ScansTestTombstone(c, "C01.2")
	c01RowIDs(c, "C01.3")
	c01RootRelocation(c, "C01.4")
	c11NewRoot(c, "C01.5")
	c11MarkDirty(c, "C01.6")
	ruleCatalogNameMatch(c, "C01.7")
	c08FreshDecodeTarget(c, "C01.8")
	c11SplitArithmetic(c, "C01.9")
	ruleStaleDerived(c, "C01.10")
	ruleDescentAgreement(c, "C01.11")
	ruleListIterationStable(c, "C01.12")
	c08Literals(c, "C01.13")
	ruleNoDeadStores(c, "C01.14", "storage")
	ruleNoLastIterationWins(c, "C01.18", "storage", "engine")
	ruleInsertByName(c, "C01.19")
	ruleStripQuotes(c, "C01.20")
	rulePagesOnlyGrow(c, "C01.21")
	ruleRootCarriedThroughLoop(c, "C01.22")
	c11ParentUpdate(c, "C01.23")
	c04FlushOrder(c, "C01.24")
	c.Rule("C01.15", "rows read back are the rows stored: the row codec is symmetric per column type and its length prefixes are byte lengths (C08.4)")
	checkCodecPair(c, "C01.15", "storage.(*Tuple).Encode", "storage.(*Tuple).Decode")
	ruleFlushLoopComplete(c, "C01.16")
	ruleNoGlobalState(c, "C01.17", "storage", "engine")
}

// leafCellSource: expression `S.field` where S has type *leafCell; returns key of S and the field name.
func leafCellField(f *Func, e ast.Expr) (string, string, bool) {
	sel, ok := ast.Unparen(e).(*ast.SelectorExpr)
	if !ok {
		return "", "", false
	}
	v := fieldVar(f, sel)
	if v == nil {
		return "", "", false
	}
	if t := f.TypeOf(sel.X); t == nil || !namedTypeIs(t, "storage", "leafCell") {
		return "", "", false
	}
	return exprKey(sel.X), v.Name(), true
}

// ---- C01.1 -----------------------------------------------------------------------

func c01Tombstone(c *Ctx, rule string) {
	c.Rule(rule, "wherever a leaf cell is rebuilt from an existing leaf cell (a cell-adding call or a leafCell literal whose key/value come from fields of another *leafCell), the persisted field `deleted` of the source also reaches the copy (store `<copy>.deleted = <source>.deleted` in the same block, or `deleted:` in the literal)")
	w := c.W
	n := 0
	for _, name := range w.SortedFuncNames() {
		f := w.Funcs[name]
		if f.Pkg != w.Pkgs["storage"] {
			continue
		}
		ast.Inspect(f.Decl.Body, func(x ast.Node) bool {
			var args []ast.Expr
			var site ast.Node
			var lit *ast.CompositeLit
			switch y := x.(type) {
			case *ast.CallExpr:
				if f.CallIs(y, "storage.btreeNode.appendLeafCell", "storage.btreeNode.insertLeafCell") {
					args, site = y.Args, y
				}
			case *ast.CompositeLit:
				if t := f.TypeOf(y); t != nil && namedTypeIs(t, "storage", "leafCell") {
					for _, el := range y.Elts {
						if kv, ok := el.(*ast.KeyValueExpr); ok {
							args = append(args, kv.Value)
						}
					}
					site, lit = y, y
				}
			}
			if site == nil {
				return true
			}
			src := ""
			for _, a := range args {
				if s, fld, ok := leafCellField(f, a); ok && (fld == "key" || fld == "valueBytes") {
					src = s
				}
			}
			if src == "" {
				return true // built from fresh values, not a copy
			}
			n++
			key := f.Name + "|cell-copy|" + src
			carried := false
			if lit != nil {
				if v := kvField(lit, "deleted"); v != nil {
					if s, fld, ok := leafCellField(f, v); ok && s == src && fld == "deleted" {
						carried = true
					}
				}
			}
			// an assignment X.deleted = src.deleted in the innermost enclosing block
			blk := innermostBlock(f.Decl.Body, site)
			if blk != nil {
				for _, st := range blk.List {
					as, ok := st.(*ast.AssignStmt)
					if !ok || len(as.Lhs) != 1 || len(as.Rhs) != 1 || st.Pos() < site.Pos() {
						continue
					}
					if _, lf, ok := leafCellField(f, as.Lhs[0]); ok && lf == "deleted" {
						if s, rf, ok := leafCellField(f, as.Rhs[0]); ok && s == src && rf == "deleted" {
							carried = true
						}
					}
				}
			}
			if carried {
				c.OK(rule, key, site.Pos(), 1, "the tombstone of %s is carried over to the copy", src)
			} else {
				c.Fail(rule, key, site.Pos(), "a leaf cell is rebuilt from %s (key, value) but its `deleted` flag is not carried over: rows deleted before this copy (a page split) reappear", src)
			}
			return true
		})
	}
	if n == 0 {
		c.Undecided(rule, "subjects", "no cell copy found (the leaf split is expected to copy cells)")
	}
}

func innermostBlock(root ast.Node, n ast.Node) *ast.BlockStmt {
	var best *ast.BlockStmt
	ast.Inspect(root, func(x ast.Node) bool {
		if b, ok := x.(*ast.BlockStmt); ok && b.Pos() <= n.Pos() && n.End() <= b.End() {
			best = b
		}
		return true
	})
	return best
}

// ---- C01.2 -------------------------------------------------------------------------

func c01ScansTestTombstone(c *Ctx, rule string) {
	c.Rule(rule, "every *leafCell handed to a scan callback or returned by a lookup is dominated by the not-deleted edge of a test of that same cell's `deleted` flag")
	w := c.W
	n := 0
	for _, name := range w.SortedFuncNames() {
		f := w.Funcs[name]
		if f.Pkg != w.Pkgs["storage"] || f.Decl.Recv == nil || !strings.HasPrefix(f.Name, "storage.(*BTree).") {
			continue
		}
		g := f.Graph()
		// uses: calls of a func-typed parameter with a *leafCell ident; returns of a *leafCell ident
		type use struct {
			n   ast.Node
			obj types.Object
			how string
		}
		var uses []use
		inspectBody(f.Decl.Body, func(x ast.Node) bool {
			switch y := x.(type) {
			case *ast.CallExpr:
				id, ok := y.Fun.(*ast.Ident)
				if !ok {
					return true
				}
				if v, ok := f.ObjOf(id).(*types.Var); !ok || v.Parent() == nil {
					return true
				} else if _, isSig := v.Type().Underlying().(*types.Signature); !isSig {
					return true
				}
				for _, a := range y.Args {
					if aid, ok := ast.Unparen(a).(*ast.Ident); ok {
						if t := f.TypeOf(aid); t != nil && namedTypeIs(t, "storage", "leafCell") {
							uses = append(uses, use{y, f.ObjOf(aid), "callback " + id.Name})
						}
					}
				}
			case *ast.ReturnStmt:
				for _, r := range y.Results {
					if rid, ok := ast.Unparen(r).(*ast.Ident); ok && !isNilIdent(f, rid) {
						if t := f.TypeOf(rid); t != nil && namedTypeIs(t, "storage", "leafCell") {
							uses = append(uses, use{y, f.ObjOf(rid), "return"})
						}
					}
				}
			}
			return true
		})
		for i, u := range uses {
			n++
			key := f.Name + "|yield|" + u.how + "#" + itoa(i+1)
			loc, ok := g.Locate(u.n)
			if !ok {
				c.Undecided(rule, key, "use not located")
				continue
			}
			guarded := false
			for _, b := range g.c.Blocks {
				if !g.Reachable(b) || len(b.Succs) != 2 {
					continue
				}
				for si := range b.Succs {
					info, ok := g.EdgeInfo(b, si)
					if !ok || info.Case {
						continue
					}
					cond := ast.Unparen(info.Cond)
					val := info.Val
					if un, ok := cond.(*ast.UnaryExpr); ok && un.Op == token.NOT {
						cond, val = ast.Unparen(un.X), !val
					}
					sel, ok := cond.(*ast.SelectorExpr)
					if !ok {
						continue
					}
					v := fieldVar(f, sel)
					id, isId := ast.Unparen(sel.X).(*ast.Ident)
					if v == nil || v.Name() != "deleted" || !isId || f.ObjOf(id) != u.obj {
						continue
					}
					if !val && g.BlockDominates(b.Succs[si], loc.B) && onlyPred(g, b.Succs[si], b) {
						guarded = true
					}
				}
			}
			if guarded {
				c.OK(rule, key, u.n.Pos(), 1, "dominated by the not-deleted edge of the cell's tombstone test")
			} else {
				c.Fail(rule, key, u.n.Pos(), "a cell reaches the %s without its `deleted` flag having been tested: deleted rows are returned", u.how)
			}
		}
	}
	if n < 3 {
		c.Undecided(rule, "subjects", "only %d row-yielding sites found in BTree (scanRight, scanLeft, findCell expected)", n)
	}
}

// ---- C01.3 --------------------------------------------------------------------------------

func c01RowIDs(c *Ctx, rule string) {
	c.Rule(rule, "the row-id counter (fileStore.lastKey) is stored only as an increment in incrementLastKey, loaded in open, or raised by redo to the key of the record it replays under a guard that shows the key to be larger; BTree.insert derives the new key as getLastKey()+1, inserts under exactly that key and advances the counter on every success path")
	w := c.W
	n := 0
	for _, name := range w.SortedFuncNames() {
		f := w.Funcs[name]
		if f.Pkg != w.Pkgs["storage"] {
			continue
		}
		ast.Inspect(f.Decl.Body, func(x ast.Node) bool {
			var tgt ast.Expr
			kind := ""
			raised := false
			switch y := x.(type) {
			case *ast.AssignStmt:
				for _, l := range y.Lhs {
					if sel, ok := ast.Unparen(l).(*ast.SelectorExpr); ok {
						if v := fieldVar(f, sel); v != nil && v.Name() == "lastKey" && w.Locks().isStoreField(v) {
							tgt, kind = l, "assign "+y.Tok.String()
							// redo raises the counter to the key of the record it replays: allowed where a branch
							// condition shows the new value to be larger — the counter still never moves backwards
							if y.Tok == token.ASSIGN && len(y.Lhs) == 1 && len(y.Rhs) == 1 && f.Name == "storage.WALBatch.replay" && guardedRaise(f, f.Graph(), y) {
								raised = true
							}
						}
					}
				}
			case *ast.IncDecStmt:
				if sel, ok := ast.Unparen(y.X).(*ast.SelectorExpr); ok {
					if v := fieldVar(f, sel); v != nil && v.Name() == "lastKey" && w.Locks().isStoreField(v) {
						tgt, kind = y.X, y.Tok.String()
					}
				}
			case *ast.UnaryExpr:
				if y.Op == token.AND && !addrIsWriteOperand(f, y) {
					if sel, ok := ast.Unparen(y.X).(*ast.SelectorExpr); ok {
						if v := fieldVar(f, sel); v != nil && v.Name() == "lastKey" && w.Locks().isStoreField(v) {
							tgt, kind = y.X, "&"
						}
					}
				}
			}
			if tgt == nil {
				return true
			}
			n++
			key := f.Name + "|store|lastKey|" + kind
			ok := (f.Name == "storage.(*fileStore).incrementLastKey" && kind == "++") || (f.Name == "storage.(*fileStore).open" && kind == "&") || raised
			c.Check(ok, rule, key, tgt.Pos(), "counter store in its owner function (or a guarded raise to a replayed record's key)", "fileStore.lastKey is stored ("+kind+") outside incrementLastKey/open and not as a guarded raise in replay: row ids can repeat or go backwards")
			return true
		})
	}
	if n < 2 {
		c.Undecided(rule, "subjects|stores", "only %d stores of fileStore.lastKey found", n)
	}
	ins := c.NeedFunc(rule, "storage.(*BTree).insert")
	if ins == nil {
		return
	}
	g := ins.Graph()
	reads := ins.Calls(ins.Decl.Body, false, "storage.*.getLastKey")
	key := ins.Name + "|fresh-key"
	if len(reads) != 1 {
		c.Undecided(rule, key, "BTree.insert does not read the row-id counter exactly once")
		return
	}
	// nextKey := getLastKey() + 1
	var keyObj types.Object
	inspectBody(ins.Decl.Body, func(x ast.Node) bool {
		as, ok := x.(*ast.AssignStmt)
		if !ok || len(as.Rhs) != 1 || len(as.Lhs) != 1 {
			return true
		}
		be, ok := ast.Unparen(as.Rhs[0]).(*ast.BinaryExpr)
		if !ok || be.Op != token.ADD {
			return true
		}
		if ast.Unparen(be.X) == ast.Expr(reads[0]) {
			if cv := ins.constOf(be.Y); cv != nil && cv.String() == "1" {
				if id, ok := as.Lhs[0].(*ast.Ident); ok {
					keyObj = ins.ObjOf(id)
				}
			}
		}
		return true
	})
	if keyObj == nil {
		c.Fail(rule, key, reads[0].Pos(), "the new row id is not getLastKey()+1")
		return
	}
	usesKey := false
	for _, ik := range ins.Calls(ins.Decl.Body, false, "storage.BTree.insertKey") {
		if len(ik.Args) > 0 {
			if id, ok := ast.Unparen(ik.Args[0]).(*ast.Ident); ok && ins.ObjOf(id) == keyObj {
				usesKey = true
			}
		}
	}
	loc, _ := g.Locate(reads[0])
	miss, _ := g.Forward(&loc, g.SuccessEdges, func(nn ast.Node, at Loc) Verdict {
		if g.containsCall(nn, "storage.*.incrementLastKey") != nil {
			return Cut
		}
		if r, ok := nn.(*ast.ReturnStmt); ok {
			if g.ReturnMayBeNil(r) {
				return Hit
			}
			return Cut
		}
		return Go
	}, func(b *cfg.Block) Verdict { return Hit })
	switch {
	case !usesKey:
		c.Fail(rule, key, reads[0].Pos(), "the row is not inserted under the key derived from the counter")
	case miss:
		c.Fail(rule, key, reads[0].Pos(), "BTree.insert can return successfully without advancing the row-id counter: the next row gets the same id")
	default:
		c.OK(rule, key, reads[0].Pos(), 2, "key = getLastKey()+1 is inserted and the counter advanced on every success path")
	}
}

// ---- C01.4 ------------------------------------------------------------------------------------

func c01RootRelocation(c *Ctx, rule string) {
	c.Rule(rule, "root relocation is recorded: every function that inserts through BTree.insert compares the root after the insert with the root before it and, on the changed edge, updates the catalog (updatePageTable) or the page-table root (setPageTableRoot); inside functions that return a WALBatch every WALBatch returned by a callee flows into the returned batch")
	w := c.W
	n := 0
	for _, name := range w.SortedFuncNames() {
		f := w.Funcs[name]
		if f.Pkg != w.Pkgs["storage"] {
			continue
		}
		inserts := f.Calls(f.Decl.Body, false, "storage.BTree.insert")
		for i, ins := range inserts {
			n++
			key := f.Name + "|root-change-handled#" + itoa(i+1)
			body := f.EnclosingBody(ins)
			g := body.Graph()
			// handler calls: the catalog update (updatePageTable) or the header's page-table root, directly or through a helper
			isHandler := func(nn ast.Node) bool {
				if len(f.Calls(nn, false, "storage.RelationService.updatePageTable", "storage.*.setPageTableRoot")) > 0 {
					return true
				}
				for _, cs := range w.CG().Sites[f] {
					if cs.Call.Pos() < nn.Pos() || cs.Call.End() > nn.End() || cs.Call == ins {
						continue
					}
					for t := range w.CG().Reach(cs.Targets...) {
						if t.Name == "storage.(*RelationService).updatePageTable" || strings.HasSuffix(t.Name, ").setPageTableRoot") {
							return true
						}
					}
				}
				return false
			}
			// an edge on which the root is known not to have moved: `a.getFileOffset() == b.getFileOffset()` true,
			// `!=` false, or a boolean local defined by such a comparison
			var unchanged func(cond ast.Expr, val bool) bool
			unchanged = func(cond ast.Expr, val bool) bool {
				cond = ast.Unparen(cond)
				if u, ok := cond.(*ast.UnaryExpr); ok && u.Op == token.NOT {
					return unchanged(u.X, !val)
				}
				if id, ok := cond.(*ast.Ident); ok {
					for _, as := range f.assignsTo(body.Node, f.ObjOf(id)) {
						if len(as.Rhs) == 1 && len(as.Lhs) == 1 {
							return unchanged(as.Rhs[0], val)
						}
					}
					return false
				}
				be, ok := cond.(*ast.BinaryExpr)
				if !ok || (be.Op != token.NEQ && be.Op != token.EQL) {
					return false
				}
				// an operand is a page's offset: the getter call itself, or a local that holds its result
				isOffset := func(e ast.Expr) bool {
					e = ast.Unparen(e)
					if call, ok := e.(*ast.CallExpr); ok {
						return f.CallIs(call, "storage.btreeNode.getFileOffset")
					}
					if id, ok := e.(*ast.Ident); ok {
						defs := f.assignsTo(body.Node, f.ObjOf(id))
						if len(defs) == 0 {
							return false
						}
						for _, as := range defs {
							if len(as.Rhs) != 1 || len(as.Lhs) != 1 {
								return false
							}
							call, ok := ast.Unparen(as.Rhs[0]).(*ast.CallExpr)
							if !ok || !f.CallIs(call, "storage.btreeNode.getFileOffset") {
								return false
							}
						}
						return true
					}
					if sel, ok := e.(*ast.SelectorExpr); ok && sel.Sel.Name == "fileOffset" {
						return true
					}
					return false
				}
				if !isOffset(be.X) || !isOffset(be.Y) {
					return false
				}
				return (be.Op == token.EQL) == val
			}
			tests := 0
			for _, b := range g.c.Blocks {
				if !g.Reachable(b) || len(b.Succs) != 2 {
					continue
				}
				if info, ok := g.EdgeInfo(b, 0); ok && !info.Case && (unchanged(info.Cond, true) || unchanged(info.Cond, false)) {
					tests++
				}
			}
			if tests == 0 {
				c.Fail(rule, key, ins.Pos(), "%s inserts into a tree but never checks whether the root moved: after a root split the catalog keeps pointing at the old root (now a left leaf) and the rows in the other pages vanish", f.Name)
				continue
			}
			loc, _ := g.Locate(ins)
			edge := func(b *cfg.Block, si int) bool {
				if !g.SuccessEdges(b, si) {
					return false
				}
				if info, ok := g.EdgeInfo(b, si); ok && !info.Case && unchanged(info.Cond, info.Val) {
					return false // the root did not move: nothing to record
				}
				return true
			}
			miss, _ := g.Forward(&loc, edge, func(nn ast.Node, at Loc) Verdict {
				if _, isCond := nn.(ast.Expr); !isCond && isHandler(nn) {
					return Cut
				}
				if nn.Pos() <= ins.Pos() && ins.End() <= nn.End() {
					return Hit
				}
				if r, ok := nn.(*ast.ReturnStmt); ok {
					if isHandler(nn) {
						return Cut
					}
					if g.ReturnMayBeNil(r) {
						return Hit
					}
					return Cut
				}
				return Go
			}, func(b *cfg.Block) Verdict { return Hit })
			if miss {
				c.Fail(rule, key, ins.Pos(), "a success path from the insert reaches a return (or the next insert) on which the root may have moved and neither the catalog nor the page-table root is updated")
			} else {
				c.OK(rule, key, ins.Pos(), 2, "every success path after the insert either knows the root did not move or records the new root")
			}
		}
		// WALBatch flow inside storage
		if !returnsWALBatch(f.Obj) {
			continue
		}
		for _, cs := range w.CG().Sites[f] {
			if !returnsWALBatch(cs.Callee) || cs.InLit != nil {
				continue
			}
			key := f.Name + "|callee-batch|" + calleeKey(cs.Callee)
			n++
			res := f.resultVar(f.Decl.Body, cs.Call, 0)
			if res == nil {
				c.Fail(rule, key, cs.Call.Pos(), "%s discards the log records returned by %s: the change they describe (a root move) is applied in memory but never logged, so a crash before the next flush loses it", f.Name, f.Src(cs.Call.Fun))
				continue
			}
			// returned var: the ident in success returns
			flows := false
			for _, r := range f.Graph().Returns() {
				if len(r.Results) == 0 || !f.Graph().ReturnMayBeNil(r) {
					continue // only batches handed back on a success path count
				}
				if call, ok := ast.Unparen(r.Results[0]).(*ast.CallExpr); ok {
					// return append(batch, logs...), err
					if fid, ok := call.Fun.(*ast.Ident); ok && fid.Name == "append" {
						for _, a := range call.Args {
							if aid, ok := ast.Unparen(a).(*ast.Ident); ok && f.ObjOf(aid) == res {
								flows = true
							}
						}
					}
				}
				if id, ok := ast.Unparen(r.Results[0]).(*ast.Ident); ok {
					B := f.ObjOf(id)
					if B == res {
						flows = true
					}
					for _, as := range f.assignsTo(f.Decl.Body, B) {
						if args, self := f.isSelfAppend(as, B); self {
							for _, a := range args {
								if aid, ok := ast.Unparen(a).(*ast.Ident); ok && f.ObjOf(aid) == res {
									flows = true
								}
							}
						}
					}
				}
			}
			if flows {
				c.OK(rule, key, cs.Call.Pos(), 1, "callee records are appended to the returned batch")
			} else {
				c.Fail(rule, key, cs.Call.Pos(), "the log records returned by %s never reach the batch %s returns", f.Src(cs.Call.Fun), f.Name)
			}
		}
	}
	if n < 3 {
		c.Undecided(rule, "subjects", "only %d insert/callee-batch sites found", n)
	}
}

// rootChangedCond: cond is `A.getFileOffset() != B.getFileOffset()` or an identifier defined by such a comparison.
func rootChangedCond(f *Func, body ast.Node, cond ast.Expr) bool {
	isCmp := func(e ast.Expr) bool {
		be, ok := ast.Unparen(e).(*ast.BinaryExpr)
		if !ok || be.Op != token.NEQ {
			return false
		}
		l, lok := ast.Unparen(be.X).(*ast.CallExpr)
		r, rok := ast.Unparen(be.Y).(*ast.CallExpr)
		return lok && rok && f.CallIs(l, "storage.btreeNode.getFileOffset") && f.CallIs(r, "storage.btreeNode.getFileOffset")
	}
	if isCmp(cond) {
		return true
	}
	if id, ok := ast.Unparen(cond).(*ast.Ident); ok {
		obj := f.ObjOf(id)
		for _, as := range f.assignsTo(body, obj) {
			if len(as.Rhs) == 1 && isCmp(as.Rhs[0]) {
				return true
			}
		}
	}
	return false
}

// ---- new root (C01.5 / C11.5) ---------------------------------------------------------------

func c11NewRoot(c *Ctx, rule string) {
	c.Rule(rule, "sibling agreement of the two split paths: in insertLeaf and insertInternal the arm that creates a new root (parent == nil) allocates the page, makes it the tree root (setRoot), points its rightmost child at the new page and adds the separator for the old page; both functions perform the same set of steps")
	var sets [][]string
	var funcs []*Func
	for _, name := range []string{"storage.(*BTree).insertLeaf", "storage.(*BTree).insertInternal"} {
		f := c.NeedFunc(rule, name)
		if f == nil {
			return
		}
		var arm *ast.IfStmt
		inspectBody(f.Decl.Body, func(x ast.Node) bool {
			ifs, ok := x.(*ast.IfStmt)
			if !ok || arm != nil {
				return true
			}
			be, ok := ast.Unparen(ifs.Cond).(*ast.BinaryExpr)
			if ok && be.Op == token.EQL && isNilIdent(f, be.Y) {
				if id, ok := ast.Unparen(be.X).(*ast.Ident); ok && id.Name == paramName(f, 0) && len(f.Calls(ifs.Body, false, "storage.*.append")) > 0 {
					arm = ifs
				}
			}
			return true
		})
		if arm == nil {
			c.Undecided(rule, name+"|new-root-arm", "no `parent == nil` arm allocating a page found")
			return
		}
		set := map[string]bool{}
		ast.Inspect(arm.Body, func(x ast.Node) bool {
			if call, ok := x.(*ast.CallExpr); ok {
				if k := calleeKey(f.Callee(call)); k == "storage.store.append" || k == "storage.fileStore.append" || k == "storage.BTree.setRoot" || k == "storage.btreeNode.setRightMostKey" || k == "storage.btreeNode.appendInternalCell" || k == "storage.btreeNode.insertInternalCell" {
					set[k] = true
				}
			}
			return true
		})
		var l []string
		for k := range set {
			l = append(l, k)
		}
		sort.Strings(l)
		sets = append(sets, l)
		funcs = append(funcs, f)
		key := name + "|new-root-becomes-root"
		c.Check(set["storage.BTree.setRoot"], rule, key, arm.Pos(), "the new root page is made the tree's root", "a new root page is allocated but never made the tree's root (setRoot missing): the catalog is not told and later inserts descend from the old root, cutting off half of the table")
		for _, need := range []string{"storage.btreeNode.setRightMostKey", "storage.btreeNode.appendInternalCell"} {
			c.Check(set[need], rule, name+"|new-root|"+need, arm.Pos(), "step present", "the new-root arm lacks "+need)
		}
	}
	if len(sets) == 2 {
		key := "storage.(*BTree).insertLeaf<->insertInternal|new-root-steps"
		same := strings.Join(sets[0], ",") == strings.Join(sets[1], ",")
		c.Check(same, rule, key, funcs[0].Decl.Pos(), "both split paths perform the same steps: "+strings.Join(sets[0], ", "),
			"the two split paths disagree on how a new root is installed: insertLeaf does ["+strings.Join(sets[0], ", ")+"], insertInternal does ["+strings.Join(sets[1], ", ")+"]")
	}
}

// ---- every mutated node is marked dirty (C01.6 / C11.6 / C16.4) ------------------------------------

// nodeMutators: methods of btreeNode that store into fields of their receiver (transitively).
func nodeMutators(w *World) map[*Func]bool {
	if m, ok := w.memo["nodeMutators"].(map[*Func]bool); ok {
		return m
	}
	out := map[*Func]bool{}
	isNodeMethod := func(f *Func) bool { return strings.HasPrefix(f.Name, "storage.(*btreeNode).") }
	for _, name := range w.SortedFuncNames() {
		f := w.Funcs[name]
		if !isNodeMethod(f) || strings.HasSuffix(f.Name, ".markDirty") || strings.HasSuffix(f.Name, ".markClean") || strings.Contains(f.Name, ".decode") || strings.HasSuffix(f.Name, ".setFileOffset") {
			continue
		}
		inspectBody(f.Decl.Body, func(x ast.Node) bool {
			if as, ok := x.(*ast.AssignStmt); ok {
				for _, l := range as.Lhs {
					root := l
					for {
						switch y := ast.Unparen(root).(type) {
						case *ast.IndexExpr:
							root = y.X
							continue
						case *ast.SelectorExpr:
							if v := fieldVar(f, y); v != nil {
								if n, sh := w.Locks().sharedFld[v]; sh && !strings.HasSuffix(n, ".pg") {
									out[f] = true
								}
							}
							root = y.X
							continue
						}
						break
					}
				}
			}
			return true
		})
	}
	for changed := true; changed; {
		changed = false
		for _, name := range w.SortedFuncNames() {
			f := w.Funcs[name]
			if !isNodeMethod(f) || out[f] || strings.HasSuffix(f.Name, ".markDirty") || strings.HasSuffix(f.Name, ".markClean") || strings.Contains(f.Name, "code") {
				continue
			}
			for _, cs := range w.CG().Sites[f] {
				for _, t := range cs.Targets {
					if out[t] {
						out[f] = true
						changed = true
					}
				}
			}
		}
	}
	if w.memo == nil {
		w.memo = map[string]any{}
	}
	w.memo["nodeMutators"] = out
	return out
}

func c11MarkDirty(c *Ctx, rule string) {
	c.Rule(rule, "in the tree-insert functions every page that is changed (a store to one of its persisted fields, a call of a mutating btreeNode method on it, or being the target of split) is marked dirty on every success path to the function's return: a changed page that stays clean is never written and may be evicted")
	w := c.W
	muts := nodeMutators(w)
	n := 0
	for _, name := range []string{"storage.(*BTree).insertLeaf", "storage.(*BTree).insertInternal"} {
		f := c.NeedFunc(rule, name)
		if f == nil {
			continue
		}
		g := f.Graph()
		type site struct {
			n    ast.Node
			what string
		}
		changed := map[types.Object][]site{}
		add := func(e ast.Expr, n ast.Node, what string) {
			if id, ok := ast.Unparen(e).(*ast.Ident); ok {
				if t := f.TypeOf(id); t != nil && namedTypeIs(t, "storage", "btreeNode") {
					changed[f.ObjOf(id)] = append(changed[f.ObjOf(id)], site{n, what})
				}
			}
		}
		inspectBody(f.Decl.Body, func(x ast.Node) bool {
			switch y := x.(type) {
			case *ast.AssignStmt:
				for _, l := range y.Lhs {
					if sel, ok := ast.Unparen(l).(*ast.SelectorExpr); ok {
						if v := fieldVar(f, sel); v != nil {
							if fn, sh := w.Locks().sharedFld[v]; sh && strings.HasPrefix(fn, "btreeNode.") {
								add(sel.X, y, "store "+v.Name())
							}
						}
					}
				}
			case *ast.CallExpr:
				sel, ok := y.Fun.(*ast.SelectorExpr)
				if !ok {
					return true
				}
				for _, t := range w.resolve(f.Callee(y)) {
					if muts[t] {
						add(sel.X, y, t.Decl.Name.Name)
						if t.Decl.Name.Name == "split" && len(y.Args) == 1 {
							add(y.Args[0], y, "split target")
						}
					}
				}
			}
			return true
		})
		// page variables that name the same page: `parent = root` after the new root was built under another name
		alias := map[types.Object]types.Object{}
		var find func(o types.Object) types.Object
		find = func(o types.Object) types.Object {
			if p, ok := alias[o]; ok && p != o {
				r := find(p)
				alias[o] = r
				return r
			}
			return o
		}
		inspectBody(f.Decl.Body, func(x ast.Node) bool {
			if as, ok := x.(*ast.AssignStmt); ok && len(as.Lhs) == len(as.Rhs) {
				for i := range as.Lhs {
					l, ok1 := ast.Unparen(as.Lhs[i]).(*ast.Ident)
					r, ok2 := ast.Unparen(as.Rhs[i]).(*ast.Ident)
					if ok1 && ok2 && l.Name != "_" {
						if t := f.TypeOf(r); t != nil && namedTypeIs(t, "storage", "btreeNode") {
							if lo, ro := f.ObjOf(l), f.ObjOf(r); lo != nil && ro != nil {
								alias[find(lo)] = find(ro)
							}
						}
					}
				}
			}
			return true
		})
		var objs []types.Object
		for o := range changed {
			objs = append(objs, o)
		}
		sort.Slice(objs, func(i, j int) bool { return objs[i].Name() < objs[j].Name() })
		for _, o := range objs {
			n++
			key := f.Name + "|dirty|" + o.Name()
			bad := ""
			exempt := 0
			for _, s := range changed[o] {
				loc, ok := g.Locate(s.n)
				if !ok {
					continue
				}
				// o was handed to the recursive insert as its `parent`: that call marks its parent dirty
				// whenever it changes it (obligation dirty|parent), and o can only need this change
				// (a split) because that call added a cell to it.
				viaParent := false
				for _, rc := range f.Calls(f.Decl.Body, false, "storage.BTree.insertLeaf", "storage.BTree.insertInternal") {
					if len(rc.Args) > 0 {
						if id, ok := ast.Unparen(rc.Args[0]).(*ast.Ident); ok && f.ObjOf(id) == o {
							viaParent = true
						}
					}
				}
				if viaParent {
					dominatedByAll := false
					for _, rc := range f.Calls(f.Decl.Body, false, "storage.BTree.insertLeaf", "storage.BTree.insertInternal") {
						if rl, ok := g.Locate(rc); ok && g.BlockDominates(g.idom[loc.B], loc.B) && reachesOnlyVia(g, rl, loc) {
							dominatedByAll = true
						}
					}
					if dominatedByAll && s.what == "split" {
						exempt++
						continue
					}
				}
				edge := func(b *cfg.Block, si int) bool {
					if !g.SuccessEdges(b, si) {
						return false
					}
					// o was dereferenced at the start of the path: it is non-nil
					if info, ok := g.EdgeInfo(b, si); ok && !info.Case {
						if be, ok := ast.Unparen(info.Cond).(*ast.BinaryExpr); ok && isNilIdent(f, be.Y) {
							if id, ok := ast.Unparen(be.X).(*ast.Ident); ok && f.ObjOf(id) == o {
								if (be.Op == token.NEQ && !info.Val) || (be.Op == token.EQL && info.Val) {
									return false
								}
							}
						}
					}
					return true
				}
				miss, _ := g.Forward(&loc, edge, func(nn ast.Node, at Loc) Verdict {
					for _, d := range f.Calls(nn, false, "storage.btreeNode.markDirty") {
						if id, ok := ast.Unparen(d.Fun.(*ast.SelectorExpr).X).(*ast.Ident); ok && (f.ObjOf(id) == o || find(f.ObjOf(id)) == find(o)) {
							return Cut
						}
					}
					if r, ok := nn.(*ast.ReturnStmt); ok {
						if g.ReturnMayBeNil(r) {
							return Hit
						}
						return Cut
					}
					return Go
				}, func(b *cfg.Block) Verdict { return Hit })
				if miss {
					bad = s.what + " at " + w.Pos(s.n.Pos())
					break
				}
			}
			if bad != "" {
				c.Fail(rule, key, changed[o][0].n.Pos(), "page %s is changed (%s) but a success path returns without marking it dirty: the change is never flushed (after eviction or restart the page reads back stale or as zeros)", o.Name(), bad)
			} else {
				note := ""
				if exempt > 0 {
					note = " (its split needs no mark of its own: the node can only be full because the recursive insert, which received it as `parent`, added a cell to it and marked it dirty with the same LSN)"
				}
				c.OK(rule, key, changed[o][0].n.Pos(), len(changed[o]), "%d change sites of %s are all followed by %s.markDirty on every success path%s", len(changed[o]), o.Name(), o.Name(), note)
			}
		}
	}
	if n < 5 {
		c.Undecided(rule, "subjects", "only %d changed pages recognised in insertLeaf/insertInternal", n)
	}
}

// reachesOnlyVia: every path from the entry to target passes through one of the recursive calls:
// approximated by "some recursive-call site lies in a block that dominates target or is target's block before it".
func reachesOnlyVia(g *Graph, via, target Loc) bool {
	// all recursive calls sit in the two arms of one if; their join dominates target. Accept when
	// target is not reachable from the entry once every recursive-call node is cut.
	return !reachableAvoiding(g, target, func(n ast.Node) bool {
		return len(g.f.Calls(n, false, "storage.BTree.insertLeaf", "storage.BTree.insertInternal")) > 0
	})
}

func reachableAvoiding(g *Graph, target Loc, avoid func(ast.Node) bool) bool {
	hit, _ := g.Forward(nil, nil, func(n ast.Node, at Loc) Verdict {
		if at == target {
			return Hit
		}
		if avoid(n) {
			return Cut
		}
		return Go
	}, nil)
	return hit
}

// addrIsWriteOperand: &x is the data operand of binary.Write — the pointee is only read.
func addrIsWriteOperand(f *Func, u *ast.UnaryExpr) bool {
	found := false
	ast.Inspect(f.Decl.Body, func(x ast.Node) bool {
		if call, ok := x.(*ast.CallExpr); ok && f.CallIs(call, "binary.Write") && len(call.Args) == 3 && ast.Unparen(call.Args[2]) == ast.Expr(u) {
			found = true
		}
		return !found
	})
	return found
}
