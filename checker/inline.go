package main

// Helper transparency (DESIGN.md §2.8). The rules are anchored in the functions
// of the pinned tree (pinned_funcs.go). A function the rules have never seen —
// typically the product of an "extract function" refactoring, sometimes the
// hiding place of a seeded defect — is made transparent before any rule runs:
// its body is substituted for its call sites (source level, through the
// go/packages overlay) and its declaration is dropped, so that every rule sees
// the shape the code had before the extraction. The transformation is used for
// ANALYSIS only; nothing is written to /repo.
//
// Only shapes that can be substituted without inventing control flow are
// handled; anything else is left alone and the helper stays an ordinary function
// (rules then treat it as they did before this pass existed). If the
// transformed program does not type-check the pass is abandoned for that round.
//
// On the pinned tree the pass is inert: every function is pinned.

import (
	"fmt"
	"go/ast"
	"go/token"
	"go/types"
	"os"
	"regexp"
	"sort"
	"strconv"
	"strings"
	"sync"
)

var hSuffixRe = regexp.MustCompile(`_h(\d+)\b`)

type textEdit struct {
	start, end int
	text       string
}

type siteKind int

const (
	siteNone   siteKind = iota
	siteStmt            // h(args)
	siteIf              // if err := h(args); err != nil { R }
	siteAssign          // a, b, err := h(args)   [; if err != nil { R }]
	siteReturn          // return h(args)
	siteGo              // go h(args): the body runs in a function literal
	siteHoist           // S[ h(args) ]: the value is computed into a temporary in front of statement S
)

type inlineSite struct {
	caller *Func
	call   *ast.CallExpr
	kind   siteKind
	stmt   ast.Stmt    // the statement that is replaced
	next   *ast.IfStmt // siteAssign: following `if err != nil { R }`, may be nil
	errObj types.Object
	inLoop bool
}

func (w *World) fileOf(pos token.Pos) (*token.File, string) {
	tf := w.Fset.File(pos)
	if tf == nil {
		return nil, ""
	}
	return tf, tf.Name()
}

func readSource(name string, overlay map[string][]byte) []byte {
	if b, ok := overlay[name]; ok {
		return b
	}
	b, _ := os.ReadFile(name)
	return b
}

// inlineRound returns a new overlay in which one layer of unpinned helpers has been substituted.
func (w *World) inlineRound(overlay map[string][]byte) (map[string][]byte, []string, []string) {
	var notes []string
	var cands []*Func
	for _, name := range w.SortedFuncNames() {
		f := w.Funcs[name]
		if _, pinned := pinnedFuncs[name]; pinned || w.aliased[f] || strings.Contains(name, "#") || f.Decl.Name.Name == "main" || f.Decl.Name.Name == "init" {
			continue
		}
		if why := w.helperObstacle(f); why != "" {
			notes = append(notes, fmt.Sprintf("helper %s kept as a function: %s", name, why))
			continue
		}
		cands = append(cands, f)
	}
	if len(cands) == 0 {
		return nil, nil, notes
	}
	candSet := map[*Func]bool{}
	for _, h := range cands {
		candSet[h] = true
	}
	// one layer per round: helpers none of whose call sites lies inside another candidate
	var layer []*Func
	sites := map[*Func][]*inlineSite{}
	for _, h := range cands {
		in := w.CG().In[h]
		if len(in) == 0 {
			notes = append(notes, fmt.Sprintf("helper %s has no call site: left alone", h.Name))
			continue
		}
		ok := true
		var ss []*inlineSite
		for _, cs := range in {
			if cs.Caller.Pkg != h.Pkg {
				ok = false
				notes = append(notes, fmt.Sprintf("helper %s is called from another package: left alone", h.Name))
				break
			}
			if candSet[cs.Caller] {
				ok = false // inner layer first; this one next round
				break
			}
			s := classifySite(cs.Caller, cs.Call)
			if s == nil {
				// a one-expression helper can be substituted wherever it is called (the left-hand side of a store,
				// a range operand, a condition …)
				if st := enclosingStmt(cs.Caller.Decl.Body, cs.Call); st != nil {
					es := &inlineSite{caller: cs.Caller, call: cs.Call, kind: siteHoist, stmt: st}
					if _, isExpr := w.exprHelperText(h, es, overlay); isExpr {
						s = es
					}
				}
			}
			if s == nil {
				ok = false
				notes = append(notes, fmt.Sprintf("helper %s: call at %s is not in a substitutable position", h.Name, w.Pos(cs.Call.Pos())))
				break
			}
			ss = append(ss, s)
		}
		if ok {
			// callee must itself not call candidates that are still pending? (they will be handled after this one is gone)
			layer = append(layer, h)
			sites[h] = ss
		}
	}
	if len(layer) == 0 {
		// helpers calling helpers only: take the candidates that call no other candidate
		return nil, nil, notes
	}
	// a local of the caller that hides a package-level name the helper's body uses is renamed first (a round of its own)
	if ov, what := w.unshadowRound(layer, sites, overlay); ov != nil {
		return ov, what, notes
	}
	edits := map[string][]textEdit{}
	var done []string
	// suffixes of earlier rounds are still in the source: numbering continues above them, so that a name made up
	// in this round can never coincide with one made up before
	serial := 0
	for name, src := range overlay {
		_ = name
		for _, m := range hSuffixRe.FindAllSubmatch(src, -1) {
			if n, err := strconv.Atoi(string(m[1])); err == nil && n > serial {
				serial = n
			}
		}
	}
	for _, h := range layer {
		var hEdits = map[string][]textEdit{}
		good := true
		for _, s := range sites[h] {
			serial++
			// a helper that is one expression (`return E`) is substituted as an expression
			if etxt, ok := w.exprHelperText(h, s, overlay); ok {
				tf, fname := w.fileOf(s.call.Pos())
				hEdits[fname] = append(hEdits[fname], textEdit{tf.Offset(s.call.Pos()), tf.Offset(s.call.End()), etxt})
				continue
			}
			txt, ok, why := w.inlineText(h, s, serial, overlay)
			if !ok {
				good = false
				notes = append(notes, fmt.Sprintf("helper %s: %s", h.Name, why))
				break
			}
			tf, fname := w.fileOf(s.stmt.Pos())
			st, en := tf.Offset(s.stmt.Pos()), tf.Offset(s.stmt.End())
			hEdits[fname] = append(hEdits[fname], textEdit{st, en, txt})
		}
		if !good {
			continue
		}
		// drop the declaration
		tf, fname := w.fileOf(h.Decl.Pos())
		start := h.Decl.Pos()
		if h.Decl.Doc != nil {
			start = h.Decl.Doc.Pos()
		}
		hEdits[fname] = append(hEdits[fname], textEdit{tf.Offset(start), tf.Offset(h.Decl.End()), ""})
		// imports the body needs in the callers' files
		for _, s := range sites[h] {
			_, cf := w.fileOf(s.stmt.Pos())
			if imp := w.missingImports(h, s.caller, cf); imp != "" {
				// after the package clause of the caller's file
				for _, sf := range s.caller.Pkg.Syntax {
					if _, n := w.fileOf(sf.Pos()); n == cf {
						tf2, _ := w.fileOf(sf.Pos())
						off := tf2.Offset(sf.Name.End())
						hEdits[cf] = append(hEdits[cf], textEdit{off, off, "\n" + imp})
					}
				}
			}
		}
		// a helper whose substitution would overlap one already accepted in this round waits for the next
		clash := false
		for k, v := range hEdits {
			for _, e := range v {
				for _, a := range edits[k] {
					if e.start < a.end && a.start < e.end && !(e.start == e.end && a.start == a.end) {
						clash = true
					}
				}
			}
		}
		if clash {
			continue
		}
		for k, v := range hEdits {
			edits[k] = append(edits[k], v...)
		}
		done = append(done, h.Name)
	}
	if len(done) == 0 {
		return nil, nil, notes
	}
	out := map[string][]byte{}
	for k, v := range overlay {
		out[k] = v
	}
	for fname, es := range edits {
		src := readSource(fname, overlay)
		sort.Slice(es, func(i, j int) bool {
			if es[i].start != es[j].start {
				return es[i].start < es[j].start
			}
			return es[i].end < es[j].end
		})
		// overlapping edits: give up on this round (nested call sites)
		for i := 1; i < len(es); i++ {
			if es[i].start < es[i-1].end {
				return nil, nil, append(notes, "overlapping substitutions in "+fname+": helper transparency skipped")
			}
		}
		var b strings.Builder
		last := 0
		for _, e := range es {
			b.Write(src[last:e.start])
			b.WriteString(e.text)
			last = e.end
		}
		b.Write(src[last:])
		out[fname] = []byte(b.String())
	}
	return out, done, notes
}

// helperObstacle says why a function cannot be substituted ("" if it can).
func (w *World) helperObstacle(f *Func) string {
	if f.Decl.Type.TypeParams != nil {
		return "generic"
	}
	sig := f.Obj.Type().(*types.Signature)
	if sig.Variadic() {
		return "variadic"
	}
	why := ""
	ast.Inspect(f.Decl.Body, func(x ast.Node) bool {
		switch y := x.(type) {
		case *ast.DeferStmt:
			why = "contains defer"
		case *ast.LabeledStmt:
			why = "contains a label"
		case *ast.BranchStmt:
			if y.Tok == token.GOTO {
				why = "contains goto"
			}
		case *ast.CallExpr:
			if id, ok := y.Fun.(*ast.Ident); ok && id.Name == "recover" {
				why = "calls recover"
			}
		}
		return why == ""
	})
	if why != "" {
		return why
	}
	// used as a value anywhere?
	for _, p := range w.Pkgs {
		for id, obj := range p.TypesInfo.Uses {
			if obj != types.Object(f.Obj) {
				continue
			}
			if !w.isCallee(p.Syntax, id) {
				return "used as a function value"
			}
		}
	}
	// recursion: over static calls and calls through the repository's own interfaces. A call through a library
	// interface (io.Closer.Close on the log's file handle) resolves, by method set alone, to every Close() in the
	// repository; such an edge does not make a helper recursive
	libIface := func(cs *CallSite) bool {
		if cs.Callee == nil {
			return false
		}
		sig, _ := cs.Callee.Type().(*types.Signature)
		if sig == nil || sig.Recv() == nil {
			return false
		}
		if _, isIface := sig.Recv().Type().Underlying().(*types.Interface); !isIface {
			return false
		}
		return cs.Callee.Pkg() == nil || pkgKey(cs.Callee.Pkg().Path()) == ""
	}
	seen := map[*Func]bool{f: true}
	work := []*Func{f}
	for len(work) > 0 {
		t := work[len(work)-1]
		work = work[:len(work)-1]
		for _, cs := range w.CG().Sites[t] {
			if libIface(cs) {
				continue
			}
			for _, tg := range cs.Targets {
				if tg == f {
					return "recursive"
				}
				// a cycle that closes through a function the rules know (nestedLoopJoin -> qualifiedJoin ->
				// nestedLoopJoin) disappears when the helper is substituted into it: the known function is then
				// recursive itself, as it is in the reference tree. Only cycles among unknown helpers are obstacles.
				if _, pinned := pinnedFuncs[tg.Name]; pinned && !w.aliased[tg] {
					continue
				}
				if !seen[tg] {
					seen[tg] = true
					work = append(work, tg)
				}
			}
		}
	}
	return ""
}

func (w *World) isCallee(files []*ast.File, id *ast.Ident) bool {
	ok := false
	for _, sf := range files {
		if id.Pos() < sf.Pos() || id.End() > sf.End() {
			continue
		}
		ast.Inspect(sf, func(x ast.Node) bool {
			if x == nil || ok {
				return false
			}
			if x.Pos() > id.Pos() || x.End() < id.End() {
				return false
			}
			if call, isCall := x.(*ast.CallExpr); isCall {
				switch fun := ast.Unparen(call.Fun).(type) {
				case *ast.Ident:
					if fun == id {
						ok = true
					}
				case *ast.SelectorExpr:
					if fun.Sel == id {
						ok = true
					}
				}
			}
			return true
		})
	}
	return ok
}

// classifySite finds the statement context of a call.
func classifySite(caller *Func, call *ast.CallExpr) *inlineSite {
	var stack []ast.Node
	var res *inlineSite
	ast.Inspect(caller.Decl.Body, func(x ast.Node) bool {
		if x == nil {
			stack = stack[:len(stack)-1]
			return true
		}
		stack = append(stack, x)
		if x != ast.Node(call) {
			return res == nil
		}
		// parent chain
		inLoop := false
		for _, a := range stack {
			switch a.(type) {
			case *ast.ForStmt, *ast.RangeStmt, *ast.SwitchStmt, *ast.TypeSwitchStmt, *ast.SelectStmt:
				inLoop = true
			}
		}
		parent := stack[len(stack)-2]
		var grand ast.Node
		if len(stack) >= 3 {
			grand = stack[len(stack)-3]
		}
		switch p := parent.(type) {
		case *ast.ExprStmt:
			if isBlockMember(grand, p) {
				res = &inlineSite{caller: caller, call: call, kind: siteStmt, stmt: p, inLoop: inLoop}
			}
		case *ast.GoStmt:
			if p.Call == call && isBlockMember(grand, p) {
				res = &inlineSite{caller: caller, call: call, kind: siteGo, stmt: p, inLoop: inLoop}
			}
		case *ast.ReturnStmt:
			if len(p.Results) == 1 && isBlockMember(grand, p) {
				res = &inlineSite{caller: caller, call: call, kind: siteReturn, stmt: p, inLoop: inLoop}
			}
		case *ast.AssignStmt:
			if len(p.Rhs) != 1 || (p.Tok != token.DEFINE && p.Tok != token.ASSIGN) {
				// one value of a tuple assignment (`a, err = nil, h(e)`): its value is computed in front
				res = hoistSite(caller, call, stack, inLoop)
				return false
			}
			if ifs, ok := grand.(*ast.IfStmt); ok && ifs.Init == ast.Stmt(p) {
				// if err := h(); err != nil { R }
				if len(p.Lhs) != 1 || ifs.Else != nil || p.Tok != token.DEFINE {
					return false
				}
				id, ok := p.Lhs[0].(*ast.Ident)
				if !ok {
					return false
				}
				obj, neq, ok := caller.errTest(ifs.Cond)
				if !ok || !neq || obj != caller.ObjOf(id) {
					return false
				}
				if len(stack) >= 4 && isBlockMember(stack[len(stack)-4], ifs) {
					res = &inlineSite{caller: caller, call: call, kind: siteIf, stmt: ifs, errObj: obj, inLoop: inLoop}
				}
				return false
			}
			if !isBlockMember(grand, p) {
				return false
			}
			s := &inlineSite{caller: caller, call: call, kind: siteAssign, stmt: p, inLoop: inLoop}
			// following `if err != nil { R }`
			if nxt := nextStmt(grand, p); nxt != nil {
				if ifs, ok := nxt.(*ast.IfStmt); ok && ifs.Init == nil && ifs.Else == nil {
					if obj, neq, ok := caller.errTest(ifs.Cond); ok && neq {
						for _, l := range p.Lhs {
							if id, ok := l.(*ast.Ident); ok && caller.ObjOf(id) == obj {
								s.next, s.errObj = ifs, obj
							}
						}
					}
				}
			}
			res = s
		}
		if res == nil {
			res = hoistSite(caller, call, stack, inLoop)
		}
		return false
	})
	return res
}

// hoistSite: the call is a subexpression of statement S; its value can be computed in front of S when the
// call is evaluated exactly once each time S is reached (not in a loop condition, a body, or a function literal).
func hoistSite(caller *Func, call *ast.CallExpr, stack []ast.Node, inLoop bool) *inlineSite {
	for i := len(stack) - 2; i >= 1; i-- {
		switch a := stack[i].(type) {
		case *ast.FuncLit:
			return nil
		case *ast.BinaryExpr:
			if (a.Op == token.LAND || a.Op == token.LOR) && within(a.Y, call) {
				return nil // evaluated conditionally
			}
		case ast.Stmt:
			if !isBlockMember(stack[i-1], a) {
				continue
			}
			inHead := false
			switch st := a.(type) {
			case *ast.IfStmt:
				inHead = (st.Init != nil && within(st.Init, call)) || within(st.Cond, call)
			case *ast.RangeStmt:
				inHead = within(st.X, call)
			case *ast.SwitchStmt:
				inHead = (st.Init != nil && within(st.Init, call)) || (st.Tag != nil && within(st.Tag, call))
			case *ast.ForStmt:
				inHead = st.Init != nil && within(st.Init, call)
			case *ast.AssignStmt, *ast.ExprStmt, *ast.ReturnStmt, *ast.IncDecStmt, *ast.SendStmt:
				inHead = true
			case *ast.DeclStmt:
				inHead = true
			}
			if !inHead {
				return nil
			}
			return &inlineSite{caller: caller, call: call, kind: siteHoist, stmt: a, inLoop: inLoop}
		}
	}
	return nil
}

func within(outer ast.Node, inner ast.Node) bool {
	return outer != nil && outer.Pos() <= inner.Pos() && inner.End() <= outer.End()
}

func stmtList(n ast.Node) []ast.Stmt {
	switch b := n.(type) {
	case *ast.BlockStmt:
		return b.List
	case *ast.CaseClause:
		return b.Body
	case *ast.CommClause:
		return b.Body
	}
	return nil
}

func isBlockMember(n ast.Node, s ast.Stmt) bool {
	for _, x := range stmtList(n) {
		if x == s {
			return true
		}
	}
	return false
}

func nextStmt(n ast.Node, s ast.Stmt) ast.Stmt {
	l := stmtList(n)
	for i, x := range l {
		if x == s && i+1 < len(l) {
			return l[i+1]
		}
	}
	return nil
}

func simpleArg(e ast.Expr) bool {
	switch x := ast.Unparen(e).(type) {
	case *ast.Ident, *ast.BasicLit:
		return true
	case *ast.SelectorExpr:
		return simpleArg(x.X)
	case *ast.StarExpr:
		return simpleArg(x.X)
	case *ast.UnaryExpr:
		// the address of a variable is the same value wherever it is written
		return x.Op == token.AND && simpleArg(x.X)
	}
	return false
}

// render returns the source of node with identifier substitutions applied.
func render(src []byte, tf *token.File, info *types.Info, node ast.Node, subst map[types.Object]string, skip map[ast.Node]string) string {
	if rep, ok := skip[node]; ok {
		return rep
	}
	start, end := tf.Offset(node.Pos()), tf.Offset(node.End())
	var es []textEdit
	ast.Inspect(node, func(x ast.Node) bool {
		if x == nil {
			return true
		}
		if rep, ok := skip[x]; ok && x != node {
			es = append(es, textEdit{tf.Offset(x.Pos()), tf.Offset(x.End()), rep})
			return false
		}
		switch y := x.(type) {
		case *ast.KeyValueExpr:
			// struct literal keys are field names, never locals; a key of a map literal may be
			if id, ok := y.Key.(*ast.Ident); ok {
				if _, isVar := info.ObjectOf(id).(*types.Var); isVar && info.ObjectOf(id).(*types.Var).IsField() {
					ast.Inspect(y.Value, func(z ast.Node) bool {
						if zi, ok := z.(*ast.Ident); ok {
							if rep, ok := subst[info.ObjectOf(zi)]; ok {
								es = append(es, textEdit{tf.Offset(zi.Pos()), tf.Offset(zi.End()), rep})
							}
						}
						if z != nil {
							if rep, ok := skip[z]; ok {
								es = append(es, textEdit{tf.Offset(z.Pos()), tf.Offset(z.End()), rep})
								return false
							}
						}
						return true
					})
					return false
				}
			}
		case *ast.SelectorExpr:
			// only the operand can be a local
			ast.Inspect(y.X, func(z ast.Node) bool {
				if z == nil {
					return true
				}
				if rep, ok := skip[z]; ok {
					es = append(es, textEdit{tf.Offset(z.Pos()), tf.Offset(z.End()), rep})
					return false
				}
				if zi, ok := z.(*ast.Ident); ok {
					if rep, ok := subst[info.ObjectOf(zi)]; ok {
						// `(&x.f).g` is `x.f.g`: the operand of a selector is dereferenced (or addressed) by itself
						if selOperand(y, zi) && strings.HasPrefix(rep, "(&") && strings.HasSuffix(rep, ")") {
							rep = rep[2 : len(rep)-1]
						}
						es = append(es, textEdit{tf.Offset(zi.Pos()), tf.Offset(zi.End()), rep})
					}
				}
				if kv, ok := z.(*ast.KeyValueExpr); ok {
					_ = kv
				}
				return true
			})
			return false
		case *ast.Ident:
			if obj := info.ObjectOf(y); obj != nil {
				if rep, ok := subst[obj]; ok {
					es = append(es, textEdit{tf.Offset(y.Pos()), tf.Offset(y.End()), rep})
				}
			}
		}
		return true
	})
	sort.Slice(es, func(i, j int) bool { return es[i].start < es[j].start })
	var b strings.Builder
	last := start
	for _, e := range es {
		if e.start < last {
			continue
		}
		b.Write(src[last:e.start])
		b.WriteString(e.text)
		last = e.end
	}
	b.Write(src[last:end])
	return b.String()
}

func (w *World) inlineText(h *Func, s *inlineSite, serial int, overlay map[string][]byte) (string, bool, string) {
	info := h.Pkg.TypesInfo
	cinfo := s.caller.Pkg.TypesInfo
	htf, hname := w.fileOf(h.Decl.Pos())
	hsrc := readSource(hname, overlay)
	ctf, cname := w.fileOf(s.stmt.Pos())
	csrc := readSource(cname, overlay)
	sig := h.Obj.Type().(*types.Signature)
	nres := sig.Results().Len()
	hasErr := nres > 0 && isErrorType(sig.Results().At(nres-1).Type())
	suffix := fmt.Sprintf("_h%d", serial)
	subst := map[types.Object]string{}
	var pre []string
	// locals of the helper
	bodyStart, bodyEnd := h.Decl.Body.Pos(), h.Decl.Body.End()
	// names declared inside type expressions (interface methods, parameter names of function TYPES) are not locals
	inTypeExpr := map[*ast.Ident]bool{}
	litTypes := map[*ast.FuncType]bool{}
	ast.Inspect(h.Decl.Body, func(x ast.Node) bool {
		if fl, ok := x.(*ast.FuncLit); ok {
			litTypes[fl.Type] = true
		}
		return true
	})
	ast.Inspect(h.Decl.Body, func(x ast.Node) bool {
		mark := false
		switch y := x.(type) {
		case *ast.InterfaceType, *ast.StructType:
			mark = true
		case *ast.FuncType:
			mark = !litTypes[y]
		}
		if mark {
			ast.Inspect(x, func(z ast.Node) bool {
				if id, ok := z.(*ast.Ident); ok {
					inTypeExpr[id] = true
				}
				return true
			})
			return false
		}
		return true
	})
	// `x := h(..)` where h ends in `return x` for its own top-level local x: the helper's declaration of x
	// becomes the caller's (the extraction usually kept the name)
	resultIsLocal := map[int]bool{}
	forceName := map[types.Object]string{}
	if as, ok := s.stmt.(*ast.AssignStmt); ok && s.kind == siteAssign && as.Tok == token.DEFINE && len(h.Decl.Body.List) > 0 {
		if fin, ok := h.Decl.Body.List[len(h.Decl.Body.List)-1].(*ast.ReturnStmt); ok && len(fin.Results) == len(as.Lhs) {
			for i, e := range fin.Results {
				rid, ok1 := ast.Unparen(e).(*ast.Ident)
				lid, ok2 := as.Lhs[i].(*ast.Ident)
				if !ok1 || !ok2 || lid.Name == "_" || cinfo.Defs[lid] == nil {
					continue
				}
				obj := info.ObjectOf(rid)
				if v, ok := obj.(*types.Var); ok && !v.IsField() && v.Parent() == info.Scopes[h.Decl.Type] && v.Pos() >= bodyStart && types.Identical(v.Type(), cinfo.Defs[lid].Type()) {
					// an early return in front of the local's declaration would assign the caller's variable before
					// it exists (the guard ifs become if/else and the declaration moves into a nested block)
					early := false
					ast.Inspect(h.Decl.Body, func(y ast.Node) bool {
						if _, isLit := y.(*ast.FuncLit); isLit {
							return false
						}
						if r, ok := y.(*ast.ReturnStmt); ok && r.Pos() < v.Pos() {
							early = true
						}
						return true
					})
					if early {
						continue
					}
					dup := false
					for _, o := range forceName {
						_ = o
					}
					for o := range forceName {
						if o == obj {
							dup = true
						}
					}
					if !dup {
						forceName[obj] = lid.Name
						resultIsLocal[i] = true
					}
				}
			}
		}
	}
	for id, obj := range info.Defs {
		if obj == nil || id.Pos() < bodyStart || id.End() > bodyEnd || inTypeExpr[id] {
			continue
		}
		if n, ok := forceName[obj]; ok {
			subst[obj] = n
			continue
		}
		if v, ok := obj.(*types.Var); ok && v.IsField() {
			continue
		}
		if _, ok := obj.(*types.Func); ok {
			continue
		}
		if _, isLabel := obj.(*types.Label); isLabel {
			continue
		}
		if id.Name == "_" {
			continue
		}
		// keep the helper's own name where the caller has no identifier of that name: rules (and the
		// substitution of new locals) then see the local under the name it had before the extraction
		if taken := w.takenNames(s.caller); !taken[id.Name] {
			subst[obj] = id.Name
			defer func(n string) { taken[n] = true }(id.Name)
			continue
		}
		subst[obj] = id.Name + suffix
	}
	callerTaken := w.takenNames(s.caller)
	for node, obj := range info.Implicits {
		if node.Pos() >= bodyStart && node.End() <= bodyEnd {
			if _, isCC := node.(*ast.CaseClause); isCC {
				if callerTaken[obj.Name()] {
					subst[obj] = obj.Name() + suffix
				} else {
					subst[obj] = obj.Name()
				}
			}
		}
	}
	skip := map[ast.Node]string{}
	// the symbolic variable of a type switch has no object of its own
	ast.Inspect(h.Decl.Body, func(x ast.Node) bool {
		if ts, ok := x.(*ast.TypeSwitchStmt); ok {
			if as, ok := ts.Assign.(*ast.AssignStmt); ok && len(as.Lhs) == 1 {
				if id, ok := as.Lhs[0].(*ast.Ident); ok && id.Name != "_" {
					if callerTaken[id.Name] {
						skip[id] = id.Name + suffix
					} else {
						skip[id] = id.Name
					}
				}
			}
		}
		return true
	})
	// parameters and receiver
	assigned := map[types.Object]bool{}
	ast.Inspect(h.Decl.Body, func(x ast.Node) bool {
		switch y := x.(type) {
		case *ast.AssignStmt:
			for _, l := range y.Lhs {
				if id, ok := ast.Unparen(l).(*ast.Ident); ok {
					assigned[info.ObjectOf(id)] = true
				}
			}
		case *ast.IncDecStmt:
			if id, ok := ast.Unparen(y.X).(*ast.Ident); ok {
				assigned[info.ObjectOf(id)] = true
			}
		case *ast.UnaryExpr:
			if y.Op == token.AND {
				if id, ok := ast.Unparen(y.X).(*ast.Ident); ok {
					assigned[info.ObjectOf(id)] = true
				}
			}
		case *ast.RangeStmt:
			for _, l := range []ast.Expr{y.Key, y.Value} {
				if id, ok := l.(*ast.Ident); ok && y.Tok == token.ASSIGN {
					assigned[info.ObjectOf(id)] = true
				}
			}
		}
		return true
	})
	bind := func(pid *ast.Ident, ptype ast.Expr, arg ast.Expr) {
		if pid == nil || pid.Name == "_" {
			if !simpleArg(arg) {
				pre = append(pre, "_ = "+string(csrc[ctf.Offset(arg.Pos()):ctf.Offset(arg.End())]))
			}
			return
		}
		pobj := info.ObjectOf(pid)
		argText := string(csrc[ctf.Offset(arg.Pos()):ctf.Offset(arg.End())])
		at := cinfo.TypeOf(arg)
		// a parameter the helper assigns can still stand for the caller's variable when the caller does not
		// look at that variable again (the extraction moved the only code that used it)
		deadAfter := false
		if aid, ok := ast.Unparen(arg).(*ast.Ident); ok && assigned[pobj] && !s.inLoop {
			if av, ok := cinfo.ObjectOf(aid).(*types.Var); ok && !av.IsField() && av.Parent() != av.Pkg().Scope() {
				deadAfter = true
				for id, o := range cinfo.Uses {
					if o == types.Object(av) && id.Pos() > s.stmt.End() && id.Pos() < s.caller.Decl.End() {
						deadAfter = false
					}
				}
			}
		}
		// an interface parameter that receives a plain variable of a concrete type stands for that variable, unless the
		// helper looks at its dynamic type or stores it somewhere as the interface
		ifaceOK := false
		if _, isIface := pobj.Type().Underlying().(*types.Interface); isIface && at != nil && !assigned[pobj] && types.AssignableTo(at, pobj.Type()) {
			if _, argIsIface := at.Underlying().(*types.Interface); !argIsIface {
				ifaceOK = true
				ast.Inspect(h.Decl.Body, func(x ast.Node) bool {
					switch y := x.(type) {
					case *ast.TypeAssertExpr:
						if id, ok := ast.Unparen(y.X).(*ast.Ident); ok && info.ObjectOf(id) == pobj {
							ifaceOK = false
						}
					case *ast.AssignStmt:
						for _, r := range y.Rhs {
							if id, ok := ast.Unparen(r).(*ast.Ident); ok && info.ObjectOf(id) == pobj {
								ifaceOK = false
							}
						}
					case *ast.BinaryExpr:
						for _, side := range []ast.Expr{y.X, y.Y} {
							if id, ok := ast.Unparen(side).(*ast.Ident); ok && info.ObjectOf(id) == pobj {
								ifaceOK = false // comparing the interface value (e.g. with nil) means something else for a pointer
							}
						}
					case *ast.ReturnStmt:
						for _, r := range y.Results {
							if id, ok := ast.Unparen(r).(*ast.Ident); ok && info.ObjectOf(id) == pobj {
								ifaceOK = false
							}
						}
					}
					return true
				})
			}
		}
		if simpleArg(arg) && (!assigned[pobj] || deadAfter) && at != nil && (types.Identical(at, pobj.Type()) || ifaceOK) {
			if _, isSel := ast.Unparen(arg).(*ast.StarExpr); isSel {
				argText = "(" + argText + ")"
			}
			if _, isAddr := ast.Unparen(arg).(*ast.UnaryExpr); isAddr {
				if assigned[pobj] {
					goto bind // `&x` cannot be assigned to
				}
				argText = "(" + argText + ")"
			}
			subst[pobj] = argText
			return
		}
	bind:
		name := pid.Name + suffix
		subst[pobj] = name
		if at != nil && types.Identical(at, pobj.Type()) {
			pre = append(pre, name+" := "+argText)
		} else {
			pt := string(hsrc[htf.Offset(ptype.Pos()):htf.Offset(ptype.End())])
			pre = append(pre, "var "+name+" "+pt+" = "+argText)
		}
		pre = append(pre, "_ = "+name)
	}
	if h.Decl.Recv != nil && len(h.Decl.Recv.List) == 1 {
		sel, ok := ast.Unparen(s.call.Fun).(*ast.SelectorExpr)
		if !ok {
			return "", false, "method not called through a selector"
		}
		fl := h.Decl.Recv.List[0]
		if len(fl.Names) == 1 {
			rid := fl.Names[0]
			robj := info.ObjectOf(rid)
			rt := cinfo.TypeOf(sel.X)
			recvText := string(csrc[ctf.Offset(sel.X.Pos()):ctf.Offset(sel.X.End())])
			switch {
			case rid.Name == "_":
			case simpleArg(sel.X) && !assigned[robj] && rt != nil && types.Identical(rt, robj.Type()):
				subst[robj] = recvText
			case simpleArg(sel.X) && !assigned[robj] && rt != nil && types.Identical(types.NewPointer(rt), robj.Type()):
				subst[robj] = "(&" + recvText + ")"
			default:
				// any other receiver expression is evaluated once into a local
				name := rid.Name + suffix
				subst[robj] = name
				switch {
				case rt != nil && types.Identical(rt, robj.Type()):
					pre = append(pre, name+" := "+recvText, "_ = "+name)
				case rt != nil && types.Identical(types.NewPointer(rt), robj.Type()):
					pre = append(pre, name+" := &"+recvText, "_ = "+name)
				default:
					return "", false, "receiver expression cannot be substituted"
				}
			}
		}
	}
	ai := 0
	for _, fl := range h.Decl.Type.Params.List {
		names := fl.Names
		if len(names) == 0 {
			names = []*ast.Ident{nil}
		}
		for _, pid := range names {
			if ai >= len(s.call.Args) {
				return "", false, "argument count mismatch (multi-value call)"
			}
			bind(pid, fl.Type, s.call.Args[ai])
			ai++
		}
	}
	if ai != len(s.call.Args) {
		return "", false, "argument count mismatch"
	}
	// named results are locals of the substituted body
	var resNames []string
	named := false
	if h.Decl.Type.Results != nil {
		for _, fl := range h.Decl.Type.Results.List {
			for _, nm := range fl.Names {
				named = true
				if nm.Name == "_" {
					return "", false, "blank named result"
				}
				pt := string(hsrc[htf.Offset(fl.Type.Pos()):htf.Offset(fl.Type.End())])
				// `a, b = h()` with plain variables on the left: the named results ARE those variables,
				// reset to their zero value first
				if as, ok := s.stmt.(*ast.AssignStmt); ok && s.kind == siteAssign && as.Tok == token.ASSIGN && len(resNames) < len(as.Lhs) {
					if lid, ok := as.Lhs[len(resNames)].(*ast.Ident); ok && lid.Name != "_" {
						if lt := cinfo.TypeOf(lid); lt != nil && types.Identical(lt, info.ObjectOf(nm).Type()) {
							subst[info.ObjectOf(nm)] = lid.Name
							resNames = append(resNames, lid.Name)
							pre = append(pre, lid.Name+" = *new("+pt+")")
							continue
						}
					}
				}
				name := nm.Name + suffix
				subst[info.ObjectOf(nm)] = name
				resNames = append(resNames, name)
				pre = append(pre, "var "+name+" "+pt+"; _ = "+name)
			}
		}
	}
	qual := func(p *types.Package) string {
		if p == s.caller.Pkg.Types {
			return ""
		}
		return p.Name()
	}
	// the handler R
	handler := func(errExpr ast.Expr) (string, bool) {
		var R *ast.BlockStmt
		switch s.kind {
		case siteIf:
			R = s.stmt.(*ast.IfStmt).Body
		case siteAssign:
			if s.next == nil {
				return "", false
			}
			R = s.next.Body
		default:
			return "", false
		}
		etext := render(hsrc, htf, info, errExpr, subst, skip)
		csub := map[types.Object]string{}
		var prefix string
		if simpleArg(errExpr) {
			csub[s.errObj] = etext
		} else {
			name := "err" + suffix
			csub[s.errObj] = name
			prefix = name + " := " + etext + "; _ = " + name + "; "
		}
		body := render(csrc, ctf, cinfo, R, csub, nil)
		return "{ " + prefix + strings.TrimSuffix(strings.TrimPrefix(strings.TrimSpace(body), "{"), "}") + " }", true
	}
	g := h.Graph()
	plain := map[*ast.ReturnStmt]bool{} // returns that are not substituted by the caller's error handler
	for _, r := range g.Returns() {
		if s.kind == siteReturn || s.kind == siteGo {
			continue // returns stay returns
		}
		isErrRet := hasErr && len(r.Results) == nres && !g.ReturnMayBeNil(r)
		if isErrRet && (s.kind == siteIf || (s.kind == siteAssign && s.next != nil)) {
			if ht, ok := handler(r.Results[nres-1]); ok && !(inLoopOf(h.Decl.Body, r) && containsBranch(handlerBody(s))) {
				skip[r] = ht
				continue
			}
		}
		plain[r] = true
	}
	hasPlain := func(n ast.Node) bool {
		found := false
		ast.Inspect(n, func(x ast.Node) bool {
			if _, ok := x.(*ast.FuncLit); ok {
				return false
			}
			if r, ok := x.(*ast.ReturnStmt); ok && plain[r] {
				found = true
			}
			return !found
		})
		return found
	}
	// how the helper's results reach the call site
	boolGuard, boolNeg, boolR := false, false, ""
	var lhs []string
	tok := "="
	var preDecl []string
	after := ""
	switch s.kind {
	case siteAssign:
		as := s.stmt.(*ast.AssignStmt)
		if len(as.Lhs) != nres {
			return "", false, "result count mismatch"
		}
		for _, e := range as.Lhs {
			lhs = append(lhs, string(csrc[ctf.Offset(e.Pos()):ctf.Offset(e.End())]))
		}
		if as.Tok == token.DEFINE {
			// the assignment may end up inside a nested block: declare the new variables first
			for i, e := range as.Lhs {
				id, ok := e.(*ast.Ident)
				if !ok || id.Name == "_" {
					continue
				}
				if cinfo.Defs[id] != nil && !resultIsLocal[i] {
					preDecl = append(preDecl, "var "+id.Name+" "+types.TypeString(sig.Results().At(i).Type(), qual)+"; _ = "+id.Name)
				}
			}
		}
	case siteHoist:
		if nres != 1 {
			return "", false, "a multi-value call inside an expression"
		}
		// `if [!]h(args) { R }` with R leaving the function: every `return true/false` of the helper either
		// runs R or falls through — no flag variable, so path rules keep seeing the decision where it is taken
		if ifs, ok := s.stmt.(*ast.IfStmt); ok && ifs.Init == nil && ifs.Else == nil && !named {
			cond := ast.Unparen(ifs.Cond)
			neg := false
			if u, ok := cond.(*ast.UnaryExpr); ok && u.Op == token.NOT {
				neg = true
				cond = ast.Unparen(u.X)
			}
			if cond == ast.Expr(s.call) && len(ifs.Body.List) > 0 {
				if b, ok := sig.Results().At(0).Type().Underlying().(*types.Basic); ok && b.Kind() == types.Bool {
					terminates := false
					switch l := ifs.Body.List[len(ifs.Body.List)-1].(type) {
					case *ast.ReturnStmt:
						terminates = true
					case *ast.BranchStmt:
						terminates = l.Tok == token.CONTINUE || l.Tok == token.BREAK
					}
					if terminates && !(containsBranch(ifs.Body)) {
						boolGuard = true
						boolNeg = neg
						boolR = string(csrc[ctf.Offset(ifs.Body.Pos()):ctf.Offset(ifs.Body.End())])
					}
				}
			}
		}
		if boolGuard {
			break
		}
		tmp := "hv" + suffix
		lhs = []string{tmp}
		preDecl = append(preDecl, "var "+tmp+" "+types.TypeString(sig.Results().At(0).Type(), qual))
		after = render(csrc, ctf, cinfo, s.stmt, nil, map[ast.Node]string{s.call: tmp}) + "\n"
	}
	failed := ""
	// boolReturn: what `return v` of the helper becomes at an `if [!]h() { R }` site
	boolReturn := func(r *ast.ReturnStmt, val string, needBreak bool) string {
		brk := ""
		if needBreak {
			brk = "break L" + suffix
		}
		if len(r.Results) == 1 {
			if cv := h.constOf(r.Results[0]); cv != nil {
				runsR := (cv.String() == "true") != boolNeg
				if runsR {
					return boolR + "\n"
				}
				if needBreak {
					return "{ " + brk + " }\n"
				}
				return ""
			}
		}
		c := val
		if boolNeg {
			c = "!(" + val + ")"
		}
		out := "if " + c + " " + boolR + "\n"
		if needBreak {
			return "{ " + out + brk + " }\n"
		}
		return out
	}
	values := func(r *ast.ReturnStmt) []string {
		var out []string
		if len(r.Results) == 0 && named {
			return append(out, resNames...)
		}
		for _, e := range r.Results {
			out = append(out, render(hsrc, htf, info, e, subst, skip))
		}
		return out
	}
	genFinal := func(r *ast.ReturnStmt) string {
		vals := values(r)
		switch s.kind {
		case siteReturn, siteGo:
			return "return " + strings.Join(vals, ", ") + "\n"
		case siteStmt:
			out := ""
			for i, e := range r.Results {
				if _, isCall := ast.Unparen(e).(*ast.CallExpr); isCall {
					if nres == 1 {
						out += vals[i] + "\n"
					} else {
						out += "_ = " + vals[i] + "\n"
					}
				}
			}
			return out
		case siteIf:
			if nres != 1 || len(vals) != 1 {
				failed = "if-form call site with several results"
				return ""
			}
			if len(r.Results) == 1 && isNilIdent(h, r.Results[0]) {
				return ""
			}
			ifs := s.stmt.(*ast.IfStmt)
			errName := ifs.Init.(*ast.AssignStmt).Lhs[0].(*ast.Ident).Name
			R := string(csrc[ctf.Offset(ifs.Body.Pos()):ctf.Offset(ifs.Body.End())])
			return "if " + errName + " := " + vals[0] + "; " + errName + " != nil " + R + "\n"
		case siteAssign, siteHoist:
			if boolGuard {
				return boolReturn(r, vals[0], false)
			}
			if len(vals) == 1 && len(lhs) > 1 && len(r.Results) == 1 {
				// `return g(…)` forwarding several values: a tuple assignment
				if _, isCall := ast.Unparen(r.Results[0]).(*ast.CallExpr); isCall {
					op := tok
					if len(preDecl) > 0 {
						op = "="
					}
					return strings.Join(lhs, ", ") + " " + op + " " + vals[0] + "\n"
				}
			}
			if len(vals) != len(lhs) {
				failed = "result count mismatch"
				return ""
			}
			var l2, v2 []string
			for i := range lhs {
				if lhs[i] == vals[i] {
					continue // the helper's own local is the variable
				}
				l2, v2 = append(l2, lhs[i]), append(v2, vals[i])
			}
			if len(l2) == 0 {
				return ""
			}
			op := tok
			if op == ":=" {
				// `:=` needs a new variable on its left; the helper-declared ones were dropped
				anyNew := false
				if as, ok := s.stmt.(*ast.AssignStmt); ok {
					for i, e := range as.Lhs {
						if id, ok := e.(*ast.Ident); ok && cinfo.Defs[id] != nil && !resultIsLocal[i] {
							anyNew = true
						}
					}
				}
				if !anyNew {
					op = "="
				}
			}
			return strings.Join(l2, ", ") + " " + op + " " + strings.Join(v2, ", ") + "\n"
		}
		return ""
	}
	var genList func(stmts []ast.Stmt, tail bool) string
	genList = func(stmts []ast.Stmt, tail bool) string {
		out := ""
		for i, st := range stmts {
			last := i == len(stmts)-1
			switch y := st.(type) {
			case *ast.ReturnStmt:
				if plain[y] || s.kind == siteReturn || s.kind == siteGo {
					if !(tail && last) {
						failed = "a return that is not in tail position"
						return out
					}
					return out + genFinal(y)
				}
			case *ast.IfStmt:
				if s.kind != siteReturn && s.kind != siteGo && hasPlain(y) {
					if !tail {
						failed = "an early return nested in a non-tail statement"
						return out
					}
					head := "if "
					if y.Init != nil {
						head += render(hsrc, htf, info, y.Init, subst, skip) + "; "
					}
					head += render(hsrc, htf, info, y.Cond, subst, skip)
					rest := stmts[i+1:]
					thenStmts := append(append([]ast.Stmt{}, y.Body.List...), rest...)
					var elseStmts []ast.Stmt
					switch e := y.Else.(type) {
					case nil:
						elseStmts = rest
					case *ast.BlockStmt:
						elseStmts = append(append([]ast.Stmt{}, e.List...), rest...)
					case *ast.IfStmt:
						elseStmts = append([]ast.Stmt{e}, rest...)
					}
					if endsInPlainReturn(y.Body, plain) {
						thenStmts = y.Body.List // the rest is unreachable from here
					}
					return out + head + " {\n" + genList(thenStmts, true) + "} else {\n" + genList(elseStmts, true) + "}\n"
				}
			case *ast.BlockStmt:
				if s.kind != siteReturn && s.kind != siteGo && hasPlain(y) {
					if !(tail && last) {
						failed = "an early return nested in a block that is not last"
						return out
					}
					return out + "{\n" + genList(y.List, true) + "}\n"
				}
			default:
				if s.kind != siteReturn && s.kind != siteGo && hasPlain(st) {
					failed = "an early return inside a loop or switch of the helper"
					return out
				}
			}
			out += render(hsrc, htf, info, st, subst, skip) + "\n"
		}
		if tail && named && s.kind != siteReturn && s.kind != siteGo {
			// falls off the end: the named results are the values
			out += genFinal(&ast.ReturnStmt{})
		}
		return out
	}
	if (s.kind == siteReturn || s.kind == siteGo) && named {
		// bare returns become explicit
		for _, r := range g.Returns() {
			if len(r.Results) == 0 {
				skip[r] = "return " + strings.Join(resNames, ", ")
			}
		}
	}
	// plain returns nested in loops or switches: fall back to a labelled one-arm switch that is left by `break`
	nested := false
	if s.kind != siteReturn && s.kind != siteGo {
		var chk func(stmts []ast.Stmt)
		chk = func(stmts []ast.Stmt) {
			for _, st := range stmts {
				switch y := st.(type) {
				case *ast.ReturnStmt:
				case *ast.IfStmt:
					chk(y.Body.List)
					switch e := y.Else.(type) {
					case *ast.BlockStmt:
						chk(e.List)
					case *ast.IfStmt:
						chk([]ast.Stmt{e})
					}
				case *ast.BlockStmt:
					chk(y.List)
				default:
					if hasPlain(st) {
						nested = true
					}
				}
			}
		}
		chk(h.Decl.Body.List)
	}
	if nested {
		label := "L" + suffix
		var resVars []string
		var decl string
		direct := false
		if boolGuard {
			direct = true
		} else if !named && (s.kind == siteAssign || s.kind == siteHoist) && len(lhs) == nres {
			direct = true
			if as, ok := s.stmt.(*ast.AssignStmt); ok && s.kind == siteAssign {
				for _, e := range as.Lhs {
					if !simpleArg(e) {
						direct = false
					}
				}
			}
		}
		if named {
			resVars = resNames
		} else if direct {
			resVars = lhs // every `return v` assigns the call site's own left-hand side
		} else {
			for i := 0; i < nres; i++ {
				v := fmt.Sprintf("r%d%s", i, suffix)
				resVars = append(resVars, v)
				decl += "var " + v + " " + types.TypeString(sig.Results().At(i).Type(), qual) + "; _ = " + v + "\n"
			}
		}
		for r := range plain {
			vals := values(r)
			if boolGuard {
				skip[r] = boolReturn(r, vals[0], true)
				continue
			}
			txt := "{ "
			if len(vals) > 0 && !(len(r.Results) == 0 && named) {
				txt += strings.Join(resVars, ", ") + " = " + strings.Join(vals, ", ") + "; "
			}
			skip[r] = txt + "break " + label + " }"
		}
		var bt strings.Builder
		for _, st := range h.Decl.Body.List {
			bt.WriteString(render(hsrc, htf, info, st, subst, skip) + "\n")
		}
		var b strings.Builder
		b.WriteString("// helper " + h.Decl.Name.Name + " made transparent for analysis\n")
		for _, p := range preDecl {
			b.WriteString(p + "\n")
		}
		for _, p := range pre {
			b.WriteString(p + "\n")
		}
		b.WriteString(decl)
		b.WriteString(label + ":\nswitch {\ndefault:\n" + bt.String() + "}\n")
		switch s.kind {
		case siteIf:
			if nres != 1 {
				return "", false, "if-form call site with several results"
			}
			ifs := s.stmt.(*ast.IfStmt)
			errName := ifs.Init.(*ast.AssignStmt).Lhs[0].(*ast.Ident).Name
			R := string(csrc[ctf.Offset(ifs.Body.Pos()):ctf.Offset(ifs.Body.End())])
			b.WriteString("if " + errName + " := " + resVars[0] + "; " + errName + " != nil " + R + "\n")
		case siteAssign, siteHoist:
			if len(lhs) != len(resVars) && !boolGuard {
				return "", false, "result count mismatch"
			}
			if !direct && !boolGuard {
				b.WriteString(strings.Join(lhs, ", ") + " = " + strings.Join(resVars, ", ") + "\n")
			}
		}
		b.WriteString(after)
		return b.String(), true, ""
	}
	bodyText := ""
	if s.kind == siteReturn || s.kind == siteGo {
		for _, st := range h.Decl.Body.List {
			bodyText += render(hsrc, htf, info, st, subst, skip) + "\n"
		}
	} else {
		if s.kind == siteAssign && len(preDecl) == 0 {
			tok = s.stmt.(*ast.AssignStmt).Tok.String()
			// a define whose variables all exist already cannot happen; with fresh variables they were pre-declared
		}
		bodyText = genList(h.Decl.Body.List, true)
	}
	if failed != "" {
		return "", false, failed
	}
	var b strings.Builder
	b.WriteString("// helper " + h.Decl.Name.Name + " made transparent for analysis\n")
	for _, p := range preDecl {
		b.WriteString(p + "\n")
	}
	for _, p := range pre {
		b.WriteString(p + "\n")
	}
	if s.kind == siteGo {
		if nres != 0 {
			return "", false, "go statement on a helper with results"
		}
		b.WriteString("go func() {\n" + bodyText + "}()\n")
		return b.String(), true, ""
	}
	b.WriteString(bodyText)
	b.WriteString(after)
	return b.String(), true, ""
}

func endsInPlainReturn(b *ast.BlockStmt, plain map[*ast.ReturnStmt]bool) bool {
	if len(b.List) == 0 {
		return false
	}
	r, ok := b.List[len(b.List)-1].(*ast.ReturnStmt)
	return ok && plain[r]
}

func handlerBody(s *inlineSite) *ast.BlockStmt {
	switch s.kind {
	case siteIf:
		return s.stmt.(*ast.IfStmt).Body
	case siteAssign:
		if s.next != nil {
			return s.next.Body
		}
	}
	return nil
}

func containsBranch(b *ast.BlockStmt) bool {
	if b == nil {
		return false
	}
	found := false
	ast.Inspect(b, func(x ast.Node) bool {
		switch y := x.(type) {
		case *ast.FuncLit, *ast.ForStmt, *ast.RangeStmt, *ast.SwitchStmt, *ast.TypeSwitchStmt, *ast.SelectStmt:
			return false
		case *ast.BranchStmt:
			if y.Tok == token.BREAK || y.Tok == token.CONTINUE {
				found = true
			}
		}
		return true
	})
	return found
}

func inLoopOf(body *ast.BlockStmt, n ast.Node) bool {
	in := false
	var stack []ast.Node
	ast.Inspect(body, func(x ast.Node) bool {
		if x == nil {
			stack = stack[:len(stack)-1]
			return true
		}
		stack = append(stack, x)
		if x == n {
			for _, a := range stack {
				switch a.(type) {
				case *ast.ForStmt, *ast.RangeStmt, *ast.SwitchStmt, *ast.TypeSwitchStmt, *ast.SelectStmt:
					in = true
				}
			}
		}
		return true
	})
	return in
}

// missingImports: import declarations the helper's body needs that the caller's file lacks.
func (w *World) missingImports(h *Func, caller *Func, callerFile string) string {
	_, hfile := w.fileOf(h.Decl.Pos())
	if hfile == callerFile {
		return ""
	}
	have := map[string]bool{}
	for _, sf := range caller.Pkg.Syntax {
		if _, n := w.fileOf(sf.Pos()); n == callerFile {
			for _, im := range sf.Imports {
				have[strings.Trim(im.Path.Value, `"`)] = true
			}
		}
	}
	need := map[string]string{}
	ast.Inspect(h.Decl.Body, func(x ast.Node) bool {
		if id, ok := x.(*ast.Ident); ok {
			if pn, ok := h.Pkg.TypesInfo.Uses[id].(*types.PkgName); ok {
				p := pn.Imported().Path()
				if !have[p] {
					need[p] = pn.Name()
				}
			}
		}
		return true
	})
	var paths []string
	for p := range need {
		paths = append(paths, p)
	}
	sort.Strings(paths)
	out := ""
	for _, p := range paths {
		out += "import " + need[p] + " \"" + p + "\"\n"
	}
	return out
}

// ---- renamed functions ------------------------------------------------------------------------------

// sigString renders a signature by its types only (parameter names do not matter).
func sigString(fn *types.Func) string {
	sig := fn.Type().(*types.Signature)
	q := func(p *types.Package) string { return p.Name() }
	part := func(t *types.Tuple) string {
		var out []string
		for i := 0; i < t.Len(); i++ {
			out = append(out, types.TypeString(t.At(i).Type(), q))
		}
		return "(" + strings.Join(out, ", ") + ")"
	}
	s := part(sig.Params()) + part(sig.Results())
	if sig.Variadic() {
		s += "..."
	}
	return s
}

// funcAlias lets calleeKey report a renamed function under the name the rules know.
var funcAlias = map[*types.Func]string{}
var funcAliasMu sync.RWMutex

// aliasRenamed: a pinned function that is gone and exactly one new function of the same package, receiver
// and signature — and no other candidate either way — are taken to be the same function under a new name.
// The rules then see it under its pinned name; anything less clear-cut is left alone.
func (w *World) aliasRenamed() {
	w.aliased = map[*Func]bool{}
	prefix := func(name string) string { // "storage.(*fileStore)." or "storage."
		i := strings.LastIndex(name, ".")
		return name[:i+1]
	}
	missing := map[string][]string{} // prefix|sig -> pinned names that are gone
	for name, sig := range pinnedFuncs {
		if _, ok := w.Funcs[name]; !ok && !strings.Contains(name, "#") {
			k := prefix(name) + "|" + sig
			missing[k] = append(missing[k], name)
		}
	}
	fresh := map[string][]*Func{}
	for _, name := range w.SortedFuncNames() {
		if _, ok := pinnedFuncs[name]; ok || strings.Contains(name, "#") {
			continue
		}
		f := w.Funcs[name]
		k := prefix(name) + "|" + sigString(f.Obj)
		fresh[k] = append(fresh[k], f)
	}
	type pair struct {
		f   *Func
		old string
	}
	var pairs []pair
	for k, gone := range missing {
		cand := fresh[k]
		if len(gone) == 1 && len(cand) == 1 {
			pairs = append(pairs, pair{cand[0], gone[0]})
			continue
		}
		// several functions of one signature renamed at once: the body skeleton (locals blanked) decides
		used := map[*Func]bool{}
		for _, old := range gone {
			var hit []*Func
			for _, f := range cand {
				if !used[f] && bodySkeleton(f) == pinnedSkeletons[old] {
					hit = append(hit, f)
				}
			}
			if len(hit) == 1 {
				used[hit[0]] = true
				pairs = append(pairs, pair{hit[0], old})
			}
		}
	}
	sort.Slice(pairs, func(i, j int) bool { return pairs[i].old < pairs[j].old })
	for _, pr := range pairs {
		f := pr.f
		old := pr.old
		delete(w.Funcs, f.Name)
		w.Renamed = append(w.Renamed, f.Name+" is taken to be "+old+" under a new name (same package, receiver and signature; the old name is gone)")
		f.Name = old
		w.Funcs[old] = f
		w.aliased[f] = true
		funcAliasMu.Lock()
		funcAlias[f.Obj] = old[strings.LastIndex(old, ".")+1:]
		funcAliasMu.Unlock()
		if w.aliasShort == nil {
			w.aliasShort = map[string]string{}
		}
		w.aliasShort[f.Obj.Name()] = old[strings.LastIndex(old, ".")+1:]
	}
	sort.Strings(w.Renamed)
}

// takenNames: every identifier spelled in the caller (grows while sites of one round are generated).
func (w *World) takenNames(f *Func) map[string]bool {
	k := "taken:" + f.Name
	if v, ok := w.memo[k]; ok {
		return v.(map[string]bool)
	}
	m := map[string]bool{}
	ast.Inspect(f.Decl, func(x ast.Node) bool {
		if id, ok := x.(*ast.Ident); ok {
			m[id.Name] = true
		}
		return true
	})
	w.memo[k] = m
	return m
}

// exprHelperText: the helper's body is `return E` with one result and every parameter can be replaced by
// its argument text; the call is then replaced by (E).
func (w *World) exprHelperText(h *Func, s *inlineSite, overlay map[string][]byte) (string, bool) {
	if len(h.Decl.Body.List) != 1 {
		return "", false
	}
	ret, ok := h.Decl.Body.List[0].(*ast.ReturnStmt)
	if !ok || len(ret.Results) != 1 {
		return "", false
	}
	sig := h.Obj.Type().(*types.Signature)
	if sig.Results().Len() != 1 {
		return "", false
	}
	info, cinfo := h.Pkg.TypesInfo, s.caller.Pkg.TypesInfo
	htf, hname := w.fileOf(h.Decl.Pos())
	hsrc := readSource(hname, overlay)
	ctf, cname := w.fileOf(s.call.Pos())
	csrc := readSource(cname, overlay)
	if hname != cname && w.missingImports(h, s.caller, cname) != "" {
		return "", false
	}
	subst := map[types.Object]string{}
	bindOne := func(pid *ast.Ident, arg ast.Expr) bool {
		if pid == nil || pid.Name == "_" {
			return simpleArg(arg)
		}
		at := cinfo.TypeOf(arg)
		pobj := info.ObjectOf(pid)
		if !simpleArg(arg) || at == nil || !types.Identical(at, pobj.Type()) {
			return false
		}
		t := string(csrc[ctf.Offset(arg.Pos()):ctf.Offset(arg.End())])
		if _, isStar := ast.Unparen(arg).(*ast.StarExpr); isStar {
			t = "(" + t + ")"
		}
		if _, isAddr := ast.Unparen(arg).(*ast.UnaryExpr); isAddr {
			t = "(" + t + ")"
		}
		subst[pobj] = t
		return true
	}
	if h.Decl.Recv != nil && len(h.Decl.Recv.List) == 1 {
		sel, ok := ast.Unparen(s.call.Fun).(*ast.SelectorExpr)
		if !ok {
			return "", false
		}
		if names := h.Decl.Recv.List[0].Names; len(names) == 1 && names[0].Name != "_" {
			robj := info.ObjectOf(names[0])
			rt := cinfo.TypeOf(sel.X)
			txt := string(csrc[ctf.Offset(sel.X.Pos()):ctf.Offset(sel.X.End())])
			switch {
			case !simpleArg(sel.X) || rt == nil:
				return "", false
			case types.Identical(rt, robj.Type()):
				subst[robj] = txt
			case types.Identical(types.NewPointer(rt), robj.Type()):
				subst[robj] = "(&" + txt + ")"
			default:
				return "", false
			}
		}
	}
	ai := 0
	for _, fl := range h.Decl.Type.Params.List {
		names := fl.Names
		if len(names) == 0 {
			names = []*ast.Ident{nil}
		}
		for _, pid := range names {
			if ai >= len(s.call.Args) || !bindOne(pid, s.call.Args[ai]) {
				return "", false
			}
			ai++
		}
	}
	if ai != len(s.call.Args) {
		return "", false
	}
	// no function literal in E (its locals would need renaming)
	hasLit := false
	ast.Inspect(ret.Results[0], func(x ast.Node) bool {
		if _, ok := x.(*ast.FuncLit); ok {
			hasLit = true
		}
		return true
	})
	if hasLit {
		return "", false
	}
	txt := render(hsrc, htf, info, ret.Results[0], subst, nil)
	switch ast.Unparen(ret.Results[0]).(type) {
	case *ast.Ident, *ast.SelectorExpr, *ast.CallExpr, *ast.IndexExpr, *ast.TypeAssertExpr, *ast.BasicLit, *ast.SliceExpr:
		// a primary expression binds tighter than anything around the call
		needParen := false
		for _, v := range subst {
			if strings.HasPrefix(v, "(&") || strings.HasPrefix(v, "(*") {
				needParen = false // already parenthesised where it matters
			}
		}
		if !needParen {
			return txt, true
		}
	}
	if _, isLit := ast.Unparen(ret.Results[0]).(*ast.CompositeLit); isLit {
		// a composite literal needs parentheses only in the header of if/for/switch
		switch s.stmt.(type) {
		case *ast.AssignStmt, *ast.ReturnStmt, *ast.DeclStmt, *ast.ExprStmt:
			return txt, true
		}
	}
	return "(" + txt + ")", true
}

// ---- opacity --------------------------------------------------------------------------------------------

// opaqueKey: does the obligation key name a function that the rules cannot read by shape? Keys start with the
// function name ("pkg.Func|…", "pkg.(*T).M|…") or are a codec pair "A<->B".
func (w *World) opaqueKey(key string) string {
	if w == nil || len(pinnedFuncs) == 0 {
		return ""
	}
	head := key
	if i := strings.Index(head, "|"); i >= 0 {
		head = head[:i]
	}
	for _, name := range strings.Split(head, "<->") {
		if f := w.Funcs[name]; f != nil {
			if why := w.opaque(f); why != "" {
				return "because " + name + " " + why
			}
		}
	}
	return ""
}

func (w *World) opaque(f *Func) string {
	k := "opaque:" + f.Name
	if v, ok := w.memo[k]; ok {
		return v.(string)
	}
	w.memo[k] = "" // recursion guard
	why := ""
	if sig, ok := pinnedFuncs[f.Name]; ok && !w.aliased[f] && sig != sigString(f.Obj) {
		why = "has a different signature than the one the rules were written for"
	}
	info := f.Pkg.TypesInfo
	if _, pinned := pinnedFuncs[f.Name]; why == "" && !pinned && !w.aliased[f] && !strings.Contains(f.Name, "#") && !strings.Contains(f.Name, "$") {
		// a function that did not exist when the rules were written: what a rule misses in it, it may simply not know
		why = "is a function the rules have never seen"
	}
	if why == "" && w.SplitIn[f.Name] != "" {
		// the values were found again, but they still travel through flags and copies the shape rules do not follow
		why = "carried values in a struct the rules have never seen (" + w.SplitIn[f.Name] + ", split into one local per field before analysis)"
	}
	if why == "" {
		ast.Inspect(f.Decl, func(x ast.Node) bool {
			if why != "" {
				return false
			}
			id, ok := x.(*ast.Ident)
			if !ok {
				return true
			}
			switch o := info.ObjectOf(id).(type) {
			case *types.TypeName:
				// a new type of the function's OWN package is what a refactoring introduces to carry the data the
				// rules follow; a new type of another package (a new statement or expression node the function
				// merely has an arm for) does not hide anything the rules look at
				if o.Pkg() != nil && o.Pkg() == f.Pkg.Types && o.Parent() == o.Pkg().Scope() {
					if !pinnedTypes[pkgKey(o.Pkg().Path())+"."+o.Name()] {
						why = "uses the type " + o.Name() + ", which the rules have never seen"
					}
				}
			case *types.Func:
				if t := w.byObj[o]; t != nil && t != f {
					if _, pinned := pinnedFuncs[t.Name]; !pinned && !w.aliased[t] {
						if w.inertFunc(t) {
							break // a diagnostic helper (formats and prints): nothing a rule looks at
						}
						why = "calls " + t.Name + ", which is unknown to the rules and could not be made transparent"
					} else if sig, ok := pinnedFuncs[t.Name]; ok && !w.aliased[t] && sig != sigString(t.Obj) {
						why = "calls " + t.Name + ", whose signature changed"
					}
				}
			}
			return true
		})
	}
	w.memo[k] = why
	return why
}

// bodySkeleton: the function body with every local variable name blanked and calls of repository functions
// reduced to their arity (so that renames of locals and of other functions do not matter).
func bodySkeleton(f *Func) string {
	info := f.Pkg.TypesInfo
	var b strings.Builder
	ast.Inspect(f.Decl.Body, func(x ast.Node) bool {
		switch y := x.(type) {
		case nil:
			return true
		case *ast.Ident:
			switch o := info.ObjectOf(y).(type) {
			case *types.Var:
				if o.IsField() {
					b.WriteString("." + o.Name())
				} else {
					b.WriteString("v")
				}
			case *types.Func:
				if o.Pkg() != nil && pkgKey(o.Pkg().Path()) != "" {
					b.WriteString("f")
				} else {
					b.WriteString(o.Name())
				}
			default:
				b.WriteString(y.Name)
			}
			b.WriteString(" ")
		case *ast.BasicLit:
			b.WriteString(y.Value + " ")
		case *ast.BinaryExpr:
			b.WriteString(y.Op.String() + " ")
		case *ast.UnaryExpr:
			b.WriteString(y.Op.String() + " ")
		case *ast.AssignStmt:
			b.WriteString(y.Tok.String() + " ")
		case *ast.ReturnStmt:
			b.WriteString("return ")
		case *ast.IfStmt:
			b.WriteString("if ")
		case *ast.ForStmt:
			b.WriteString("for ")
		case *ast.RangeStmt:
			b.WriteString("range ")
		case *ast.SwitchStmt:
			b.WriteString("switch ")
		case *ast.BranchStmt:
			b.WriteString(y.Tok.String() + " ")
		}
		return true
	})
	return b.String()
}

// inertFunc: the function only formats and prints (fmt, log, os.Stderr/Stdout, strings, strconv): it touches
// no state a rule is about.
func (w *World) inertFunc(f *Func) bool {
	info := f.Pkg.TypesInfo
	ok := true
	ast.Inspect(f.Decl.Body, func(x ast.Node) bool {
		if !ok {
			return false
		}
		switch y := x.(type) {
		case *ast.AssignStmt:
			for _, l := range y.Lhs {
				if id, isID := ast.Unparen(l).(*ast.Ident); !isID {
					ok = false
				} else if v, isVar := info.ObjectOf(id).(*types.Var); isVar && v.Pkg() != nil && v.Parent() == v.Pkg().Scope() {
					ok = false
				}
			}
		case *ast.IncDecStmt, *ast.SendStmt, *ast.GoStmt, *ast.DeferStmt:
			ok = false
		case *ast.CallExpr:
			if tv, isT := info.Types[y.Fun]; isT && tv.IsType() {
				return true
			}
			if id, isID := ast.Unparen(y.Fun).(*ast.Ident); isID {
				if _, isB := info.ObjectOf(id).(*types.Builtin); isB {
					return true
				}
			}
			callee := f.Callee(y)
			if callee == nil || callee.Pkg() == nil {
				ok = false
				return false
			}
			switch callee.Pkg().Path() {
			case "fmt", "log", "strings", "strconv", "time", "unicode/utf8":
			default:
				ok = false
			}
		}
		return true
	})
	return ok
}

// unshadowRound renames caller locals that would capture a package-level name used by a helper about to be substituted.
func (w *World) unshadowRound(layer []*Func, sites map[*Func][]*inlineSite, overlay map[string][]byte) (map[string][]byte, []string) {
	edits := map[string][]textEdit{}
	var what []string
	renamed := map[types.Object]string{}
	for _, h := range layer {
		info := h.Pkg.TypesInfo
		free := map[string]types.Object{}
		ast.Inspect(h.Decl.Body, func(n ast.Node) bool {
			if id, ok := n.(*ast.Ident); ok {
				if obj := info.Uses[id]; obj != nil && obj.Parent() == h.Pkg.Types.Scope() {
					free[id.Name] = obj
				}
			}
			return true
		})
		if len(free) == 0 {
			continue
		}
		for _, s := range sites[h] {
			cinfo := s.caller.Pkg.TypesInfo
			taken := w.takenNames(s.caller)
			var hit []types.Object
			for id, obj := range cinfo.Defs {
				if obj == nil || id.Pos() < s.caller.Decl.Pos() || id.End() > s.caller.Decl.End() {
					continue
				}
				if _, isVar := obj.(*types.Var); !isVar || free[id.Name] == nil || obj.Parent() == nil || obj.Parent() == s.caller.Pkg.Types.Scope() {
					continue
				}
				if _, seen := renamed[obj]; seen {
					continue
				}
				// visible at the site, or defined by the site statement itself
				if obj.Parent().Contains(s.call.Pos()) || (id.Pos() >= s.stmt.Pos() && id.End() <= s.stmt.End()) {
					hit = append(hit, obj)
				}
			}
			sort.Slice(hit, func(i, j int) bool { return hit[i].Pos() < hit[j].Pos() })
			for _, obj := range hit {
				nn := obj.Name() + "V"
				for taken[nn] || s.caller.Pkg.Types.Scope().Lookup(nn) != nil {
					nn += "V"
				}
				taken[nn] = true
				renamed[obj] = nn
				what = append(what, fmt.Sprintf("local %s of %s renamed to %s (it hides a package-level name used by helper %s)", obj.Name(), s.caller.Name, nn, h.Name))
				tf, fname := w.fileOf(s.caller.Decl.Pos())
				ast.Inspect(s.caller.Decl, func(n ast.Node) bool {
					if id, ok := n.(*ast.Ident); ok && (cinfo.Defs[id] == obj || cinfo.Uses[id] == obj) {
						edits[fname] = append(edits[fname], textEdit{tf.Offset(id.Pos()), tf.Offset(id.End()), nn})
					}
					return true
				})
			}
		}
	}
	if len(edits) == 0 {
		return nil, nil
	}
	out := map[string][]byte{}
	for k, v := range overlay {
		out[k] = v
	}
	for fname, es := range edits {
		src := readSource(fname, overlay)
		sort.Slice(es, func(i, j int) bool { return es[i].start < es[j].start })
		var b []byte
		last := 0
		for _, e := range es {
			if e.start < last {
				continue
			}
			b = append(b, src[last:e.start]...)
			b = append(b, e.text...)
			last = e.end
		}
		b = append(b, src[last:]...)
		out[fname] = b
	}
	return out, what
}

func enclosingStmt(root ast.Node, target ast.Node) ast.Stmt {
	var found ast.Stmt
	var stack []ast.Node
	ast.Inspect(root, func(x ast.Node) bool {
		if x == nil {
			stack = stack[:len(stack)-1]
			return true
		}
		if x == target {
			for i := len(stack) - 1; i >= 0; i-- {
				if st, ok := stack[i].(ast.Stmt); ok {
					found = st
					break
				}
			}
		}
		stack = append(stack, x)
		return found == nil
	})
	return found
}

// selOperand: id is the direct operand of a selector inside (or equal to) sel.
func selOperand(sel *ast.SelectorExpr, id *ast.Ident) bool {
	found := false
	ast.Inspect(sel, func(x ast.Node) bool {
		if s, ok := x.(*ast.SelectorExpr); ok && s.X == ast.Expr(id) {
			found = true
		}
		return !found
	})
	return found
}
