package main

// Wire-grammar extraction (template T3). A codec function body is abstracted,
// in program order, into a sequence of items; writer and reader grammars must be
// equal item by item. Unknown I/O constructs make the pair undecided.

import (
	"fmt"
	"go/ast"
	"go/constant"
	"go/token"
	"go/types"
	"sort"
	"strings"
)

type itemKind int

const (
	itScalar itemKind = iota // fixed-width value
	itBytes                  // variable-length byte string
	itPad                    // bytes without content (free space)
	itLoop
	itIf
	itSwitch
)

type Item struct {
	Kind     itemKind
	Width    int        // scalar width in bytes
	Field    *types.Var // struct field written/read, if the operand is a field
	Ref      string     // rendered operand
	Pos      token.Pos
	Body     []Item            // loop / if-then
	Else     []Item            // if-else
	Arms     map[string][]Item // switch: constant name -> items
	Cond     string
	CondExpr ast.Expr     // the condition of an if item
	Skips    bool         // if item: the body ends the iteration (continue)
	Expr     ast.Expr     // the operand expression (scalars and byte strings)
	Alt      []*types.Var // reader: further fields the same wire value is stored into
	// ConstWidth: for pads/bytes of constant size
}

func (it Item) String() string {
	switch it.Kind {
	case itScalar:
		n := it.Ref
		if it.Field != nil {
			n = it.Field.Name()
		}
		return fmt.Sprintf("u%d(%s)", it.Width*8, n)
	case itBytes:
		n := it.Ref
		if it.Field != nil {
			n = it.Field.Name()
		}
		return "bytes(" + n + ")"
	case itPad:
		return "pad"
	case itLoop:
		return "loop{" + itemsString(it.Body) + "}"
	case itIf:
		s := "if{" + itemsString(it.Body) + "}"
		if len(it.Else) > 0 {
			s += "else{" + itemsString(it.Else) + "}"
		}
		return s
	case itSwitch:
		var ks []string
		for k := range it.Arms {
			ks = append(ks, k)
		}
		sortStrings(ks)
		var parts []string
		for _, k := range ks {
			parts = append(parts, k+":"+itemsString(it.Arms[k]))
		}
		return "switch{" + strings.Join(parts, " | ") + "}"
	}
	return "?"
}

func itemsString(items []Item) string {
	var p []string
	for _, i := range items {
		p = append(p, i.String())
	}
	return strings.Join(p, " ")
}

func sortStrings(s []string) {
	for i := 1; i < len(s); i++ {
		for j := i; j > 0 && s[j] < s[j-1]; j-- {
			s[j], s[j-1] = s[j-1], s[j]
		}
	}
}

type extractor struct {
	f        *Func
	writer   bool
	stream   types.Object // the buffer variable being followed (nil: any)
	problems []string
	aliases  map[types.Object]*types.Var // local -> field it is stored to / loaded from
	depth    int
	// positional buffers: a local byte array / slice that is filled (writer) or examined (reader) by offset —
	// hdr[0] = b, binary.LittleEndian.PutUint32(hdr[1:5], v), v = binary.LittleEndian.Uint32(hdr[1:5]) — and
	// moved to / from the stream in one call. Its items are placed in offset order where it meets the stream.
	pos     map[types.Object][]posItem
	nest    int                  // block nesting of the statement being abstracted
	pending map[types.Object]int // reader: placeholder marker of the fill event
	marks   int
}

type posItem struct {
	off, nest int
	it        Item
}

// posBufOf: e is (a slice of) a local byte array or byte slice: hdr, hdr[:], hdr[a:b], &hdr. Returns the
// variable and the constant offset of the window (-1 when the lower bound is not constant).
func (x *extractor) posBufOf(e ast.Expr) (types.Object, int, int) {
	e = ast.Unparen(e)
	off, hi := 0, -1
	if sl, ok := e.(*ast.SliceExpr); ok {
		if sl.Low != nil {
			cv := x.f.constOf(sl.Low)
			if cv == nil {
				return nil, -1, -1
			}
			n, _ := constant.Int64Val(cv)
			off = int(n)
		}
		if sl.High != nil {
			if cv := x.f.constOf(sl.High); cv != nil {
				n, _ := constant.Int64Val(cv)
				hi = int(n)
			}
		}
		e = ast.Unparen(sl.X)
	}
	id, ok := e.(*ast.Ident)
	if !ok {
		return nil, -1, -1
	}
	obj, ok := x.f.ObjOf(id).(*types.Var)
	if !ok || obj.IsField() || obj.Pkg() == nil || obj.Parent() == obj.Pkg().Scope() {
		return nil, -1, -1
	}
	t := obj.Type().Underlying()
	if a, ok := t.(*types.Array); ok {
		if b, ok := a.Elem().Underlying().(*types.Basic); ok && b.Kind() == types.Uint8 {
			return obj, off, hi
		}
		return nil, -1, -1
	}
	if isByteSlice(obj.Type()) {
		return obj, off, hi
	}
	return nil, -1, -1
}

func (x *extractor) addPos(obj types.Object, off int, it Item) {
	if x.pos == nil {
		x.pos = map[types.Object][]posItem{}
	}
	x.pos[obj] = append(x.pos[obj], posItem{off: off, nest: x.nest, it: it})
}

// takePos returns the items recorded for a positional buffer in offset order; gaps, overlaps and items
// recorded under a different nesting than the transfer make the grammar undecidable.
func (x *extractor) takePos(obj types.Object, at token.Pos, hi int) ([]Item, bool) {
	ps := x.pos[obj]
	if len(ps) == 0 {
		return nil, false
	}
	delete(x.pos, obj)
	sort.SliceStable(ps, func(i, j int) bool { return ps[i].off < ps[j].off })
	var out []Item
	next := 0
	for _, p := range ps {
		if p.off != next {
			x.problems = append(x.problems, fmt.Sprintf("positional buffer %s: bytes %d..%d are not described (or described twice) at %s", obj.Name(), next, p.off, x.f.w.Pos(at)))
		}
		if p.nest != x.nest {
			// a scratch buffer that lives across the iterations of the loop it is transferred in keeps what the
			// previous iteration wrote: a position written only under a condition is stale on the other paths
			if l := enclosingLoop(x.f.Decl.Body, posAsNode(at)); l != nil && obj.Pos() < l.Pos() {
				x.problems = append(x.problems, fmt.Sprintf("STALE: the scratch buffer %s is declared outside the loop that fills and transfers it (%s), and byte %d of it is written only under a condition: on the other paths the byte keeps the value the previous iteration left there (a flag set for one cell is written for every cell after it)", obj.Name(), x.f.w.Pos(at), p.off))
			} else {
				x.problems = append(x.problems, fmt.Sprintf("positional buffer %s is filled under another condition than it is transferred at %s", obj.Name(), x.f.w.Pos(at)))
			}
		}
		next = p.off + p.it.Width
		out = append(out, p.it)
	}
	if hi >= 0 {
		// only the window [0:hi) is transferred
		if hi != next {
			x.problems = append(x.problems, fmt.Sprintf("positional buffer %s: %d bytes are transferred, %d are described at %s", obj.Name(), hi, next, x.f.w.Pos(at)))
		}
	} else if a, ok := obj.Type().Underlying().(*types.Array); ok && int(a.Len()) != next {
		x.problems = append(x.problems, fmt.Sprintf("positional buffer %s has %d bytes, %d are described at %s", obj.Name(), a.Len(), next, x.f.w.Pos(at)))
	}
	return out, true
}

func putWidth(name string) int {
	switch {
	case strings.HasSuffix(name, "int16"):
		return 2
	case strings.HasSuffix(name, "int32"):
		return 4
	case strings.HasSuffix(name, "int64"):
		return 8
	}
	return 0
}

func basicWidth(t types.Type) int {
	b, ok := t.Underlying().(*types.Basic)
	if !ok {
		return 0
	}
	switch b.Kind() {
	case types.Bool, types.Uint8, types.Int8:
		return 1
	case types.Uint16, types.Int16:
		return 2
	case types.Uint32, types.Int32, types.Float32:
		return 4
	case types.Uint64, types.Int64, types.Float64:
		return 8
	}
	return 0
}

func isByteSlice(t types.Type) bool {
	s, ok := t.Underlying().(*types.Slice)
	if !ok {
		return false
	}
	b, ok := s.Elem().Underlying().(*types.Basic)
	return ok && b.Kind() == types.Uint8
}

// streamOf returns the object of the buffer expression (ident), or nil.
func (x *extractor) streamOf(e ast.Expr) types.Object {
	e = ast.Unparen(e)
	// `var b bytes.Buffer … &b` is the same stream as `b := &bytes.Buffer{} … b`
	if u, ok := e.(*ast.UnaryExpr); ok && u.Op == token.AND {
		e = ast.Unparen(u.X)
	}
	if id, ok := e.(*ast.Ident); ok {
		return x.f.ObjOf(id)
	}
	if sel, ok := e.(*ast.SelectorExpr); ok {
		return x.f.ObjOf(sel.Sel)
	}
	return nil
}

func (x *extractor) fieldOf(e ast.Expr) *types.Var {
	e = ast.Unparen(e)
	if u, ok := e.(*ast.UnaryExpr); ok && u.Op == token.AND {
		e = ast.Unparen(u.X)
	}
	e = x.f.stripConv(e)
	switch y := e.(type) {
	case *ast.SelectorExpr:
		return fieldVar(x.f, y)
	case *ast.Ident:
		if v, ok := x.aliases[x.f.ObjOf(y)]; ok {
			return v
		}
	case *ast.CallExpr:
		// len(x.field) -> the field (length prefix of that field)
		if id, ok := y.Fun.(*ast.Ident); ok && id.Name == "len" && len(y.Args) == 1 {
			return x.fieldOf(y.Args[0])
		}
	}
	return nil
}

// ioItem recognises a call as one wire item on the followed stream.
func (x *extractor) ioItem(call *ast.CallExpr) (Item, bool, bool) {
	f := x.f
	switch {
	case f.CallIs(call, "binary.Write") && x.writer, f.CallIs(call, "binary.Read") && !x.writer:
		if len(call.Args) != 3 {
			return Item{}, false, false
		}
		if x.stream != nil && x.streamOf(call.Args[0]) != x.stream {
			return Item{}, false, true // other stream
		}
		if exprKey(call.Args[1]) != "binary.LittleEndian" {
			x.problems = append(x.problems, "byte order "+exprKey(call.Args[1])+" at "+f.w.Pos(call.Pos()))
		}
		arg := call.Args[2]
		t := f.TypeOf(arg)
		if p, ok := t.(*types.Pointer); ok {
			t = p.Elem() // binary.Read needs a pointer; binary.Write accepts one and encodes the pointee
		}
		if w := basicWidth(t); w > 0 {
			return Item{Kind: itScalar, Width: w, Field: x.fieldOf(arg), Ref: exprKey(arg), Pos: call.Pos(), Expr: arg}, true, true
		}
		if isByteSlice(t) {
			if mk, ok := ast.Unparen(arg).(*ast.CallExpr); ok {
				if id, ok := mk.Fun.(*ast.Ident); ok && id.Name == "make" {
					return Item{Kind: itPad, Ref: exprKey(arg), Pos: call.Pos()}, true, true
				}
			}
			return Item{Kind: itBytes, Field: x.fieldOf(arg), Ref: exprKey(arg), Pos: call.Pos(), Expr: arg}, true, true
		}
		// a slice of fixed-width values written or read in one call is that many scalars
		if sl, ok := t.Underlying().(*types.Slice); ok {
			if w := basicWidth(sl.Elem()); w > 0 {
				return Item{Kind: itLoop, Cond: "whole-slice", Pos: call.Pos(), Body: []Item{{Kind: itScalar, Width: w, Field: x.fieldOf(arg), Ref: exprKey(arg) + "[i]", Pos: call.Pos(), Expr: arg}}}, true, true
			}
		}
		// a struct of fixed-width fields written or read in one call is its fields in declaration order; which
		// field of the node each one carries is read off the statements that fill the struct (writer) or copy
		// out of it (reader)
		if st, ok := t.Underlying().(*types.Struct); ok {
			if items, ok := x.structItems(arg, st, call.Pos()); ok {
				return Item{Kind: itLoop, Ref: "splice", Body: items, Pos: call.Pos(), Cond: "splice"}, true, true
			}
		}
		x.problems = append(x.problems, "binary I/O of unsupported type "+t.String()+" at "+f.w.Pos(call.Pos()))
		return Item{}, false, true
	case f.CallIs(call, "bytes.Buffer.Write") && x.writer:
		sel := call.Fun.(*ast.SelectorExpr)
		if x.stream != nil && x.streamOf(sel.X) != x.stream {
			return Item{}, false, true
		}
		if obj, off, hi := x.posBufOf(call.Args[0]); obj != nil && off == 0 && len(x.pos[obj]) > 0 {
			items, _ := x.takePos(obj, call.Pos(), hi)
			return Item{Kind: itLoop, Ref: "splice", Body: items, Pos: call.Pos(), Cond: "splice"}, true, true
		}
		// splice of another buffer?
		if inner, ok := ast.Unparen(call.Args[0]).(*ast.CallExpr); ok && f.CallIs(inner, "bytes.Buffer.Bytes") {
			other := x.streamOf(inner.Fun.(*ast.SelectorExpr).X)
			if other != nil && other != x.stream && x.depth < 3 {
				sub := &extractor{f: f, writer: true, stream: other, aliases: x.aliases, depth: x.depth + 1}
				items := sub.block(f.Decl.Body.List)
				x.problems = append(x.problems, sub.problems...)
				return Item{Kind: itLoop, Ref: "splice", Body: items, Pos: call.Pos(), Cond: "splice"}, true, true
			}
		}
		if mk, ok := ast.Unparen(call.Args[0]).(*ast.CallExpr); ok {
			if id, ok := mk.Fun.(*ast.Ident); ok && id.Name == "make" {
				return Item{Kind: itPad, Ref: exprKey(call.Args[0]), Pos: call.Pos()}, true, true
			}
		}
		return Item{Kind: itBytes, Field: x.fieldOf(call.Args[0]), Ref: exprKey(call.Args[0]), Pos: call.Pos(), Expr: call.Args[0]}, true, true
	case f.CallIs(call, "bytes.Buffer.Read") && !x.writer:
		sel := call.Fun.(*ast.SelectorExpr)
		if x.stream != nil && x.streamOf(sel.X) != x.stream {
			return Item{}, false, true
		}
		return Item{Kind: itBytes, Field: x.fieldOf(call.Args[0]), Ref: exprKey(call.Args[0]), Pos: call.Pos()}, true, true
	case f.CallIs(call, "bytes.Buffer.Next") && !x.writer:
		sel := call.Fun.(*ast.SelectorExpr)
		if x.stream != nil && x.streamOf(sel.X) != x.stream {
			return Item{}, false, true
		}
		return Item{Kind: itPad, Ref: exprKey(call.Args[0]), Pos: call.Pos()}, true, true
	case x.writer && f.CallIs(call, "bytes.Buffer.WriteByte"):
		sel := call.Fun.(*ast.SelectorExpr)
		if x.stream != nil && x.streamOf(sel.X) != x.stream {
			return Item{}, false, true
		}
		return Item{Kind: itScalar, Width: 1, Field: x.fieldOf(call.Args[0]), Ref: exprKey(call.Args[0]), Pos: call.Pos(), Expr: call.Args[0]}, true, true
	case x.writer && f.CallIs(call, "bytes.Buffer.WriteString"):
		sel := call.Fun.(*ast.SelectorExpr)
		if x.stream != nil && x.streamOf(sel.X) != x.stream {
			return Item{}, false, true
		}
		return Item{Kind: itBytes, Field: x.fieldOf(call.Args[0]), Ref: exprKey(call.Args[0]), Pos: call.Pos(), Expr: call.Args[0]}, true, true
	case !x.writer && f.CallIs(call, "bytes.Buffer.ReadByte"):
		sel := call.Fun.(*ast.SelectorExpr)
		if x.stream != nil && x.streamOf(sel.X) != x.stream {
			return Item{}, false, true
		}
		return Item{Kind: itScalar, Width: 1, Ref: exprKey(call), Pos: call.Pos()}, true, true
	case x.writer && f.CallIs(call, "binary.littleEndian.PutUint16", "binary.littleEndian.PutUint32", "binary.littleEndian.PutUint64", "binary.bigEndian.PutUint16", "binary.bigEndian.PutUint32", "binary.bigEndian.PutUint64"):
		obj, off, hi := x.posBufOf(call.Args[0])
		if obj == nil {
			return Item{}, false, false
		}
		name := f.Callee(call).Name()
		w := putWidth(name)
		if strings.HasPrefix(calleeKey(f.Callee(call)), "binary.bigEndian") {
			x.problems = append(x.problems, "byte order BigEndian at "+f.w.Pos(call.Pos()))
		}
		if hi >= 0 && hi-off != w {
			x.problems = append(x.problems, fmt.Sprintf("%s into a window of %d bytes at %s", name, hi-off, f.w.Pos(call.Pos())))
		}
		x.addPos(obj, off, Item{Kind: itScalar, Width: w, Field: x.fieldOf(call.Args[1]), Ref: exprKey(call.Args[1]), Pos: call.Pos(), Expr: call.Args[1]})
		return Item{}, false, true
	case !x.writer && f.CallIs(call, "binary.littleEndian.Uint16", "binary.littleEndian.Uint32", "binary.littleEndian.Uint64", "binary.bigEndian.Uint16", "binary.bigEndian.Uint32", "binary.bigEndian.Uint64"):
		obj, off, hi := x.posBufOf(call.Args[0])
		if obj == nil {
			return Item{}, false, false
		}
		if _, filled := x.pending[obj]; !filled {
			return Item{}, false, false
		}
		name := f.Callee(call).Name()
		w := putWidth(name)
		if strings.HasPrefix(calleeKey(f.Callee(call)), "binary.bigEndian") {
			x.problems = append(x.problems, "byte order BigEndian at "+f.w.Pos(call.Pos()))
		}
		if hi >= 0 && hi-off != w {
			x.problems = append(x.problems, fmt.Sprintf("%s of a window of %d bytes at %s", name, hi-off, f.w.Pos(call.Pos())))
		}
		x.addPos(obj, off, Item{Kind: itScalar, Width: w, Field: x.readTarget(call), Ref: exprKey(call), Pos: call.Pos()})
		return Item{}, false, true
	}
	// a positional buffer meets the stream: Write(hdr[:]) / WriteAt(hdr[:], 0) / io.ReadFull(r, hdr[:]) / Read(hdr[:])
	if x.writer && f.CallIs(call, "bytes.Buffer.Write", "os.File.WriteAt", "os.File.Write", "io.Writer.Write", "io.WriterAt.WriteAt") && len(call.Args) >= 1 {
		if obj, off, hi := x.posBufOf(call.Args[0]); obj != nil && off == 0 && len(x.pos[obj]) > 0 {
			if sel, ok := call.Fun.(*ast.SelectorExpr); ok && x.stream != nil && f.CallIs(call, "bytes.Buffer.Write") && x.streamOf(sel.X) != x.stream {
				return Item{}, false, true
			}
			items, _ := x.takePos(obj, call.Pos(), hi)
			return Item{Kind: itLoop, Ref: "splice", Body: items, Pos: call.Pos(), Cond: "splice"}, true, true
		}
	}
	return Item{}, false, false
}

// readTarget: the field a value read by `call` is stored into (x.f = call(...) possibly through a conversion).
func (x *extractor) readTarget(call *ast.CallExpr) *types.Var {
	var out *types.Var
	ast.Inspect(x.f.Decl.Body, func(n ast.Node) bool {
		as, ok := n.(*ast.AssignStmt)
		if !ok || len(as.Lhs) != len(as.Rhs) {
			return true
		}
		for i, r := range as.Rhs {
			if ast.Unparen(x.f.stripConv(r)) == ast.Expr(call) {
				out = x.fieldOf(as.Lhs[i])
			}
		}
		return true
	})
	return out
}

func (x *extractor) exprItems(n ast.Node) []Item {
	var out []Item
	if n == nil {
		return nil
	}
	ast.Inspect(n, func(y ast.Node) bool {
		if _, ok := y.(*ast.FuncLit); ok {
			return false
		}
		if call, ok := y.(*ast.CallExpr); ok {
			if it, isItem, known := x.ioItem(call); known {
				if isItem {
					out = append(out, it)
				}
				return false
			}
		}
		return true
	})
	return out
}

func (x *extractor) block(stmts []ast.Stmt) []Item {
	var out []Item
	x.nest++
	defer func() { x.nest-- }()
	for i, s := range stmts {
		items := x.stmt(s)
		// `if C { continue }` guards everything that follows in this iteration: the rest of the block is
		// the body of a conditional (the same grammar as `if !C { rest }`)
		if n := len(items); n > 0 && items[n-1].Kind == itIf && items[n-1].Ref == "skip-rest" {
			rest := x.block(stmts[i+1:])
			out = append(out, items[:n-1]...)
			guard := items[n-1]
			guard.Body = rest
			return append(out, guard)
		}
		// a marker written branch by branch: `if c { write(1); continue }; write(0); rest` is the scalar c
		// followed by `if !c { rest }`
		if n := len(items); n > 0 && items[n-1].Kind == itIf && items[n-1].Skips && len(items[n-1].Body) == 1 && len(items[n-1].Else) == 0 && items[n-1].Body[0].Kind == itScalar && items[n-1].Body[0].Expr != nil && i+1 < len(stmts) {
			one := x.f.constOf(items[n-1].Body[0].Expr)
			next := x.stmt(stmts[i+1])
			if one != nil && one.String() == "1" && len(next) == 1 && next[0].Kind == itScalar && next[0].Width == items[n-1].Body[0].Width && next[0].Expr != nil {
				if zero := x.f.constOf(next[0].Expr); zero != nil && zero.String() == "0" {
					ifItem := items[n-1]
					out = append(out, items[:n-1]...)
					out = append(out, Item{Kind: itScalar, Width: next[0].Width, Field: x.fieldOf(ifItem.CondExpr), Ref: ifItem.Cond, Pos: ifItem.Pos, Expr: ifItem.CondExpr})
					rest := x.block(stmts[i+2:])
					return append(out, Item{Kind: itIf, Cond: ifItem.Cond, Ref: "skip-rest", Pos: ifItem.Pos, Body: rest})
				}
			}
		}
		out = append(out, items...)
	}
	return out
}

// onlyReturns: a block consisting of return/continue/break/panic statements (error handling).
func onlyExits(b *ast.BlockStmt) bool {
	if b == nil {
		return true
	}
	for _, s := range b.List {
		switch y := s.(type) {
		case *ast.ReturnStmt:
		case *ast.BranchStmt:
			_ = y
		case *ast.ExprStmt:
			if c, ok := y.X.(*ast.CallExpr); ok {
				if id, ok := c.Fun.(*ast.Ident); ok && id.Name == "panic" {
					continue
				}
			}
			return false
		default:
			return false
		}
	}
	return true
}

func (x *extractor) stmt(s ast.Stmt) []Item {
	switch y := s.(type) {
	case *ast.BlockStmt:
		return x.block(y.List)
	case *ast.IfStmt:
		var out []Item
		out = append(out, x.exprItems(y.Init)...)
		out = append(out, x.exprItems(y.Cond)...)
		body := x.block(y.Body.List)
		var els []Item
		if y.Else != nil {
			els = x.stmt(y.Else)
		}
		if len(body) == 0 && len(els) == 0 {
			// `if isNull { continue }` changes what follows: keep it as a conditional marker when it exits the iteration without error
			if endsWithContinue(y.Body) {
				out = append(out, Item{Kind: itIf, Cond: exprKey(y.Cond), Ref: "skip-rest", Pos: y.Pos()})
			}
			return out
		}
		// a boolean written as a byte: `if b { write(1) } else { write(0) }` is the scalar b
		if len(body) == 1 && len(els) == 1 && body[0].Kind == itScalar && els[0].Kind == itScalar && body[0].Width == els[0].Width && body[0].Expr != nil && els[0].Expr != nil {
			cv1, cv0 := x.f.constOf(body[0].Expr), x.f.constOf(els[0].Expr)
			if cv1 != nil && cv0 != nil && cv1.String() == "1" && cv0.String() == "0" {
				out = append(out, Item{Kind: itScalar, Width: body[0].Width, Field: x.fieldOf(y.Cond), Ref: exprKey(y.Cond), Pos: y.Pos(), Expr: y.Cond})
				return out
			}
		}
		// `err = write(a); if err == nil { err = write(b) }`: on the success path, which is the one a wire grammar
		// describes, the second write is as unconditional as the first
		if len(els) == 0 && y.Init == nil {
			if be, ok := ast.Unparen(y.Cond).(*ast.BinaryExpr); ok && be.Op == token.EQL && isNilIdent(x.f, be.Y) {
				if t := x.f.TypeOf(be.X); t != nil && isErrorType(t) {
					return append(out, body...)
				}
			}
		}
		out = append(out, Item{Kind: itIf, Cond: exprKey(y.Cond), CondExpr: y.Cond, Body: body, Else: els, Pos: y.Pos(), Skips: endsWithContinue(y.Body)})
		return out
	case *ast.ForStmt:
		var out []Item
		out = append(out, x.exprItems(y.Init)...)
		body := x.block(y.Body.List)
		if len(body) > 0 {
			out = append(out, Item{Kind: itLoop, Body: body, Cond: exprKey(condOrTrue(y.Cond)), Pos: y.Pos()})
		}
		return out
	case *ast.RangeStmt:
		body := x.block(y.Body.List)
		if len(body) > 0 {
			return []Item{{Kind: itLoop, Body: body, Cond: "range " + exprKey(y.X), Pos: y.Pos()}}
		}
		return nil
	case *ast.LabeledStmt:
		return x.stmt(y.Stmt)
	case *ast.SwitchStmt:
		// the one-armed `switch { default: … }` the helper substitution wraps a body in is that body
		if y.Tag == nil && y.Init == nil && len(y.Body.List) == 1 {
			if cc := y.Body.List[0].(*ast.CaseClause); cc.List == nil {
				return x.block(cc.Body)
			}
		}
		var out []Item
		out = append(out, x.exprItems(y.Init)...)
		arms := map[string][]Item{}
		any := false
		for _, cs := range y.Body.List {
			cc := cs.(*ast.CaseClause)
			items := x.block(cc.Body)
			if len(items) > 0 {
				any = true
			}
			if cc.List == nil {
				arms["default"] = items
			}
			for _, e := range cc.List {
				name := exprKey(e)
				if cst := x.f.namedConst(e); cst != nil {
					name = cst.Name()
				}
				arms[name] = items
			}
		}
		if any {
			out = append(out, Item{Kind: itSwitch, Arms: arms, Cond: exprKey(condOrTrue(y.Tag)), Pos: y.Pos()})
		}
		return out
	case *ast.AssignStmt:
		// hdr[k] = b: one byte of a positional buffer
		if x.writer && len(y.Lhs) == 1 && len(y.Rhs) == 1 && y.Tok == token.ASSIGN {
			if ix, ok := ast.Unparen(y.Lhs[0]).(*ast.IndexExpr); ok {
				if obj, _, _ := x.posBufOf(ix.X); obj != nil {
					if cv := x.f.constOf(ix.Index); cv != nil {
						n, _ := constant.Int64Val(cv)
						x.addPos(obj, int(n), Item{Kind: itScalar, Width: 1, Field: x.fieldOf(y.Rhs[0]), Ref: exprKey(y.Rhs[0]), Pos: y.Pos(), Expr: y.Rhs[0]})
						return x.exprItems(y.Rhs[0])
					}
				}
			}
		}
		// local alias: `cell.valueBytes = strBuf` / `v := n.field`
		if len(y.Lhs) == 1 && len(y.Rhs) == 1 {
			if sel, ok := ast.Unparen(y.Lhs[0]).(*ast.SelectorExpr); ok {
				if id, ok := ast.Unparen(y.Rhs[0]).(*ast.Ident); ok {
					if v := fieldVar(x.f, sel); v != nil {
						x.aliases[x.f.ObjOf(id)] = v
					}
				}
			}
		}
		return x.exprItems(y)
	default:
		return x.exprItems(s)
	}
}

func endsWithContinue(b *ast.BlockStmt) bool {
	if b == nil || len(b.List) == 0 {
		return false
	}
	br, ok := b.List[len(b.List)-1].(*ast.BranchStmt)
	return ok && br.Tok == token.CONTINUE
}

func condOrTrue(e ast.Expr) ast.Expr {
	if e == nil {
		return ast.NewIdent("true")
	}
	return e
}

// Grammar extracts the wire grammar of a codec function.
func Grammar(f *Func, writer bool, stream types.Object) ([]Item, []string) {
	x := &extractor{f: f, writer: writer, stream: stream, aliases: map[types.Object]*types.Var{}}
	// pre-pass for reader aliases that are assigned after the read (strBuf -> cell.valueBytes)
	ast.Inspect(f.Decl.Body, func(n ast.Node) bool {
		if as, ok := n.(*ast.AssignStmt); ok && len(as.Lhs) == 1 && len(as.Rhs) == 1 {
			if sel, ok := ast.Unparen(as.Lhs[0]).(*ast.SelectorExpr); ok {
				if id, ok := ast.Unparen(f.stripConv(as.Rhs[0])).(*ast.Ident); ok {
					if v := fieldVar(f, sel); v != nil && f.ObjOf(id) != nil {
						x.aliases[f.ObjOf(id)] = v
					}
				}
			}
		}
		return true
	})
	items := x.block(f.Decl.Body.List)
	// bytes put together with append(b, byte(v), byte(v>>8), …) or read by index arithmetic are not modelled:
	// a grammar extracted from such a function is incomplete, and says so
	ast.Inspect(f.Decl.Body, func(n ast.Node) bool {
		call, ok := n.(*ast.CallExpr)
		if !ok || len(call.Args) < 2 {
			return true
		}
		id, ok := ast.Unparen(call.Fun).(*ast.Ident)
		if !ok || id.Name != "append" {
			return true
		}
		if _, isB := f.Pkg.TypesInfo.Uses[id].(*types.Builtin); !isB {
			return true
		}
		if sl, ok := f.TypeOf(call.Args[0]).Underlying().(*types.Slice); ok {
			if b, ok := sl.Elem().Underlying().(*types.Basic); ok && b.Kind() == types.Uint8 {
				// appending a whole byte slice to a collected value (valueBytes etc.) is how payloads travel and
				// is modelled where it matters; a byte-by-byte append of shifted values is the unmodelled form
				for _, a := range call.Args[1:] {
					if conv, ok := ast.Unparen(a).(*ast.CallExpr); ok && len(conv.Args) == 1 {
						if tv, ok := f.Pkg.TypesInfo.Types[conv.Fun]; ok && tv.IsType() {
							x.problems = append(x.problems, "bytes are assembled with append(b, byte(v), byte(v>>8), …) at "+f.w.Pos(call.Pos())+", a form the layout extraction does not model")
							return false
						}
					}
				}
			}
		}
		return true
	})
	return flattenSplices(items), x.problems
}

func flattenSplices(items []Item) []Item {
	var out []Item
	for _, it := range items {
		if it.Kind == itLoop && it.Cond == "splice" {
			out = append(out, flattenSplices(it.Body)...)
			continue
		}
		it.Body = flattenSplices(it.Body)
		it.Else = flattenSplices(it.Else)
		if it.Arms != nil {
			arms := map[string][]Item{}
			for k, a := range it.Arms {
				arms[k] = flattenSplices(a)
			}
			it.Arms = arms
		}
		out = append(out, it)
	}
	return out
}

// compareGrammars returns "" when the grammars agree, else a description of the first difference.
func compareGrammars(w, r []Item, path string) string {
	n := len(w)
	if len(r) < n {
		n = len(r)
	}
	for i := 0; i < n; i++ {
		a, b := w[i], r[i]
		at := fmt.Sprintf("%s item %d", path, i+1)
		if a.Kind != b.Kind {
			return fmt.Sprintf("%s: writer emits %s, reader expects %s", at, a, b)
		}
		switch a.Kind {
		case itScalar:
			if a.Width != b.Width {
				return fmt.Sprintf("%s: writer emits %d bytes (%s), reader consumes %d bytes (%s)", at, a.Width, a.Ref, b.Width, b.Ref)
			}
			if a.Field != nil && b.Field != nil && a.Field != b.Field {
				return fmt.Sprintf("%s: writer emits field %s, reader stores it into field %s", at, a.Field.Name(), b.Field.Name())
			}
			for _, alt := range b.Alt {
				if a.Field != nil && alt != a.Field {
					return fmt.Sprintf("%s: writer emits field %s, reader stores it into field %s as well", at, a.Field.Name(), alt.Name())
				}
			}
		case itBytes:
			if a.Field != nil && b.Field != nil && a.Field != b.Field {
				return fmt.Sprintf("%s: writer emits bytes of %s, reader stores them into %s", at, a.Field.Name(), b.Field.Name())
			}
		case itLoop:
			if d := compareGrammars(a.Body, b.Body, at+" loop"); d != "" {
				return d
			}
		case itIf:
			if d := compareGrammars(a.Body, b.Body, at+" if"); d != "" {
				return d
			}
			if d := compareGrammars(a.Else, b.Else, at+" else"); d != "" {
				return d
			}
		case itSwitch:
			for k, wa := range a.Arms {
				ra, ok := b.Arms[k]
				if !ok {
					if len(wa) == 0 {
						continue
					}
					return fmt.Sprintf("%s: writer has an arm for %s, reader has none", at, k)
				}
				if d := compareGrammars(wa, ra, at+" case "+k); d != "" {
					return d
				}
			}
			for k, ra := range b.Arms {
				if _, ok := a.Arms[k]; !ok && len(ra) > 0 && k != "default" {
					return fmt.Sprintf("%s: reader has an arm for %s, writer has none", at, k)
				}
			}
		}
	}
	if len(w) != len(r) {
		if len(w) > len(r) {
			return fmt.Sprintf("%s: writer emits %s which the reader never consumes", path, w[n])
		}
		return fmt.Sprintf("%s: reader consumes %s which the writer never emits", path, r[n])
	}
	return ""
}

// checkCodecPair extracts and compares one writer/reader pair.
func checkCodecPair(c *Ctx, rule, wname, rname string) ([]Item, []Item) {
	wf := c.NeedFunc(rule, wname)
	rf := c.NeedFunc(rule, rname)
	if wf == nil || rf == nil {
		return nil, nil
	}
	key := wname + "<->" + rname
	// writer stream: the *bytes.Buffer that is returned (or nil when writing to a single stream)
	var wstream types.Object
	for _, r := range wf.Graph().Returns() {
		if len(r.Results) > 0 {
			if id, ok := ast.Unparen(r.Results[0]).(*ast.Ident); ok {
				if o := wf.ObjOf(id); o != nil && !isNilIdent(wf, id) && namedTypeIsStd(o.Type(), "bytes", "Buffer") {
					wstream = o
				}
			}
		}
	}
	wi, wp := Grammar(wf, true, wstream)
	ri, rp := Grammar(rf, false, nil)
	if len(wp)+len(rp) > 0 {
		for _, p := range append(append([]string{}, wp...), rp...) {
			if strings.HasPrefix(p, "STALE: ") {
				c.FailConfined(rule, key+"|scratch-buffer", wf.Decl.Pos(), "%s", strings.TrimPrefix(p, "STALE: "))
				return wi, ri
			}
		}
		c.Undecided(rule, key, "unrecognised I/O construct: %s", strings.Join(append(wp, rp...), "; "))
		return wi, ri
	}
	if len(wi) == 0 || len(ri) == 0 {
		c.Undecided(rule, key, "no wire items recognised (writer %d, reader %d)", len(wi), len(ri))
		return wi, ri
	}
	if d := compareGrammars(wi, ri, "stream"); d != "" {
		if strings.Contains(d, "reader stores it into field") || strings.Contains(d, "reader stores them into") {
			// both fields positively identified and different: reported in a restructured function as well
			c.FailConfined(rule, key, wf.Decl.Pos(), "writer and reader disagree: %s. writer grammar: %s ; reader grammar: %s", d, itemsString(wi), itemsString(ri))
			return wi, ri
		}
		c.Fail(rule, key, wf.Decl.Pos(), "writer and reader disagree: %s. writer grammar: %s ; reader grammar: %s", d, itemsString(wi), itemsString(ri))
	} else {
		c.OK(rule, key, wf.Decl.Pos(), countItems(wi), "grammars equal: %s", itemsString(wi))
		checkWriterOperands(c, rule, key, wf, wi, ri)
	}
	return wi, ri
}

// checkWriterOperands: value-level clauses on a writer whose grammar equals the reader's.
//   - a length prefix that is computed (a call) is len() of exactly the bytes written after it — the byte
//     length, not a character count or the length of something else;
//   - an operand that is a local with several definitions stands for the reader's field on every path
//     (a writer that emits the field only "when it matters" does not write what was in memory).
func checkWriterOperands(c *Ctx, rule, key string, wf *Func, wi, ri []Item) {
	// a count the reader uses to bound its loops is, on the writer's side, the length of the very
	// collection the writer's corresponding loop walks
	var counts func(w, r []Item)
	counts = func(w, r []Item) {
		for i := 0; i < len(w) && i < len(r); i++ {
			if r[i].Kind != itScalar || r[i].Expr == nil || w[i].Expr == nil {
				continue
			}
			u, ok := ast.Unparen(r[i].Expr).(*ast.UnaryExpr)
			if !ok || u.Op != token.AND {
				continue
			}
			rid, ok := ast.Unparen(u.X).(*ast.Ident)
			if !ok {
				continue
			}
			// writer operand -> len(S)
			we := wf.stripConv(w[i].Expr)
			wname := ""
			if id, ok := ast.Unparen(we).(*ast.Ident); ok {
				wname = id.Name
				if rhs, _, ok := wf.definedBy(wf.Decl.Body, wf.ObjOf(id)); ok {
					we = wf.stripConv(rhs)
				}
			}
			call, ok := ast.Unparen(we).(*ast.CallExpr)
			if !ok || len(call.Args) != 1 {
				continue
			}
			if id, ok := call.Fun.(*ast.Ident); !ok || id.Name != "len" {
				continue
			}
			S := exprKey(call.Args[0])
			for j := i + 1; j < len(w) && j < len(r); j++ {
				if r[j].Kind != itLoop || w[j].Kind != itLoop || !strings.Contains(r[j].Cond, rid.Name) {
					continue
				}
				wc := w[j].Cond
				if wc == "whole-slice" && len(w[j].Body) == 1 && w[j].Body[0].Expr != nil {
					wc = exprKey(w[j].Body[0].Expr)
				}
				k := key + "|count-of|" + S + "#" + itoa(j)
				if strings.Contains(wc, S) || (wname != "" && strings.Contains(wc, wname)) {
					c.OK(rule, k, w[j].Pos, 1, "the count written is the length of the collection the loop walks")
				} else {
					c.Fail(rule, k, w[i].Pos, "the writer announces len(%s) items but its loop walks %s: after a split the two lengths differ and the reader, which trusts the count, runs past the items that were written", S, wc)
				}
			}
		}
	}
	counts(wi, ri)
	var walk func(w, r []Item)
	walk = func(w, r []Item) {
		for i := 0; i < len(w) && i < len(r); i++ {
			a, b := w[i], r[i]
			switch a.Kind {
			case itLoop, itIf:
				walk(a.Body, b.Body)
				walk(a.Else, b.Else)
				continue
			case itSwitch:
				for k, wa := range a.Arms {
					walk(wa, b.Arms[k])
				}
				continue
			}
			if a.Expr == nil {
				continue
			}
			// length prefix
			if a.Kind == itScalar && i+1 < len(w) && w[i+1].Kind == itBytes && w[i+1].Expr != nil {
				if call, ok := ast.Unparen(wf.stripConv(a.Expr)).(*ast.CallExpr); ok {
					k := key + "|length-prefix|" + exprKey(w[i+1].Expr)
					isLen := false
					if id, ok := call.Fun.(*ast.Ident); ok && id.Name == "len" && len(call.Args) == 1 {
						if _, isB := wf.ObjOf(id).(*types.Builtin); isB {
							isLen = true
						}
					}
					payload := exprKey(wf.stripConv(w[i+1].Expr))
					switch {
					case !isLen:
						c.Fail(rule, k, a.Pos, "the length written in front of %s is %s, not len() of those bytes: for a value whose byte length differs (a non-ASCII string) the reader takes too few bytes and decodes the rest of the record from the wrong position", exprKey(w[i+1].Expr), exprKey(a.Expr))
					case exprKey(wf.stripConv(call.Args[0])) != payload:
						c.Fail(rule, k, a.Pos, "the length prefix is len(%s) but the bytes written are %s", exprKey(call.Args[0]), exprKey(w[i+1].Expr))
					default:
						c.OK(rule, k, a.Pos, 1, "prefix = len(payload) in bytes")
					}
				}
			}
			// conditional operand
			if id, ok := ast.Unparen(wf.stripConv(a.Expr)).(*ast.Ident); ok && b.Field != nil && a.Field == nil {
				obj := wf.ObjOf(id)
				if v, isVar := obj.(*types.Var); isVar && !v.IsField() && !isParamOf(wf, obj) {
					defs := wf.assignsTo(wf.Decl.Body, obj)
					if len(defs) >= 2 {
						c.Fail(rule, key+"|operand|"+id.Name, a.Pos, "the writer emits the local %s, which has %d different definitions, where the reader restores field %s: on some path what is written is not the field's value (a page or record that is read back differs from the one in memory)", id.Name, len(defs), b.Field.Name())
					}
				}
			}
		}
	}
	walk(wi, ri)
}

func countItems(items []Item) int {
	n := 0
	for _, it := range items {
		n += 1 + countItems(it.Body) + countItems(it.Else)
		for _, a := range it.Arms {
			n += countItems(a)
		}
	}
	return n
}

func namedTypeIsStd(t types.Type, pkg, name string) bool {
	if p, ok := t.(*types.Pointer); ok {
		t = p.Elem()
	}
	n, ok := t.(*types.Named)
	return ok && n.Obj().Pkg() != nil && n.Obj().Pkg().Path() == pkg && n.Obj().Name() == name
}

// structItems: the wire items of a struct value handed to binary.Read / binary.Write as a whole.
func (x *extractor) structItems(arg ast.Expr, st *types.Struct, pos token.Pos) ([]Item, bool) {
	f := x.f
	e := ast.Unparen(arg)
	if u, ok := e.(*ast.UnaryExpr); ok && u.Op == token.AND {
		e = ast.Unparen(u.X)
	}
	var obj types.Object
	var lit *ast.CompositeLit
	switch y := e.(type) {
	case *ast.Ident:
		obj = f.ObjOf(y)
	case *ast.CompositeLit:
		lit = y
	default:
		return nil, false
	}
	type src struct {
		fields []*types.Var
		ref    string
		expr   ast.Expr
	}
	m := map[string]*src{}
	add := func(name string, other ast.Expr) {
		s := m[name]
		if s == nil {
			s = &src{}
			m[name] = s
		}
		if v := x.fieldOf(other); v != nil {
			dup := false
			for _, o := range s.fields {
				if o == v {
					dup = true
				}
			}
			if !dup {
				s.fields = append(s.fields, v)
			}
		}
		s.ref, s.expr = exprKey(other), other
	}
	fromLit := func(l *ast.CompositeLit) {
		for i, el := range l.Elts {
			if kv, ok := el.(*ast.KeyValueExpr); ok {
				if k, ok := kv.Key.(*ast.Ident); ok {
					add(k.Name, kv.Value)
				}
			} else if i < st.NumFields() {
				add(st.Field(i).Name(), el)
			}
		}
	}
	if lit != nil {
		fromLit(lit)
	}
	if obj != nil {
		ast.Inspect(f.Decl.Body, func(n ast.Node) bool {
			switch y := n.(type) {
			case *ast.AssignStmt:
				for i, l := range y.Lhs {
					var rhs ast.Expr
					if len(y.Rhs) == len(y.Lhs) {
						rhs = y.Rhs[i]
					}
					// hdr := T{…}
					if id, ok := ast.Unparen(l).(*ast.Ident); ok && f.ObjOf(id) == obj && rhs != nil {
						r := ast.Unparen(rhs)
						if u, ok := r.(*ast.UnaryExpr); ok && u.Op == token.AND {
							r = ast.Unparen(u.X)
						}
						if cl, ok := r.(*ast.CompositeLit); ok && x.writer {
							fromLit(cl)
						}
					}
					// hdr.F = n.x   (writer)
					if sel, ok := ast.Unparen(l).(*ast.SelectorExpr); ok && x.writer && rhs != nil {
						if id, ok := ast.Unparen(sel.X).(*ast.Ident); ok && f.ObjOf(id) == obj {
							add(sel.Sel.Name, rhs)
						}
					}
					// n.x = hdr.F   (reader)
					if !x.writer && rhs != nil {
						if sel, ok := ast.Unparen(f.stripConv(rhs)).(*ast.SelectorExpr); ok {
							if id, ok := ast.Unparen(sel.X).(*ast.Ident); ok && f.ObjOf(id) == obj {
								add(sel.Sel.Name, l)
							}
						}
					}
				}
			case *ast.ValueSpec:
				for i, nm := range y.Names {
					if f.ObjOf(nm) == obj && i < len(y.Values) && x.writer {
						if cl, ok := ast.Unparen(y.Values[i]).(*ast.CompositeLit); ok {
							fromLit(cl)
						}
					}
				}
			}
			return true
		})
	}
	var items []Item
	for i := 0; i < st.NumFields(); i++ {
		fld := st.Field(i)
		wd := basicWidth(fld.Type())
		if wd == 0 {
			return nil, false
		}
		it := Item{Kind: itScalar, Width: wd, Ref: fld.Name(), Pos: pos}
		if s := m[fld.Name()]; s != nil {
			it.Ref, it.Expr = s.ref, s.expr
			if len(s.fields) > 0 {
				it.Field = s.fields[0]
				it.Alt = s.fields[1:]
			}
		}
		items = append(items, it)
	}
	return items, true
}

// posAsNode: a position as a node (for enclosingLoop).
type posNode token.Pos

func (p posNode) Pos() token.Pos     { return token.Pos(p) }
func (p posNode) End() token.Pos     { return token.Pos(p) }
func posAsNode(p token.Pos) ast.Node { return posNode(p) }
