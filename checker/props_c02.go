package main

import (
	"go/ast"
	"go/token"
	"go/types"
	"os"
	"strings"

	"golang.org/x/tools/go/cfg"
)

func init() {
	register(&Property{
		ID:    "C02",
		Run:   runC02,
		Floor: 20,
		Assumptions: []string{
			"(*os.File).Sync makes the preceding writes durable; (*os.File).Write with O_APPEND appends",
			"csvimport's -disable-wal-fsync flag is a documented opt-out and is not a subject",
		},
		NotDecided: "that redo of an insert reproduces the same split and offsets the catalog record names; that a page whose LSN is newer implies all pages of that operation are on disk; equality of recovered and pre-crash contents.",
	})
}

// storage functions that return a WALBatch are the logged mutators.
func returnsWALBatch(fn *types.Func) bool {
	sig, _ := fn.Type().(*types.Signature)
	if sig == nil {
		return false
	}
	for i := 0; i < sig.Results().Len(); i++ {
		if namedTypeIs(sig.Results().At(i).Type(), "storage", "WALBatch") {
			return true
		}
	}
	return false
}

func runC02(c *Ctx) {
	defer ruleSizeWithBytes(c, "C02.40")
	defer ruleAppendedPageDirty(c, "C02.41")
	defer ruleStampAfterSuccess(c, "C02.42")
	defer c11MarkDirty(c, "C02.39")
	defer ruleBatchNotOverwritten(c, "C02.38")
	c02LogBeforeAck(c, "C02.1")
	c02DurableAppend(c, "C02.2")
	c02FreshLSN(c, "C02.3")
	c02RedoGuard(c, "C02.4")
	c02DoRedo(c, "C02.5")
	c02RecordDescribes(c, "C02.6")
	c02SchemaAgreement(c, "C02.7")
	c02Codecs(c, "C02.8")
	c04FlushOrder(c, "C02.9")
	c02RecoveryEnds(c, "C02.10")
	c02UnloggedMutators(c, "C02.11")
	c01RootRelocation(c, "C02.12")
	ruleLogReader(c, "C02.13")
	c01RowIDs(c, "C02.14")
	ruleRecoveryVisitsAll(c, "C02.15")
	ruleSentinelWrapped(c, "C02.17", "storage")
	ruleStampHasRecord(c, "C02.18")
	c04PageLSN(c, "C02.19")
	ruleListIterationStable(c, "C02.20")
	ruleNoRedundantSwitchBreak(c, "C02.21", "storage", "engine")
	ruleDescentAgreement(c, "C02.22")
	ruleOpenFlags(c, "C02.23")
	ruleCapabilityPresent(c, "C02.24")
	ruleReplaySkipsOnlyOnPageLSN(c, "C02.25")
	ruleFlushLoopComplete(c, "C02.26")
	ruleLogLengthBound(c, "C02.27")
	ruleLogOpens(c, "C02.28")
	ruleLogNeverShrinks(c, "C02.29")
	ruleReplayUnconditional(c, "C02.30")
	ruleNoLoopVarCapture(c, "C02.31", "storage", "engine")
	ruleLSNMonotone(c, "C02.32")
	ruleLogWritesReachFile(c, "C02.33")
	ruleRecordOwnsPayload(c, "C02.34")
	ruleErrorsWrappedWithW(c, "C02.35")
	c.Rule("C02.36", "pages reach the data file only through the flush: the data file is written only by (*os.File).WriteAt calls inside the exclusive section of the flush (or reached only from it / from CREATE DATABASE before the database exists) — a page written at allocation time, outside the flush, is on disk with an offset the header and the log know nothing about; redo then re-creates split pages at other offsets than the logged catalog update names")
	checkDataFileWrites(c, "C02.36")
	ruleReadRecordOwnsPayload(c, "C02.37")
	ruleErrorsNotDropped(c, "C02.16", "storage.(*BTree).insert", "storage.(*RelationService).Insert", "storage.(*RelationService).MarkDeleted", "storage.(*RelationService).FlushWALBatch")
}

// ---- C02.11 -------------------------------------------------------------------------
// Statement entry points that change pages without producing log records (DDL) must
// make the change durable themselves: every success return passes through flushPages.
func c02UnloggedMutators(c *Ctx, rule string) {
	c.Robust(rule)
	c.Rule(rule, "a storage entry point called by a statement that changes pages (its call cone marks a page dirty) but returns no WALBatch makes its change durable itself: every success return passes through flushPages")
	w := c.W
	cg := w.CG()
	dirtying := func(f *Func) bool {
		for t := range cg.Reach(f) {
			if t.Name == "storage.(*btreeNode).markDirty" {
				return true
			}
		}
		return false
	}
	n := 0
	seen := map[*Func]bool{}
	for _, name := range w.SortedFuncNames() {
		caller := w.Funcs[name]
		if caller.Pkg == w.Pkgs["storage"] {
			continue
		}
		for _, cs := range cg.Sites[caller] {
			for _, t := range cs.Targets {
				if t.Pkg != w.Pkgs["storage"] || seen[t] || returnsWALBatch(t.Obj) || !dirtying(t) {
					continue
				}
				if _, ex := c13Excluded[t.Name]; ex && t.Name != "storage.CreateDB" {
					continue
				}
				seen[t] = true
				n++
				key := t.Name + "|durable-without-log"
				g := t.Graph()
				// values (other than the error) that a page-changing callee hands back: a branch on one of them may
				// separate "changed something" from "changed nothing" (created, found, n)
				told := map[types.Object]bool{}
				for _, cs2 := range cg.Sites[t] {
					if cs2.InLit != nil || len(cs2.Targets) == 0 {
						continue
					}
					dirty := false
					for _, tt := range cs2.Targets {
						if dirtying(tt) {
							dirty = true
						}
					}
					if !dirty {
						continue
					}
					if sig, ok := cs2.Callee.Type().(*types.Signature); ok {
						for i := 0; i < sig.Results().Len(); i++ {
							if isErrorType(sig.Results().At(i).Type()) {
								continue
							}
							if o := t.resultVar(t.Decl.Body, cs2.Call, i); o != nil {
								told[o] = true
							}
						}
					}
				}
				mentionsTold := func(e ast.Expr) bool {
					hit := false
					ast.Inspect(e, func(z ast.Node) bool {
						if id, ok := z.(*ast.Ident); ok && told[t.ObjOf(id)] {
							hit = true
						}
						return !hit
					})
					return hit
				}
				strict := func(b *cfg.Block, si int) bool {
					if !g.SuccessEdges(b, si) {
						return false
					}
					if info, ok := g.EdgeInfo(b, si); ok && !info.Case && mentionsTold(info.Cond) {
						return false
					}
					return true
				}
				visitFlush := func(nn ast.Node, at Loc) Verdict {
					if g.containsCall(nn, "storage.*.flushPages") != nil {
						return Cut
					}
					if r, ok := nn.(*ast.ReturnStmt); ok {
						if g.ReturnMayBeNil(r) {
							return Hit
						}
						return Cut
					}
					return Go
				}
				missStrict, _ := g.Forward(nil, strict, visitFlush, func(b *cfg.Block) Verdict {
					if g.IsNoReturnExit(b) {
						return Go
					}
					return Hit
				})
				miss, _ := g.Forward(nil, g.SuccessEdges, func(nn ast.Node, at Loc) Verdict {
					if g.containsCall(nn, "storage.*.flushPages") != nil {
						return Cut
					}
					if r, ok := nn.(*ast.ReturnStmt); ok {
						if g.ReturnMayBeNil(r) {
							return Hit
						}
						return Cut
					}
					return Go
				}, func(b *cfg.Block) Verdict {
					if g.IsNoReturnExit(b) {
						return Go
					}
					return Hit
				})
				// a deferred Close() that flushes also counts (CreateDB)
				if miss {
					inspectBody(t.Decl.Body, func(x ast.Node) bool {
						if d, ok := x.(*ast.DeferStmt); ok {
							for tt := range cg.Reach(w.resolve(t.Callee(d.Call))...) {
								if tt.Name == "storage.(*fileStore).flushPages" {
									miss = false
								}
							}
						}
						return true
					})
				}
				if miss && !missStrict && len(told) > 0 {
					c.Undecided(rule, key, "%s returns success without flushing only on a branch that tests what its page-changing callee reported: whether the callee changed anything when it reports that value is not decided", t.Name)
				} else if miss {
					c.Fail(rule, key, t.Decl.Pos(), "%s changes pages, writes no log record, and can return success without flushing: the statement is acknowledged but lost by a crash before the next timer flush", t.Name)
				} else {
					c.OK(rule, key, t.Decl.Pos(), 1, "every success return passes through flushPages")
				}
			}
		}
	}
	if n == 0 {
		c.Undecided(rule, "subjects", "no unlogged page-changing storage entry point found (CREATE TABLE expected)")
	}
}

// ---- C02.1 ------------------------------------------------------------------------

func c02LogBeforeAck(c *Ctx, rule string) {
	c.Rule(rule, "in every statement function that calls a logged mutator (a storage method returning a WALBatch): (a) each success return reachable from a mutator call passes through the log append first, (b) every returned WALBatch flows into the batch handed to the append (accumulated with append, never overwritten inside a loop), (c) the append's error is not dropped")
	w := c.W
	cg := w.CG()
	storage := w.Pkgs["storage"]
	n := 0
	for _, name := range w.SortedFuncNames() {
		f := w.Funcs[name]
		if f.Pkg == storage {
			continue
		}
		var muts, apps []*CallSite
		for _, cs := range cg.Sites[f] {
			isMut, isApp := false, false
			if returnsWALBatch(cs.Callee) {
				isMut = true
			}
			for _, t := range cs.Targets {
				if t.Pkg == storage && isLogAppend(t) && !returnsWALBatch(cs.Callee) {
					isApp = true
				}
			}
			if isMut {
				muts = append(muts, cs)
			} else if isApp {
				apps = append(apps, cs)
			}
		}
		if len(muts) == 0 {
			continue
		}
		n++
		g := f.Graph()
		for _, m := range muts {
			key := f.Name + "|mutator|" + calleeKey(m.Callee)
			if m.InLit != nil {
				c.Undecided(rule, key, "mutator called inside a function literal: flow not modelled")
				continue
			}
			loc, ok := g.Locate(m.Call)
			if !ok {
				c.Undecided(rule, key, "call not located")
				continue
			}
			// (a)
			var badRet ast.Node
			hit, _ := g.Forward(&loc, g.SuccessEdges, func(nn ast.Node, at Loc) Verdict {
				for _, a := range apps {
					if a.Call.Pos() >= nn.Pos() && a.Call.End() <= nn.End() {
						return Cut
					}
				}
				if r, isRet := nn.(*ast.ReturnStmt); isRet {
					if g.ReturnMayBeNil(r) {
						badRet = r
						return Hit
					}
					return Cut
				}
				return Go
			}, func(b *cfg.Block) Verdict {
				if g.IsNoReturnExit(b) {
					return Go
				}
				return Hit
			})
			if hit {
				pos := m.Call.Pos()
				if badRet != nil {
					pos = badRet.Pos()
				}
				c.Fail(rule, key, pos, "a success return is reachable from %s without passing the log append: the statement is acknowledged but not logged", f.Src(m.Call.Fun))
				continue
			}
			// (b)
			if len(apps) == 0 {
				c.Fail(rule, key, m.Call.Pos(), "no log append in %s", f.Name)
				continue
			}
			ok, detail := c02BatchFlows(f, g, m, apps)
			if !ok {
				c.Fail(rule, key, m.Call.Pos(), "%s", detail)
				continue
			}
			c.OK(rule, key, m.Call.Pos(), 2, "every success path reaches the log append; %s", detail)
		}
		for _, a := range apps {
			key := f.Name + "|append-error|" + calleeKey(a.Callee)
			ok, how := f.errHandled(&Body{F: f, Node: f.Decl.Body}, a.Call)
			if ok {
				c.OK(rule, key, a.Call.Pos(), 1, "log-append error %s", how)
			} else {
				c.Fail(rule, key, a.Call.Pos(), "the error of the log append is dropped (%s): a failed append would be acknowledged", how)
			}
		}
	}
	if n == 0 {
		c.Undecided(rule, "subjects", "no statement function calling a WALBatch-returning storage method found")
	}
}

func c02BatchFlows(f *Func, g *Graph, m *CallSite, apps []*CallSite) (bool, string) {
	res := f.resultVar(f.Decl.Body, m.Call, 0)
	if res == nil {
		return false, "the WALBatch returned by " + f.Src(m.Call.Fun) + " is discarded"
	}
	for _, a := range apps {
		if len(a.Call.Args) != 1 {
			continue
		}
		bid, ok := ast.Unparen(a.Call.Args[0]).(*ast.Ident)
		if !ok {
			continue
		}
		B := f.ObjOf(bid)
		if B == res {
			// handed over directly: fine unless the call sits in a loop (only the last batch would survive)
			if l := enclosingLoop(f.Decl.Body, m.Call); l != nil {
				return false, "the batch variable is overwritten by each iteration's result: only the last row's records are logged"
			}
			return true, "result handed to the append directly"
		}
		// every assignment to B must be a self-append (or its declaration)
		for _, as := range f.assignsTo(f.Decl.Body, B) {
			if _, self := f.isSelfAppend(as, B); !self {
				return false, "the batch handed to the log append is assigned by something other than append(batch, ...) at " + f.w.Pos(as.Pos()) + ": earlier records are lost"
			}
		}
		// res must be appended on every success path before the next mutator call / return / append
		var appendStmt *ast.AssignStmt
		for _, as := range f.assignsTo(f.Decl.Body, B) {
			args, _ := f.isSelfAppend(as, B)
			for _, x := range args {
				if id, ok := ast.Unparen(x).(*ast.Ident); ok && f.ObjOf(id) == res {
					appendStmt = as
				}
			}
		}
		if appendStmt == nil {
			return false, "the WALBatch returned by " + f.Src(m.Call.Fun) + " never reaches the batch handed to the log append"
		}
		loc, _ := g.Locate(m.Call)
		missed, _ := g.Forward(&loc, g.SuccessEdges, func(nn ast.Node, at Loc) Verdict {
			if nn == ast.Node(appendStmt) {
				return Cut
			}
			if nn.Pos() <= a.Call.Pos() && a.Call.End() <= nn.End() {
				return Hit
			}
			if nn.Pos() <= m.Call.Pos() && m.Call.End() <= nn.End() {
				return Hit // next iteration without having appended
			}
			return Go
		}, nil)
		if missed {
			return false, "a success path from " + f.Src(m.Call.Fun) + " reaches the log append (or the next iteration) without appending the returned records"
		}
		return true, "returned records are appended to the logged batch on every success path"
	}
	return false, "the argument of the log append is not a plain batch variable"
}

// ---- C02.2 ---------------------------------------------------------------------------

func c02DurableAppend(c *Ctx, rule string) {
	c.Rule(rule, "in the log writer, after the last write of a record and before the next record or a success return, Sync is called on every path on which the forceSync flag is true, and its error is returned; the session opens its service with forceSync = constant true and the flag reaches the log writer unchanged")
	f := c.NeedFunc(rule, "storage.(*wal).flush")
	if f == nil {
		return
	}
	g := f.Graph()
	body := &Body{F: f, Node: f.Decl.Body}
	writes := f.Calls(f.Decl.Body, false, "io.Writer.Write", "os.File.Write", "storage.readWriteSyncCloser.Write")
	syncs := f.Calls(f.Decl.Body, false, "storage.readWriteSyncCloser.Sync", "os.File.Sync")
	if len(writes) == 0 {
		c.Undecided(rule, f.Name+"|writes", "no Write call found in the log writer")
		return
	}
	isForceSync := func(e ast.Expr) bool {
		sel, ok := ast.Unparen(e).(*ast.SelectorExpr)
		if !ok {
			return false
		}
		v := fieldVar(f, sel)
		return v != nil && v.Name() == "forceSync"
	}
	for i, wr := range writes {
		key := f.Name + "|write#" + itoa(i+1)
		loc, ok := g.Locate(wr)
		if !ok {
			c.Undecided(rule, key, "write not located")
			continue
		}
		loopHit := false
		edge := func(b *cfg.Block, si int) bool {
			if !g.SuccessEdges(b, si) {
				return false
			}
			if info, ok := g.EdgeInfo(b, si); ok && !info.Case {
				cond, val := ast.Unparen(info.Cond), info.Val
				if u, isNot := cond.(*ast.UnaryExpr); isNot && u.Op == token.NOT {
					cond, val = ast.Unparen(u.X), !val // `if !w.forceSync { continue }`
				}
				if isForceSync(cond) && !val {
					return false // forceSync is true on the paths considered
				}
			}
			switch b.Succs[si].Kind {
			case cfg.KindRangeLoop, cfg.KindForLoop, cfg.KindForPost:
				loopHit = true
				return false
			}
			return true
		}
		hit, _ := g.Forward(&loc, edge, func(nn ast.Node, at Loc) Verdict {
			for _, s := range syncs {
				if nn.Pos() <= s.Pos() && s.End() <= nn.End() {
					return Cut
				}
			}
			if r, isRet := nn.(*ast.ReturnStmt); isRet {
				if g.ReturnMayBeNil(r) {
					return Hit
				}
				return Cut // an error return ends the path
			}
			return Go
		}, func(b *cfg.Block) Verdict {
			if g.IsNoReturnExit(b) {
				return Go
			}
			return Hit
		})
		if hit || loopHit {
			c.Fail(rule, key, wr.Pos(), "a record can be written and acknowledged (next record or success return reached) without Sync although forceSync is set")
		} else {
			c.OK(rule, key, wr.Pos(), 1, "Sync follows on every forceSync path before the next record / return")
		}
	}
	for _, s := range syncs {
		key := f.Name + "|sync-error"
		if ok, how := f.errHandled(body, s); ok {
			c.OK(rule, key, s.Pos(), 1, "Sync error %s", how)
		} else {
			c.Fail(rule, key, s.Pos(), "the error of Sync is dropped (%s)", how)
		}
	}
	// flag provenance
	w := c.W
	for _, name := range w.SortedFuncNames() {
		cf := w.Funcs[name]
		for _, call := range cf.Calls(cf.Decl.Body, true, "storage.OpenRelation") {
			key := cf.Name + "|OpenRelation|forceWALSync"
			if len(call.Args) != 2 {
				c.Undecided(rule, key, "OpenRelation no longer takes (name, forceSync)")
				continue
			}
			if cf.Pkg == w.Pkgs["csvimport"] {
				c.Note("%s: csvimport passes !*cfgDisableFsync (documented opt-out), not a subject", rule)
				continue
			}
			v := cf.constOf(call.Args[1])
			if v != nil && v.String() == "true" {
				c.OK(rule, key, call.Pos(), 1, "service opened with forceSync = true")
			} else {
				c.Fail(rule, key, call.Pos(), "the session opens its service with a forceSync argument that is not the constant true: acknowledged statements are not fsynced")
			}
		}
	}
	// OpenRelation param -> newWal arg -> wal.forceSync
	if of := c.NeedFunc(rule, "storage.OpenRelation"); of != nil {
		key := of.Name + "|flag-flow"
		okFlow := false
		params := of.Decl.Type.Params.List
		var pobj types.Object
		if len(params) > 0 {
			last := params[len(params)-1]
			if len(last.Names) > 0 {
				pobj = of.ObjOf(last.Names[len(last.Names)-1])
			}
		}
		for _, call := range of.Calls(of.Decl.Body, false, "storage.newWal") {
			if len(call.Args) == 2 {
				if id, ok := ast.Unparen(call.Args[1]).(*ast.Ident); ok && of.ObjOf(id) == pobj {
					okFlow = true
				}
			}
		}
		c.Check(okFlow, rule, key, of.Decl.Pos(), "the forceSync parameter is passed on to newWal", "OpenRelation does not pass its forceSync parameter to newWal")
	}
	if nf := c.NeedFunc(rule, "storage.newWal"); nf != nil {
		key := nf.Name + "|flag-flow"
		okFlow := false
		var pobj types.Object
		params := nf.Decl.Type.Params.List
		if len(params) > 0 {
			last := params[len(params)-1]
			if len(last.Names) > 0 {
				pobj = nf.ObjOf(last.Names[len(last.Names)-1])
			}
		}
		for _, lit := range nf.compositeLits("storage", "wal") {
			if v := kvField(lit, "forceSync"); v != nil {
				if id, ok := ast.Unparen(v).(*ast.Ident); ok && nf.ObjOf(id) == pobj {
					okFlow = true
				}
			}
		}
		c.Check(okFlow, rule, key, nf.Decl.Pos(), "newWal stores its forceSync parameter in the wal", "newWal does not store its forceSync parameter in wal.forceSync")
	}
}

// ---- C02.3 -------------------------------------------------------------------------------

// walLiterals yields every WALEntry composite literal of package storage with its body.
func walLiterals(w *World) (out []struct {
	F   *Func
	Lit *ast.CompositeLit
	B   *Body
}) {
	for _, name := range w.SortedFuncNames() {
		f := w.Funcs[name]
		if f.Pkg != w.Pkgs["storage"] {
			continue
		}
		for _, lit := range f.compositeLits("storage", "WALEntry") {
			if len(lit.Elts) == 0 {
				continue // &WALEntry{} filled by decode
			}
			out = append(out, struct {
				F   *Func
				Lit *ast.CompositeLit
				B   *Body
			}{f, lit, f.EnclosingBody(lit)})
		}
	}
	return
}

func opName(f *Func, lit *ast.CompositeLit) string {
	v := kvField(lit, "WALOp")
	if v == nil {
		return "?"
	}
	if cst := f.namedConst(v); cst != nil {
		return cst.Name()
	}
	return exprKey(v)
}

func c02FreshLSN(c *Ctx, rule string) {
	c.Rule(rule, "every log record takes a fresh LSN: if the record's LSN is read from the LSN counter, the counter is advanced on every success path from the record's creation to the end of the enclosing function/closure; if it is a result of BTree.insert, BTree.insert advances the counter on every success path after reading it")
	lits := walLiterals(c.W)
	if len(lits) < 3 {
		c.Undecided(rule, "subjects", "only %d log-record literals found (expected at least insert, update, delete)", len(lits))
	}
	advance := []string{"storage.*.incrLSN"}
	read := []string{"storage.*.nextLSN"}
	for _, l := range lits {
		f := l.F
		key := l.B.Name() + "|WALEntry|" + opName(f, l.Lit)
		lsn := kvField(l.Lit, "LSN")
		if lsn == nil {
			c.Fail(rule, key, l.Lit.Pos(), "log record without an LSN: redo cannot order it against the page")
			continue
		}
		g := l.B.Graph()
		if call, ok := ast.Unparen(lsn).(*ast.CallExpr); ok && f.CallIs(call, read...) {
			loc, ok := g.Locate(l.Lit)
			if !ok {
				c.Undecided(rule, key, "literal not located")
				continue
			}
			hit, _ := g.Forward(&loc, g.SuccessEdges, func(nn ast.Node, at Loc) Verdict {
				if g.containsCall(nn, advance...) != nil {
					return Cut
				}
				if r, isRet := nn.(*ast.ReturnStmt); isRet {
					if g.ReturnMayBeNil(r) {
						return Hit
					}
					return Cut
				}
				return Go
			}, func(b *cfg.Block) Verdict {
				if g.IsNoReturnExit(b) {
					return Go
				}
				return Hit
			})
			if hit {
				c.Fail(rule, key, l.Lit.Pos(), "the record is logged under nextLSN() but a success path leaves %s without advancing the counter: the next logged operation shares this LSN and redo skips it once the page has been flushed", l.B.Name())
			} else {
				c.OK(rule, key, l.Lit.Pos(), 1, "incrLSN follows the record on every success path")
			}
			continue
		}
		// LSN bound to a result of BTree.insert?
		if id, ok := ast.Unparen(lsn).(*ast.Ident); ok {
			obj := f.ObjOf(id)
			found := false
			for _, call := range f.Calls(l.B.Node, false, "storage.BTree.insert") {
				if f.resultVar(l.B.Node, call, 1) == obj {
					found = true
				}
			}
			if found {
				ins := c.NeedFunc(rule, "storage.(*BTree).insert")
				if ins == nil {
					continue
				}
				ig := ins.Graph()
				reads := ins.Calls(ins.Decl.Body, false, read...)
				if len(reads) == 0 {
					c.Fail(rule, key, ins.Decl.Pos(), "BTree.insert does not read the LSN counter")
					continue
				}
				loc, _ := ig.Locate(reads[0])
				hit, _ := ig.Forward(&loc, ig.SuccessEdges, func(nn ast.Node, at Loc) Verdict {
					if ig.containsCall(nn, advance...) != nil {
						return Cut
					}
					if r, isRet := nn.(*ast.ReturnStmt); isRet {
						if ig.ReturnMayBeNil(r) {
							return Hit
						}
						return Cut
					}
					return Go
				}, func(b *cfg.Block) Verdict { return Hit })
				// the LSN returned must be the one read
				robj := ins.resultVar(ins.Decl.Body, reads[0], 0)
				retOK := true
				for _, r := range ig.Returns() {
					if len(r.Results) == 3 {
						if rid, ok := ast.Unparen(r.Results[1]).(*ast.Ident); !ok || ins.ObjOf(rid) != robj {
							retOK = false
						}
					}
				}
				if hit {
					c.Fail(rule, key, reads[0].Pos(), "BTree.insert can return successfully without advancing the LSN counter it read")
				} else if !retOK {
					c.Fail(rule, key, reads[0].Pos(), "BTree.insert does not return the LSN it read from the counter")
				} else {
					c.OK(rule, key, l.Lit.Pos(), 2, "LSN is BTree.insert's second result; insert advances the counter on every success path after reading it")
				}
				continue
			}
		}
		c.Undecided(rule, key, "the LSN of the record (%s) is neither a nextLSN() call nor BTree.insert's result", exprKey(lsn))
	}
}

// ---- C02.4 -----------------------------------------------------------------------------------

type replayInfo struct {
	f       *Func
	g       *Graph
	rng     *ast.RangeStmt
	row     types.Object // the record variable
	node    types.Object // the page fetched for the record
	guard   *ast.IfStmt
	sw      *ast.SwitchStmt
	problem string
}

func findReplay(c *Ctx, rule string) *replayInfo {
	f := c.NeedFunc(rule, "storage.WALBatch.replay")
	if f == nil {
		return nil
	}
	ri := &replayInfo{f: f, g: f.Graph()}
	inspectBody(f.Decl.Body, func(n ast.Node) bool {
		if r, ok := n.(*ast.RangeStmt); ok && ri.rng == nil {
			ri.rng = r
		}
		return true
	})
	if ri.rng == nil {
		ri.problem = "replay has no range loop over the batch"
		return ri
	}
	if id, ok := ri.rng.Value.(*ast.Ident); ok {
		ri.row = f.ObjOf(id)
	}
	if ri.row == nil {
		ri.problem = "replay's loop has no record variable"
		return ri
	}
	// node := fs.fetch(row.pageID)
	for _, call := range f.Calls(ri.rng.Body, false, "storage.*.fetch") {
		if len(call.Args) == 1 && isFieldOf(f, call.Args[0], ri.row, "pageID") {
			ri.node = f.resultVar(ri.rng.Body, call, 0)
		}
	}
	if ri.node == nil {
		ri.problem = "replay does not fetch the page named by the record's pageID"
		return ri
	}
	inspectBody(ri.rng.Body, func(n ast.Node) bool {
		switch x := n.(type) {
		case *ast.IfStmt:
			if ri.guard == nil && lsnComparison(f, x.Cond, ri.row) != nil {
				ri.guard = x
			}
		case *ast.SwitchStmt:
			if ri.sw == nil && x.Tag != nil && isFieldOf(f, x.Tag, ri.row, "WALOp") {
				ri.sw = x
			}
		}
		return true
	})
	return ri
}

func isFieldOf(f *Func, e ast.Expr, obj types.Object, field string) bool {
	sel, ok := ast.Unparen(f.stripConv(e)).(*ast.SelectorExpr)
	if !ok || sel.Sel.Name != field {
		return false
	}
	id, ok := ast.Unparen(sel.X).(*ast.Ident)
	return ok && f.ObjOf(id) == obj
}

type lsnCmp struct {
	op token.Token // normalised: record OP page
	be *ast.BinaryExpr
}

// lsnComparison recognises a comparison between <row>.LSN and <x>.getLastLSN() (either order).
func lsnComparison(f *Func, e ast.Expr, row types.Object) *lsnCmp {
	be, ok := ast.Unparen(e).(*ast.BinaryExpr)
	if !ok {
		return nil
	}
	isPage := func(x ast.Expr) bool {
		call, ok := ast.Unparen(x).(*ast.CallExpr)
		if ok && f.CallIs(call, "storage.btreeNode.getLastLSN") {
			return true
		}
		if sel, ok := ast.Unparen(x).(*ast.SelectorExpr); ok {
			if v := fieldVar(f, sel); v != nil && v.Name() == "lastLSN" {
				return true
			}
		}
		return false
	}
	flip := map[token.Token]token.Token{token.LSS: token.GTR, token.LEQ: token.GEQ, token.GTR: token.LSS, token.GEQ: token.LEQ, token.EQL: token.EQL, token.NEQ: token.NEQ}
	if isFieldOf(f, be.X, row, "LSN") && isPage(be.Y) {
		return &lsnCmp{be.Op, be}
	}
	if isFieldOf(f, be.Y, row, "LSN") && isPage(be.X) {
		if op, ok := flip[be.Op]; ok {
			return &lsnCmp{op, be}
		}
	}
	return nil
}

func c02RedoGuard(c *Ctx, rule string) {
	c.Rule(rule, "in replay every page mutation (insertKey, updateCell, store to a cell's deleted flag, markDirty, incrementLastKey) is dominated by the not-skipped edge of a comparison of the record's LSN with the page's last LSN whose skip side means exactly record <= page ('<' is NOT enough: the redo of an insert is not idempotent — a page flushed right after the insert that split it carries the record's own LSN, and applying that record again puts the row a second time into the left half, where the duplicate test no longer finds it)")
	ri := findReplay(c, rule)
	if ri == nil {
		return
	}
	f, g := ri.f, ri.g
	if ri.problem != "" {
		c.Undecided(rule, f.Name+"|shape", "%s", ri.problem)
		return
	}
	// mutation sites
	type mut struct {
		n    ast.Node
		what string
	}
	var muts []mut
	inspectBody(ri.rng.Body, func(n ast.Node) bool {
		switch x := n.(type) {
		case *ast.CallExpr:
			if f.CallIs(x, "storage.BTree.insertKey", "storage.BTree.insert", "storage.btreeNode.updateCell", "storage.btreeNode.markDirty", "storage.*.incrementLastKey", "storage.btreeNode.insertLeafCell") {
				muts = append(muts, mut{x, calleeKey(f.Callee(x))})
			}
		case *ast.AssignStmt:
			for _, l := range x.Lhs {
				if sel, ok := ast.Unparen(l).(*ast.SelectorExpr); ok {
					if v := fieldVar(f, sel); v != nil {
						if _, shared := c.W.Locks().sharedFld[v]; shared && (v.Name() == "deleted" || v.Name() == "valueBytes") {
							muts = append(muts, mut{x, "store " + v.Name()})
						}
					}
				}
			}
		}
		return true
	})
	if len(muts) < 3 {
		c.Undecided(rule, f.Name+"|mutations", "only %d mutation sites recognised in replay", len(muts))
	}
	if ri.guard == nil {
		for _, m := range muts {
			c.Fail(rule, f.Name+"|"+m.what, m.n.Pos(), "replay applies the record without comparing its LSN with the page's: already flushed changes are re-applied and newer page states overwritten")
		}
		return
	}
	cmp := lsnComparison(f, ri.guard.Cond, ri.row)
	// which edge skips? the one that leads to continue / does not reach the mutations
	condLoc, ok := g.Locate(ri.guard.Cond)
	if !ok {
		c.Undecided(rule, f.Name+"|guard", "guard not located")
		return
	}
	blk := condLoc.B
	if len(blk.Succs) != 2 {
		c.Undecided(rule, f.Name+"|guard", "guard is not a two-way branch")
		return
	}
	thenSkips := blockOnlyContinues(ri.guard.Body)
	elseSkips := ri.guard.Else != nil && blockOnlyContinues(ri.guard.Else)
	var applySucc *cfg.Block
	var skipWhenTrue bool
	switch {
	case thenSkips && !elseSkips:
		applySucc, skipWhenTrue = blk.Succs[1], true
	case elseSkips && !thenSkips:
		applySucc, skipWhenTrue = blk.Succs[0], false
	default:
		c.Undecided(rule, f.Name+"|guard", "cannot tell which branch of the LSN comparison skips the record")
		return
	}
	// polarity: skip must imply record <= page
	op := cmp.op
	if !skipWhenTrue {
		neg := map[token.Token]token.Token{token.LSS: token.GEQ, token.LEQ: token.GTR, token.GTR: token.LEQ, token.GEQ: token.LSS, token.EQL: token.NEQ, token.NEQ: token.EQL}
		op = neg[op]
	}
	key := f.Name + "|guard-polarity"
	if op == token.LEQ {
		c.OK(rule, key, ri.guard.Pos(), 1, "record skipped iff record.LSN %s page.lastLSN", op)
	} else if op == token.LSS {
		c.Fail(rule, key, ri.guard.Pos(), "the redo guard skips a record only when record.LSN < page.lastLSN: the record whose LSN the page already carries is applied a second time — for the insert that split the page the row is inserted again into the left half (the duplicate test looks in the half that no longer holds it) and the table shows it twice after a restart")
	} else {
		c.Fail(rule, key, ri.guard.Pos(), "the redo guard skips a record when record.LSN %s page.lastLSN: records newer than the page are dropped (or older ones re-applied)", op)
	}
	for _, m := range muts {
		key := f.Name + "|guarded|" + m.what
		loc, ok := g.Locate(m.n)
		if !ok {
			c.Undecided(rule, key, "mutation not located")
			continue
		}
		if g.BlockDominates(applySucc, loc.B) {
			c.OK(rule, key, m.n.Pos(), 1, "dominated by the apply edge of the LSN guard")
		} else {
			c.Fail(rule, key, m.n.Pos(), "this mutation is reachable without passing the LSN guard's apply edge")
		}
	}
}

func blockOnlyContinues(s ast.Stmt) bool {
	b, ok := s.(*ast.BlockStmt)
	if !ok || len(b.List) == 0 {
		return false
	}
	last := b.List[len(b.List)-1]
	br, ok := last.(*ast.BranchStmt)
	return ok && br.Tok == token.CONTINUE
}

// ---- C02.5 --------------------------------------------------------------------------------------

func walOpConsts(w *World) []*types.Const {
	var out []*types.Const
	scope := w.Pkgs["storage"].Types.Scope()
	for _, n := range scope.Names() {
		if cst, ok := scope.Lookup(n).(*types.Const); ok && namedTypeIs(cst.Type(), "storage", "WALOp") {
			out = append(out, cst)
		}
	}
	return out
}

// doPrimitive classifies what a logging body does to the page: "insert", "update", "delete".
func doPrimitive(f *Func, body *ast.BlockStmt) (kinds []string) {
	if len(f.Calls(body, false, "storage.BTree.insert")) > 0 {
		kinds = append(kinds, "insert")
	}
	if len(f.Calls(body, false, "storage.btreeNode.updateCell")) > 0 {
		kinds = append(kinds, "update")
	}
	inspectBody(body, func(n ast.Node) bool {
		if as, ok := n.(*ast.AssignStmt); ok && len(as.Lhs) == 1 && len(as.Rhs) == 1 {
			if sel, ok := ast.Unparen(as.Lhs[0]).(*ast.SelectorExpr); ok {
				if v := fieldVar(f, sel); v != nil && v.Name() == "deleted" {
					if cv := f.constOf(as.Rhs[0]); cv != nil && cv.String() == "true" {
						kinds = append(kinds, "delete")
					}
				}
			}
		}
		return true
	})
	return
}

var opToKind = map[string]string{"OpInsert": "insert", "OpUpdate": "update", "OpDelete": "delete"}

func c02DoRedo(c *Ctx, rule string) {
	c.Rule(rule, "do/redo agreement: replay's switch has an arm for every WALOp constant; the operation named in each log record is the primitive its logging function performs (BTree.insert / updateCell / deleted=true), and the redo arm for that operation performs the same primitive on the fetched page with the record's cellID, LSN and val and marks the page dirty with the record's LSN")
	ri := findReplay(c, rule)
	if ri == nil {
		return
	}
	f := ri.f
	if ri.problem != "" || ri.sw == nil {
		c.Undecided(rule, f.Name+"|shape", "replay has no switch over the record's WALOp (%s)", ri.problem)
		return
	}
	arms := map[string]*ast.CaseClause{}
	hasDefault := false
	for _, s := range ri.sw.Body.List {
		cc := s.(*ast.CaseClause)
		if cc.List == nil {
			hasDefault = true
		}
		for _, e := range cc.List {
			if cst := f.namedConst(e); cst != nil {
				arms[cst.Name()] = cc
			}
		}
	}
	_ = hasDefault
	for _, cst := range walOpConsts(c.W) {
		key := f.Name + "|arm|" + cst.Name()
		cc := arms[cst.Name()]
		if cc == nil {
			c.Fail(rule, key, ri.sw.Pos(), "replay has no arm for %s: such records are silently ignored by recovery", cst.Name())
			continue
		}
		kind := opToKind[cst.Name()]
		if kind == "" {
			c.Undecided(rule, key, "no do/redo table entry for %s", cst.Name())
			continue
		}
		arm := &ast.BlockStmt{List: cc.Body, Lbrace: cc.Colon, Rbrace: cc.End()}
		ok, detail := redoArmMatches(f, ri, arm, kind)
		if ok {
			c.OK(rule, key, cc.Pos(), 3, "%s", detail)
		} else {
			c.Fail(rule, key, cc.Pos(), "redo arm of %s: %s", cst.Name(), detail)
		}
	}
	// logging side
	for _, l := range walLiterals(c.W) {
		op := opName(l.F, l.Lit)
		key := l.B.Name() + "|logged-op|" + op
		kind := opToKind[op]
		if kind == "" {
			c.Fail(rule, key, l.Lit.Pos(), "log record with operation %s which is not a WALOp constant with a redo arm", op)
			continue
		}
		kinds := doPrimitive(l.F, l.B.Node)
		has := false
		for _, k := range kinds {
			if k == kind {
				has = true
			}
		}
		if has {
			c.OK(rule, key, l.Lit.Pos(), 1, "%s performs the %s primitive it logs", l.B.Name(), kind)
		} else {
			c.Fail(rule, key, l.Lit.Pos(), "%s logs %s but performs %v: redo would apply a different change than the statement did", l.B.Name(), op, kinds)
		}
	}
}

// raisesCounterToRecordKey: the arm contains `<store>.lastKey = <row>.cellID` at a point where `<row>.cellID > <store>.lastKey`
// (or >=) is known from a branch condition — the counter only ever moves up, to the key of the record being redone.
func raisesCounterToRecordKey(f *Func, arm ast.Node, row types.Object) bool {
	g := f.Graph()
	found := false
	ast.Inspect(arm, func(x ast.Node) bool {
		as, ok := x.(*ast.AssignStmt)
		if !ok || as.Tok != token.ASSIGN || len(as.Lhs) != 1 || len(as.Rhs) != 1 {
			return true
		}
		sel, ok := ast.Unparen(as.Lhs[0]).(*ast.SelectorExpr)
		if !ok || sel.Sel.Name != "lastKey" || !isFieldOf(f, as.Rhs[0], row, "cellID") {
			return true
		}
		if guardedRaise(f, g, as) {
			found = true
		}
		return true
	})
	return found
}

// raisesCounterBeforeSkip: a guarded raise of lastKey to <row>.cellID sits in the replay loop at a point every record
// passes — the test that guards it dominates the skip test (the comparison of the record's LSN with the page's).
func raisesCounterBeforeSkip(f *Func, ri *replayInfo, row types.Object) bool {
	g := f.Graph()
	skipLoc, ok := g.Locate(ri.guard.Cond)
	if !ok {
		return false
	}
	found := false
	var stack []ast.Node
	ast.Inspect(ri.rng.Body, func(x ast.Node) bool {
		if x == nil {
			stack = stack[:len(stack)-1]
			return true
		}
		stack = append(stack, x)
		as, ok := x.(*ast.AssignStmt)
		if !ok || as.Tok != token.ASSIGN || len(as.Lhs) != 1 || len(as.Rhs) != 1 {
			return true
		}
		sel, ok := ast.Unparen(as.Lhs[0]).(*ast.SelectorExpr)
		if !ok || sel.Sel.Name != "lastKey" || !isFieldOf(f, as.Rhs[0], row, "cellID") || !guardedRaise(f, g, as) {
			return true
		}
		// some enclosing test (the guard itself, or an `if record is an insert` around it) is passed by every record
		// before the skip test
		for _, a := range stack {
			if ifs, ok := a.(*ast.IfStmt); ok {
				if cl, ok := g.Locate(ifs.Cond); ok && g.Dominates(cl, skipLoc) {
					found = true
				}
			}
		}
		return true
	})
	return found
}

// guardedRaise: at the assignment `L = R`, `R > L` (or `R >= L`) is implied by a branch condition on every path.
func guardedRaise(f *Func, g *Graph, as *ast.AssignStmt) bool {
	loc, ok := g.Locate(as)
	if !ok {
		return false
	}
	l, r := exprKey(as.Lhs[0]), exprKey(f.stripConv(as.Rhs[0]))
	return g.HoldsAt(loc, Rel{r, token.GTR, l}) || g.HoldsAt(loc, Rel{r, token.GEQ, l}) || g.HoldsAt(loc, Rel{exprKey(as.Rhs[0]), token.GTR, l})
}

func redoArmMatches(f *Func, ri *replayInfo, arm *ast.BlockStmt, kind string) (bool, string) {
	row := ri.row
	dirtyOK := func() bool {
		for _, call := range f.Calls(arm, false, "storage.btreeNode.markDirty") {
			sel, ok := call.Fun.(*ast.SelectorExpr)
			if !ok {
				continue
			}
			if id, ok := ast.Unparen(sel.X).(*ast.Ident); ok && f.ObjOf(id) == ri.node && len(call.Args) == 1 && isFieldOf(f, call.Args[0], row, "LSN") {
				return true
			}
		}
		return false
	}
	switch kind {
	case "insert":
		for _, call := range f.Calls(arm, false, "storage.BTree.insertKey") {
			if len(call.Args) == 3 && isFieldOf(f, call.Args[0], row, "cellID") && isFieldOf(f, call.Args[1], row, "LSN") && isFieldOf(f, call.Args[2], row, "val") {
				// tree rooted at the fetched page
				rooted := false
				for _, sr := range f.Calls(arm, false, "storage.BTree.setRoot") {
					if len(sr.Args) == 1 {
						if id, ok := ast.Unparen(sr.Args[0]).(*ast.Ident); ok && f.ObjOf(id) == ri.node {
							rooted = true
						}
					}
				}
				if !rooted {
					return false, "the tree used for redo is not rooted at the page named by the record"
				}
				// the counter must COVER the record's key. Counting one id per replayed record (incrementLastKey) falls
				// behind the ids that refused inserts consumed before the crash (BTree.insert advances the counter
				// whether or not the insert was accepted): the next INSERT after recovery is refused with
				// "record already exists" (defect D23).
				// … and it must cover the key of a record that is SKIPPED as well: the page that carries the record's LSN
				// can be on disk while the header that counts its row id is not (a flush that died between its page
				// writes and the header write — defect D26). The raise therefore sits in front of the skip test.
				if ri.rng != nil && ri.guard != nil && raisesCounterBeforeSkip(f, ri, row) {
					return true, "insertKey(record.cellID, record.LSN, record.val) on the tree rooted at the record's page; row-id counter raised to the record's key for every insert record, skipped or not"
				}
				if raisesCounterToRecordKey(f, arm, row) {
					return false, "redo raises the row-id counter to the record's key only for the records it does not skip: after a flush that died between its page writes and the header write the counter stays behind the rows that are on disk, and the next INSERT after recovery fails with 'record already exists'"
				}
				if len(f.Calls(arm, false, "storage.*.incrementLastKey")) != 0 {
					return false, "redo of an insert counts one row id per replayed record instead of raising the counter to the record's key: ids that refused inserts consumed before the crash are handed out again and the next INSERT after recovery fails with 'record already exists'"
				}
				return false, "redo of an insert does not advance the row-id counter: the next INSERT after recovery reuses a row id"
			}
		}
		return false, "no insertKey(record.cellID, record.LSN, record.val)"
	case "update":
		for _, call := range f.Calls(arm, false, "storage.btreeNode.updateCell") {
			sel, _ := call.Fun.(*ast.SelectorExpr)
			if sel == nil {
				continue
			}
			id, ok := ast.Unparen(sel.X).(*ast.Ident)
			if ok && f.ObjOf(id) == ri.node && len(call.Args) == 2 && isFieldOf(f, call.Args[0], row, "cellID") && isFieldOf(f, call.Args[1], row, "val") {
				if !dirtyOK() {
					return false, "the page is not marked dirty with the record's LSN"
				}
				return true, "updateCell(record.cellID, record.val) on the fetched page, marked dirty with record.LSN"
			}
		}
		return false, "no updateCell(record.cellID, record.val) on the fetched page"
	case "delete":
		found := false
		inspectBody(arm, func(n ast.Node) bool {
			if as, ok := n.(*ast.AssignStmt); ok && len(as.Lhs) == 1 && len(as.Rhs) == 1 {
				if sel, ok := ast.Unparen(as.Lhs[0]).(*ast.SelectorExpr); ok {
					if v := fieldVar(f, sel); v != nil && v.Name() == "deleted" {
						if cv := f.constOf(as.Rhs[0]); cv != nil && cv.String() == "true" {
							found = true
						}
					}
				}
			}
			return true
		})
		if !found {
			return false, "no store deleted = true"
		}
		// the cell is looked up by the record's cellID
		byKey := false
		for _, call := range f.Calls(arm, false, "storage.btreeNode.findCellOffsetByKey") {
			if len(call.Args) == 1 && isFieldOf(f, call.Args[0], row, "cellID") {
				byKey = true
			}
		}
		if !byKey {
			return false, "the cell to tombstone is not looked up by the record's cellID"
		}
		if !dirtyOK() {
			return false, "the page is not marked dirty with the record's LSN"
		}
		return true, "deleted = true on the cell found by record.cellID, page marked dirty with record.LSN"
	}
	return false, "unknown primitive"
}

// ---- C02.6 -----------------------------------------------------------------------------------------

func c02RecordDescribes(c *Ctx, rule string) {
	c.Rule(rule, "each log record describes what was done: pageID is the offset of the page that is marked dirty (for inserts: the offset the tree was opened at), cellID the key of the mutated cell, val the bytes handed to the mutator, and the page is marked dirty with the LSN the record carries")
	for _, l := range walLiterals(c.W) {
		f := l.F
		op := opName(f, l.Lit)
		key := l.B.Name() + "|record|" + op
		body := l.B.Node
		pageID, cellID, val, lsn := kvField(l.Lit, "pageID"), kvField(l.Lit, "cellID"), kvField(l.Lit, "val"), kvField(l.Lit, "LSN")
		if pageID == nil || cellID == nil {
			c.Fail(rule, key, l.Lit.Pos(), "record lacks pageID or cellID")
			continue
		}
		switch opToKind[op] {
		case "insert":
			calls := f.Calls(body, false, "storage.BTree.insert")
			if len(calls) != 1 {
				c.Undecided(rule, key, "expected exactly one BTree.insert call in %s", l.B.Name())
				continue
			}
			ins := calls[0]
			var problems []string
			if id, ok := ast.Unparen(cellID).(*ast.Ident); !ok || f.ObjOf(id) != f.resultVar(body, ins, 0) {
				problems = append(problems, "cellID is not the row id returned by BTree.insert")
			}
			if val == nil || len(ins.Args) != 1 || exprKey(val) != exprKey(ins.Args[0]) {
				problems = append(problems, "val is not the byte slice handed to BTree.insert")
			}
			// root: bt.setRoot(P); P := fetch(OFF); pageID == OFF
			rootOK := false
			for _, sr := range f.Calls(body, false, "storage.BTree.setRoot") {
				if len(sr.Args) != 1 {
					continue
				}
				pid, ok := ast.Unparen(sr.Args[0]).(*ast.Ident)
				if !ok || sr.Pos() > ins.Pos() {
					continue
				}
				pobj := f.ObjOf(pid)
				for _, fc := range f.Calls(body, false, "storage.*.fetch") {
					if f.resultVar(body, fc, 0) == pobj && len(fc.Args) == 1 && exprKey(f.stripConv(fc.Args[0])) == exprKey(f.stripConv(pageID)) {
						rootOK = true
					}
				}
			}
			if !rootOK {
				problems = append(problems, "pageID is not the offset of the page the tree was rooted at before the insert")
			}
			if len(problems) > 0 {
				c.Fail(rule, key, l.Lit.Pos(), "%s", strings.Join(problems, "; "))
			} else {
				c.OK(rule, key, l.Lit.Pos(), 3, "cellID/LSN are BTree.insert's results, val its argument, pageID the root offset the tree was opened at")
			}
		case "update", "delete":
			var dirty *ast.CallExpr
			for _, d := range f.Calls(body, false, "storage.btreeNode.markDirty") {
				if d.Pos() < l.Lit.Pos() {
					dirty = d
				}
			}
			if dirty == nil {
				c.Fail(rule, key, l.Lit.Pos(), "the mutated page is not marked dirty before the record is created")
				continue
			}
			recv := exprKey(dirty.Fun.(*ast.SelectorExpr).X)
			var problems []string
			pcall, ok := ast.Unparen(pageID).(*ast.CallExpr)
			if !ok || !f.CallIs(pcall, "storage.btreeNode.getFileOffset") || exprKey(pcall.Fun.(*ast.SelectorExpr).X) != recv {
				problems = append(problems, "pageID ("+exprKey(pageID)+") is not the offset of the page marked dirty ("+recv+")")
			}
			if lsn != nil && len(dirty.Args) == 1 && exprKey(lsn) != exprKey(dirty.Args[0]) {
				problems = append(problems, "the page is marked dirty with "+exprKey(dirty.Args[0])+" but the record carries "+exprKey(lsn))
			}
			// no counter advance between markDirty and the literal
			for _, inc := range f.Calls(body, false, "storage.*.incrLSN") {
				if dirty.End() <= inc.Pos() && inc.End() <= l.Lit.Pos() {
					problems = append(problems, "the LSN counter is advanced between marking the page and creating the record")
				}
			}
			if opToKind[op] == "update" {
				ups := f.Calls(body, false, "storage.btreeNode.updateCell")
				if len(ups) != 1 || len(ups[0].Args) != 2 {
					c.Undecided(rule, key, "expected one updateCell call")
					continue
				}
				up := ups[0]
				if exprKey(up.Fun.(*ast.SelectorExpr).X) != recv {
					problems = append(problems, "updateCell is applied to "+exprKey(up.Fun.(*ast.SelectorExpr).X)+" but "+recv+" is marked dirty")
				}
				if exprKey(cellID) != exprKey(up.Args[0]) {
					problems = append(problems, "cellID is not the key handed to updateCell")
				}
				if val == nil || exprKey(val) != exprKey(up.Args[1]) {
					problems = append(problems, "val is not the byte slice handed to updateCell")
				}
			} else {
				// cell.deleted = true ; recv == cell.pg ; cellID == cell.key
				var cellExpr string
				inspectBody(body, func(n ast.Node) bool {
					if as, ok := n.(*ast.AssignStmt); ok && len(as.Lhs) == 1 {
						if sel, ok := ast.Unparen(as.Lhs[0]).(*ast.SelectorExpr); ok {
							if v := fieldVar(f, sel); v != nil && v.Name() == "deleted" {
								cellExpr = exprKey(sel.X)
							}
						}
					}
					return true
				})
				if cellExpr == "" {
					c.Undecided(rule, key, "no tombstone store found")
					continue
				}
				if recv != cellExpr+".pg" {
					problems = append(problems, "the page marked dirty ("+recv+") is not the page of the tombstoned cell ("+cellExpr+".pg)")
				}
				if exprKey(cellID) != cellExpr+".key" {
					problems = append(problems, "cellID is not the key of the tombstoned cell")
				}
			}
			if len(problems) > 0 {
				c.Fail(rule, key, l.Lit.Pos(), "%s", strings.Join(problems, "; "))
			} else {
				c.OK(rule, key, l.Lit.Pos(), 4, "pageID/cellID/val/LSN agree with the mutated page, cell, bytes and dirty mark")
			}
		default:
			c.Undecided(rule, key, "unknown operation %s", op)
		}
	}
}

// ---- C02.7 ----------------------------------------------------------------------------------------------

func c02SchemaAgreement(c *Ctx, rule string) {
	c.Rule(rule, "if a redo arm decodes the record payload with a fixed schema, every producer of that operation encodes its payload with that same schema")
	ri := findReplay(c, rule)
	if ri == nil || ri.sw == nil {
		return
	}
	f := ri.f
	n := 0
	for _, s := range ri.sw.Body.List {
		cc := s.(*ast.CaseClause)
		var ops []string
		for _, e := range cc.List {
			if cst := f.namedConst(e); cst != nil {
				ops = append(ops, cst.Name())
			}
		}
		arm := &ast.BlockStmt{List: cc.Body}
		decs := f.Calls(arm, false, "storage.Tuple.Decode")
		if len(decs) == 0 {
			continue
		}
		for _, op := range ops {
			n++
			key := f.Name + "|decode|" + op
			// schema used by the arm
			armSchema := ""
			for _, tl := range f.compositeLitsIn(arm, "storage", "Tuple") {
				if r := kvField(tl, "Relation"); r != nil {
					armSchema = exprKey(r)
				}
			}
			bad := ""
			for _, l := range walLiterals(c.W) {
				if opName(l.F, l.Lit) != op {
					continue
				}
				prod := ""
				for _, tl := range l.F.compositeLitsIn(l.B.Node, "storage", "Tuple") {
					if r := kvField(tl, "Relation"); r != nil {
						prod = exprKey(r)
					}
				}
				if prod != armSchema {
					bad = l.B.Name() + " encodes " + op + " payloads with schema " + prod + " but replay decodes them with " + armSchema
				}
			}
			if bad != "" {
				c.Fail(rule, key, decs[0].Pos(), "%s: recovery fails on (or misreads) such records", bad)
			} else {
				c.OK(rule, key, decs[0].Pos(), 1, "all producers of %s use schema %s", op, armSchema)
			}
		}
	}
	if n == 0 {
		c.OK(rule, f.Name+"|decode|none", f.Decl.Pos(), len(ri.sw.Body.List), "no redo arm interprets the payload: payloads are opaque bytes for replay (%d arms examined)", len(ri.sw.Body.List))
	}
}

func (f *Func) compositeLitsIn(n ast.Node, pkg, name string) []*ast.CompositeLit {
	var out []*ast.CompositeLit
	ast.Inspect(n, func(x ast.Node) bool {
		if cl, ok := x.(*ast.CompositeLit); ok {
			if t := f.TypeOf(cl); t != nil && namedTypeIs(t, pkg, name) {
				out = append(out, cl)
			}
		}
		return true
	})
	return out
}

// ---- C02.10 -------------------------------------------------------------------------------------------

func c02RecoveryEnds(c *Ctx, rule string) {
	c.Rule(rule, "recovery leaves the LSN counter strictly above every replayed record (an advance of the counter follows the last store of a record's LSN into it on every success path) and ends in flushPages, whose error is returned")
	ri := findReplay(c, rule)
	if ri == nil {
		return
	}
	f, g := ri.f, ri.g
	if ri.problem != "" {
		c.Undecided(rule, f.Name+"|shape", "%s", ri.problem)
		return
	}
	// stores of record LSN into the counter
	var stores []*ast.AssignStmt
	inspectBody(f.Decl.Body, func(n ast.Node) bool {
		if as, ok := n.(*ast.AssignStmt); ok && len(as.Lhs) == 1 && len(as.Rhs) == 1 && as.Tok == token.ASSIGN {
			if sel, ok := ast.Unparen(as.Lhs[0]).(*ast.SelectorExpr); ok {
				if v := fieldVar(f, sel); v != nil && v.Name() == "_nextLSN" {
					stores = append(stores, as)
				}
			}
		}
		return true
	})
	isAdvance := func(n ast.Node) bool {
		adv := false
		ast.Inspect(n, func(x ast.Node) bool {
			switch y := x.(type) {
			case *ast.IncDecStmt:
				if sel, ok := ast.Unparen(y.X).(*ast.SelectorExpr); ok && y.Tok == token.INC {
					if v := fieldVar(f, sel); v != nil && v.Name() == "_nextLSN" {
						adv = true
					}
				}
			case *ast.AssignStmt:
				if y.Tok == token.ADD_ASSIGN && len(y.Lhs) == 1 {
					if sel, ok := ast.Unparen(y.Lhs[0]).(*ast.SelectorExpr); ok {
						if v := fieldVar(f, sel); v != nil && v.Name() == "_nextLSN" {
							adv = true
						}
					}
				}
			case *ast.CallExpr:
				if f.CallIs(y, "storage.*.incrLSN") {
					adv = true
				}
			}
			return true
		})
		return adv
	}
	if len(stores) == 0 {
		c.Note("%s: replay does not store record LSNs into the counter; counter freshness then rests on the file header alone", rule)
	}
	for i, st := range stores {
		key := f.Name + "|counter-after-replay#" + itoa(i+1)
		loc, ok := g.Locate(st)
		if !ok {
			c.Undecided(rule, key, "store not located")
			continue
		}
		if ri.guard != nil && enclosingLoop(f.Decl.Body, st) != nil {
			gl, _ := g.Locate(ri.guard.Cond)
			k2 := f.Name + "|counter-covers-skipped#" + itoa(i+1)
			covers := g.Dominates(loc, gl)
			if !covers {
				// `if rec.LSN > counter { counter = rec.LSN }` ahead of the skip: the counter is the maximum seen so far
				if ifs := ifAround(f.Decl.Body, st); ifs != nil && ifs.Else == nil && ifs.Init == nil && len(ifs.Body.List) == 1 && len(st.Lhs) == 1 && len(st.Rhs) == 1 {
					if il, ok := g.Locate(ifs.Cond); ok && g.Dominates(il, gl) {
						rel1 := Rel{exprKey(st.Rhs[0]), token.GTR, exprKey(st.Lhs[0])}
						rel2 := Rel{exprKey(st.Rhs[0]), token.GEQ, exprKey(st.Lhs[0])}
						if condImplies(ifs.Cond, true, rel1) || condImplies(ifs.Cond, true, rel2) {
							covers = true
						}
					}
				}
			}
			if covers {
				c.OK(rule, k2, st.Pos(), 1, "the counter follows every record, including those the LSN guard skips")
			} else {
				c.Fail(rule, k2, st.Pos(), "the LSN counter is only moved for records that are re-applied: after a crash between the page writes and the header write it stays below LSNs already on disk, and the next statement's record is skipped by the following recovery")
			}
		}
		hit, wit := g.Forward(&loc, g.SuccessEdges, func(nn ast.Node, at Loc) Verdict {
			if nn == ast.Node(st) {
				return Cut
			}
			if isAdvance(nn) {
				return Cut
			}
			if r, isRet := nn.(*ast.ReturnStmt); isRet {
				// "return nil"/"return fs.flushPages()" are success exits
				if g.ReturnMayBeNil(r) {
					return Hit
				}
				return Cut
			}
			return Go
		}, func(b *cfg.Block) Verdict { return Hit })
		if hit && os.Getenv("MKDBCHECK_DEBUG") != "" {
			for _, x := range wit {
				if x != nil {
					println("  witness:", c.W.Pos(x.Pos()))
				}
			}
		}
		if hit {
			c.Fail(rule, key, st.Pos(), "after replay the LSN counter equals the last record's LSN on some success path: the first statement after a restart reuses that LSN and is skipped by the next recovery")
		} else {
			c.OK(rule, key, st.Pos(), 1, "the counter is advanced past the last replayed record before replay returns")
		}
	}
	// ends in flushPages
	key := f.Name + "|final-flush"
	okFlush := true
	nret := 0
	for _, r := range g.Returns() {
		if !g.ReturnMayBeNil(r) {
			continue
		}
		if loc, ok := g.Locate(r); ok && !g.BlockDominates(g.blockAfter(ri.rng), loc.B) {
			continue // returns inside the loop are handled by other rules (latent 'return nil' noted below)
		}
		nret++
		if len(r.Results) != 1 || g.containsCall(r, "storage.*.flushPages") == nil {
			// maybe flushed just before with error check
			okFlush = false
		}
	}
	if nret == 0 {
		c.Undecided(rule, key, "no success return after the replay loop")
	} else {
		c.Check(okFlush, rule, key, f.Decl.Pos(), "replay returns the result of flushPages", "replay can return success without flushing the replayed pages and the header")
	}
	// advisory: a success return inside the loop
	inspectBody(ri.rng.Body, func(n ast.Node) bool {
		if r, ok := n.(*ast.ReturnStmt); ok && len(r.Results) == 1 && isNilIdent(f, r.Results[0]) {
			c.Note("%s advisory: %s returns nil from inside the replay loop (after a failed updateCell): recovery would stop early without error. Not armed: updateCell cannot fail for a record that was logged (size checked when logged, key present on the page the record names).", rule, c.W.Pos(r.Pos()))
		}
		return true
	})
}

// blockAfter returns the CFG block that follows a range statement (KindRangeDone).
func (g *Graph) blockAfter(rs *ast.RangeStmt) *cfg.Block {
	for _, b := range g.c.Blocks {
		if b.Kind == cfg.KindRangeDone && b.Stmt == ast.Stmt(rs) {
			return b
		}
	}
	return g.Entry()
}

// ifAround returns the if statement whose then-block directly contains st.
func ifAround(root ast.Node, st ast.Stmt) *ast.IfStmt {
	var found *ast.IfStmt
	ast.Inspect(root, func(x ast.Node) bool {
		if ifs, ok := x.(*ast.IfStmt); ok {
			for _, b := range ifs.Body.List {
				if b == st {
					found = ifs
				}
			}
		}
		return found == nil
	})
	return found
}
