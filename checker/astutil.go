package main

import (
	"go/ast"
	"go/constant"
	"go/token"
	"go/types"
	"strings"

	"golang.org/x/tools/go/cfg"
)

// Body is a function body (declaration or literal) with its graph.
type Body struct {
	F    *Func
	Lit  *ast.FuncLit // nil for the declaration body
	Node *ast.BlockStmt
	g    *Graph
}

func (b *Body) Graph() *Graph {
	if b.g == nil {
		if b.Lit == nil {
			b.g = b.F.Graph()
		} else {
			b.g = b.F.LitGraph(b.Lit)
		}
	}
	return b.g
}

func (b *Body) Name() string {
	if b.Lit == nil {
		return b.F.Name
	}
	// index of the literal in source order
	for i, l := range b.F.FuncLits() {
		if l == b.Lit {
			return b.F.Name + "$" + itoa(i+1)
		}
	}
	return b.F.Name + "$?"
}

func itoa(i int) string {
	if i == 0 {
		return "0"
	}
	s := ""
	neg := i < 0
	if neg {
		i = -i
	}
	for i > 0 {
		s = string(rune('0'+i%10)) + s
		i /= 10
	}
	if neg {
		s = "-" + s
	}
	return s
}

// EnclosingBody returns the innermost body (literal or declaration) of f that contains n.
func (f *Func) EnclosingBody(n ast.Node) *Body {
	var best *ast.FuncLit
	for _, l := range f.FuncLits() {
		if l.Body.Pos() <= n.Pos() && n.End() <= l.Body.End() {
			if best == nil || (best.Pos() <= l.Pos() && l.End() <= best.End()) {
				best = l
			}
		}
	}
	if best != nil {
		return &Body{F: f, Lit: best, Node: best.Body}
	}
	return &Body{F: f, Node: f.Decl.Body}
}

// inspectBody walks the body without entering nested function literals.
func inspectBody(body *ast.BlockStmt, fn func(n ast.Node) bool) {
	ast.Inspect(body, func(n ast.Node) bool {
		if n == nil {
			return false
		}
		if _, ok := n.(*ast.FuncLit); ok {
			return false
		}
		return fn(n)
	})
}

// constOf returns the constant value of an expression, if any.
func (f *Func) constOf(e ast.Expr) constant.Value {
	if tv, ok := f.Pkg.TypesInfo.Types[e]; ok {
		return tv.Value
	}
	return nil
}

// namedConst returns the constant object an identifier/selector refers to.
func (f *Func) namedConst(e ast.Expr) *types.Const {
	switch x := ast.Unparen(e).(type) {
	case *ast.Ident:
		c, _ := f.ObjOf(x).(*types.Const)
		return c
	case *ast.SelectorExpr:
		c, _ := f.ObjOf(x.Sel).(*types.Const)
		return c
	}
	return nil
}

// exprKey renders an expression for access-path comparison (spaces removed).
func exprKey(e ast.Expr) string {
	return strings.ReplaceAll(types.ExprString(dropParens(ast.Unparen(e), false)), " ", "")
}

// dropParens returns e without the parentheses that do not change its meaning: around primary expressions anywhere,
// and around any operand that is not itself the operand of a selector, index, call, star, unary or binary expression
// (tight: the parent binds tighter than a unary or binary operator would).
func dropParens(e ast.Expr, tight bool) ast.Expr {
	switch x := e.(type) {
	case *ast.ParenExpr:
		inner := dropParens(x.X, false)
		switch inner.(type) {
		case *ast.Ident, *ast.SelectorExpr, *ast.CallExpr, *ast.IndexExpr, *ast.TypeAssertExpr, *ast.BasicLit, *ast.CompositeLit, *ast.SliceExpr:
			return inner
		}
		if !tight {
			return inner
		}
		return &ast.ParenExpr{X: inner}
	case *ast.SelectorExpr:
		return &ast.SelectorExpr{X: dropParens(x.X, true), Sel: x.Sel}
	case *ast.IndexExpr:
		return &ast.IndexExpr{X: dropParens(x.X, true), Index: dropParens(x.Index, false)}
	case *ast.SliceExpr:
		y := *x
		y.X = dropParens(x.X, true)
		return &y
	case *ast.TypeAssertExpr:
		return &ast.TypeAssertExpr{X: dropParens(x.X, true), Type: x.Type}
	case *ast.StarExpr:
		return &ast.StarExpr{X: dropParens(x.X, true)}
	case *ast.UnaryExpr:
		return &ast.UnaryExpr{Op: x.Op, X: dropParens(x.X, true)}
	case *ast.BinaryExpr:
		return &ast.BinaryExpr{X: dropParens(x.X, true), Op: x.Op, Y: dropParens(x.Y, true)}
	case *ast.CallExpr:
		y := &ast.CallExpr{Fun: dropParens(x.Fun, true), Ellipsis: x.Ellipsis}
		for _, a := range x.Args {
			y.Args = append(y.Args, dropParens(a, false))
		}
		return y
	case *ast.KeyValueExpr:
		return &ast.KeyValueExpr{Key: x.Key, Value: dropParens(x.Value, false)}
	case *ast.CompositeLit:
		y := &ast.CompositeLit{Type: x.Type}
		for _, el := range x.Elts {
			y.Elts = append(y.Elts, dropParens(el, false))
		}
		return y
	}
	return e
}

// stripConv removes conversions T(x) and parentheses.
func (f *Func) stripConv(e ast.Expr) ast.Expr {
	for {
		e = ast.Unparen(e)
		call, ok := e.(*ast.CallExpr)
		if !ok || len(call.Args) != 1 {
			return e
		}
		if tv, ok := f.Pkg.TypesInfo.Types[call.Fun]; ok && tv.IsType() {
			e = call.Args[0]
			continue
		}
		return e
	}
}

// kvField returns the value expression of key "name" in a keyed composite literal.
func kvField(lit *ast.CompositeLit, name string) ast.Expr {
	for _, el := range lit.Elts {
		if kv, ok := el.(*ast.KeyValueExpr); ok {
			if id, ok := kv.Key.(*ast.Ident); ok && id.Name == name {
				return kv.Value
			}
		}
	}
	return nil
}

// namedTypeIs reports whether t (or *t) is the named type pkgKey.name of mkdb.
func namedTypeIs(t types.Type, pkg, name string) bool {
	if p, ok := t.(*types.Pointer); ok {
		t = p.Elem()
	}
	n, ok := t.(*types.Named)
	if !ok || n.Obj().Pkg() == nil {
		return false
	}
	return n.Obj().Name() == name && pkgKey(n.Obj().Pkg().Path()) == pkg
}

// compositeLits returns the composite literals of the named type inside f (closures included).
func (f *Func) compositeLits(pkg, name string) []*ast.CompositeLit {
	var out []*ast.CompositeLit
	ast.Inspect(f.Decl.Body, func(n ast.Node) bool {
		if cl, ok := n.(*ast.CompositeLit); ok {
			if t := f.TypeOf(cl); t != nil && namedTypeIs(t, pkg, name) {
				out = append(out, cl)
			}
		}
		return true
	})
	return out
}

// assignsTo lists the assignment statements in body whose LHS contains the object.
func (f *Func) assignsTo(body ast.Node, obj types.Object) []*ast.AssignStmt {
	var out []*ast.AssignStmt
	ast.Inspect(body, func(n ast.Node) bool {
		if as, ok := n.(*ast.AssignStmt); ok {
			for _, l := range as.Lhs {
				if id, ok := ast.Unparen(l).(*ast.Ident); ok && f.ObjOf(id) == obj {
					out = append(out, as)
				}
			}
		}
		return true
	})
	return out
}

// enclosingLoop returns the innermost for/range statement of body containing n.
func enclosingLoop(body ast.Node, n ast.Node) ast.Stmt {
	var best ast.Stmt
	ast.Inspect(body, func(x ast.Node) bool {
		if x == nil {
			return false
		}
		switch s := x.(type) {
		case *ast.ForStmt:
			if s.Body.Pos() <= n.Pos() && n.End() <= s.Body.End() {
				best = s
			}
		case *ast.RangeStmt:
			if s.Body.Pos() <= n.Pos() && n.End() <= s.Body.End() {
				best = s
			}
		}
		return true
	})
	return best
}

// isSelfAppend: "B = append(B, ...)" for object B; returns the appended args.
func (f *Func) isSelfAppend(as *ast.AssignStmt, obj types.Object) ([]ast.Expr, bool) {
	if len(as.Lhs) != 1 || len(as.Rhs) != 1 || as.Tok != token.ASSIGN {
		return nil, false
	}
	id, ok := ast.Unparen(as.Lhs[0]).(*ast.Ident)
	if !ok || f.ObjOf(id) != obj {
		return nil, false
	}
	call, ok := ast.Unparen(as.Rhs[0]).(*ast.CallExpr)
	if !ok || len(call.Args) < 1 {
		return nil, false
	}
	fn, ok := call.Fun.(*ast.Ident)
	if !ok || fn.Name != "append" {
		return nil, false
	}
	if _, isBuiltin := f.Pkg.TypesInfo.Uses[fn].(*types.Builtin); !isBuiltin {
		return nil, false
	}
	first, ok := ast.Unparen(call.Args[0]).(*ast.Ident)
	if !ok || f.ObjOf(first) != obj {
		return nil, false
	}
	return call.Args[1:], true
}

// resultVar returns the object bound to result #idx of call when the call is the
// sole RHS of an assignment/define statement `a, b, c := call(...)`.
func (f *Func) resultVar(body ast.Node, call *ast.CallExpr, idx int) types.Object {
	var out types.Object
	ast.Inspect(body, func(n ast.Node) bool {
		as, ok := n.(*ast.AssignStmt)
		if !ok || len(as.Rhs) != 1 || ast.Unparen(as.Rhs[0]) != ast.Expr(call) {
			return true
		}
		if idx < len(as.Lhs) {
			if id, ok := as.Lhs[idx].(*ast.Ident); ok && id.Name != "_" {
				out = f.ObjOf(id)
			}
		}
		return false
	})
	return out
}

// errHandled: the error result of call is returned, or bound to a variable that is
// tested against nil right afterwards with the non-nil edge leading to a return.
func (f *Func) errHandled(body *Body, call *ast.CallExpr) (bool, string) {
	g := body.Graph()
	// direct "return call(...)"
	for _, r := range g.Returns() {
		for _, e := range r.Results {
			if ast.Unparen(e) == ast.Expr(call) {
				return true, "returned directly"
			}
		}
	}
	sig, _ := f.TypeOf(call.Fun).(*types.Signature)
	if sig == nil || sig.Results().Len() == 0 {
		return false, "callee has no result"
	}
	errIdx := sig.Results().Len() - 1
	obj := f.resultVar(body.Node, call, errIdx)
	if obj == nil {
		return false, "error result is discarded"
	}
	loc, ok := g.Locate(call)
	if !ok {
		return false, "call not located"
	}
	// on every path from the call, the next thing that happens to obj is a nil test whose non-nil edge returns
	// (a copy into another variable — `e2 = err`, `a, b, e2 = x, y, err` — hands the duty to that variable)
	tested := false
	var track func(from Loc, obj types.Object, depth int) bool
	track = func(from Loc, obj types.Object, depth int) bool {
		leak, _ := g.Forward(&from, nil, func(n ast.Node, at Loc) Verdict {
			if e, isExpr := n.(ast.Expr); isExpr {
				if o, _, isErr := f.errTest(e); isErr && o == obj {
					tested = true
					return Cut
				}
			}
			if r, isRet := n.(*ast.ReturnStmt); isRet {
				for _, e := range r.Results {
					if id, ok := ast.Unparen(e).(*ast.Ident); ok && f.ObjOf(id) == obj {
						tested = true
						return Cut
					}
				}
				if !g.ReturnMayBeNil(r) {
					return Cut // another error is reported on this path: the operation is not acknowledged
				}
				return Hit
			}
			if as, isAs := n.(*ast.AssignStmt); isAs {
				// copied out?
				if len(as.Lhs) == len(as.Rhs) && depth < 4 {
					for i, r := range as.Rhs {
						if id, ok := ast.Unparen(r).(*ast.Ident); ok && f.ObjOf(id) == obj {
							if l, ok := as.Lhs[i].(*ast.Ident); ok && l.Name != "_" && f.ObjOf(l) != nil && f.ObjOf(l) != obj {
								if track(at, f.ObjOf(l), depth+1) {
									return Hit
								}
								return Cut
							}
						}
					}
				}
				// reassigned before being looked at?
				for _, l := range as.Lhs {
					if id, ok := l.(*ast.Ident); ok && f.ObjOf(id) == obj {
						return Hit
					}
				}
			}
			return Go
		}, func(*cfg.Block) Verdict { return Hit })
		return leak
	}
	leak := track(loc, obj, 0)
	if leak || !tested {
		return false, "error value can reach a return or be overwritten without being tested"
	}
	return true, "tested against nil on every path"
}

// recvName returns the receiver identifier of a method ("" if none / unnamed).
func recvName(f *Func) string {
	if f.Decl.Recv == nil || len(f.Decl.Recv.List) == 0 || len(f.Decl.Recv.List[0].Names) == 0 {
		return ""
	}
	return f.Decl.Recv.List[0].Names[0].Name
}

// paramIdent returns the i-th parameter identifier (flattening grouped names).
func paramIdent(f *Func, i int) *ast.Ident {
	k := 0
	for _, p := range f.Decl.Type.Params.List {
		for _, n := range p.Names {
			if k == i {
				return n
			}
			k++
		}
	}
	return nil
}

func paramName(f *Func, i int) string {
	if id := paramIdent(f, i); id != nil {
		return id.Name
	}
	return "?"
}

// litParamName: i-th parameter name of a function literal.
func litParamName(l *ast.FuncLit, i int) string {
	k := 0
	for _, p := range l.Type.Params.List {
		for _, n := range p.Names {
			if k == i {
				return n.Name
			}
			k++
		}
	}
	return "?"
}

// resultIdent returns the i-th NAMED result identifier, or nil.
func resultIdent(f *Func, i int) *ast.Ident {
	if f.Decl.Type.Results == nil {
		return nil
	}
	k := 0
	for _, p := range f.Decl.Type.Results.List {
		for _, n := range p.Names {
			if k == i {
				return n
			}
			k++
		}
	}
	return nil
}

// definedBy returns the (single) defining RHS of a local variable: `x := rhs` / `x, y := call` (then the call and the index).
func (f *Func) definedBy(body ast.Node, obj types.Object) (rhs ast.Expr, idx int, ok bool) {
	ast.Inspect(body, func(n ast.Node) bool {
		as, isAs := n.(*ast.AssignStmt)
		if !isAs {
			return true
		}
		for i, l := range as.Lhs {
			id, isId := l.(*ast.Ident)
			if !isId || f.ObjOf(id) != obj || f.Pkg.TypesInfo.Defs[id] == nil {
				continue
			}
			if len(as.Rhs) == len(as.Lhs) {
				rhs, idx, ok = as.Rhs[i], 0, true
			} else if len(as.Rhs) == 1 {
				rhs, idx, ok = as.Rhs[0], i, true
			}
		}
		return true
	})
	return
}

// provenanceText renders e together with everything its local variables are computed from: the right-hand
// sides of all their assignments and the conditions those assignments are control-dependent on (a value
// chosen by `if v { x = 1 } else { x = 0 }` comes from v), transitively to a small depth. Used where a rule
// asks "is this value derived from that one" and helper substitution may have put locals in between.
func (f *Func) provenanceText(e ast.Expr) string {
	var sb strings.Builder
	seen := map[types.Object]bool{}
	var visit func(e ast.Expr, depth int)
	visit = func(e ast.Expr, depth int) {
		sb.WriteString(exprKey(e))
		sb.WriteString(" ")
		if depth > 4 {
			return
		}
		ast.Inspect(e, func(y ast.Node) bool {
			id, ok := y.(*ast.Ident)
			if !ok {
				return true
			}
			obj, isVar := f.ObjOf(id).(*types.Var)
			if !isVar || obj.IsField() || seen[obj] || obj.Pkg() == nil || obj.Parent() == obj.Pkg().Scope() {
				return true
			}
			seen[obj] = true
			for _, as := range f.assignsTo(f.Decl.Body, obj) {
				for i, l := range as.Lhs {
					if lid, ok := l.(*ast.Ident); ok && f.ObjOf(lid) == types.Object(obj) {
						if len(as.Rhs) == len(as.Lhs) {
							visit(as.Rhs[i], depth+1)
						} else if len(as.Rhs) == 1 {
							visit(as.Rhs[0], depth+1)
						}
					}
				}
				// conditions the assignment depends on
				ast.Inspect(f.Decl.Body, func(z ast.Node) bool {
					ifs, ok := z.(*ast.IfStmt)
					if !ok {
						return true
					}
					if ifs.Pos() <= as.Pos() && as.End() <= ifs.End() && !(ifs.Cond.Pos() <= as.Pos() && as.End() <= ifs.Cond.End()) {
						// only ifs whose branches are small value selections, not the function's big guards
						if ifs.End()-ifs.Pos() < 200 {
							visit(ifs.Cond, depth+1)
						}
					}
					return true
				})
			}
			return true
		})
	}
	visit(e, 0)
	return sb.String()
}
