package main

import (
	"go/ast"
	"go/token"
	"go/types"
	"strings"

	"golang.org/x/tools/go/cfg"
)

func init() {
	register(&Property{
		ID:    "C04",
		Run:   runC04,
		Floor: 8,
		Assumptions: []string{
			"a 4096-byte WriteAt is not itself torn (the property's crash points are between write calls)",
		},
		NotDecided: "whether every subset of page writes of a flush followed by a crash is repaired by redo (depends on which pages reached the disk: runtime state). Reading suggests a flushed left half of a split with an unflushed right half is NOT repaired; no static argument in reach shows or refutes it. Only the structural preconditions of the recovery argument are decided.",
	})
}

func runC04(c *Ctx) {
	defer ruleValidLenAfterBody(c, "C04.23")
	c.Rule("C04.1", "the data file is written only by (*os.File).WriteAt calls that sit inside the exclusive section of the flush (or are reached only from it / from CREATE DATABASE before the database exists): the only torn state a crash can leave is a torn flush")
	checkDataFileWrites(c, "C04.1")
	c04FlushOrder(c, "C04.2")
	c04PageLSN(c, "C04.3")
	c02RecoveryEnds(c, "C04.4")
	c02RedoGuard(c, "C04.5")
	c02RecordDescribes(c, "C04.6")
	c02FreshLSN(c, "C04.7")
	c11Allocator(c, "C04.9")
	ruleStampHasRecord(c, "C04.10")
	ruleListIterationStable(c, "C04.11")
	ruleReplaySkipsOnlyOnPageLSN(c, "C04.12")
	ruleRecoveryVisitsAll(c, "C04.13")
	ruleFlushLoopComplete(c, "C04.14")
	ruleLogNeverShrinks(c, "C04.15")
	ruleReplayUnconditional(c, "C04.16")
	ruleMultiPageRedo(c, "C04.17")
	c02DoRedo(c, "C04.18")
	c11MarkDirty(c, "C04.19")
	ruleWholePageWrite(c, "C04.20")
	ruleNoLoopVarCapture(c, "C04.22", "storage", "engine")
	ruleAppendedPageDirty(c, "C04.21")
	// the log append of a statement is in the same bracket as its page changes (otherwise the timer
	// flush can write an unlogged change and its LSN to the data file)
	sub := NewCtx("C04", c.W)
	runC13(sub)
	c.Rule("C04.8", sub.Rules["C13.2"])
	for _, o := range sub.Obs {
		if o.Rule == "C13.2" {
			o.Rule = "C04.8"
			c.Obs = append(c.Obs, o)
		}
	}
}

// errSucc returns the successor block taken when the error bound to call's last result is non-nil.
func errSucc(f *Func, g *Graph, body ast.Node, call *ast.CallExpr) *cfg.Block {
	sig, _ := f.TypeOf(call.Fun).(*types.Signature)
	if sig == nil || sig.Results().Len() == 0 {
		return nil
	}
	obj := f.resultVar(body, call, sig.Results().Len()-1)
	if obj == nil {
		return nil
	}
	loc, ok := g.Locate(call)
	if !ok {
		return nil
	}
	var out *cfg.Block
	g.Forward(&loc, nil, func(n ast.Node, at Loc) Verdict {
		if e, isExpr := n.(ast.Expr); isExpr {
			if o, neq, isErr := f.errTest(e); isErr && o == obj && len(at.B.Succs) == 2 && at.I == len(at.B.Nodes)-1 {
				if neq {
					out = at.B.Succs[0]
				} else {
					out = at.B.Succs[1]
				}
				return Hit
			}
		}
		return Go
	}, nil)
	return out
}

func c04FlushOrder(c *Ctx, rule string) {
	c.Rule(rule, "in the flush: the header is written (save) only after the page loop and no page write can follow it; every success return passes through save; a page is marked clean only after its own write succeeded; the loop skips exactly the pages that are not dirty; page-write errors are not dropped")
	f := c.NeedFunc(rule, "storage.(*fileStore).flushPages")
	if f == nil {
		return
	}
	g := f.Graph()
	body := &Body{F: f, Node: f.Decl.Body}
	saves := f.Calls(f.Decl.Body, false, "storage.fileStore.save")
	updates := f.Calls(f.Decl.Body, false, "storage.fileStore.update", "storage.*.update")
	cleans := f.Calls(f.Decl.Body, false, "storage.btreeNode.markClean")
	if len(updates) == 0 {
		c.Fail(rule, f.Name+"|page-write", f.Decl.Pos(), "the flush writes no page (no call to fileStore.update)")
		return
	}
	// header after pages
	key := f.Name + "|header-after-pages"
	if len(saves) == 0 {
		c.Fail(rule, key, f.Decl.Pos(), "the flush never writes the file header: row-id, LSN and free-offset counters are lost at restart")
	}
	for _, s := range saves {
		loc, _ := g.Locate(s)
		after, _ := g.Forward(&loc, nil, func(n ast.Node, at Loc) Verdict {
			for _, u := range updates {
				if n.Pos() <= u.Pos() && u.End() <= n.End() {
					return Hit
				}
			}
			return Go
		}, nil)
		inLoop := enclosingLoop(f.Decl.Body, s) != nil
		if after || inLoop {
			c.Fail(rule, key, s.Pos(), "a page write can follow the header write: a crash in between leaves a header (free offset, counters, catalog root) that names pages not yet on disk")
		} else {
			c.OK(rule, key, s.Pos(), 1, "no page write is reachable after save()")
		}
	}
	// every success return passes save
	key = f.Name + "|success-implies-header"
	miss, _ := g.Forward(nil, g.SuccessEdges, func(n ast.Node, at Loc) Verdict {
		for _, s := range saves {
			if n.Pos() <= s.Pos() && s.End() <= n.End() {
				return Cut
			}
		}
		if r, ok := n.(*ast.ReturnStmt); ok {
			if g.ReturnMayBeNil(r) {
				return Hit
			}
			return Cut // an error return ends the path
		}
		return Go
	}, func(b *cfg.Block) Verdict { return Hit })
	c.Check(!miss && len(saves) > 0, rule, key, f.Decl.Pos(), "every success return of the flush has written the header", "the flush can return success without writing the header")
	for _, s := range saves {
		if ok, how := f.errHandled(body, s); !ok {
			c.Fail(rule, f.Name+"|header-error", s.Pos(), "the error of the header write is dropped (%s)", how)
		} else {
			c.OK(rule, f.Name+"|header-error", s.Pos(), 1, "header write error %s", how)
		}
	}
	// page write error + markClean after success
	for i, u := range updates {
		key := f.Name + "|page-write-error#" + itoa(i+1)
		if ok, how := f.errHandled(body, u); ok {
			c.OK(rule, key, u.Pos(), 1, "page write error %s", how)
		} else {
			c.Fail(rule, key, u.Pos(), "the error of a page write is dropped (%s): the page would be marked clean although it is not on disk", how)
		}
	}
	if len(cleans) == 0 {
		c.Note("%s: flushPages never marks pages clean (pages are rewritten by every flush; eviction never possible)", rule)
	}
	for i, mc := range cleans {
		key := f.Name + "|clean-after-write#" + itoa(i+1)
		mloc, _ := g.Locate(mc)
		recv := exprKey(mc.Fun.(*ast.SelectorExpr).X)
		var wr *ast.CallExpr
		for _, u := range updates {
			if len(u.Args) == 1 && exprKey(u.Args[0]) == recv {
				wr = u
			}
		}
		if wr == nil {
			c.Fail(rule, key, mc.Pos(), "%s is marked clean but no write of that same page precedes it", recv)
			continue
		}
		wloc, _ := g.Locate(wr)
		if !g.Dominates(wloc, mloc) {
			c.Fail(rule, key, mc.Pos(), "markClean is reachable without the page having been written")
			continue
		}
		// not reachable through the error edge of the write
		if es := errSucc(f, g, f.Decl.Body, wr); es != nil {
			viaErr := false
			start := Loc{es, -1}
			g.Forward(&start, func(b *cfg.Block, si int) bool {
				k := b.Succs[si].Kind
				return k != cfg.KindRangeLoop && k != cfg.KindForLoop && k != cfg.KindForPost
			}, func(n ast.Node, at Loc) Verdict {
				if at == mloc {
					viaErr = true
					return Hit
				}
				return Go
			}, nil)
			if viaErr {
				c.Fail(rule, key, mc.Pos(), "markClean is reachable on the path where the page write failed")
				continue
			}
		}
		c.OK(rule, key, mc.Pos(), 2, "markClean(%s) is dominated by the successful write of %s", recv, recv)
	}
	// dirty test polarity
	key = f.Name + "|skip-only-clean"
	found := false
	inspectBody(f.Decl.Body, func(n ast.Node) bool {
		ifs, ok := n.(*ast.IfStmt)
		if !ok {
			return true
		}
		cond := ast.Unparen(ifs.Cond)
		neg := false
		if u, ok := cond.(*ast.UnaryExpr); ok && u.Op == token.NOT {
			neg = true
			cond = ast.Unparen(u.X)
		}
		isDirtyTest := false
		if call, ok := cond.(*ast.CallExpr); ok && f.CallIs(call, "storage.btreeNode.isDirty") {
			isDirtyTest = true
		}
		if sel, ok := cond.(*ast.SelectorExpr); ok {
			if v := fieldVar(f, sel); v != nil && v.Name() == "dirty" {
				isDirtyTest = true
			}
		}
		if !isDirtyTest {
			return true
		}
		found = true
		// where is the write relative to this test?
		writeInThen := false
		for _, u := range updates {
			if ifs.Body.Pos() <= u.Pos() && u.End() <= ifs.Body.End() {
				writeInThen = true
			}
		}
		skipThen := endsWithContinue(ifs.Body)
		// two-phase flush: the then-branch (or the code after a negative skip) collects the page into a
		// slice that a later loop containing the write ranges over
		collects := func(region ast.Node) bool {
			hit := false
			ast.Inspect(region, func(y ast.Node) bool {
				as, ok := y.(*ast.AssignStmt)
				if !ok || len(as.Lhs) != 1 {
					return true
				}
				id, ok := as.Lhs[0].(*ast.Ident)
				if !ok {
					return true
				}
				if _, self := f.isSelfAppend(as, f.ObjOf(id)); !self {
					return true
				}
				inspectBody(f.Decl.Body, func(z ast.Node) bool {
					var loopBody *ast.BlockStmt
					switch l := z.(type) {
					case *ast.RangeStmt:
						if rid, ok := ast.Unparen(l.X).(*ast.Ident); ok && f.ObjOf(rid) == f.ObjOf(id) {
							loopBody = l.Body
						}
					case *ast.ForStmt:
						// `for i := 0; i < len(S); i++`
						if l.Cond != nil && strings.Contains(exprKey(l.Cond), "<len("+id.Name+")") {
							loopBody = l.Body
						}
					}
					if loopBody == nil || z.Pos() < ifs.End() {
						return true
					}
					for _, u := range updates {
						if loopBody.Pos() <= u.Pos() && u.End() <= loopBody.End() {
							hit = true
						}
					}
					return true
				})
				return true
			})
			return hit
		}
		var afterSkip ast.Node
		if loop := enclosingLoop(f.Decl.Body, ifs); loop != nil {
			afterSkip = loop
		}
		switch {
		case neg && skipThen && !writeInThen, !neg && writeInThen:
			c.OK(rule, key, ifs.Pos(), 1, "a page is skipped iff it is not dirty")
		case !neg && !skipThen && collects(ifs.Body):
			c.OK(rule, key, ifs.Pos(), 2, "dirty pages are collected and the collection is written by a later loop")
		case neg && skipThen && afterSkip != nil && collects(afterSkip):
			c.OK(rule, key, ifs.Pos(), 2, "clean pages are skipped, the others are collected and written by a later loop")
		case neg && writeInThen, !neg && skipThen && !writeInThen:
			c.Fail(rule, key, ifs.Pos(), "the dirty test is inverted: dirty pages are skipped (never written) or only clean pages are rewritten")
		default:
			c.Undecided(rule, key, "a dirty test in the flush whose relation to the page write is not recognised")
		}
		return true
	})
	if !found {
		c.Note("%s: flushPages has no dirty test (it writes every cached page); nothing to check for polarity", rule)
	}
	// exclusive lock held for the whole body is C13.3/C04.1
}

func c04PageLSN(c *Ctx, rule string) {
	c.Rule(rule, "each page image carries the LSN of its last change: both encoders write lastLSN, and outside the decoders lastLSN and dirty are stored only by markDirty/markClean; markDirty stores its argument into lastLSN and sets dirty")
	w := c.W
	st := w.Pkgs["storage"]
	for _, enc := range []string{"storage.(*btreeNode).encodeLeaf", "storage.(*btreeNode).encodeInternal"} {
		f := c.NeedFunc(rule, enc)
		if f == nil {
			continue
		}
		items, probs := Grammar(f, true, nil)
		has := false
		var walk func(is []Item)
		walk = func(is []Item) {
			for _, it := range is {
				if it.Field != nil && it.Field.Name() == "lastLSN" {
					has = true
				}
				walk(it.Body)
			}
		}
		walk(items)
		key := enc + "|writes-lastLSN"
		if len(probs) > 0 {
			c.Undecided(rule, key, "%v", probs)
			continue
		}
		c.Check(has, rule, key, f.Decl.Pos(), "page image contains lastLSN", "the page image does not contain lastLSN: replay cannot tell which records a flushed page already includes")
	}
	allowed := map[string]bool{"storage.(*btreeNode).markDirty": true, "storage.(*btreeNode).markClean": true, "storage.(*btreeNode).decodeLeaf": true, "storage.(*btreeNode).decodeInternal": true}
	n := 0
	for _, name := range w.SortedFuncNames() {
		f := w.Funcs[name]
		if f.Pkg != st {
			continue
		}
		ast.Inspect(f.Decl.Body, func(x ast.Node) bool {
			var targets []ast.Expr
			switch y := x.(type) {
			case *ast.AssignStmt:
				targets = y.Lhs
			case *ast.IncDecStmt:
				targets = []ast.Expr{y.X}
			case *ast.UnaryExpr:
				if y.Op == token.AND {
					targets = []ast.Expr{y.X}
				}
			}
			for _, t := range targets {
				sel, ok := ast.Unparen(t).(*ast.SelectorExpr)
				if !ok {
					continue
				}
				v := fieldVar(f, sel)
				if v == nil || (v.Name() != "lastLSN" && v.Name() != "dirty") {
					continue
				}
				if name, isNode := w.Locks().sharedFld[v]; !isNode || !strings.HasPrefix(name, "btreeNode.") {
					continue
				}
				n++
				key := f.Name + "|store|" + v.Name()
				if allowed[f.Name] {
					c.OK(rule, key, sel.Pos(), 1, "store in an owner function")
				} else {
					c.FailConfined(rule, key, sel.Pos(), "%s is stored outside markDirty/markClean/decode: a page can change without carrying the LSN of the change (or be marked clean without a write)", v.Name())
				}
			}
			return true
		})
	}
	if md := c.NeedFunc(rule, "storage.(*btreeNode).markDirty"); md != nil {
		okLSN, okDirty := false, false
		var param types.Object
		if ps := md.Decl.Type.Params.List; len(ps) == 1 && len(ps[0].Names) == 1 {
			param = md.ObjOf(ps[0].Names[0])
		}
		inspectBody(md.Decl.Body, func(x ast.Node) bool {
			if as, ok := x.(*ast.AssignStmt); ok && len(as.Lhs) == 1 && len(as.Rhs) == 1 {
				if sel, ok := ast.Unparen(as.Lhs[0]).(*ast.SelectorExpr); ok {
					if v := fieldVar(md, sel); v != nil {
						if v.Name() == "lastLSN" {
							if id, ok := ast.Unparen(as.Rhs[0]).(*ast.Ident); ok && md.ObjOf(id) == param {
								okLSN = true
							}
						}
						if v.Name() == "dirty" {
							if cv := md.constOf(as.Rhs[0]); cv != nil && cv.String() == "true" {
								okDirty = true
							}
						}
					}
				}
			}
			return true
		})
		c.Check(okLSN && okDirty, rule, md.Name+"|sets-lsn-and-dirty", md.Decl.Pos(), "markDirty stores its argument into lastLSN and sets dirty", "markDirty no longer records the LSN and the dirty flag together")
		// the stamp is the LSN of the LAST change: the store happens on every path through markDirty
		if okLSN {
			g := md.Graph()
			isStamp := func(x ast.Node) bool {
				hit := false
				ast.Inspect(x, func(y ast.Node) bool {
					if as, ok := y.(*ast.AssignStmt); ok && len(as.Lhs) == 1 {
						if sel, ok := ast.Unparen(as.Lhs[0]).(*ast.SelectorExpr); ok {
							if v := fieldVar(md, sel); v != nil && v.Name() == "lastLSN" {
								hit = true
							}
						}
					}
					return !hit
				})
				return hit
			}
			skip, _ := g.Forward(nil, nil, func(nn ast.Node, at Loc) Verdict {
				if isStamp(nn) {
					return Cut
				}
				if _, ok := nn.(*ast.ReturnStmt); ok {
					return Hit
				}
				return Go
			}, func(b *cfg.Block) Verdict { return Hit })
			c.Check(!skip, rule, md.Name+"|stamps-on-every-path", md.Decl.Pos(), "every path through markDirty stores the LSN", "markDirty can return without storing the LSN of this change: the page keeps an older LSN although it contains a newer change, and replay re-applies (or, for a page that stopped being the root, mis-orders) records the page already holds")
		}
	}
	if n == 0 {
		c.Undecided(rule, "subjects", "no store to lastLSN/dirty found")
	}
}
