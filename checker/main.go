// mkdbcheck decides structural necessary conditions of the mkdb properties
// C01..C20 by static analysis of /repo's current working tree (DESIGN.md).
//
//	mkdbcheck -property C02 -tier quick|thorough
//	mkdbcheck -replay /verif/replay/C02/<file>.json
//	mkdbcheck -property all            (every implemented property, one load)
package main

import (
	"encoding/json"
	"flag"
	"fmt"
	"os"
	"os/exec"
	"path/filepath"
	"sort"
	"strconv"
	"strings"
	"time"
)

type Property struct {
	ID          string
	Run         func(c *Ctx)
	Assumptions []string
	NotDecided  string
	Floor       int // minimum number of obligations the rules must produce on a tree where they apply
}

var registry = map[string]*Property{}

func register(p *Property) { registry[p.ID] = p }

func main() {
	prop := flag.String("property", "", "property id (C01..C20) or 'all'")
	tier := flag.String("tier", "quick", "quick or thorough")
	dir := flag.String("dir", "/repo", "mkdb working tree to analyse")
	verif := flag.String("verif", "/verif", "verification directory (evidence, replay, known findings)")
	replay := flag.String("replay", "", "replay file: re-evaluate that obligation on the current tree")
	list := flag.Bool("list", false, "print every obligation")
	noEvidence := flag.Bool("no-evidence", false, "do not write evidence/replay files (used for seeded variants)")
	rulesDump := flag.Bool("rules", false, "print the rules of each property (markdown) and exit")
	selftest := flag.Bool("selftest", false, "run the sensitivity catalogue of the property and print the outcomes")
	patch := flag.String("patch", "", "analyse a scratch copy of -dir with this diff applied (never writes evidence)")
	flag.Parse()
	if *patch != "" {
		tmp, err := patchedCopy(*dir, *patch)
		if err != nil {
			fmt.Fprintln(os.Stderr, "patch:", err)
			osExit(2)
		}
		*dir = tmp
		*noEvidence = true
		defer os.RemoveAll(tmp)
		realExit := osExit
		osExit = func(c int) { os.RemoveAll(tmp); realExit(c) }
	}

	if env := os.Getenv("VERIF_TIER"); env != "" && (env == "quick" || env == "thorough") {
		// the manifest commands pass -tier explicitly; VERIF_TIER only fills a missing flag
		set := false
		flag.Visit(func(f *flag.Flag) {
			if f.Name == "tier" {
				set = true
			}
		})
		if !set {
			*tier = env
		}
	}
	seed := 0
	if s := os.Getenv("VERIF_SEED"); s != "" {
		seed, _ = strconv.Atoi(s)
	}

	if *replay != "" {
		osExit(doReplay(*replay, *dir, *verif))
	}
	if *prop == "" {
		fmt.Fprintln(os.Stderr, "usage: mkdbcheck -property <id|all> [-tier quick|thorough]")
		osExit(2)
	}
	var ids []string
	if *prop == "all" {
		for id := range registry {
			ids = append(ids, id)
		}
		sort.Strings(ids)
	} else {
		if registry[*prop] == nil {
			fmt.Fprintf(os.Stderr, "property %s is not implemented by this checker\n", *prop)
			osExit(2)
		}
		ids = []string{*prop}
	}

	if *rulesDump {
		w, err := Load(LoadOpts{Dir: *dir})
		if err != nil {
			fmt.Fprintln(os.Stderr, err)
			osExit(2)
		}
		for _, id := range ids {
			p := registry[id]
			c := NewCtx(id, w)
			p.Run(c)
			nOK, nKF := 0, 0
			for _, o := range c.Obs {
				if o.Status == Discharged {
					nOK++
				} else if o.Status == Violated {
					nKF++
				}
			}
			fmt.Printf("### %s\n\n", id)
			for _, t := range c.RuleTexts() {
				i := strings.Index(t, ": ")
				fmt.Printf("* **%s** %s\n", t[:i], t[i+2:])
			}
			fmt.Printf("\nObligations on the current tree: %d (%d discharged, %d reported and recorded as known findings). Not decided: %s\n", len(c.Obs), nOK, nKF, p.NotDecided)
			if len(p.Assumptions) > 0 {
				fmt.Printf("Assumptions: %s\n", strings.Join(p.Assumptions, "; "))
			}
			fmt.Println()
		}
		osExit(0)
	}
	if *selftest {
		bad := 0
		for _, id := range ids {
			for _, r := range append(runSensitivity(registry[id], *dir, *verif), runPatchSeeds(registry[id], *dir, *verif)...) {
				fmt.Printf("%s seed %-40s %-11s %s\n", id, r.Name, r.Outcome, r.Detail)
				if r.Outcome != "caught" && r.Outcome != "quiet" {
					bad++
				}
			}
		}
		if bad > 0 {
			osExit(3)
		}
		osExit(0)
	}
	known, err := loadKnown(filepath.Join(*verif, "known_findings.jsonl"))
	if err != nil {
		fmt.Fprintln(os.Stderr, err)
		osExit(2)
	}

	exit := 0
	for _, id := range ids {
		code := runProperty(registry[id], *tier, *dir, *verif, known, seed, *list, !*noEvidence)
		if code == 1 || (code == 2 && exit == 0) {
			exit = code
		}
	}
	osExit(exit)
}

var osExit = os.Exit

// patchedCopy copies the Go module at dir (without .git) to a temporary
// directory and applies the diff there.
func patchedCopy(dir, patch string) (string, error) {
	tmp, err := os.MkdirTemp("", "mkdbcheck-variant-")
	if err != nil {
		return "", err
	}
	abs, _ := filepath.Abs(patch)
	cmd := exec.Command("sh", "-c", "cd \"$1\" && tar --exclude=.git --exclude=data -cf - . | tar -xf - -C \"$2\" && cd \"$2\" && git apply --whitespace=nowarn \"$3\"", "sh", dir, tmp, abs)
	if out, err := cmd.CombinedOutput(); err != nil {
		os.RemoveAll(tmp)
		return "", fmt.Errorf("%v: %s", err, out)
	}
	return tmp, nil
}

type configRun struct {
	opts LoadOpts
	name string
}

func configsFor(tier, dir string) []configRun {
	cs := []configRun{{LoadOpts{Dir: dir}, "default"}}
	if tier == "thorough" {
		cs = append(cs,
			configRun{LoadOpts{Dir: dir, Env: []string{"GOARCH=386"}}, "GOARCH=386"},
			configRun{LoadOpts{Dir: dir, Tags: "verif"}, "tags=verif"},
		)
	}
	return cs
}

func runProperty(p *Property, tier, dir, verif string, known []KnownFinding, seed int, list, writeFiles bool) int {
	t0 := time.Now()
	var all []*Ctx
	total := Result{}
	var lines []string
	loadFailed := ""
	for _, cr := range configsFor(tier, dir) {
		w, err := Load(cr.opts)
		if err != nil {
			loadFailed = fmt.Sprintf("config %s: %v", cr.name, err)
			break
		}
		c := NewCtx(p.ID, w)
		func() {
			defer func() {
				if r := recover(); r != nil {
					if os.Getenv("MKDBCHECK_DEBUG") != "" {
						panic(r)
					}
					c.Undecided("internal", "panic", "checker panicked: %v", r)
				}
			}()
			p.Run(c)
		}()
		if len(c.Obs) < p.Floor {
			c.Undecided("floor", "obligations", "only %d obligations produced, floor is %d: a rule lost its subjects", len(c.Obs), p.Floor)
		}
		res := c.Finish(verif, known, writeFiles)
		total.Violations += res.Violations
		total.Known += res.Known
		total.Undecided += res.Undecided
		for _, l := range res.Lines {
			if cr.name != "default" && !strings.HasPrefix(l, "VIOLATION") && !strings.HasPrefix(l, "KNOWN-FINDING") {
				l = "[" + cr.name + "] " + l
			}
			lines = append(lines, l)
		}
		all = append(all, c)
	}
	// the same finding in several configurations is printed once
	seen := map[string]bool{}
	for _, l := range lines {
		if seen[l] {
			continue
		}
		seen[l] = true
		fmt.Println(l)
	}
	if loadFailed != "" {
		fmt.Printf("UNDECIDED property=%s load: %s\n", p.ID, loadFailed)
		total.Undecided++
	}

	extra := map[string]any{}
	if tier == "thorough" && loadFailed == "" {
		sens := runSensitivity(p, dir, verif)
		sens = append(sens, runPatchSeeds(p, dir, verif)...)
		extra["sensitivity"] = sens
		tally := map[string]int{}
		for _, s := range sens {
			tally[s.Outcome]++
			if s.Outcome == "missed" || s.Outcome == "false-alarm" {
				fmt.Printf("CHECKER-SELFTEST property=%s seed %q: %s (%s)\n", p.ID, s.Name, s.Outcome, s.Detail)
			}
		}
		extra["sensitivity_tally"] = tally
		fmt.Printf("%s checker self-test: %v\n", p.ID, tally)
	}

	if list {
		for _, c := range all {
			for _, o := range c.Obs {
				fmt.Printf("  [%s] %-11s %s %s  %s — %s\n", c.W.Config, o.Status, o.Rule, o.Key, o.At, o.Detail)
			}
			for _, n := range c.Notes {
				fmt.Printf("  note: %s\n", n)
			}
		}
	}
	if writeFiles {
		writeEvidence(p, tier, seed, verif, all, total, time.Since(t0).Seconds(), extra, loadFailed)
	}
	status := "HOLDS"
	code := 0
	switch {
	case total.Violations > 0:
		status, code = "VIOLATED", 1
	case total.Undecided > 0:
		status, code = "UNDECIDED", 2
	}
	nob, ndis := 0, 0
	for _, c := range all {
		for _, o := range c.Obs {
			nob++
			if o.Status == Discharged {
				ndis++
			}
		}
	}
	fmt.Printf("%s %s tier=%s obligations=%d discharged=%d known-findings=%d violations=%d undecided=%d (%.1fs)\n",
		p.ID, status, tier, nob, ndis, total.Known, total.Violations, total.Undecided, time.Since(t0).Seconds())
	return code
}

func writeEvidence(p *Property, tier string, seed int, verif string, all []*Ctx, total Result, wall float64, extra map[string]any, loadFailed string) {
	nob, ndis, nontrivial, examined := 0, 0, 0, 0
	distinct := map[string]bool{}
	var samples []any
	var rules []string
	var notes []string
	var configs []string
	funcs, pkgs := 0, 0
	for i, c := range all {
		configs = append(configs, c.W.Config)
		if i == 0 {
			rules = c.RuleTexts()
			funcs = len(c.W.Funcs)
			pkgs = len(c.W.Pkgs)
			notes = c.Notes
		}
		for _, o := range c.Obs {
			nob++
			examined += o.Checked
			if o.Status == Discharged {
				ndis++
			}
			k := o.Rule + "|" + o.Key
			if o.Checked > 0 && !distinct[k] {
				distinct[k] = true
				nontrivial++
			}
			if i == 0 {
				samples = append(samples, o)
			}
		}
	}
	cov := map[string]any{
		"explanation": "Static analysis of /repo's working tree (go/packages type-checked syntax, go/cfg control-flow graphs with dominators, go/ssa + CHA call graph where a value or reachability must be identified). Each rule below is a structural NECESSARY condition of the property: if it is violated some input/schedule/crash point breaks the behaviour; if all hold the behaviour is not thereby proven. Rules applied: " + strings.Join(rules, " || ") + ". NOT decided: " + p.NotDecided,
		"obligations":         nob,
		"discharged":          ndis,
		"evaluations":         nob,
		"distinct_nontrivial": nontrivial,
		"rule":                "one obligation per (rule, subject construct) found in the current source; non-trivial = the subject exists and deciding it examined at least one path, call site or table row; distinct = distinct (rule,key) pairs across build configurations",
		"samples":             samples,
		"paths_or_sites_examined": examined,
		"packages_analysed":   pkgs,
		"functions_analysed":  funcs,
		"build_configurations": configs,
		"known_findings_matched": total.Known,
		"undecided":           total.Undecided,
		"advisory_notes":      notes,
		"exhaustive":          false,
	}
	if loadFailed != "" {
		cov["load_error"] = loadFailed
	}
	for k, v := range extra {
		cov[k] = v
	}
	ev := map[string]any{
		"property_id": p.ID,
		"tier":        tier,
		"seed":        seed,
		"level":       "other",
		"coverage":    cov,
		"assumptions": append([]string{"the Go type checker and go/cfg, go/ssa of golang.org/x/tools v0.29.0 model the program faithfully", "_test.go files are not part of the shipped program and are not analysed"}, p.Assumptions...),
		"wall_s":      wall,
		"violations":  total.Violations,
	}
	data, _ := json.MarshalIndent(ev, "", " ")
	os.MkdirAll(filepath.Join(verif, "evidence"), 0o755)
	os.WriteFile(filepath.Join(verif, "evidence", p.ID+".json"), append(data, '\n'), 0o644)
}

func doReplay(path, dir, verif string) int {
	data, err := os.ReadFile(path)
	if err != nil {
		fmt.Fprintln(os.Stderr, err)
		return 2
	}
	var r struct {
		Property, Rule, Key, At, Diagnosis string
		RuleText                           string `json:"rule_text"`
	}
	if err := json.Unmarshal(data, &r); err != nil {
		fmt.Fprintln(os.Stderr, err)
		return 2
	}
	p := registry[r.Property]
	if p == nil {
		fmt.Fprintln(os.Stderr, "unknown property in replay file")
		return 2
	}
	w, err := Load(LoadOpts{Dir: dir})
	if err != nil {
		fmt.Println("UNDECIDED load:", err)
		return 2
	}
	c := NewCtx(p.ID, w)
	p.Run(c)
	fmt.Printf("replay of %s %s %s\nrule: %s\nrecorded: at %s: %s\n", r.Property, r.Rule, r.Key, r.RuleText, r.At, r.Diagnosis)
	for _, o := range c.Obs {
		if o.Rule == r.Rule && o.Key == r.Key {
			fmt.Printf("current tree: %s at %s: %s\n", o.Status, o.At, o.Detail)
			if o.Status == Violated {
				fmt.Printf("VIOLATION property=%s replay=%s\n", r.Property, path)
				return 1
			}
			return 0
		}
	}
	fmt.Println("current tree: the obligation no longer exists (subject construct removed or renamed)")
	return 0
}
