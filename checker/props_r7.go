package main

// Rules added after the seventh campaign of seeded changes.

import (
	"fmt"
	"go/ast"
	"go/constant"
	"go/token"
	"go/types"
	"sort"
	"strings"

	"golang.org/x/tools/go/cfg"
)

// ---- value-kind totality -------------------------------------------------------------------------------------------
//
// A column value is nil (NULL), an int64, a string or a bool. A type switch over such a value that has arms for some
// of these kinds must account for all of them: an arm, or a no-match path that fails at once (a default that returns
// an error or panics, or — without a default — an error return as the first thing after the switch). A kind that
// silently matches nothing is compared as "equal", grouped as "the same", or sorted as "not less".

func valueKindSwitches(f *Func) []*ast.TypeSwitchStmt {
	var out []*ast.TypeSwitchStmt
	ast.Inspect(f.Decl.Body, func(x ast.Node) bool {
		sw, ok := x.(*ast.TypeSwitchStmt)
		if !ok {
			return true
		}
		var tag ast.Expr
		switch a := sw.Assign.(type) {
		case *ast.AssignStmt:
			if len(a.Rhs) == 1 {
				if ta, ok := ast.Unparen(a.Rhs[0]).(*ast.TypeAssertExpr); ok {
					tag = ta.X
				}
			}
		case *ast.ExprStmt:
			if ta, ok := ast.Unparen(a.X).(*ast.TypeAssertExpr); ok {
				tag = ta.X
			}
		}
		if tag == nil {
			return true
		}
		it, ok := f.TypeOf(tag).Underlying().(*types.Interface)
		if !ok || it.NumMethods() != 0 {
			return true
		}
		basic := false
		for _, s := range sw.Body.List {
			for _, e := range s.(*ast.CaseClause).List {
				if t := f.TypeOf(e); t != nil {
					if b, ok := t.(*types.Basic); ok && (b.Kind() == types.Int64 || b.Kind() == types.String || b.Kind() == types.Bool) {
						basic = true
					}
				}
			}
		}
		if basic {
			out = append(out, sw)
		}
		return true
	})
	return out
}

// failsAtOnce: the statement list begins with something that ends the function with an error (or a panic).
func failsAtOnce(f *Func, list []ast.Stmt) (bool, bool) { // (fails, decided)
	for i, st := range list {
		switch s := st.(type) {
		case *ast.EmptyStmt:
			continue
		case *ast.ReturnStmt:
			if len(s.Results) == 0 {
				return false, true
			}
			last := ast.Unparen(s.Results[len(s.Results)-1])
			if !isErrorType(f.TypeOf(last)) {
				return false, true
			}
			if isNilIdent(f, last) {
				return false, true
			}
			if call, ok := last.(*ast.CallExpr); ok {
				_ = call
				return true, true // fmt.Errorf / errors.New / a constructor of the repository
			}
			if id, ok := last.(*ast.Ident); ok {
				if v, ok := f.ObjOf(id).(*types.Var); ok && v.Pkg() != nil && v.Parent() == v.Pkg().Scope() {
					return true, true // a sentinel
				}
			}
			if sel, ok := last.(*ast.SelectorExpr); ok {
				if v, ok := f.ObjOf(sel.Sel).(*types.Var); ok && !v.IsField() {
					return true, true
				}
			}
			return false, false
		case *ast.ExprStmt:
			if call, ok := s.X.(*ast.CallExpr); ok {
				if id, ok := call.Fun.(*ast.Ident); ok && id.Name == "panic" {
					return true, true
				}
			}
			return false, true
		case *ast.BlockStmt:
			return failsAtOnce(f, append(append([]ast.Stmt{}, s.List...), list[i+1:]...))
		case *ast.AssignStmt:
			// what an inlined `return nil, fmt.Errorf(…)` becomes: an error variable receives a freshly made error
			for j, l := range s.Lhs {
				if j < len(s.Rhs) && len(s.Lhs) == len(s.Rhs) && isErrorType(f.TypeOf(l)) {
					if call, ok := ast.Unparen(s.Rhs[j]).(*ast.CallExpr); ok {
						if fn := f.Callee(call); fn != nil {
							k := calleeKey(fn)
							if k == "fmt.Errorf" || k == "errors.New" || (fn.Pkg() != nil && pkgKey(fn.Pkg().Path()) != "") {
								return true, true
							}
						}
					}
				}
			}
			return false, true
		case *ast.IfStmt:
			// a choice between failures: both ways must fail
			if s.Init != nil {
				return false, true
			}
			rest := list[i+1:]
			thenFails, d1 := failsAtOnce(f, append(append([]ast.Stmt{}, s.Body.List...), rest...))
			var elseList []ast.Stmt
			switch e := s.Else.(type) {
			case *ast.BlockStmt:
				elseList = e.List
			case *ast.IfStmt:
				elseList = []ast.Stmt{e}
			}
			elseFails, d2 := failsAtOnce(f, append(append([]ast.Stmt{}, elseList...), rest...))
			return thenFails && elseFails, d1 && d2
		default:
			return false, true
		}
	}
	return false, true // nothing there: the caller looks further out
}

func ruleValueKindTotality(c *Ctx, rule string, want func(f *Func) bool, floor int) {
	c.Rule(rule, "a type switch over a column value accounts for every kind a value can have — NULL (nil), int64, string, bool: each kind has an arm, or the no-match path fails at once (a default that returns an error or panics; without a default, an error return as the first statement after the switch). A kind that silently matches nothing is treated as equal / the same group / not less than everything else")
	w := c.W
	n := 0
	for _, name := range w.SortedFuncNames() {
		f := w.Funcs[name]
		if !want(f) {
			continue
		}
		for k, sw := range valueKindSwitches(f) {
			n++
			key := f.Name + "|value-switch#" + itoa(k+1)
			have := map[string]bool{}
			var deflt *ast.CaseClause
			for _, s := range sw.Body.List {
				cc := s.(*ast.CaseClause)
				if cc.List == nil {
					deflt = cc
				}
				for _, e := range cc.List {
					if isNilIdent(f, e) {
						have["nil"] = true
					} else if t := f.TypeOf(e); t != nil {
						have[t.String()] = true
						if it, ok := t.Underlying().(*types.Interface); ok && it.NumMethods() == 0 {
							have["nil"], have["int64"], have["string"], have["bool"] = true, true, true, true
						}
					}
				}
			}
			var missing []string
			for _, k := range []string{"nil", "int64", "string", "bool"} {
				if !have[k] {
					missing = append(missing, k)
				}
			}
			if len(missing) == 0 {
				c.OK(rule, key, sw.Pos(), 4, "arms for NULL, int64, string and bool")
				continue
			}
			// the no-match path: the default's body, then whatever follows the switch
			fails, decided := false, true
			if deflt != nil && len(deflt.Body) > 0 {
				fails, decided = failsAtOnce(f, deflt.Body)
				if !fails && decided && !terminates(deflt.Body) {
					// the default can fall out of the switch: what follows the switch decides
					fails, decided = failsAtOnce(f, append(append([]ast.Stmt{}, deflt.Body...), continuationOf(f, sw)...))
				}
			} else {
				fails, decided = noMatchContinuationFails(f, sw)
			}
			sort.Strings(missing)
			switch {
			case !decided:
				c.Undecided(rule, key, "what happens to a value of kind %s is not decided", strings.Join(missing, "/"))
			case fails:
				c.OK(rule, key, sw.Pos(), 4, "kinds without an arm (%s) end in an error at once", strings.Join(missing, ", "))
			default:
				if hs := writtenOutHelpers(f); len(hs) > 0 {
					c.Undecided(rule, key, "a column value of kind %s matches no arm of this type switch, which is part of helper code the rules have never seen (%s, written out at its call sites): what the helper's caller does with its 'no match' answer is not decided", strings.Join(missing, "/"), strings.Join(hs, ", "))
				} else {
					c.Fail(rule, key, sw.Pos(), "a column value of kind %s matches no arm of this type switch and execution simply continues: such values are silently treated alike (compared as equal, put in one group, left unsorted) instead of being handled or refused", strings.Join(missing, "/"))
				}
			}
		}
	}
	if n < floor {
		c.Undecided(rule, "subjects", "only %d type switches over column values found, expected at least %d", n, floor)
	}
}

// noMatchContinuationFails follows the statements that run after sw when no arm matched: the rest of the
// enclosing statement list, and when that list ends inside a case clause of an outer switch, the statements
// after that switch. Reaching the end of a loop body or of the function is not a failure.
func noMatchContinuationFails(f *Func, sw ast.Stmt) (bool, bool) {
	cur := sw
	for depth := 0; depth < 6; depth++ {
		var rest []ast.Stmt
		var parent ast.Node // the statement that owns the list containing cur
		found := false
		var stack []ast.Node
		ast.Inspect(f.Decl.Body, func(x ast.Node) bool {
			if x == nil {
				stack = stack[:len(stack)-1]
				return true
			}
			if found {
				return false
			}
			var list []ast.Stmt
			switch y := x.(type) {
			case *ast.BlockStmt:
				list = y.List
			case *ast.CaseClause:
				list = y.Body
			case *ast.CommClause:
				list = y.Body
			}
			for i, st := range list {
				if st == cur {
					rest = list[i+1:]
					found = true
					// owner: for a block, the statement above it
					parent = x
					if _, isBlock := x.(*ast.BlockStmt); isBlock && len(stack) > 0 {
						parent = stack[len(stack)-1]
					}
				}
			}
			stack = append(stack, x)
			return true
		})
		if !found {
			return false, false
		}
		nonEmpty := false
		for _, st := range rest {
			if _, ok := st.(*ast.EmptyStmt); !ok {
				nonEmpty = true
			}
		}
		if nonEmpty {
			return failsAtOnce(f, rest)
		}
		switch p := parent.(type) {
		case *ast.CaseClause:
			// the clause ends: continue after the switch that owns it
			var owner ast.Stmt
			ast.Inspect(f.Decl.Body, func(x ast.Node) bool {
				switch y := x.(type) {
				case *ast.SwitchStmt:
					for _, s := range y.Body.List {
						if s == ast.Stmt(p) {
							owner = y
						}
					}
				case *ast.TypeSwitchStmt:
					for _, s := range y.Body.List {
						if s == ast.Stmt(p) {
							owner = y
						}
					}
				}
				return owner == nil
			})
			if owner == nil {
				return false, false
			}
			cur = owner
		case *ast.IfStmt:
			cur = p
		case *ast.LabeledStmt:
			cur = p
		case *ast.ForStmt, *ast.RangeStmt:
			return false, true // the loop goes on to its next element
		case *ast.FuncDecl, *ast.FuncLit:
			return false, true
		default:
			if _, isBody := parent.(*ast.BlockStmt); isBody {
				return false, true // the function body ends
			}
			return false, false
		}
	}
	return false, false
}

var _ = token.NoPos

// ---- a page only ever gains cells outside split ------------------------------------------------------------------

func rulePagesOnlyGrow(c *Ctx, rule string) {
	c.Robust(rule)
	c.Rule(rule, "a page only ever gains cells outside split: no function shortens the offset array or a cell array of a node, takes an element out of the middle, or overwrites a cell slot in place (decode builds them, split truncates the offsets it cut off) — deletion is a tombstone, and updateCell, the redo arms and split address cells by their position in these arrays, which is right only while nothing has been taken out or re-used")
	w := c.W
	n, bad := 0, 0
	fields := map[string]bool{"offsets": true, "leafCells": true, "internalCells": true}
	isNodeField := func(f *Func, e ast.Expr) (string, bool) {
		sel, ok := ast.Unparen(e).(*ast.SelectorExpr)
		if !ok || !fields[sel.Sel.Name] {
			return "", false
		}
		v := fieldVar(f, sel)
		if v == nil {
			return "", false
		}
		if name, ok := w.Locks().sharedFld[v]; ok && strings.HasPrefix(name, "btreeNode.") {
			return sel.Sel.Name, true
		}
		return "", false
	}
	for _, name := range w.SortedFuncNames() {
		f := w.Funcs[name]
		if f.Pkg != w.Pkgs["storage"] {
			continue
		}
		short := f.Decl.Name.Name
		builder := strings.HasPrefix(short, "decode") || short == "split"
		k := 0
		ast.Inspect(f.Decl.Body, func(x ast.Node) bool {
			as, ok := x.(*ast.AssignStmt)
			if !ok || len(as.Lhs) != len(as.Rhs) {
				return true
			}
			for i, l := range as.Lhs {
				// element store X.cells[i] = v
				if ix, ok := ast.Unparen(l).(*ast.IndexExpr); ok {
					if fld, ok := isNodeField(f, ix.X); ok && fld != "offsets" {
						n++
						if !builder {
							k++
							bad++
							c.FailConfined(rule, f.Name+"|overwrites-slot#"+itoa(k)+"|"+fld, as.Pos(), "%s overwrites an element of %s in place: a cell slot is re-used, so positions handed out earlier (offsets, log records, updateCell) now name another row", f.Name, fld)
						}
					}
					continue
				}
				fld, ok := isNodeField(f, l)
				if !ok {
					continue
				}
				n++
				if builder {
					continue
				}
				rhs := ast.Unparen(as.Rhs[i])
				shrinks := ""
				switch r := rhs.(type) {
				case *ast.SliceExpr:
					if exprKey(r.X) == exprKey(l) {
						shrinks = "is re-sliced (" + exprKey(rhs) + ")"
					}
				case *ast.CallExpr:
					if id, ok := r.Fun.(*ast.Ident); ok && id.Name == "append" && len(r.Args) == 2 && r.Ellipsis.IsValid() {
						a, ok1 := ast.Unparen(r.Args[0]).(*ast.SliceExpr)
						b, ok2 := ast.Unparen(r.Args[1]).(*ast.SliceExpr)
						if ok1 && ok2 && exprKey(a.X) == exprKey(l) && exprKey(b.X) == exprKey(l) && a.High != nil && b.Low != nil {
							hi, lo := exprKey(a.High), exprKey(b.Low)
							// append(s[:i+1], s[i:]...) opens a gap (grows by one); append(s[:i], s[i+1:]...) closes one
							if !(hi == lo+"+1" || hi == "("+lo+")+1" || hi == "1+"+lo) {
								shrinks = "loses an element (" + exprKey(rhs) + ")"
							}
						}
					}
					if id, ok := r.Fun.(*ast.Ident); ok && (id.Name == "make" || id.Name == "nil") {
						shrinks = "is replaced by a new array (" + exprKey(rhs) + ")"
					}
				case *ast.Ident:
					if r.Name == "nil" {
						shrinks = "is cleared"
					}
				}
				if shrinks != "" {
					k++
					bad++
					c.FailConfined(rule, f.Name+"|shrinks#"+itoa(k)+"|"+fld, as.Pos(), "in %s the %s array of a node %s outside split and decode: a cell is taken out of the page although every other part of the code treats positions in these arrays as stable (a deleted row is a tombstone, not a gap)", f.Name, fld, shrinks)
				}
			}
			return true
		})
	}
	if n < 12 {
		c.Undecided(rule, "subjects", "only %d stores to the cell arrays of a node found, expected at least 12", n)
		return
	}
	if bad == 0 {
		c.OK(rule, "storage|cell-arrays-only-grow", token.NoPos, n, "%d stores to offsets / leafCells / internalCells examined: appends and gap-opening inserts only, truncation only in split", n)
	}
}

// ---- decode puts the i-th cell where the encoder took it from ------------------------------------------------------

func ruleDecodeSlotAgreement(c *Ctx, rule string) {
	c.Rule(rule, "the i-th cell on the page goes back into the slot it was taken from: the encoders write, as i-th cell, cells[offsets[i]]; the decoders store the i-th cell they read at cells[offsets[i]] (or at the slot a range over offsets yields for position i) — storing by the inverse permutation (cells[i] = read[offsets[i]]) is the same thing only while the offsets are their own inverse, which is what every test uses")
	for _, spec := range []struct{ enc, dec, fld string }{
		{"storage.(*btreeNode).encodeLeaf", "storage.(*btreeNode).decodeLeaf", "leafCells"},
		{"storage.(*btreeNode).encodeInternal", "storage.(*btreeNode).decodeInternal", "internalCells"},
	} {
		ef, df := c.NeedFunc(rule, spec.enc), c.NeedFunc(rule, spec.dec)
		if ef == nil || df == nil {
			continue
		}
		// encoder: the cell written in iteration i is cells[offsets[i]]
		key := spec.enc + "|takes|" + spec.fld
		encOK, encSeen := false, false
		ast.Inspect(ef.Decl.Body, func(x ast.Node) bool {
			ix, ok := x.(*ast.IndexExpr)
			if !ok {
				return true
			}
			if sel, ok := ast.Unparen(ix.X).(*ast.SelectorExpr); !ok || sel.Sel.Name != spec.fld {
				return true
			}
			encSeen = true
			if slotOfPosition(ef, ix.Index) != nil || rangesOverOffsets(ef, ix.Index) {
				encOK = true
			}
			return true
		})
		switch {
		case !encSeen:
			c.Undecided(rule, key, "the encoder does not index %s", spec.fld)
		case !encOK:
			c.Fail(rule, key, ef.Decl.Pos(), "the encoder does not write cells[offsets[i]] as the i-th cell")
		default:
			c.OK(rule, key, ef.Decl.Pos(), 1, "i-th cell written is %s[offsets[i]]", spec.fld)
		}
		// decoder: every element store into the cell array
		key = spec.dec + "|puts-back|" + spec.fld
		stores, bad := 0, ""
		ast.Inspect(df.Decl.Body, func(x ast.Node) bool {
			as, ok := x.(*ast.AssignStmt)
			if !ok || len(as.Lhs) != 1 || len(as.Rhs) != 1 {
				return true
			}
			ix, ok := ast.Unparen(as.Lhs[0]).(*ast.IndexExpr)
			if !ok {
				return true
			}
			if sel, ok := ast.Unparen(ix.X).(*ast.SelectorExpr); !ok || sel.Sel.Name != spec.fld {
				return true
			}
			stores++
			pos := slotOfPosition(df, ix.Index) // the position variable i such that the slot is offsets[i]
			if pos == nil {
				bad = "the slot " + exprKey(ix.Index) + " is not offsets[i] for the position i of the cell"
				return true
			}
			// what is stored: the cell read in this iteration, or read[i] with the same i
			switch v := ast.Unparen(as.Rhs[0]).(type) {
			case *ast.IndexExpr:
				id, ok := ast.Unparen(v.Index).(*ast.Ident)
				if !ok || df.ObjOf(id) != pos {
					bad = "the cell stored at offsets[" + pos.Name() + "] is " + exprKey(v) + ", not the " + pos.Name() + "-th cell read"
				}
			case *ast.Ident:
				// a local of the loop body that runs over the positions: fine when that loop's variable is pos
				loop := enclosingLoop(df.Decl.Body, as)
				okLoop := false
				switch l := loop.(type) {
				case *ast.ForStmt:
					if init, ok := l.Init.(*ast.AssignStmt); ok && len(init.Lhs) == 1 {
						if id, ok := init.Lhs[0].(*ast.Ident); ok && df.ObjOf(id) == pos {
							okLoop = true
						}
					}
				case *ast.RangeStmt:
					if id, ok := l.Key.(*ast.Ident); ok && df.ObjOf(id) == pos {
						okLoop = true
					}
				}
				if !okLoop {
					bad = "the cell stored is not the one read at position " + pos.Name()
				}
			}
			return true
		})
		switch {
		case stores == 0:
			c.Undecided(rule, key, "the decoder never stores into %s by slot", spec.fld)
		case bad != "":
			c.Fail(rule, key, df.Decl.Pos(), "%s: a page whose offsets are not their own inverse (keys 2, 3, 1 in one leaf; a separator inserted in front of two others) reads back with keys attached to the wrong cells", bad)
		default:
			c.OK(rule, key, df.Decl.Pos(), stores, "the i-th cell read is stored at %s[offsets[i]]", spec.fld)
		}
	}
}

// slotOfPosition: e denotes offsets[i] — literally, or as the value variable of a range over an offsets array whose
// key is i. Returns the object of i.
func slotOfPosition(f *Func, e ast.Expr) types.Object {
	e = ast.Unparen(f.stripConv(e))
	if ix, ok := e.(*ast.IndexExpr); ok {
		if sel, ok := ast.Unparen(ix.X).(*ast.SelectorExpr); ok && sel.Sel.Name == "offsets" {
			if id, ok := ast.Unparen(f.stripConv(ix.Index)).(*ast.Ident); ok {
				return f.ObjOf(id)
			}
		}
		return nil
	}
	id, ok := e.(*ast.Ident)
	if !ok {
		return nil
	}
	obj := f.ObjOf(id)
	var out types.Object
	ast.Inspect(f.Decl.Body, func(x ast.Node) bool {
		rs, ok := x.(*ast.RangeStmt)
		if !ok {
			return true
		}
		v, ok1 := rs.Value.(*ast.Ident)
		k, ok2 := rs.Key.(*ast.Ident)
		if ok1 && ok2 && f.ObjOf(v) == obj && k.Name != "_" {
			if sel, ok := ast.Unparen(rs.X).(*ast.SelectorExpr); ok && sel.Sel.Name == "offsets" {
				out = f.ObjOf(k)
			}
		}
		return true
	})
	if out != nil {
		return out
	}
	// a local defined as offsets[i]
	if rhs, _, ok := f.definedBy(f.Decl.Body, obj); ok && rhs != nil {
		if _, isIdent := ast.Unparen(rhs).(*ast.Ident); !isIdent {
			return slotOfPosition(f, rhs)
		}
	}
	return nil
}

// ---- UPDATE gives every row the same values -----------------------------------------------------------------------

func ruleUpdateValuesLoopInvariant(c *Ctx, rule string) {
	c.Rule(rule, "every row of an UPDATE is given the same columns and values: the column list and the value list handed to RelationManager.Update inside EvaluateUpdate's row loop are computed before the loop (nothing in them is assigned in the loop or derived from the row) — type and range validation of the values then either refuses the first row, before anything has changed, or no row; values that depend on the row can be refused at row k with rows 1..k-1 already rewritten and unlogged (beyond the recorded size-limit case D9b)")
	f := c.NeedFunc(rule, "engine.EvaluateUpdate")
	if f == nil {
		return
	}
	calls := f.Calls(f.Decl.Body, false, "engine.RelationManager.Update")
	if len(calls) == 0 {
		c.Undecided(rule, f.Name+"|update-call", "no call of RelationManager.Update")
		return
	}
	for i, call := range calls {
		key := f.Name + "|values-invariant#" + itoa(i+1)
		loop := enclosingLoop(f.Decl.Body, call)
		if loop == nil {
			c.Undecided(rule, key, "the Update call is not in a row loop")
			continue
		}
		var body *ast.BlockStmt
		loopVars := map[types.Object]bool{}
		switch l := loop.(type) {
		case *ast.RangeStmt:
			body = l.Body
			for _, e := range []ast.Expr{l.Key, l.Value} {
				if id, ok := e.(*ast.Ident); ok {
					loopVars[f.ObjOf(id)] = true
				}
			}
		case *ast.ForStmt:
			body = l.Body
			if init, ok := l.Init.(*ast.AssignStmt); ok {
				for _, e := range init.Lhs {
					if id, ok := e.(*ast.Ident); ok {
						loopVars[f.ObjOf(id)] = true
					}
				}
			}
		}
		if len(call.Args) < 4 {
			c.Undecided(rule, key, "unexpected argument count")
			continue
		}
		why := ""
		prechecked := false
		for _, a := range call.Args[2:] {
			ast.Inspect(a, func(y ast.Node) bool {
				id, ok := y.(*ast.Ident)
				if !ok {
					return true
				}
				obj := f.ObjOf(id)
				if loopVars[obj] {
					why = exprKey(a) + " is derived from the loop variable " + id.Name
				}
				if v, isVar := obj.(*types.Var); isVar && !v.IsField() {
					for _, as := range f.assignsTo(body, obj) {
						why = exprKey(a) + " is assigned inside the row loop (" + f.Src(as) + ")"
					}
					// declared inside the loop
					if body.Pos() <= v.Pos() && v.Pos() <= body.End() {
						why = exprKey(a) + " is built inside the row loop"
					}
				}
				return true
			})
		}
		// row-dependent values that an earlier pass over the same rows has prepared AND had checked (a call whose
		// error ends the statement) are refused, if at all, before the first row is changed
		if why != "" {
			if rs, ok := loop.(*ast.RangeStmt); ok {
				ast.Inspect(f.Decl.Body, func(y ast.Node) bool {
					pre, ok := y.(*ast.RangeStmt)
					if !ok || pre == rs || pre.End() > rs.Pos() || exprKey(pre.X) != exprKey(rs.X) {
						return true
					}
					checks := false
					ast.Inspect(pre.Body, func(z ast.Node) bool {
						if call2, ok := z.(*ast.CallExpr); ok {
							if fn := f.Callee(call2); fn != nil {
								if sig, ok := fn.Type().(*types.Signature); ok && sig.Recv() != nil && sig.Results().Len() == 1 && isErrorType(sig.Results().At(0).Type()) {
									if _, isIface := sig.Recv().Type().Underlying().(*types.Interface); isIface {
										checks = true
									}
								}
							}
						}
						return true
					})
					if checks {
						why = ""
						prechecked = true
					}
					return true
				})
			}
		}
		if prechecked {
			c.OK(rule, key, call.Pos(), 2, "the per-row values are prepared and checked for every row by an earlier pass over the same rows")
			continue
		}
		if why != "" {
			c.Fail(rule, key, call.Pos(), "the values of an UPDATE depend on the row: %s", why)
		} else {
			c.OK(rule, key, call.Pos(), 2, "column and value lists are computed before the row loop")
		}
	}
}

// ---- the CREATE TABLE pre-check looks at the rows that will be stored ---------------------------------------------

type tupleCtorUse struct {
	ctor     *Func
	fn       *Func
	call     *ast.CallExpr
	perField bool // called in a range over a .Fields collection with the range variable as argument
	uncond   bool // … directly in that loop's body, the loop has no break/continue
}

func tupleCtorUses(w *World, roots []*Func) []tupleCtorUse {
	var out []tupleCtorUse
	seen := map[*Func]bool{}
	for f := range w.CG().Reach(roots...) {
		if seen[f] || f.Pkg != w.Pkgs["storage"] {
			continue
		}
		seen[f] = true
		out = append(out, ctorUsesIn(w, f)...)
	}
	sort.Slice(out, func(i, j int) bool { return out[i].call.Pos() < out[j].call.Pos() })
	return out
}

// ctorUsesIn: the calls of catalog-row constructors (functions returning a Tuple) in the body of f.
func ctorUsesIn(w *World, f *Func) []tupleCtorUse {
	var out []tupleCtorUse
	{
		ast.Inspect(f.Decl.Body, func(x ast.Node) bool {
			call, ok := x.(*ast.CallExpr)
			if !ok {
				return true
			}
			fn := f.Callee(call)
			h := w.FuncOf(fn)
			if h == nil || h.Pkg != f.Pkg {
				return true
			}
			sig := h.Obj.Type().(*types.Signature)
			if sig.Results().Len() != 1 || !namedTypeIs(sig.Results().At(0).Type(), "storage", "Tuple") || sig.Recv() != nil {
				return true
			}
			u := tupleCtorUse{ctor: h, fn: f, call: call}
			if loop, ok := enclosingLoop(f.Decl.Body, call).(*ast.RangeStmt); ok {
				if sel, ok := ast.Unparen(loop.X).(*ast.SelectorExpr); ok && sel.Sel.Name == "Fields" {
					if v, ok := loop.Value.(*ast.Ident); ok {
						for _, a := range call.Args {
							if id, ok := ast.Unparen(a).(*ast.Ident); ok && f.ObjOf(id) == f.ObjOf(v) {
								u.perField = true
							}
						}
					}
					u.uncond = true
					ast.Inspect(loop.Body, func(y ast.Node) bool {
						switch z := y.(type) {
						case *ast.BranchStmt:
							u.uncond = false
						case *ast.IfStmt:
							if z.Pos() <= call.Pos() && call.End() <= z.End() && !(z.Init != nil && z.Init.Pos() <= call.Pos() && call.End() <= z.Init.End()) {
								u.uncond = false // the construction itself is conditional
							}
						}
						return true
					})
				}
			}
			out = append(out, u)
			return true
		})
	}
	sort.Slice(out, func(i, j int) bool { return out[i].call.Pos() < out[j].call.Pos() })
	return out
}

func rulePrecheckSameRows(c *Ctx, rule string) {
	c.Robust(rule)
	c.Rule(rule, "the validation that precedes CREATE TABLE's first catalog insert looks at the very rows the insert path stores: every catalog-row constructor (a function returning a Tuple) the insert path calls is called by the pre-check too, and one that the insert path calls once per column (in a range over the Fields) is called by the pre-check in an unconditional range over the Fields as well — a pre-check that encodes only 'the widest' or 'the first' column misses a column whose row is refused for another reason (an INT field out of range), and the table is left half created")
	w := c.W
	cg := w.CG()
	var f *Func
	for _, name := range []string{"storage.(*RelationService).createTable", "storage.(*RelationService).CreateTable"} {
		if cand := w.F(name); cand != nil && len(cand.Calls(cand.Decl.Body, false, "storage.RelationService.createPage")) > 0 {
			f = cand
		}
	}
	ins := w.F("storage.(*BTree).insert")
	if f == nil || ins == nil {
		c.Undecided(rule, "anchor|createTable", "no function allocating the table's first page found")
		return
	}
	sites := append([]*CallSite{}, cg.Sites[f]...)
	sortSites(sites)
	var preRoots, postRoots []*Func
	changed := false
	var firstChange token.Pos
	for _, cs := range sites {
		if cs.InLit != nil || len(cs.Targets) == 0 {
			continue
		}
		if !changed && cg.Reach(cs.Targets...)[ins] {
			changed = true
			firstChange = cs.Call.Pos()
		}
		if changed {
			postRoots = append(postRoots, cs.Targets...)
		} else {
			preRoots = append(preRoots, cs.Targets...)
		}
	}
	if !changed {
		c.Undecided(rule, f.Name+"|first-catalog-insert", "no call of createTable reaches BTree.insert")
		return
	}
	// the names the rows are built for: what the insert calls are given, the pre-check is given too
	strArgs := func(after bool) map[types.Object]string {
		out := map[types.Object]string{}
		seenChange := false
		for _, cs := range sites {
			if cs.InLit != nil || len(cs.Targets) == 0 {
				continue
			}
			reaches := cg.Reach(cs.Targets...)[ins]
			if reaches {
				seenChange = true
			}
			if seenChange != after {
				continue
			}
			if !after && len(tupleCtorUses(w, cs.Targets)) == 0 {
				continue // not a validation of catalog rows
			}
			for _, a := range cs.Call.Args {
				if id, ok := ast.Unparen(a).(*ast.Ident); ok {
					if b, ok := f.TypeOf(id).Underlying().(*types.Basic); ok && b.Info()&types.IsString != 0 {
						out[f.ObjOf(id)] = id.Name
					}
				}
			}
		}
		return out
	}
	preNames, postNames := strArgs(false), strArgs(true)
	if len(preNames) > 0 {
		for o, nm := range postNames {
			if _, ok := preNames[o]; !ok {
				var have []string
				for _, n := range preNames {
					have = append(have, n)
				}
				sort.Strings(have)
				c.FailConfined(rule, f.Name+"|precheck-name|"+nm, f.Decl.Pos(), "the catalog rows are inserted for %s, the validation before the first catalog insert is given %s instead: the rows it encodes are not the rows that will be stored (a name of another length passes the size check and the insert is refused after the table has been registered)", nm, strings.Join(have, ", "))
			}
		}
	}
	post := tupleCtorUses(w, postRoots)
	pre := tupleCtorUses(w, preRoots)
	// a pre-check (or an insert helper) that was written out inside createTable itself builds its rows there
	for _, u := range ctorUsesIn(w, f) {
		if u.call.Pos() < firstChange {
			pre = append(pre, u)
		} else {
			post = append(post, u)
		}
	}
	if len(post) == 0 {
		c.Undecided(rule, f.Name+"|catalog-rows", "the insert path builds its catalog rows without a constructor function the pre-check could share")
		return
	}
	done := map[*Func]bool{}
	for _, u := range post {
		if done[u.ctor] {
			continue
		}
		done[u.ctor] = true
		key := f.Name + "|precheck-covers|" + u.ctor.Decl.Name.Name
		var match *tupleCtorUse
		for i := range pre {
			if pre[i].ctor == u.ctor {
				if match == nil || (pre[i].perField && pre[i].uncond) {
					match = &pre[i]
				}
			}
		}
		switch {
		case match == nil:
			c.FailConfined(rule, key, u.call.Pos(), "the insert path stores rows built by %s, the validation before the first catalog insert never builds one: a row that is refused is refused after the table has been registered", u.ctor.Decl.Name.Name)
		case u.perField && !(match.perField && match.uncond) && outermostLit(match.fn, match.call) != nil:
			c.Undecided(rule, key, "%s is called from a function literal in %s (handed to a helper such as a generic map over the columns): whether it runs once for every column is not decided", u.ctor.Decl.Name.Name, match.fn.Name)
		case u.perField && !(match.perField && match.uncond):
			c.FailConfined(rule, key, match.call.Pos(), "the insert path stores one %s row per column, the pre-check does not build one for every column (no unconditional range over the Fields around the call in %s): a column whose row is refused for a reason of its own passes the pre-check and fails after the table has been registered", u.ctor.Decl.Name.Name, match.fn.Name)
		default:
			c.OK(rule, key, match.call.Pos(), 2, "built by the pre-check for the same rows (%s)", match.fn.Name)
		}
	}
}

// coneErrVars: the package-level error values of the repository that a function of the cone mentions in a return.
func coneErrVars(w *World, roots ...*Func) map[*types.Var]bool {
	out := map[*types.Var]bool{}
	for f := range w.CG().Reach(roots...) {
		ast.Inspect(f.Decl.Body, func(x ast.Node) bool {
			r, ok := x.(*ast.ReturnStmt)
			if !ok {
				return true
			}
			for _, e := range r.Results {
				ast.Inspect(e, func(y ast.Node) bool {
					id, ok := y.(*ast.Ident)
					if !ok {
						return true
					}
					if v, ok := f.ObjOf(id).(*types.Var); ok && v.Pkg() != nil && v.Parent() == v.Pkg().Scope() && isErrorType(v.Type()) && pkgKey(v.Pkg().Path()) != "" {
						out[v] = true
					}
					return true
				})
			}
			return true
		})
	}
	return out
}

// rangesOverOffsets: e is the value variable of a range over an offsets array (the key may be blank).
func rangesOverOffsets(f *Func, e ast.Expr) bool {
	id, ok := ast.Unparen(f.stripConv(e)).(*ast.Ident)
	if !ok {
		return false
	}
	hit := false
	ast.Inspect(f.Decl.Body, func(x ast.Node) bool {
		if rs, ok := x.(*ast.RangeStmt); ok {
			if v, ok := rs.Value.(*ast.Ident); ok && f.ObjOf(v) == f.ObjOf(id) {
				if sel, ok := ast.Unparen(rs.X).(*ast.SelectorExpr); ok && sel.Sel.Name == "offsets" {
					hit = true
				}
			}
		}
		return true
	})
	return hit
}

// ---- no in-place filtering of a slice that is still in use ---------------------------------------------------------

func ruleNoAliasedFilter(c *Ctx, rule string, pkgs ...string) {
	c.Rule(rule, "a slice that is still used afterwards is not filtered in place through an alias: `kept := s[:0]` followed by `kept = append(kept, …)` writes into s's own elements, so when s is read again later (returned to the caller, handed on) it holds the filtered elements followed by stale ones — ['A','A','B'] becomes ['A','B','B']: one statement is lost and another is executed twice")
	w := c.W
	n, bad := 0, 0
	for _, name := range w.SortedFuncNames() {
		f := w.Funcs[name]
		okPkg := false
		for _, p := range pkgs {
			if f.Pkg == w.Pkgs[p] {
				okPkg = true
			}
		}
		if !okPkg {
			continue
		}
		ast.Inspect(f.Decl.Body, func(x ast.Node) bool {
			as, ok := x.(*ast.AssignStmt)
			if !ok || len(as.Lhs) != 1 || len(as.Rhs) != 1 {
				return true
			}
			aid, ok := as.Lhs[0].(*ast.Ident)
			sl, ok2 := ast.Unparen(as.Rhs[0]).(*ast.SliceExpr)
			if !ok || !ok2 || sl.Low != nil || sl.High == nil {
				return true
			}
			if cv := f.constOf(sl.High); cv == nil || cv.String() != "0" {
				return true
			}
			sid, ok := ast.Unparen(sl.X).(*ast.Ident)
			if !ok {
				return true
			}
			a, s := f.ObjOf(aid), f.ObjOf(sid)
			if a == nil || s == nil || a == s {
				return true // s = s[:0] empties s itself: nobody expects the old elements
			}
			n++
			// appended to?
			var lastAppend token.Pos
			ast.Inspect(f.Decl.Body, func(y ast.Node) bool {
				if call, ok := y.(*ast.CallExpr); ok && len(call.Args) >= 2 {
					if id, ok := call.Fun.(*ast.Ident); ok && id.Name == "append" {
						if first, ok := ast.Unparen(call.Args[0]).(*ast.Ident); ok && f.ObjOf(first) == a && call.Pos() > as.Pos() {
							lastAppend = call.End()
						}
					}
				}
				return true
			})
			if !lastAppend.IsValid() {
				return true
			}
			// the loop (if any) that contains the appends ends here
			end := lastAppend
			if loop := enclosingLoop(f.Decl.Body, nodeAt(f, lastAppend-1)); loop != nil {
				end = loop.End()
			}
			// is s read after that?
			var later *ast.Ident
			ast.Inspect(f.Decl.Body, func(y ast.Node) bool {
				if id, ok := y.(*ast.Ident); ok && f.ObjOf(id) == s && id.Pos() > end && later == nil {
					// an assignment that replaces s (s = kept) is not a read
					if pas, ok := parentAssign(f.Decl.Body, id); ok && isLHS(pas, id) {
						return true
					}
					later = id
				}
				return true
			})
			// a named result or a parameter's backing array is visible to the caller even without a later mention
			escapes := later != nil
			if !escapes && isNamedResult(f, s) {
				escapes = true
			}
			if escapes {
				bad++
				where := "it is a result of the function"
				if later != nil {
					where = "it is read again at " + w.Pos(later.Pos())
				}
				c.FailConfined(rule, f.Name+"|filters-in-place|"+sid.Name, as.Pos(), "%s := %s[:0] followed by append writes into the elements of %s, and %s: the caller sees the filtered elements followed by stale ones", aid.Name, sid.Name, sid.Name, where)
			}
			return true
		})
	}
	if bad == 0 {
		c.OK(rule, strings.Join(pkgs, "+")+"|no-aliased-filter", token.NoPos, n+1, "%d zero-length re-slices examined, none filters a slice that is read afterwards", n)
	}
}

func nodeAt(f *Func, pos token.Pos) ast.Node {
	var best ast.Node
	ast.Inspect(f.Decl.Body, func(x ast.Node) bool {
		if x != nil && x.Pos() <= pos && pos < x.End() {
			best = x
			return true
		}
		return x == nil || x.Pos() <= pos
	})
	return best
}

func isNamedResult(f *Func, obj types.Object) bool {
	if f.Decl.Type.Results == nil {
		return false
	}
	for _, fl := range f.Decl.Type.Results.List {
		for _, nm := range fl.Names {
			if f.ObjOf(nm) == obj {
				return true
			}
		}
	}
	return false
}

// ---- a log record owns its payload ------------------------------------------------------------------------------

func ruleRecordOwnsPayload(c *Ctx, rule string) {
	c.Rule(rule, "a log record owns the bytes it carries: the val of every WALEntry literal is taken from a buffer that this invocation created for this row (the *bytes.Buffer returned by Tuple.Encode, or one allocated here) — never from a buffer kept in a struct field or reused after Reset: the statement holds its records until the log append at its end, so records that share one buffer all carry the last row's bytes, and recovery replays every row of a multi-row INSERT with the same content")
	w := c.W
	n := 0
	for _, name := range w.SortedFuncNames() {
		f := w.Funcs[name]
		if f.Pkg != w.Pkgs["storage"] {
			continue
		}
		for i, lit := range f.compositeLits("storage", "WALEntry") {
			v := kvField(lit, "val")
			if v == nil {
				continue
			}
			n++
			key := f.Name + "|payload-owned#" + itoa(i+1)
			e := ast.Unparen(v)
			// val: X.Bytes()
			var bufExpr ast.Expr
			if call, ok := e.(*ast.CallExpr); ok && f.CallIs(call, "bytes.Buffer.Bytes") {
				bufExpr = ast.Unparen(call.Fun.(*ast.SelectorExpr).X)
			} else if id, ok := e.(*ast.Ident); ok {
				// a local holding the bytes: follow one definition
				if rhs, _, ok := f.definedBy(f.Decl.Body, f.ObjOf(id)); ok && rhs != nil {
					if call, ok := ast.Unparen(rhs).(*ast.CallExpr); ok && f.CallIs(call, "bytes.Buffer.Bytes") {
						bufExpr = ast.Unparen(call.Fun.(*ast.SelectorExpr).X)
					}
				}
				if bufExpr == nil {
					if isParamOf(f, f.ObjOf(id)) {
						c.OK(rule, key, lit.Pos(), 1, "payload is the caller's value (%s)", id.Name)
					} else {
						c.Undecided(rule, key, "where the payload %s comes from is not decided", id.Name)
					}
					continue
				}
			} else {
				c.Undecided(rule, key, "payload expression %s not understood", exprKey(e))
				continue
			}
			if u, ok := bufExpr.(*ast.UnaryExpr); ok && u.Op == token.AND {
				bufExpr = ast.Unparen(u.X)
			}
			id, ok := bufExpr.(*ast.Ident)
			if !ok {
				c.Fail(rule, key, lit.Pos(), "the record's payload is a view of %s, which outlives this row: every record of the statement that is still waiting for the log append aliases it", exprKey(bufExpr))
				continue
			}
			obj := f.ObjOf(id)
			defs := f.assignsTo(f.Decl.Body, obj)
			fresh := len(defs) > 0
			why := ""
			for _, d := range defs {
				for li, l := range d.Lhs {
					if lid, ok := l.(*ast.Ident); !ok || f.ObjOf(lid) != obj {
						continue
					}
					var rhs ast.Expr
					if len(d.Rhs) == len(d.Lhs) {
						rhs = d.Rhs[li]
					} else if len(d.Rhs) == 1 {
						rhs = d.Rhs[0]
					}
					switch r := ast.Unparen(rhs).(type) {
					case *ast.CallExpr:
						// a call that returns a buffer: Encode allocates its own (C08.9 / C14.5 check that)
						if fn := f.Callee(r); fn == nil || (fn.Pkg() != nil && pkgKey(fn.Pkg().Path()) == "" && calleeKey(fn) != "bytes.NewBuffer") {
							fresh, why = false, exprKey(rhs)
						}
					case *ast.UnaryExpr:
						if _, isLit := ast.Unparen(r.X).(*ast.CompositeLit); !(r.Op == token.AND && isLit) {
							fresh, why = false, exprKey(rhs)
						}
					case *ast.CompositeLit:
					default:
						fresh, why = false, exprKey(rhs)
					}
				}
			}
			// Reset on it means reuse
			for _, call := range f.Calls(f.Decl.Body, true, "bytes.Buffer.Reset") {
				if rid, ok := ast.Unparen(call.Fun.(*ast.SelectorExpr).X).(*ast.Ident); ok && f.ObjOf(rid) == obj {
					fresh, why = false, "it is Reset and refilled"
				}
			}
			if fresh {
				c.OK(rule, key, lit.Pos(), len(defs), "payload comes from the buffer %s created for this row", id.Name)
			} else {
				c.Fail(rule, key, lit.Pos(), "the record's payload is a view of the buffer %s, which is not created for this row (%s): records waiting for the log append share it", id.Name, why)
			}
		}
	}
	if n < 3 {
		c.Undecided(rule, "subjects", "only %d log records with a payload found, expected at least 3", n)
	}
}

// ---- GROUP BY columns are resolved the way the parser accepted them -------------------------------------------------

func ruleGroupByResolution(c *Ctx, rule string) {
	c.Rule(rule, "a GROUP BY column names a select column by name, by qualified name or by alias — that is how the parser accepts it (DerivedColumn.Matches) — and aggregateRows finds its position with that same predicate; a lookup in a map keyed by the select list's exact column references misses `GROUP BY year` against `SELECT t.year` (or an alias), and a missed map lookup silently yields position 0: the rows are grouped by the first select column")
	f := c.NeedFunc(rule, "engine.aggregateRows")
	if f == nil {
		return
	}
	key := f.Name + "|group-by-resolution"
	if f.Decl.Type.Params == nil || len(f.Decl.Type.Params.List) < 2 {
		c.Undecided(rule, key, "unexpected signature")
		return
	}
	groupBy := paramIdent(f, 1)
	if groupBy == nil {
		c.Undecided(rule, key, "no GROUP BY parameter")
		return
	}
	gobj := f.ObjOf(groupBy)
	// variables that hold one GROUP BY column: range values over the parameter, groupBy[i]
	isGroupCol := func(e ast.Expr) bool {
		e = ast.Unparen(e)
		if ix, ok := e.(*ast.IndexExpr); ok {
			if id, ok := ast.Unparen(ix.X).(*ast.Ident); ok && f.ObjOf(id) == gobj {
				return true
			}
		}
		id, ok := e.(*ast.Ident)
		if !ok {
			return false
		}
		hit := false
		ast.Inspect(f.Decl.Body, func(x ast.Node) bool {
			if rs, ok := x.(*ast.RangeStmt); ok {
				if v, ok := rs.Value.(*ast.Ident); ok && f.ObjOf(v) == f.ObjOf(id) {
					if src, ok := ast.Unparen(rs.X).(*ast.Ident); ok && f.ObjOf(src) == gobj {
						hit = true
					}
				}
			}
			return true
		})
		return hit
	}
	var blind ast.Node
	matches := 0
	commaOK := map[*ast.IndexExpr]bool{}
	ast.Inspect(f.Decl.Body, func(x ast.Node) bool {
		if as, ok := x.(*ast.AssignStmt); ok && len(as.Lhs) == 2 && len(as.Rhs) == 1 {
			if ix, ok := ast.Unparen(as.Rhs[0]).(*ast.IndexExpr); ok {
				commaOK[ix] = true
			}
		}
		return true
	})
	ast.Inspect(f.Decl.Body, func(x ast.Node) bool {
		switch y := x.(type) {
		case *ast.CallExpr:
			if f.CallIs(y, "sql.DerivedColumn.Matches") && len(y.Args) == 1 && isGroupCol(y.Args[0]) {
				matches++
			}
		case *ast.IndexExpr:
			if _, isMap := f.TypeOf(y.X).Underlying().(*types.Map); isMap && isGroupCol(y.Index) && !commaOK[y] {
				blind = y
			}
		}
		return true
	})
	// the value read for the key is the one at the RESOLVED position: an index that is the key of a range over the
	// list of resolved positions (or over the GROUP BY list) is a position in that list, not in the select list
	var wrongIdx ast.Node
	ast.Inspect(f.Decl.Body, func(x ast.Node) bool {
		ix, ok := x.(*ast.IndexExpr)
		if !ok {
			return true
		}
		sel, ok := ast.Unparen(ix.X).(*ast.SelectorExpr)
		if !ok || sel.Sel.Name != "Vals" {
			return true
		}
		id, ok := ast.Unparen(ix.Index).(*ast.Ident)
		if !ok {
			return true
		}
		ast.Inspect(f.Decl.Body, func(y ast.Node) bool {
			rs, ok := y.(*ast.RangeStmt)
			if !ok {
				return true
			}
			k, ok := rs.Key.(*ast.Ident)
			if !ok || f.ObjOf(k) != f.ObjOf(id) {
				return true
			}
			// ranging over the select list itself yields select positions; over anything else it does not
			if t := f.TypeOf(rs.X); t != nil && namedTypeIs(t, "sql", "SelectList") {
				return true
			}
			if sl, ok := f.TypeOf(rs.X).Underlying().(*types.Slice); ok {
				if b, ok := sl.Elem().Underlying().(*types.Basic); ok && b.Info()&types.IsInteger != 0 {
					wrongIdx = ix
				}
				if namedTypeIs(sl.Elem(), "sql", "ColumnReference") {
					wrongIdx = ix
				}
			}
			return true
		})
		return true
	})
	switch {
	case wrongIdx != nil:
		c.Fail(rule, key, wrongIdx.Pos(), "%s reads the row at the position the grouping column has in the GROUP BY list, not at its resolved position in the select list: `SELECT count(*), year … GROUP BY year` groups by select column 0", exprKey(wrongIdx.(ast.Expr)))
	case blind != nil:
		c.Fail(rule, key, blind.Pos(), "%s looks a GROUP BY column up in a map without testing that it is there: `GROUP BY year` against `SELECT t.year` (or an alias) misses, the zero position 0 is used, and the rows are grouped by the first select column", exprKey(blind.(ast.Expr)))
	case matches == 0:
		if why := c.W.opaqueKey(key); why != "" {
			c.Undecided(rule, key, "no use of DerivedColumn.Matches on a GROUP BY column found, %s", why)
		} else {
			c.Fail(rule, key, f.Decl.Pos(), "aggregateRows does not resolve GROUP BY columns with DerivedColumn.Matches, the predicate the parser accepts them with: a column given by bare name, qualifier or alias can be accepted and then not found")
		}
	default:
		c.OK(rule, key, f.Decl.Pos(), matches, "GROUP BY columns are matched against the select list with DerivedColumn.Matches")
	}
}

// ---- path search that follows error values through copies ---------------------------------------------------------

// evalErrCondM decides a condition over error variables whose values are known by name ("nil", "io.EOF",
// "errTornRecord", …).
func evalErrCondM(f *Func, cond ast.Expr, errs map[types.Object]string) (val bool, known bool) {
	e := ast.Unparen(cond)
	valueOf := func(y ast.Expr) (string, bool) {
		y = ast.Unparen(y)
		if isNilIdent(f, y) {
			return "nil", true
		}
		if id, ok := y.(*ast.Ident); ok {
			if v, ok := errs[f.ObjOf(id)]; ok {
				return v, true
			}
			if pv, ok := f.ObjOf(id).(*types.Var); ok && pv.Pkg() != nil && pv.Parent() == pv.Pkg().Scope() && isErrorType(pv.Type()) {
				return exprKey(y), true
			}
		}
		if sel, ok := y.(*ast.SelectorExpr); ok {
			if pv, ok := f.ObjOf(sel.Sel).(*types.Var); ok && !pv.IsField() && isErrorType(pv.Type()) {
				return exprKey(y), true
			}
		}
		return "", false
	}
	switch x := e.(type) {
	case *ast.UnaryExpr:
		if x.Op == token.NOT {
			v, k := evalErrCondM(f, x.X, errs)
			return !v, k
		}
	case *ast.BinaryExpr:
		switch x.Op {
		case token.LAND, token.LOR:
			a, ka := evalErrCondM(f, x.X, errs)
			b, kb := evalErrCondM(f, x.Y, errs)
			and := x.Op == token.LAND
			if (ka && a != and) || (kb && b != and) {
				return !and, true
			}
			if ka && kb {
				return and, true
			}
			return false, false
		case token.EQL, token.NEQ:
			a, ka := valueOf(x.X)
			b, kb := valueOf(x.Y)
			if !ka || !kb {
				return false, false
			}
			// at least one side must be a tracked variable, otherwise this is not about the errors we follow
			return (a == b) == (x.Op == token.EQL), true
		}
	case *ast.CallExpr:
		if f.CallIs(x, "errors.Is") && len(x.Args) == 2 {
			a, ka := valueOf(x.Args[0])
			b, kb := valueOf(x.Args[1])
			if ka && kb {
				return a == b, true
			}
		}
	}
	return false, false
}

// pathSearchErrs is pathSearchFlags with, in addition, the identity of error values followed through plain
// copies: `e2 = e1`, `e2 = errSentinel`, `a, e2 = nil, e1`. seed gives the values known at the start.
func pathSearchErrs(f *Func, g *Graph, from Loc, seed map[types.Object]string, visit func(ast.Node) Verdict) bool {
	type item struct {
		b     *cfg.Block
		start int
		flags map[types.Object]bool
		errs  map[types.Object]string
	}
	encode := func(it item) string {
		var ks []string
		for o, v := range it.flags {
			ks = append(ks, fmt.Sprintf("%s@%d=%v", o.Name(), o.Pos(), v))
		}
		for o, v := range it.errs {
			ks = append(ks, fmt.Sprintf("%s@%d=%s", o.Name(), o.Pos(), v))
		}
		sort.Strings(ks)
		return fmt.Sprintf("%d:%d:%s", it.b.Index, it.start, strings.Join(ks, ","))
	}
	seen := map[string]bool{}
	start := item{from.B, from.I + 1, map[types.Object]bool{}, map[types.Object]string{}}
	for o, v := range seed {
		start.errs[o] = v
	}
	work := []item{start}
	errValue := func(errs map[types.Object]string, e ast.Expr) (string, bool) {
		e = ast.Unparen(e)
		if isNilIdent(f, e) {
			return "nil", true
		}
		switch y := e.(type) {
		case *ast.Ident:
			if v, ok := errs[f.ObjOf(y)]; ok {
				return v, true
			}
			if pv, ok := f.ObjOf(y).(*types.Var); ok && pv.Pkg() != nil && pv.Parent() == pv.Pkg().Scope() && isErrorType(pv.Type()) {
				return exprKey(y), true
			}
		case *ast.SelectorExpr:
			if pv, ok := f.ObjOf(y.Sel).(*types.Var); ok && !pv.IsField() && isErrorType(pv.Type()) {
				return exprKey(y), true
			}
		}
		return "", false
	}
	for len(work) > 0 {
		it := work[len(work)-1]
		work = work[:len(work)-1]
		k := encode(it)
		if seen[k] {
			continue
		}
		seen[k] = true
		flags := map[types.Object]bool{}
		for o, v := range it.flags {
			flags[o] = v
		}
		errs := map[types.Object]string{}
		for o, v := range it.errs {
			errs[o] = v
		}
		stopped := false
		for i := it.start; i < len(it.b.Nodes); i++ {
			n := it.b.Nodes[i]
			switch visit(n) {
			case Hit:
				return true
			case Cut:
				stopped = true
			}
			if stopped {
				break
			}
			if as, ok := n.(*ast.AssignStmt); ok && len(as.Lhs) == len(as.Rhs) {
				// right-hand sides are evaluated before any store
				type upd struct {
					obj types.Object
					b   *bool
					e   *string
				}
				var ups []upd
				for j, l := range as.Lhs {
					id, ok := l.(*ast.Ident)
					if !ok || id.Name == "_" {
						continue
					}
					u := upd{obj: f.ObjOf(id)}
					if cv := f.constOf(as.Rhs[j]); cv != nil && (cv.String() == "true" || cv.String() == "false") {
						v := cv.String() == "true"
						u.b = &v
					} else if isErrorType(f.TypeOf(id)) {
						if v, ok := errValue(errs, as.Rhs[j]); ok {
							u.e = &v
						}
					}
					ups = append(ups, u)
				}
				for _, u := range ups {
					delete(flags, u.obj)
					delete(errs, u.obj)
					if u.b != nil {
						flags[u.obj] = *u.b
					}
					if u.e != nil {
						errs[u.obj] = *u.e
					}
				}
			} else if as, ok := n.(*ast.AssignStmt); ok {
				for _, l := range as.Lhs {
					if id, ok := l.(*ast.Ident); ok {
						delete(flags, f.ObjOf(id))
						delete(errs, f.ObjOf(id))
					}
				}
			}
			if ds, ok := n.(*ast.DeclStmt); ok {
				// var e error  — nil
				if gd, ok := ds.Decl.(*ast.GenDecl); ok {
					for _, sp := range gd.Specs {
						if vs, ok := sp.(*ast.ValueSpec); ok && len(vs.Values) == 0 {
							for _, nm := range vs.Names {
								if isErrorType(f.TypeOf(nm)) {
									errs[f.ObjOf(nm)] = "nil"
								}
							}
						}
					}
				}
			}
		}
		if stopped {
			continue
		}
		if len(it.b.Succs) == 2 {
			if info, ok := g.EdgeInfo(it.b, 0); ok && (!info.Case || info.Synth != nil) {
				if info.Case {
					info.Cond = info.Synth
				}
				val, known := evalErrCondM(f, info.Cond, errs)
				if !known {
					cond := ast.Unparen(info.Cond)
					neg := false
					if u, ok := cond.(*ast.UnaryExpr); ok && u.Op == token.NOT {
						neg, cond = true, ast.Unparen(u.X)
					}
					if id, ok := cond.(*ast.Ident); ok {
						if v, has := flags[f.ObjOf(id)]; has {
							val, known = v != neg, true
						} else if isCommaOK(f, id) {
							val, known = !neg, true
						}
					}
				}
				for si, s := range it.b.Succs {
					if known && (si == 0) != val {
						continue
					}
					work = append(work, item{s, 0, flags, errs})
				}
				continue
			}
		}
		for _, s := range it.b.Succs {
			work = append(work, item{s, 0, flags, errs})
		}
	}
	return false
}

// continuationOf: the statements that run after st when control falls out of it, flattened through enclosing
// case clauses and blocks up to the end of the function (a loop boundary ends the list with a marker statement
// that is not a failure).
func continuationOf(f *Func, st ast.Stmt) []ast.Stmt {
	var out []ast.Stmt
	cur := st
	for depth := 0; depth < 6; depth++ {
		var rest []ast.Stmt
		var parent ast.Node
		found := false
		var stack []ast.Node
		ast.Inspect(f.Decl.Body, func(x ast.Node) bool {
			if x == nil {
				stack = stack[:len(stack)-1]
				return true
			}
			if found {
				return false
			}
			var list []ast.Stmt
			switch y := x.(type) {
			case *ast.BlockStmt:
				list = y.List
			case *ast.CaseClause:
				list = y.Body
			case *ast.CommClause:
				list = y.Body
			}
			for i, s := range list {
				if s == cur {
					rest = list[i+1:]
					found = true
					parent = x
					if _, isBlock := x.(*ast.BlockStmt); isBlock && len(stack) > 0 {
						parent = stack[len(stack)-1]
					}
				}
			}
			stack = append(stack, x)
			return true
		})
		if !found {
			return out
		}
		out = append(out, rest...)
		if terminates(rest) {
			return out
		}
		switch p := parent.(type) {
		case *ast.CaseClause:
			var owner ast.Stmt
			ast.Inspect(f.Decl.Body, func(x ast.Node) bool {
				switch y := x.(type) {
				case *ast.SwitchStmt:
					for _, s := range y.Body.List {
						if s == ast.Stmt(p) {
							owner = y
						}
					}
				case *ast.TypeSwitchStmt:
					for _, s := range y.Body.List {
						if s == ast.Stmt(p) {
							owner = y
						}
					}
				}
				return owner == nil
			})
			if owner == nil {
				return out
			}
			cur = owner
		case *ast.IfStmt:
			cur = p
		case *ast.LabeledStmt:
			cur = p
		default:
			// a loop body or the function body ends here: execution goes on normally
			return append(out, &ast.EmptyStmt{}, &ast.ExprStmt{X: ast.NewIdent("_continues_")})
		}
	}
	return out
}

// ---- the page decoder accepts every cell the encoder can produce -----------------------------------------------------

func ruleDecoderAcceptsMaxCell(c *Ctx, rule string) {
	c.Rule(rule, "the page decoder accepts every cell the write path can produce: a test in decodeLeaf that refuses a cell because of its size does not fire for a value of maxValueSize bytes (the condition is evaluated with valueSize = maxValueSize, every other operand being a constant) — a sanity bound that is two bytes too tight makes the page of a maximal row, and every scan through it, unreadable after a restart or an eviction")
	f := c.NeedFunc(rule, "storage.(*btreeNode).decodeLeaf")
	if f == nil {
		return
	}
	maxV := int64(-1)
	if obj, ok := f.Pkg.Types.Scope().Lookup("maxValueSize").(*types.Const); ok {
		if n, ok := constantInt(obj.Val()); ok {
			maxV = n
		}
	}
	if maxV < 0 {
		c.Undecided(rule, f.Name+"|maxValueSize", "constant maxValueSize not found")
		return
	}
	var eval func(e ast.Expr, depth int) (int64, bool, bool) // value, known, mentions valueSize
	eval = func(e ast.Expr, depth int) (int64, bool, bool) {
		e = ast.Unparen(f.stripConv(e))
		if depth > 6 {
			return 0, false, false
		}
		if cv := f.constOf(e); cv != nil {
			n, ok := constantInt(cv)
			return n, ok, false
		}
		switch x := e.(type) {
		case *ast.SelectorExpr:
			if x.Sel.Name == "valueSize" {
				return maxV, true, true
			}
		case *ast.CallExpr:
			// len(value bytes) is the value size as well
			if id, ok := x.Fun.(*ast.Ident); ok && id.Name == "len" && len(x.Args) == 1 && strings.HasSuffix(exprKey(x.Args[0]), "valueBytes") {
				return maxV, true, true
			}
		case *ast.Ident:
			if rhs, _, ok := f.definedBy(f.Decl.Body, f.ObjOf(x)); ok && rhs != nil {
				return eval(rhs, depth+1)
			}
		case *ast.BinaryExpr:
			a, ok1, m1 := eval(x.X, depth+1)
			b, ok2, m2 := eval(x.Y, depth+1)
			if !ok1 || !ok2 {
				return 0, false, m1 || m2
			}
			switch x.Op {
			case token.ADD:
				return a + b, true, m1 || m2
			case token.SUB:
				return a - b, true, m1 || m2
			case token.MUL:
				return a * b, true, m1 || m2
			}
		}
		return 0, false, false
	}
	n := 0
	ast.Inspect(f.Decl.Body, func(x ast.Node) bool {
		ifs, ok := x.(*ast.IfStmt)
		if !ok || !terminates(ifs.Body.List) {
			return true
		}
		// the branch must refuse: it returns an error
		refuses := false
		for _, st := range ifs.Body.List {
			if r, ok := st.(*ast.ReturnStmt); ok && len(r.Results) > 0 && !isNilIdent(f, ast.Unparen(r.Results[len(r.Results)-1])) {
				refuses = true
			}
		}
		be, ok := ast.Unparen(ifs.Cond).(*ast.BinaryExpr)
		if !refuses || !ok {
			return true
		}
		a, ok1, m1 := eval(be.X, 0)
		b, ok2, m2 := eval(be.Y, 0)
		if !(m1 || m2) {
			return true
		}
		n++
		key := f.Name + "|size-refusal#" + itoa(n)
		if !ok1 || !ok2 {
			c.Undecided(rule, key, "the size test %s could not be evaluated", exprKey(ifs.Cond))
			return true
		}
		fires := false
		switch be.Op {
		case token.GTR:
			fires = a > b
		case token.GEQ:
			fires = a >= b
		case token.LSS:
			fires = a < b
		case token.LEQ:
			fires = a <= b
		case token.NEQ:
			fires = a != b
		case token.EQL:
			fires = a == b
		}
		if fires {
			c.FailConfined(rule, key, ifs.Pos(), "decodeLeaf refuses a cell whose value has the maximum legal size: with valueSize = maxValueSize = %d the test %s is %d %s %d, which holds — rows of that size are accepted by INSERT and their page cannot be read back", maxV, exprKey(ifs.Cond), a, be.Op, b)
		} else {
			c.OK(rule, key, ifs.Pos(), 1, "does not fire for valueSize = maxValueSize (%d %s %d)", a, be.Op, b)
		}
		return true
	})
	if n == 0 {
		c.OK(rule, f.Name+"|size-refusal|none", f.Decl.Pos(), 1, "decodeLeaf refuses no cell because of its size")
	}
}

// ---- a root move inside a loop of inserts is carried into the next iteration ----------------------------------------

func ruleRootCarriedThroughLoop(c *Ctx, rule string) {
	c.Rule(rule, "a loop that inserts row after row through one tree handle starts every insert at the tree's current root: where setRoot(R) is called inside the loop with a root variable R that lives outside it, the branch that records a root move (updatePageTable / setPageTableRoot) also stores the new root into R — otherwise the rows after the move are inserted below the old root, which is now only the left half: the catalog shows a table's columns permuted or loses them")
	w := c.W
	n := 0
	for _, name := range w.SortedFuncNames() {
		f := w.Funcs[name]
		if f.Pkg != w.Pkgs["storage"] {
			continue
		}
		for _, call := range f.Calls(f.Decl.Body, false, "storage.BTree.setRoot") {
			loop := enclosingLoop(f.Decl.Body, call)
			if loop == nil || len(call.Args) != 1 {
				continue
			}
			rid, ok := ast.Unparen(call.Args[0]).(*ast.Ident)
			if !ok {
				continue
			}
			robj := f.ObjOf(rid)
			if robj == nil || (loop.Pos() <= robj.Pos() && robj.Pos() <= loop.End()) {
				continue // looked up afresh in every iteration
			}
			// is there an insert through the handle in the loop at all?
			if len(f.Calls(loop, false, "storage.BTree.insert")) == 0 {
				continue
			}
			n++
			key := f.Name + "|root-carried|" + rid.Name
			records := f.Calls(loop, false, "storage.RelationService.updatePageTable", "storage.*.setPageTableRoot")
			if len(records) == 0 {
				c.Undecided(rule, key, "the loop records no root move (C01.4 judges that)")
				continue
			}
			carried := false
			for _, rec := range records {
				// the innermost if that contains the recording call
				var branch *ast.IfStmt
				ast.Inspect(loop, func(y ast.Node) bool {
					if ifs, ok := y.(*ast.IfStmt); ok && ifs.Body.Pos() <= rec.Pos() && rec.End() <= ifs.Body.End() {
						branch = ifs
					}
					return true
				})
				var scope ast.Node = loop
				if branch != nil {
					scope = branch.Body
				}
				for _, as := range f.assignsTo(scope, robj) {
					if as.Pos() > rec.Pos() || branch != nil {
						carried = true
					}
				}
			}
			if carried {
				c.OK(rule, key, call.Pos(), 2, "the branch that records a root move stores the new root into %s", rid.Name)
			} else {
				c.Fail(rule, key, call.Pos(), "the loop inserts through setRoot(%s) but a recorded root move never updates %s: every row after the move starts at the old root page", rid.Name, rid.Name)
			}
		}
	}
	if n == 0 {
		c.Undecided(rule, "subjects", "no loop that inserts through a root variable kept outside the loop")
	}
}

// ---- the scanner's tables span their whole enum interval -----------------------------------------------------------

func ruleEnumIntervalLoops(c *Ctx, rule string) {
	c.Rule(rule, "the token tables are filled over the whole open interval between their boundary constants: a loop `for i := T(x_start) + 1; i < x_end; i++` in the scanner's init starts right after the lower boundary and ends right before the upper one (the bounds are evaluated as constants and compared with the boundary constants they name) — a bound that is off by one drops the first or last keyword / literal kind from the table, and statements using it stop parsing")
	w := c.W
	n := 0
	for _, name := range w.SortedFuncNames() {
		f := w.Funcs[name]
		if f.Pkg != w.Pkgs["sql"] || !strings.HasPrefix(f.Decl.Name.Name, "init") {
			continue
		}
		ast.Inspect(f.Decl.Body, func(x ast.Node) bool {
			fs, ok := x.(*ast.ForStmt)
			if !ok || fs.Init == nil || fs.Cond == nil {
				return true
			}
			init, ok := fs.Init.(*ast.AssignStmt)
			if !ok || len(init.Lhs) != 1 || len(init.Rhs) != 1 {
				return true
			}
			iv, ok := init.Lhs[0].(*ast.Ident)
			if !ok {
				return true
			}
			cond, ok := ast.Unparen(fs.Cond).(*ast.BinaryExpr)
			if !ok {
				return true
			}
			cid, ok := ast.Unparen(cond.X).(*ast.Ident)
			if !ok || f.ObjOf(cid) != f.ObjOf(iv) {
				return true
			}
			firstConst := func(e ast.Expr) *types.Const {
				var out *types.Const
				ast.Inspect(e, func(y ast.Node) bool {
					if id, ok := y.(*ast.Ident); ok && out == nil {
						if cst, ok := f.ObjOf(id).(*types.Const); ok && cst.Pkg() == f.Pkg.Types {
							out = cst
						}
					}
					return true
				})
				return out
			}
			lo, hi := firstConst(init.Rhs[0]), firstConst(cond.Y)
			if lo == nil || hi == nil {
				return true
			}
			n++
			key := f.Name + "|interval|" + lo.Name() + ".." + hi.Name()
			loV, ok1 := constantInt(lo.Val())
			hiV, ok2 := constantInt(hi.Val())
			var startV, endV int64
			ok3, ok4 := false, false
			if cv := f.constOf(init.Rhs[0]); cv != nil {
				startV, ok3 = constantInt(cv)
			}
			if cv := f.constOf(cond.Y); cv != nil {
				endV, ok4 = constantInt(cv)
			}
			if !ok1 || !ok2 || !ok3 || !ok4 {
				c.Undecided(rule, key, "loop bounds are not constants")
				return true
			}
			last := endV - 1
			if cond.Op == token.LEQ {
				last = endV
			} else if cond.Op != token.LSS {
				c.Undecided(rule, key, "loop condition %s not understood", exprKey(fs.Cond))
				return true
			}
			switch {
			case startV != loV+1:
				c.Fail(rule, key, fs.Pos(), "the loop starts at %d, the first element after %s is %d: the table misses (or wrongly includes) an entry at its lower end", startV, lo.Name(), loV+1)
			case last != hiV-1:
				c.Fail(rule, key, fs.Pos(), "the loop ends at %d, the last element before %s is %d: the table misses (or wrongly includes) an entry at its upper end", last, hi.Name(), hiV-1)
			default:
				c.OK(rule, key, fs.Pos(), 2, "covers %d..%d, exactly the elements between %s and %s", startV, last, lo.Name(), hi.Name())
			}
			return true
		})
	}
	if n < 2 {
		c.Undecided(rule, "subjects", "only %d table-filling loops over an enum interval found in the scanner's init, expected 2", n)
	}
}

// ---- the clauses of a SELECT are parsed in the order SQL writes them -------------------------------------------------

func ruleClauseOrder(c *Ctx, rule string) {
	c.Rule(rule, "the productions of a SELECT are tried in the order the clauses are written: select list, FROM, WHERE, GROUP BY (TableExpression), ORDER BY, LIMIT/OFFSET — each production's call is dominated by the call of the one before it. Two calls in the wrong order reject the standard spelling (`… ORDER BY a LIMIT 1` stops at LIMIT) although each clause still parses alone")
	for _, spec := range []struct {
		fn    string
		order []string
	}{
		{"sql.(*Parser).Select", []string{"sql.Parser.SelectList", "sql.Parser.TableExpression", "sql.Parser.SortSpecificationList", "sql.Parser.LimitOffsetClause"}},
		{"sql.(*Parser).TableExpression", []string{"sql.Parser.FromClause", "sql.Parser.WhereClause", "sql.Parser.GroupByClause"}},
	} {
		f := c.NeedFunc(rule, spec.fn)
		if f == nil {
			continue
		}
		g := f.Graph()
		var prev *ast.CallExpr
		prevName := ""
		for _, callee := range spec.order {
			calls := f.Calls(f.Decl.Body, false, callee)
			short := callee[strings.LastIndex(callee, ".")+1:]
			key := f.Name + "|order|" + short
			if len(calls) == 0 {
				c.Undecided(rule, key, "production %s is not called here", short)
				prev = nil
				continue
			}
			if prev != nil {
				pl, ok1 := g.Locate(prev)
				cl, ok2 := g.Locate(calls[0])
				switch {
				case !ok1 || !ok2:
					c.Undecided(rule, key, "calls not located")
				case g.Dominates(pl, cl):
					c.OK(rule, key, calls[0].Pos(), 1, "%s is tried after %s", short, prevName)
				default:
					c.Fail(rule, key, calls[0].Pos(), "%s is not tried after %s: a statement that writes its clauses in the standard order is rejected at the keyword of the clause that was tried too early", short, prevName)
				}
			}
			prev, prevName = calls[len(calls)-1], short
		}
	}
}

// ---- closing a store writes its pages ----------------------------------------------------------------------------

func ruleCloseFlushes(c *Ctx, rule string) {
	c.Rule(rule, "closing a store writes what is in its cache: every success return of fileStore.close passes through flushPages (after the timer has been stopped) and RelationService.Close reaches fileStore.close on every path — USE closes the previous database this way, so a close that only writes the header, or returns early for a store with a flush timer, drops every change made since the last 100 ms tick although the header already counts its keys and pages")
	f := c.NeedFunc(rule, "storage.(*fileStore).close")
	if f == nil {
		return
	}
	g := f.Graph()
	key := f.Name + "|flushes"
	skipped, _ := g.Forward(nil, g.SuccessEdges, func(nn ast.Node, at Loc) Verdict {
		if _, isDefer := nn.(*ast.DeferStmt); isDefer {
			return Go
		}
		if g.containsCall(nn, "storage.fileStore.flushPages") != nil {
			return Cut
		}
		if r, ok := nn.(*ast.ReturnStmt); ok {
			if g.ReturnMayBeNil(r) {
				return Hit
			}
			return Cut
		}
		return Go
	}, func(b *cfg.Block) Verdict {
		if g.IsNoReturnExit(b) {
			return Go
		}
		return Hit
	})
	if skipped {
		c.Fail(rule, key, f.Decl.Pos(), "fileStore.close can return successfully without flushPages: the pages dirtied since the last timer tick are never written, yet the header (or the next open) treats them as stored")
	} else {
		c.OK(rule, key, f.Decl.Pos(), 1, "every success return of close passes through flushPages")
	}
	if rf := c.NeedFunc(rule, "storage.(*RelationService).Close"); rf != nil {
		rg := rf.Graph()
		miss, _ := rg.Forward(nil, rg.SuccessEdges, func(nn ast.Node, at Loc) Verdict {
			if _, isDefer := nn.(*ast.DeferStmt); isDefer {
				if rg.containsCall(nn, "storage.fileStore.close") != nil {
					return Cut
				}
				return Go
			}
			if rg.containsCall(nn, "storage.fileStore.close") != nil {
				return Cut
			}
			if r, ok := nn.(*ast.ReturnStmt); ok {
				if rg.ReturnMayBeNil(r) {
					return Hit
				}
				return Cut
			}
			return Go
		}, func(b *cfg.Block) Verdict { return Hit })
		c.Check(!miss, rule, rf.Name+"|closes-store", rf.Decl.Pos(), "Close reaches fileStore.close on every success path", "RelationService.Close can return successfully without closing (and thereby flushing) the store")
	}
}

// ---- a name that is looked up must be there -------------------------------------------------------------------------

func ruleCheckedNameLookup(c *Ctx, rule, fn string) {
	c.Rule(rule, "a destination column that the table does not have is an error, not column type 0: in "+fn+" every lookup of a mapped column name in the map built from the catalog is of the comma-ok form and its miss edge returns an error — an unchecked lookup yields the zero value, which is a valid type code (INT), so a misspelt or differently cased -dest-cols name is accepted, the records are reported as stored, and the real column holds NULL")
	f := c.NeedFunc(rule, fn)
	if f == nil {
		return
	}
	g := f.Graph()
	n := 0
	commaOK := map[*ast.IndexExpr]*ast.AssignStmt{}
	ast.Inspect(f.Decl.Body, func(x ast.Node) bool {
		if as, ok := x.(*ast.AssignStmt); ok && len(as.Lhs) == 2 && len(as.Rhs) == 1 {
			if ix, ok := ast.Unparen(as.Rhs[0]).(*ast.IndexExpr); ok {
				commaOK[ix] = as
			}
		}
		return true
	})
	ast.Inspect(f.Decl.Body, func(x ast.Node) bool {
		ix, ok := x.(*ast.IndexExpr)
		if !ok {
			return true
		}
		mt, ok := f.TypeOf(ix.X).Underlying().(*types.Map)
		if !ok {
			return true
		}
		if kb, ok := mt.Key().Underlying().(*types.Basic); !ok || kb.Info()&types.IsString == 0 {
			return true
		}
		// reads only (not m[k] = v)
		isStore := false
		ast.Inspect(f.Decl.Body, func(y ast.Node) bool {
			if as, ok := y.(*ast.AssignStmt); ok {
				for _, l := range as.Lhs {
					if ast.Unparen(l) == ast.Expr(ix) {
						isStore = true
					}
				}
			}
			return true
		})
		if isStore {
			return true
		}
		n++
		key := f.Name + "|lookup#" + itoa(n) + "|" + exprKey(ix)
		as, checked := commaOK[ix]
		if !checked {
			c.Fail(rule, key, ix.Pos(), "%s is read without testing that the name is in the map: a name the table does not have yields type code 0 (INT) and the import goes on with it", exprKey(ix))
			return true
		}
		okID, _ := as.Lhs[1].(*ast.Ident)
		if okID == nil || okID.Name == "_" {
			c.Fail(rule, key, ix.Pos(), "the presence result of %s is discarded", exprKey(ix))
			return true
		}
		// on the edge where ok is false every path returns a non-nil error before the value is used
		loc, _ := g.Locate(as)
		bad, _ := g.Forward(&loc, func(b *cfg.Block, si int) bool {
			if info, ok := g.EdgeInfo(b, si); ok && !info.Case {
				cond, val := ast.Unparen(info.Cond), info.Val
				if u, isNot := cond.(*ast.UnaryExpr); isNot && u.Op == token.NOT {
					cond, val = ast.Unparen(u.X), !val
				}
				if id, ok := cond.(*ast.Ident); ok && f.ObjOf(id) == f.ObjOf(okID) && val {
					return false // the found edge is not explored
				}
			}
			return true
		}, func(nn ast.Node, at Loc) Verdict {
			if r, ok := nn.(*ast.ReturnStmt); ok {
				if g.ReturnMayBeNil(r) {
					return Hit
				}
				return Cut
			}
			return Go
		}, nil)
		// the exploration above also walks paths on which ok is never tested: a test must exist
		tested := false
		ast.Inspect(f.Decl.Body, func(y ast.Node) bool {
			if ifs, ok := y.(*ast.IfStmt); ok {
				ast.Inspect(ifs.Cond, func(z ast.Node) bool {
					if id, ok := z.(*ast.Ident); ok && f.ObjOf(id) == f.ObjOf(okID) {
						tested = true
					}
					return true
				})
			}
			return true
		})
		if !tested || bad {
			c.Fail(rule, key, ix.Pos(), "a missing name does not end %s with an error on every path", fn)
		} else {
			c.OK(rule, key, ix.Pos(), 1, "comma-ok lookup; the miss edge returns an error")
		}
		return true
	})
	if n == 0 {
		c.Undecided(rule, f.Name+"|lookups", "no lookup in a map keyed by name found")
	}
}

// ruleStatementFieldsFromProductions: what Select returns is what its productions parsed.
func ruleStatementFieldsFromProductions(c *Ctx, rule string) {
	c.Rule(rule, "the SELECT statement handed to the executor is the one the productions parsed: in Parser.Select and Parser.TableExpression every store into a field of the statement under construction has the result of a production (a Parser method) as its value — a clause that is rewritten after parsing (de-duplicated, re-ordered, trimmed) by anything that does not see the whole statement changes what is grouped, filtered or returned without the text saying so")
	for _, fn := range []string{"sql.(*Parser).Select", "sql.(*Parser).TableExpression"} {
		f := c.NeedFunc(rule, fn)
		if f == nil {
			continue
		}
		sig := f.Obj.Type().(*types.Signature)
		if sig.Results().Len() == 0 {
			continue
		}
		stmtT := sig.Results().At(0).Type()
		n, bad := 0, 0
		inspectBody(f.Decl.Body, func(x ast.Node) bool {
			as, ok := x.(*ast.AssignStmt)
			if !ok {
				return true
			}
			for i, l := range as.Lhs {
				sel, ok := ast.Unparen(l).(*ast.SelectorExpr)
				if !ok {
					continue
				}
				base, ok := ast.Unparen(sel.X).(*ast.Ident)
				if !ok || !types.Identical(f.TypeOf(base), stmtT) || fieldVar(f, sel) == nil {
					continue
				}
				n++
				var rhs ast.Expr
				if len(as.Rhs) == 1 {
					rhs = as.Rhs[0]
				} else if i < len(as.Rhs) {
					rhs = as.Rhs[i]
				}
				okSrc := false
				if call, ok := ast.Unparen(rhs).(*ast.CallExpr); ok {
					if callee := f.Callee(call); callee != nil {
						if s, ok := callee.Type().(*types.Signature); ok && s.Recv() != nil && namedTypeIs(s.Recv().Type(), "sql", "Parser") {
							okSrc = true
						}
					}
				}
				// a presence flag (`sel.Distinct = true` behind the keyword test) is what the keyword parsed to: C10's
				// presence-flag rule judges those
				if rhs != nil {
					if cv := f.constOf(rhs); cv != nil && cv.Kind() == constant.Bool {
						okSrc = true
					}
				}
				key := f.Name + "|field-from-production|" + sel.Sel.Name
				if okSrc {
					c.OK(rule, key, as.Pos(), 1, "assigned from a production")
				} else {
					bad++
					c.Fail(rule, key+"#"+itoa(bad), as.Pos(), "%s stores %s into the statement's %s: the clause is not (only) what its production parsed", f.Name, f.Src(rhs), sel.Sel.Name)
				}
			}
			return true
		})
		if n == 0 {
			c.Undecided(rule, f.Name+"|field-from-production", "no store into a field of the statement found")
		}
	}
}

// ruleSessionStateMovesTogether: Session.CurDB and Session.RelationService say the same thing at every exit.
func ruleSessionStateMovesTogether(c *Ctx, rule string) {
	c.Rule(rule, "the two fields that say whether a database is selected change together: in every function of the engine, a store into Session.RelationService or Session.CurDB is accompanied by a store into the other one on every path to the function's exits (the same statement, or straight-line neighbours). ExecQuery decides by `CurDB == \"\"` whether there is a service to call: a path that clears or replaces one field and can leave (an error return in between) with the other one unchanged lets the next statement dereference a nil service")
	w := c.W
	eng := w.Pkgs["engine"]
	n := 0
	for _, name := range w.SortedFuncNames() {
		f := w.Funcs[name]
		if f.Pkg != eng || f.Decl.Body == nil {
			continue
		}
		type store struct {
			loc   Loc
			field string
			node  ast.Node
		}
		var stores []store
		g := f.Graph()
		fieldOf := func(e ast.Expr) string {
			sel, ok := ast.Unparen(e).(*ast.SelectorExpr)
			if !ok {
				return ""
			}
			v := fieldVar(f, sel)
			if v == nil || (v.Name() != "CurDB" && v.Name() != "RelationService") || !namedTypeIs(f.TypeOf(sel.X), "engine", "Session") {
				return ""
			}
			return v.Name()
		}
		inspectBody(f.Decl.Body, func(x ast.Node) bool {
			as, ok := x.(*ast.AssignStmt)
			if !ok {
				return true
			}
			for _, l := range as.Lhs {
				if fn := fieldOf(l); fn != "" {
					if loc, ok := g.Locate(as); ok {
						stores = append(stores, store{loc, fn, as})
					}
				}
			}
			return true
		})
		if len(stores) == 0 {
			continue
		}
		storesField := func(nd ast.Node, field string) bool {
			as, ok := nd.(*ast.AssignStmt)
			if !ok {
				return false
			}
			for _, l := range as.Lhs {
				if fieldOf(l) == field {
					return true
				}
			}
			return false
		}
		for i, s := range stores {
			n++
			other := "CurDB"
			if s.field == "CurDB" {
				other = "RelationService"
			}
			key := f.Name + "|" + s.field + "-with-" + other + "#" + itoa(i+1)
			if storesField(s.node, other) {
				c.OK(rule, key, s.node.Pos(), 1, "both fields are stored by one statement")
				continue
			}
			// forward: every path to an exit stores the other field
			from := s.loc
			leak, _ := g.Forward(&from, nil, func(nd ast.Node, at Loc) Verdict {
				if storesField(nd, other) {
					return Cut
				}
				if _, isRet := nd.(*ast.ReturnStmt); isRet {
					return Hit
				}
				return Go
			}, func(*cfg.Block) Verdict { return Hit })
			if !leak {
				c.OK(rule, key, s.node.Pos(), 1, "every path from here to an exit stores %s as well", other)
				continue
			}
			// backward: a store of the other field dominates this one and always runs into it
			paired := false
			for _, t := range stores {
				if t.field != other || !g.Dominates(t.loc, s.loc) {
					continue
				}
				tf := t.loc
				miss, _ := g.Forward(&tf, nil, func(nd ast.Node, at Loc) Verdict {
					if at == s.loc {
						return Cut
					}
					if _, isRet := nd.(*ast.ReturnStmt); isRet {
						return Hit
					}
					return Go
				}, func(*cfg.Block) Verdict { return Hit })
				if !miss {
					paired = true
				}
			}
			if paired {
				c.OK(rule, key, s.node.Pos(), 1, "the store of %s just before always runs into this one", other)
				continue
			}
			c.Fail(rule, key, s.node.Pos(), "%s stores Session.%s and can return without storing Session.%s: the session then names a database without holding a service for it (or the reverse), and the next statement passes the `CurDB == \"\"` test and calls a nil service", f.Name, s.field, other)
		}
	}
	if n == 0 {
		c.Undecided(rule, "subjects", "no store into Session.CurDB / Session.RelationService found in the engine")
	}
}
