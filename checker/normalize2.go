package main

// Two more source-level normalisations (analysis only; inert on the reference tree):
//   - a tagless switch in a function whose pinned version had none is written as the if / else-if chain it stands for;
//   - a fresh object built under a new name and then copied into a variable the rules know (`root := &T{}; …; parent = root`)
//     is built under the known name.

import (
	"go/ast"
	"go/token"
	"go/types"
	"sort"
	"strings"
)

func applyEdits(w *World, overlay map[string][]byte, edits map[string][]textEdit) map[string][]byte {
	out := map[string][]byte{}
	for k, v := range overlay {
		out[k] = v
	}
	for fname, es := range edits {
		src := readSource(fname, overlay)
		sort.Slice(es, func(i, j int) bool { return es[i].start < es[j].start })
		for i := 1; i < len(es); i++ {
			if es[i].start < es[i-1].end {
				return nil
			}
		}
		var b strings.Builder
		last := 0
		for _, e := range es {
			b.Write(src[last:e.start])
			b.WriteString(e.text)
			last = e.end
		}
		b.Write(src[last:])
		out[fname] = []byte(b.String())
	}
	return out
}

// switchesToIfs rewrites one tagless switch per function and round.
func (w *World) switchesToIfs(overlay map[string][]byte) (map[string][]byte, []string) {
	edits := map[string][]textEdit{}
	var done []string
	for _, name := range w.SortedFuncNames() {
		f := w.Funcs[name]
		if _, pinned := pinnedFuncs[name]; !pinned || pinnedTagless[name] > 0 || f.Decl.Body == nil {
			continue
		}
		tf, fname := w.fileOf(f.Decl.Pos())
		src := readSource(fname, overlay)
		text := func(n ast.Node) string { return string(src[tf.Offset(n.Pos()):tf.Offset(n.End())]) }
		labelled := map[ast.Stmt]bool{}
		ast.Inspect(f.Decl.Body, func(x ast.Node) bool {
			if l, ok := x.(*ast.LabeledStmt); ok {
				labelled[l.Stmt] = true
			}
			return true
		})
		var target *ast.SwitchStmt
		ast.Inspect(f.Decl.Body, func(x ast.Node) bool {
			if target != nil {
				return false
			}
			sw, ok := x.(*ast.SwitchStmt)
			if !ok || sw.Tag != nil || sw.Init != nil || labelled[sw] || len(sw.Body.List) == 0 {
				return true
			}
			// no fallthrough, no break that leaves this switch
			bad := false
			var walk func(n ast.Node, depth int)
			walk = func(n ast.Node, depth int) {
				ast.Inspect(n, func(y ast.Node) bool {
					if y == nil || bad {
						return false
					}
					switch z := y.(type) {
					case *ast.FuncLit:
						return false
					case *ast.BranchStmt:
						if z.Tok == token.FALLTHROUGH || (z.Tok == token.BREAK && z.Label == nil && depth == 0) {
							bad = true
						}
					case *ast.ForStmt, *ast.RangeStmt, *ast.SwitchStmt, *ast.TypeSwitchStmt, *ast.SelectStmt:
						if y != n {
							walk(y, depth+1)
							return false
						}
					}
					return true
				})
			}
			for _, cc := range sw.Body.List {
				for _, st := range cc.(*ast.CaseClause).Body {
					walk(st, 0)
					// a nested construct at depth 0 is walked through the case above only when it is not the statement itself
					switch st.(type) {
					case *ast.ForStmt, *ast.RangeStmt, *ast.SwitchStmt, *ast.TypeSwitchStmt, *ast.SelectStmt:
						// breaks directly inside belong to that construct: re-walk at depth 1 without the outer check
					}
				}
			}
			if bad {
				return true
			}
			target = sw
			return false
		})
		if target == nil {
			continue
		}
		var b strings.Builder
		var deflt *ast.CaseClause
		first := true
		for _, c := range target.Body.List {
			cc := c.(*ast.CaseClause)
			if cc.List == nil {
				deflt = cc
				continue
			}
			var conds []string
			for _, e := range cc.List {
				conds = append(conds, "("+text(e)+")")
			}
			if first {
				b.WriteString("if ")
				first = false
			} else {
				b.WriteString(" else if ")
			}
			b.WriteString(strings.Join(conds, " || ") + " {\n")
			for _, st := range cc.Body {
				b.WriteString(text(st) + "\n")
			}
			b.WriteString("}")
		}
		if first {
			continue // only a default arm
		}
		if deflt != nil {
			b.WriteString(" else {\n")
			for _, st := range deflt.Body {
				b.WriteString(text(st) + "\n")
			}
			b.WriteString("}")
		}
		b.WriteString("\n")
		edits[fname] = append(edits[fname], textEdit{tf.Offset(target.Pos()), tf.Offset(target.End()), b.String()})
		done = append(done, name)
	}
	if len(done) == 0 {
		return nil, nil
	}
	out := applyEdits(w, overlay, edits)
	if out == nil {
		return nil, nil
	}
	return out, done
}

// coalesceCopies: `x := E; …; p = x` (x new, p known to the rules, p not mentioned in between, x not used afterwards)
// becomes `p = E; …; p = p`.
func (w *World) coalesceCopies(overlay map[string][]byte) (map[string][]byte, []string) {
	edits := map[string][]textEdit{}
	var done []string
	for _, name := range w.SortedFuncNames() {
		f := w.Funcs[name]
		pinned, ok := pinnedLocals[name]
		if !ok || f.Decl.Body == nil {
			continue
		}
		known := map[string]bool{}
		for _, n := range strings.Fields(pinned) {
			known[n] = true
		}
		if f.Decl.Type.Params != nil {
			for _, fl := range f.Decl.Type.Params.List {
				for _, n := range fl.Names {
					known[n.Name] = true
				}
			}
		}
		info := f.Pkg.TypesInfo
		tf, fname := w.fileOf(f.Decl.Pos())
		found := false
		var lists [][]ast.Stmt
		ast.Inspect(f.Decl.Body, func(x ast.Node) bool {
			switch y := x.(type) {
			case *ast.BlockStmt:
				lists = append(lists, y.List)
			case *ast.CaseClause:
				lists = append(lists, y.Body)
			case *ast.CommClause:
				lists = append(lists, y.Body)
			}
			return true
		})
		mentions := func(n ast.Node, o types.Object) bool {
			hit := false
			ast.Inspect(n, func(y ast.Node) bool {
				if id, ok := y.(*ast.Ident); ok && info.ObjectOf(id) == o {
					hit = true
				}
				return !hit
			})
			return hit
		}
		for _, list := range lists {
			if found {
				break
			}
			for ci, st := range list {
				as, ok := st.(*ast.AssignStmt)
				if !ok || as.Tok != token.ASSIGN || len(as.Lhs) != len(as.Rhs) {
					continue
				}
				for i := range as.Lhs {
					p, ok1 := as.Lhs[i].(*ast.Ident)
					x, ok2 := as.Rhs[i].(*ast.Ident)
					if !ok1 || !ok2 || !known[p.Name] || known[x.Name] || p.Name == "_" {
						continue
					}
					po, xo := info.ObjectOf(p), info.ObjectOf(x)
					if po == nil || xo == nil || !types.Identical(po.Type(), xo.Type()) {
						continue
					}
					if _, isPtr := xo.Type().Underlying().(*types.Pointer); !isPtr {
						continue
					}
					// the definition of x: `x := E` earlier in the same list
					di := -1
					for j := 0; j < ci; j++ {
						if d, ok := list[j].(*ast.AssignStmt); ok && d.Tok == token.DEFINE && len(d.Lhs) == 1 && len(d.Rhs) == 1 {
							if id, ok := d.Lhs[0].(*ast.Ident); ok && info.Defs[id] == xo {
								di = j
							}
						}
					}
					if di < 0 {
						continue
					}
					okBetween := true
					for j := di; j < ci; j++ {
						if mentions(list[j], po) {
							okBetween = false
						}
					}
					for j := ci + 1; j < len(list); j++ {
						if mentions(list[j], xo) {
							okBetween = false
						}
					}
					// x must not be captured or assigned elsewhere
					nAssign := 0
					ast.Inspect(f.Decl.Body, func(y ast.Node) bool {
						switch z := y.(type) {
						case *ast.AssignStmt:
							for _, l := range z.Lhs {
								if id, ok := ast.Unparen(l).(*ast.Ident); ok && info.ObjectOf(id) == xo {
									nAssign++
								}
							}
						case *ast.UnaryExpr:
							if z.Op == token.AND {
								if id, ok := ast.Unparen(z.X).(*ast.Ident); ok && info.ObjectOf(id) == xo {
									nAssign += 2
								}
							}
						case *ast.FuncLit:
							if mentions(z, xo) {
								nAssign += 2
							}
						}
						return true
					})
					if !okBetween || nAssign != 1 {
						continue
					}
					// rename x -> p from its definition to the copy
					d := list[di].(*ast.AssignStmt)
					edits[fname] = append(edits[fname], textEdit{tf.Offset(d.Lhs[0].Pos()), tf.Offset(d.Rhs[0].Pos()), p.Name + " = "})
					for j := di; j <= ci; j++ {
						ast.Inspect(list[j], func(y ast.Node) bool {
							if id, ok := y.(*ast.Ident); ok && info.Uses[id] == xo {
								edits[fname] = append(edits[fname], textEdit{tf.Offset(id.Pos()), tf.Offset(id.End()), p.Name})
							}
							return true
						})
					}
					done = append(done, name+":"+x.Name+"->"+p.Name)
					found = true
					break
				}
				if found {
					break
				}
			}
		}
	}
	if len(done) == 0 {
		return nil, nil
	}
	out := applyEdits(w, overlay, edits)
	if out == nil {
		return nil, nil
	}
	return out, done
}

// devirtualizeSeams: a package-level function variable that is initialised with a function and never assigned in
// non-test code (`var openFile = os.OpenFile`, a seam for tests) is called directly.
func (w *World) devirtualizeSeams(overlay map[string][]byte) (map[string][]byte, []string) {
	edits := map[string][]textEdit{}
	var done []string
	for _, pk := range w.Pkgs {
		info := pk.TypesInfo
		// candidate variables: package level, function type, initialiser names a function
		init := map[types.Object]string{}
		initFile := map[types.Object]string{}
		for _, file := range pk.Syntax {
			tf, fname := w.fileOf(file.Pos())
			src := readSource(fname, overlay)
			for _, d := range file.Decls {
				gd, ok := d.(*ast.GenDecl)
				if !ok || gd.Tok != token.VAR {
					continue
				}
				for _, sp := range gd.Specs {
					vs := sp.(*ast.ValueSpec)
					if len(vs.Names) != len(vs.Values) {
						continue
					}
					for i, nm := range vs.Names {
						obj := info.Defs[nm]
						if obj == nil {
							continue
						}
						if _, isSig := obj.Type().Underlying().(*types.Signature); !isSig {
							continue
						}
						val := ast.Unparen(vs.Values[i])
						var fn *types.Func
						switch y := val.(type) {
						case *ast.Ident:
							fn, _ = info.Uses[y].(*types.Func)
						case *ast.SelectorExpr:
							if _, isPkg := info.Uses[pkgIdent(y)].(*types.PkgName); isPkg {
								fn, _ = info.Uses[y.Sel].(*types.Func)
							}
						}
						if fn == nil {
							continue
						}
						init[obj] = string(src[tf.Offset(val.Pos()):tf.Offset(val.End())])
						initFile[obj] = fname
					}
				}
			}
		}
		if len(init) == 0 {
			continue
		}
		// assigned anywhere, or address taken?
		for _, file := range pk.Syntax {
			ast.Inspect(file, func(n ast.Node) bool {
				switch y := n.(type) {
				case *ast.AssignStmt:
					for _, l := range y.Lhs {
						if id, ok := ast.Unparen(l).(*ast.Ident); ok {
							delete(init, info.ObjectOf(id))
						}
					}
				case *ast.UnaryExpr:
					if y.Op == token.AND {
						if id, ok := ast.Unparen(y.X).(*ast.Ident); ok {
							delete(init, info.ObjectOf(id))
						}
					}
				}
				return true
			})
		}
		for _, file := range pk.Syntax {
			tf, fname := w.fileOf(file.Pos())
			ast.Inspect(file, func(n ast.Node) bool {
				call, ok := n.(*ast.CallExpr)
				if !ok {
					return true
				}
				id, ok := ast.Unparen(call.Fun).(*ast.Ident)
				if !ok {
					return true
				}
				obj := info.Uses[id]
				txt, ok := init[obj]
				if !ok || initFile[obj] != fname && strings.Contains(txt, ".") && !fileImportsAll(file, txt) {
					return true
				}
				edits[fname] = append(edits[fname], textEdit{tf.Offset(id.Pos()), tf.Offset(id.End()), txt})
				done = append(done, obj.Name())
				return true
			})
		}
	}
	if len(done) == 0 {
		return nil, nil
	}
	out := applyEdits(w, overlay, edits)
	if out == nil {
		return nil, nil
	}
	sort.Strings(done)
	var uniq []string
	for i, d := range done {
		if i == 0 || d != done[i-1] {
			uniq = append(uniq, d)
		}
	}
	return out, uniq
}

func pkgIdent(sel *ast.SelectorExpr) *ast.Ident {
	id, _ := ast.Unparen(sel.X).(*ast.Ident)
	return id
}

// fileImportsAll: the file imports the package a qualified name "pkg.Func" needs (by its default name).
func fileImportsAll(file *ast.File, qualified string) bool {
	i := strings.Index(qualified, ".")
	if i < 0 {
		return true
	}
	want := qualified[:i]
	for _, im := range file.Imports {
		p := strings.Trim(im.Path.Value, `"`)
		name := p[strings.LastIndex(p, "/")+1:]
		if im.Name != nil {
			name = im.Name.Name
		}
		if name == want {
			return true
		}
	}
	return false
}

// ---- the polarity of a test ----------------------------------------------------------------------------------------

// negatedKey returns the expression key of the negation of cond (comparison operators flipped, De Morgan for && and ||).
func negatedKey(cond ast.Expr) string {
	return exprKey(negateExpr(cond))
}

func negateExpr(cond ast.Expr) ast.Expr {
	c := ast.Unparen(cond)
	switch y := c.(type) {
	case *ast.UnaryExpr:
		if y.Op == token.NOT {
			return ast.Unparen(y.X)
		}
	case *ast.BinaryExpr:
		flip := map[token.Token]token.Token{token.EQL: token.NEQ, token.NEQ: token.EQL, token.LSS: token.GEQ, token.GEQ: token.LSS, token.GTR: token.LEQ, token.LEQ: token.GTR}
		if op, ok := flip[y.Op]; ok {
			return &ast.BinaryExpr{X: y.X, Op: op, Y: y.Y}
		}
		if y.Op == token.LAND {
			return &ast.BinaryExpr{X: negateExpr(y.X), Op: token.LOR, Y: negateExpr(y.Y)}
		}
		if y.Op == token.LOR {
			return &ast.BinaryExpr{X: negateExpr(y.X), Op: token.LAND, Y: negateExpr(y.Y)}
		}
	}
	return &ast.UnaryExpr{Op: token.NOT, X: &ast.ParenExpr{X: c}}
}

func terminates(stmts []ast.Stmt) bool {
	if len(stmts) == 0 {
		return false
	}
	switch y := stmts[len(stmts)-1].(type) {
	case *ast.ReturnStmt:
		return true
	case *ast.ExprStmt:
		if call, ok := y.X.(*ast.CallExpr); ok {
			if id, ok := call.Fun.(*ast.Ident); ok && id.Name == "panic" {
				return true
			}
		}
	}
	return false
}

// restorePolarity: an if statement whose condition is the negation of a condition the pinned version of the function
// tests (and which the pinned version does not test itself) gets that polarity back, with its branches swapped:
//
//	if !C {A} else {B}          ->  if C {B} else {A}
//	if !C {A; return}; R; return ->  if C {R; return}; A; return        (at the end of the function body)
func (w *World) restorePolarity(overlay map[string][]byte) (map[string][]byte, []string) {
	edits := map[string][]textEdit{}
	var done []string
	for _, name := range w.SortedFuncNames() {
		f := w.Funcs[name]
		pc, ok := pinnedConds[name]
		if !ok || f.Decl.Body == nil {
			continue
		}
		known := map[string]bool{}
		for _, k := range strings.Split(pc, " | ") {
			known[k] = true
		}
		tf, fname := w.fileOf(f.Decl.Pos())
		src := readSource(fname, overlay)
		text := func(a, b token.Pos) string { return string(src[tf.Offset(a):tf.Offset(b)]) }
		// every condition tested now; a condition that is tested in both polarities is left alone
		var target *ast.IfStmt
		tail := false
		var loopTail []ast.Stmt // guard `if C { continue }` at the end of a loop body: the statements after it
		var lists [][]ast.Stmt
		loopBody := map[int]bool{}
		loops := map[*ast.BlockStmt]bool{}
		ast.Inspect(f.Decl.Body, func(x ast.Node) bool {
			switch y := x.(type) {
			case *ast.FuncLit:
				return false
			case *ast.ForStmt:
				loops[y.Body] = true
			case *ast.RangeStmt:
				loops[y.Body] = true
			case *ast.BlockStmt:
				if loops[y] {
					loopBody[len(lists)] = true
				}
				lists = append(lists, y.List)
			case *ast.CaseClause:
				lists = append(lists, y.Body)
			}
			return true
		})
		for li, list := range lists {
			if target != nil {
				break
			}
			for i, st := range list {
				ifs, ok := st.(*ast.IfStmt)
				if !ok || ifs.Init != nil {
					continue
				}
				k := exprKey(ifs.Cond)
				if known[k] || !known[negatedKey(ifs.Cond)] {
					continue
				}
				if blk, ok := ifs.Else.(*ast.BlockStmt); ok && blk != nil {
					target, tail = ifs, false
					break
				}
				// guard form in a loop body: `if C { continue }` + rest is `if !C { rest }`
				if ifs.Else == nil && loopBody[li] && i+1 < len(list) && len(ifs.Body.List) == 1 {
					if br, ok := ifs.Body.List[0].(*ast.BranchStmt); ok && br.Tok == token.CONTINUE && br.Label == nil {
						target, loopTail = ifs, list[i+1:]
						break
					}
				}
				// guard form at the end of the function body
				if ifs.Else == nil && terminates(ifs.Body.List) && i+1 < len(list) && terminates(list[i+1:]) && len(lists) > 0 && &list[0] == &f.Decl.Body.List[0] {
					target, tail = ifs, true
					break
				}
			}
		}
		if target == nil {
			continue
		}
		neg := types.ExprString(negateExpr(target.Cond))
		if loopTail != nil {
			last := loopTail[len(loopTail)-1]
			rest := text(target.End(), last.End())
			edits[fname] = append(edits[fname], textEdit{tf.Offset(target.Pos()), tf.Offset(last.End()), "if " + neg + " {" + rest + "\n}"})
		} else if !tail {
			blk := target.Else.(*ast.BlockStmt)
			txt := "if " + neg + " " + text(blk.Pos(), blk.End()) + " else " + text(target.Body.Pos(), target.Body.End())
			edits[fname] = append(edits[fname], textEdit{tf.Offset(target.Pos()), tf.Offset(target.End()), txt})
		} else {
			body := f.Decl.Body
			last := body.List[len(body.List)-1]
			rest := text(target.End(), last.End())
			inner := text(target.Body.Lbrace+1, target.Body.Rbrace)
			txt := "if " + neg + " {" + rest + "\n}\n" + inner
			edits[fname] = append(edits[fname], textEdit{tf.Offset(target.Pos()), tf.Offset(last.End()), txt})
		}
		done = append(done, name)
	}
	if len(done) == 0 {
		return nil, nil
	}
	out := applyEdits(w, overlay, edits)
	if out == nil {
		return nil, nil
	}
	return out, done
}

// ---- a sub-expression kept in a local that is assigned again and again -------------------------------------------------

// expandReassignedAliases: `var v T` … `v = E` (every assignment the same pure expression E, typically inside a loop)
// … uses of v: if on no path anything E reads is stored between an assignment of v and a use of v, every use of v is E,
// and v goes. (The single-definition case is handled by normalizeLocals.)
func (w *World) expandReassignedAliases(overlay map[string][]byte) (map[string][]byte, []string) {
	edits := map[string][]textEdit{}
	var done []string
	for _, name := range w.SortedFuncNames() {
		f := w.Funcs[name]
		pinned, ok := pinnedLocals[name]
		if !ok || f.Decl.Body == nil {
			continue
		}
		known := map[string]bool{}
		for _, n := range strings.Fields(pinned) {
			known[n] = true
		}
		info := f.Pkg.TypesInfo
		tf, fname := w.fileOf(f.Decl.Pos())
		src := readSource(fname, overlay)
		g := f.Graph()
		found := false
		ast.Inspect(f.Decl.Body, func(x ast.Node) bool {
			if found {
				return false
			}
			ds, ok := x.(*ast.DeclStmt)
			if !ok {
				return true
			}
			gd, ok := ds.Decl.(*ast.GenDecl)
			if !ok || gd.Tok != token.VAR || len(gd.Specs) != 1 {
				return true
			}
			vs := gd.Specs[0].(*ast.ValueSpec)
			if len(vs.Names) != 1 || len(vs.Values) != 0 || known[vs.Names[0].Name] {
				return true
			}
			obj := info.Defs[vs.Names[0]]
			if obj == nil {
				return true
			}
			// assignments and uses
			var asgs []*ast.AssignStmt
			var uses []*ast.Ident
			okShape := true
			lhsOf := map[*ast.Ident]bool{}
			ast.Inspect(f.Decl.Body, func(y ast.Node) bool {
				switch z := y.(type) {
				case *ast.FuncLit:
					if usesIn(f, z, obj) {
						okShape = false
					}
					return false
				case *ast.AssignStmt:
					for _, l := range z.Lhs {
						if id, ok := ast.Unparen(l).(*ast.Ident); ok && info.ObjectOf(id) == obj {
							if z.Tok != token.ASSIGN || len(z.Lhs) != 1 || len(z.Rhs) != 1 {
								okShape = false
							}
							asgs = append(asgs, z)
							lhsOf[id] = true
						}
					}
				case *ast.UnaryExpr:
					if z.Op == token.AND {
						if id, ok := ast.Unparen(z.X).(*ast.Ident); ok && info.ObjectOf(id) == obj {
							okShape = false
						}
					}
				case *ast.IncDecStmt:
					if id, ok := ast.Unparen(z.X).(*ast.Ident); ok && info.ObjectOf(id) == obj {
						okShape = false
					}
				}
				return true
			})
			if !okShape || len(asgs) == 0 {
				return true
			}
			ast.Inspect(f.Decl.Body, func(y ast.Node) bool {
				if id, ok := y.(*ast.Ident); ok && info.Uses[id] == obj && !lhsOf[id] {
					uses = append(uses, id)
				}
				return true
			})
			if len(uses) == 0 {
				return true
			}
			E := exprKey(asgs[0].Rhs[0])
			for _, a := range asgs {
				if exprKey(a.Rhs[0]) != E || !w.pureExpr(f, a.Rhs[0]) || usesIn(f, a.Rhs[0], obj) {
					return true
				}
			}
			// what E reads
			reads := map[types.Object]bool{}
			ast.Inspect(asgs[0].Rhs[0], func(y ast.Node) bool {
				if id, ok := y.(*ast.Ident); ok {
					if v, ok := info.ObjectOf(id).(*types.Var); ok {
						reads[v] = true
					}
				}
				return true
			})
			// stores into what E reads (the variable itself, or through it)
			var stores []ast.Node
			ast.Inspect(f.Decl.Body, func(y ast.Node) bool {
				switch z := y.(type) {
				case *ast.FuncLit:
					return false
				case *ast.AssignStmt:
					for _, l := range z.Lhs {
						e := ast.Unparen(l)
						for {
							switch s := e.(type) {
							case *ast.SelectorExpr:
								e = ast.Unparen(s.X)
								continue
							case *ast.IndexExpr:
								e = ast.Unparen(s.X)
								continue
							case *ast.StarExpr:
								e = ast.Unparen(s.X)
								continue
							}
							break
						}
						if id, ok := e.(*ast.Ident); ok && reads[info.ObjectOf(id)] {
							stores = append(stores, z)
						}
					}
				case *ast.IncDecStmt:
					if id, ok := ast.Unparen(z.X).(*ast.Ident); ok && reads[info.ObjectOf(id)] {
						stores = append(stores, z)
					}
				}
				return true
			})
			isAsg := func(nn ast.Node) bool {
				for _, a := range asgs {
					if nn == ast.Node(a) {
						return true
					}
				}
				return false
			}
			for _, st := range stores {
				sl, ok := g.Locate(st)
				if !ok {
					return true
				}
				stale, _ := g.Forward(&sl, nil, func(nn ast.Node, at Loc) Verdict {
					if isAsg(nn) {
						return Cut
					}
					for _, u := range uses {
						if nn.Pos() <= u.Pos() && u.End() <= nn.End() {
							return Hit
						}
					}
					return Go
				}, nil)
				if stale {
					return true
				}
			}
			// every use must come after an assignment: from the declaration, no use before an assignment
			dl, ok := g.Locate(vs)
			if !ok {
				return true
			}
			early, _ := g.Forward(&dl, nil, func(nn ast.Node, at Loc) Verdict {
				if isAsg(nn) {
					return Cut
				}
				for _, u := range uses {
					if nn.Pos() <= u.Pos() && u.End() <= nn.End() {
						return Hit
					}
				}
				return Go
			}, nil)
			if early {
				return true
			}
			etxt := string(src[tf.Offset(asgs[0].Rhs[0].Pos()):tf.Offset(asgs[0].Rhs[0].End())])
			switch ast.Unparen(asgs[0].Rhs[0]).(type) {
			case *ast.Ident, *ast.SelectorExpr, *ast.CallExpr, *ast.IndexExpr, *ast.TypeAssertExpr:
			default:
				etxt = "(" + etxt + ")"
			}
			edits[fname] = append(edits[fname], textEdit{tf.Offset(ds.Pos()), tf.Offset(ds.End()), "// " + vs.Names[0].Name + " stands for " + E + ": substituted for analysis"})
			for _, a := range asgs {
				edits[fname] = append(edits[fname], textEdit{tf.Offset(a.Pos()), tf.Offset(a.End()), ""})
			}
			for _, u := range uses {
				edits[fname] = append(edits[fname], textEdit{tf.Offset(u.Pos()), tf.Offset(u.End()), etxt})
			}
			done = append(done, name+":"+vs.Names[0].Name)
			found = true
			return false
		})
	}
	if len(done) == 0 {
		return nil, nil
	}
	out := applyEdits(w, overlay, edits)
	if out == nil {
		return nil, nil
	}
	return out, done
}

// receiverWrites: the first-level fields of its receiver a method stores into, if that is ALL it changes (every store is
// `recv.f… = …` or into a local, every call it makes is pure). ok is false if the method may change anything else.
func (w *World) receiverWrites(t *Func) (map[string]bool, bool) {
	k := "recvwrites:" + t.Name
	type res struct {
		f  map[string]bool
		ok bool
	}
	if v, ok := w.memo[k]; ok {
		r := v.(res)
		return r.f, r.ok
	}
	out := res{map[string]bool{}, true}
	defer func() { w.memo[k] = out }()
	if t.Decl.Recv == nil || len(t.Decl.Recv.List) != 1 || len(t.Decl.Recv.List[0].Names) != 1 || t.Decl.Body == nil {
		out.ok = false
		return out.f, false
	}
	info := t.Pkg.TypesInfo
	recv := info.Defs[t.Decl.Recv.List[0].Names[0]]
	ast.Inspect(t.Decl.Body, func(x ast.Node) bool {
		if !out.ok {
			return false
		}
		store := func(l ast.Expr) {
			e := ast.Unparen(l)
			first := ""
			for {
				switch y := e.(type) {
				case *ast.SelectorExpr:
					first = y.Sel.Name
					e = ast.Unparen(y.X)
					continue
				case *ast.IndexExpr:
					e = ast.Unparen(y.X)
					continue
				case *ast.StarExpr:
					e = ast.Unparen(y.X)
					continue
				}
				break
			}
			id, ok := e.(*ast.Ident)
			if !ok {
				out.ok = false
				return
			}
			if id.Name == "_" {
				return
			}
			o := info.ObjectOf(id)
			if o == recv {
				if first == "" {
					out.ok = false
					return
				}
				out.f[first] = true
				return
			}
			if v, ok := o.(*types.Var); ok && !v.IsField() && v.Pkg() != nil && v.Parent() != v.Pkg().Scope() {
				if first != "" {
					// a store through a local pointer may reach anywhere
					if _, isPtr := v.Type().Underlying().(*types.Pointer); isPtr {
						out.ok = false
					}
				}
				return
			}
			out.ok = false
		}
		switch y := x.(type) {
		case *ast.AssignStmt:
			for _, l := range y.Lhs {
				store(l)
			}
		case *ast.IncDecStmt:
			store(y.X)
		case *ast.GoStmt, *ast.DeferStmt, *ast.SendStmt, *ast.FuncLit:
			out.ok = false
		case *ast.CallExpr:
			if tv, ok := info.Types[y.Fun]; ok && tv.IsType() {
				return true
			}
			if id, ok := ast.Unparen(y.Fun).(*ast.Ident); ok {
				if _, isB := info.ObjectOf(id).(*types.Builtin); isB && id.Name != "copy" && id.Name != "delete" && id.Name != "clear" {
					return true
				}
			}
			callee := t.Callee(y)
			if callee != nil && pureLibCall(calleeKey(callee)) {
				return true
			}
			ts := w.resolve(callee)
			if callee == nil || len(ts) == 0 {
				out.ok = false
				return false
			}
			for _, tt := range ts {
				if tt == t || !w.pureFunc(tt, map[*Func]bool{}) {
					out.ok = false
				}
			}
		}
		return true
	})
	return out.f, out.ok
}

// coalesceResultCopies: a search that was moved into a helper comes back from the substitution as
//
//	var cur T
//	L: switch { default: x := first(); for { if x == nil { cur = nil; break L } … { cur = x; break L } … x = x.next() } }
//
// — the variable the rules know (cur) only receives copies of a new local (x) at the exits. Where x is dead
// after every copy and cur is mentioned nowhere else while x is in scope, x IS cur: the search is written
// with cur itself (`cur = first()` …), which is how the pinned function reads.
func (w *World) coalesceResultCopies(overlay map[string][]byte) (map[string][]byte, []string) {
	edits := map[string][]textEdit{}
	var done []string
	for _, name := range w.SortedFuncNames() {
		f := w.Funcs[name]
		pinned, ok := pinnedLocals[name]
		if !ok || f.Decl.Body == nil {
			continue
		}
		known := map[string]bool{}
		for _, n := range strings.Fields(pinned) {
			known[n] = true
		}
		info := f.Pkg.TypesInfo
		tf, fname := w.fileOf(f.Decl.Pos())
		var holders [][]ast.Stmt
		ast.Inspect(f.Decl.Body, func(x ast.Node) bool {
			switch y := x.(type) {
			case *ast.BlockStmt:
				holders = append(holders, y.List)
			case *ast.CaseClause:
				holders = append(holders, y.Body)
			case *ast.CommClause:
				holders = append(holders, y.Body)
			}
			return true
		})
		found := false
		// every statement list of the function with, per statement, its successor in the list
		nextOf := map[ast.Stmt]ast.Stmt{}
		ast.Inspect(f.Decl.Body, func(x ast.Node) bool {
			var l []ast.Stmt
			switch y := x.(type) {
			case *ast.BlockStmt:
				l = y.List
			case *ast.CaseClause:
				l = y.Body
			case *ast.CommClause:
				l = y.Body
			}
			for i := 0; i+1 < len(l); i++ {
				nextOf[l[i]] = l[i+1]
			}
			return true
		})
		leaves := func(st ast.Stmt) bool {
			switch n := nextOf[st].(type) {
			case *ast.BranchStmt:
				return n.Tok == token.BREAK || n.Tok == token.GOTO
			case *ast.ReturnStmt:
				return true
			}
			return false
		}
		{
			for _, holder := range holders {
				for di, st := range holder {
					d, ok := st.(*ast.AssignStmt)
					if !ok || d.Tok != token.DEFINE || len(d.Lhs) != 1 || len(d.Rhs) != 1 {
						continue
					}
					xid, ok := d.Lhs[0].(*ast.Ident)
					if !ok || known[xid.Name] || xid.Name == "_" {
						continue
					}
					xo := info.Defs[xid]
					if xo == nil {
						continue
					}
					scope := holder[di:]
					// copies R = X inside the scope
					var ro types.Object
					var rname string
					okAll, copies := true, 0
					for _, s2 := range scope {
						ast.Inspect(s2, func(y ast.Node) bool {
							switch z := y.(type) {
							case *ast.FuncLit:
								ast.Inspect(z, func(q ast.Node) bool {
									if id, ok := q.(*ast.Ident); ok && info.ObjectOf(id) == xo {
										okAll = false
									}
									return true
								})
								return false
							case *ast.UnaryExpr:
								if z.Op == token.AND {
									if id, ok := ast.Unparen(z.X).(*ast.Ident); ok && info.ObjectOf(id) == xo {
										okAll = false
									}
								}
							case *ast.AssignStmt:
								if len(z.Lhs) == 1 && len(z.Rhs) == 1 && z.Tok == token.ASSIGN {
									l, ok1 := z.Lhs[0].(*ast.Ident)
									r, ok2 := ast.Unparen(z.Rhs[0]).(*ast.Ident)
									if ok1 && ok2 && info.ObjectOf(r) == xo && known[l.Name] && info.ObjectOf(l) != xo {
										lo := info.ObjectOf(l)
										if ro != nil && lo != ro {
											okAll = false
										}
										ro, rname = lo, l.Name
										if !leaves(z) {
											okAll = false
										}
										copies++
									}
								}
							}
							return true
						})
					}
					if !okAll || ro == nil || copies == 0 || !types.Identical(ro.Type(), xo.Type()) {
						continue
					}
					// every other mention of R in the scope: `R = nil` under `if X == nil`, leaving at once
					for _, s2 := range scope {
						var stack []ast.Node
						ast.Inspect(s2, func(y ast.Node) bool {
							if y == nil {
								stack = stack[:len(stack)-1]
								return true
							}
							stack = append(stack, y)
							id, ok := y.(*ast.Ident)
							if !ok || info.ObjectOf(id) != ro {
								return true
							}
							// the enclosing assignment
							var as *ast.AssignStmt
							var guard *ast.IfStmt
							for i := len(stack) - 1; i >= 0; i-- {
								if a, ok := stack[i].(*ast.AssignStmt); ok && as == nil {
									as = a
								}
								if g, ok := stack[i].(*ast.IfStmt); ok && guard == nil && as != nil && g.Body.Pos() <= as.Pos() && as.End() <= g.Body.End() {
									guard = g
								}
							}
							if as == nil || len(as.Lhs) != 1 || len(as.Rhs) != 1 || as.Lhs[0] != ast.Expr(id) || as.Tok != token.ASSIGN {
								okAll = false
								return true
							}
							if r, ok := ast.Unparen(as.Rhs[0]).(*ast.Ident); ok && info.ObjectOf(r) == xo {
								return true // a copy
							}
							isNil := false
							if r, ok := ast.Unparen(as.Rhs[0]).(*ast.Ident); ok && r.Name == "nil" {
								isNil = true
							}
							guarded := false
							if guard != nil {
								if be, ok := ast.Unparen(guard.Cond).(*ast.BinaryExpr); ok && be.Op == token.EQL {
									l, ok1 := ast.Unparen(be.X).(*ast.Ident)
									r, ok2 := ast.Unparen(be.Y).(*ast.Ident)
									if ok1 && ok2 && info.ObjectOf(l) == xo && r.Name == "nil" {
										guarded = true
									}
								}
							}
							if !isNil || !guarded || !leaves(as) {
								okAll = false
							}
							return true
						})
					}
					if !okAll {
						continue
					}
					// x is the variable the rules know
					edits[fname] = append(edits[fname], textEdit{tf.Offset(d.Lhs[0].Pos()), tf.Offset(d.Rhs[0].Pos()), rname + " = "})
					for _, s2 := range scope {
						ast.Inspect(s2, func(y ast.Node) bool {
							if z, ok := y.(*ast.AssignStmt); ok && len(z.Lhs) == 1 && len(z.Rhs) == 1 && z.Tok == token.ASSIGN {
								l, ok1 := z.Lhs[0].(*ast.Ident)
								r, ok2 := ast.Unparen(z.Rhs[0]).(*ast.Ident)
								if ok1 && ok2 && info.ObjectOf(r) == xo && info.ObjectOf(l) == ro {
									// the copy itself disappears
									edits[fname] = append(edits[fname], textEdit{tf.Offset(z.Pos()), tf.Offset(z.End()), ""})
									return false
								}
							}
							if id, ok := y.(*ast.Ident); ok && info.Uses[id] == xo {
								edits[fname] = append(edits[fname], textEdit{tf.Offset(id.Pos()), tf.Offset(id.End()), rname})
							}
							return true
						})
					}
					done = append(done, name+":"+xid.Name+"->"+rname)
					found = true
					break
				}
				if found {
					break
				}
			}
		}
	}
	if len(done) == 0 {
		return nil, nil
	}
	out := applyEdits(w, overlay, edits)
	if out == nil {
		return nil, nil
	}
	return out, done
}

// splitIfInits: `if a, b := h(x); COND { … }` with h a function the rules have never seen is written as
// `{ a, b := h(x); if COND { … } }` — the same scopes, the same evaluation — so that the helper's body can be
// substituted at an ordinary assignment.
func (w *World) splitIfInits(overlay map[string][]byte) (map[string][]byte, []string) {
	edits := map[string][]textEdit{}
	var done []string
	for _, name := range w.SortedFuncNames() {
		f := w.Funcs[name]
		if f.Decl.Body == nil {
			continue
		}
		tf, fname := w.fileOf(f.Decl.Pos())
		var stack []ast.Node
		ast.Inspect(f.Decl.Body, func(x ast.Node) bool {
			if x == nil {
				stack = stack[:len(stack)-1]
				return true
			}
			stack = append(stack, x)
			ifs, ok := x.(*ast.IfStmt)
			if !ok || ifs.Init == nil || len(stack) < 2 {
				return true
			}
			if !isBlockMember(stack[len(stack)-2], ifs) {
				return true
			}
			as, ok := ifs.Init.(*ast.AssignStmt)
			if !ok || as.Tok != token.DEFINE || len(as.Rhs) != 1 || len(as.Lhs) < 2 {
				return true
			}
			call, ok := ast.Unparen(as.Rhs[0]).(*ast.CallExpr)
			if !ok {
				return true
			}
			fn := f.Callee(call)
			if fn == nil || fn.Pkg() == nil || pkgKey(fn.Pkg().Path()) == "" {
				return true
			}
			h := w.FuncOf(fn)
			if h == nil {
				return true
			}
			if _, pinned := pinnedFuncs[h.Name]; pinned || w.aliased[h] {
				return true
			}
			src := readSource(fname, overlay)
			initText := string(src[tf.Offset(as.Pos()):tf.Offset(as.End())])
			edits[fname] = append(edits[fname],
				textEdit{tf.Offset(ifs.Pos()), tf.Offset(ifs.Cond.Pos()), "{\n" + initText + "\nif "},
				textEdit{tf.Offset(ifs.End()), tf.Offset(ifs.End()), "\n}"})
			done = append(done, name+":"+h.Decl.Name.Name)
			return false
		})
	}
	if len(done) == 0 {
		return nil, nil
	}
	out := applyEdits(w, overlay, edits)
	if out == nil {
		return nil, nil
	}
	return out, done
}
