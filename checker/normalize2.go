package main

// Two more source-level normalisations (analysis only; inert on the reference tree):
//   - a tagless switch in a function whose pinned version had none is written as the if / else-if chain it stands for;
//   - a fresh object built under a new name and then copied into a variable the rules know (`root := &T{}; …; parent = root`)
//     is built under the known name.

import (
	"go/ast"
	"go/token"
	"go/types"
	"sort"
	"strings"
)

func applyEdits(w *World, overlay map[string][]byte, edits map[string][]textEdit) map[string][]byte {
	out := map[string][]byte{}
	for k, v := range overlay {
		out[k] = v
	}
	for fname, es := range edits {
		src := readSource(fname, overlay)
		sort.Slice(es, func(i, j int) bool { return es[i].start < es[j].start })
		for i := 1; i < len(es); i++ {
			if es[i].start < es[i-1].end {
				return nil
			}
		}
		var b strings.Builder
		last := 0
		for _, e := range es {
			b.Write(src[last:e.start])
			b.WriteString(e.text)
			last = e.end
		}
		b.Write(src[last:])
		out[fname] = []byte(b.String())
	}
	return out
}

// switchesToIfs rewrites one tagless switch per function and round.
func (w *World) switchesToIfs(overlay map[string][]byte) (map[string][]byte, []string) {
	edits := map[string][]textEdit{}
	var done []string
	for _, name := range w.SortedFuncNames() {
		f := w.Funcs[name]
		if _, pinned := pinnedFuncs[name]; !pinned || pinnedTagless[name] > 0 || f.Decl.Body == nil {
			continue
		}
		tf, fname := w.fileOf(f.Decl.Pos())
		src := readSource(fname, overlay)
		text := func(n ast.Node) string { return string(src[tf.Offset(n.Pos()):tf.Offset(n.End())]) }
		labelled := map[ast.Stmt]bool{}
		ast.Inspect(f.Decl.Body, func(x ast.Node) bool {
			if l, ok := x.(*ast.LabeledStmt); ok {
				labelled[l.Stmt] = true
			}
			return true
		})
		var target *ast.SwitchStmt
		ast.Inspect(f.Decl.Body, func(x ast.Node) bool {
			if target != nil {
				return false
			}
			sw, ok := x.(*ast.SwitchStmt)
			if !ok || sw.Tag != nil || sw.Init != nil || labelled[sw] || len(sw.Body.List) == 0 {
				return true
			}
			// no fallthrough, no break that leaves this switch
			bad := false
			var walk func(n ast.Node, depth int)
			walk = func(n ast.Node, depth int) {
				ast.Inspect(n, func(y ast.Node) bool {
					if y == nil || bad {
						return false
					}
					switch z := y.(type) {
					case *ast.FuncLit:
						return false
					case *ast.BranchStmt:
						if z.Tok == token.FALLTHROUGH || (z.Tok == token.BREAK && z.Label == nil && depth == 0) {
							bad = true
						}
					case *ast.ForStmt, *ast.RangeStmt, *ast.SwitchStmt, *ast.TypeSwitchStmt, *ast.SelectStmt:
						if y != n {
							walk(y, depth+1)
							return false
						}
					}
					return true
				})
			}
			for _, cc := range sw.Body.List {
				for _, st := range cc.(*ast.CaseClause).Body {
					walk(st, 0)
					// a nested construct at depth 0 is walked through the case above only when it is not the statement itself
					switch st.(type) {
					case *ast.ForStmt, *ast.RangeStmt, *ast.SwitchStmt, *ast.TypeSwitchStmt, *ast.SelectStmt:
						// breaks directly inside belong to that construct: re-walk at depth 1 without the outer check
					}
				}
			}
			if bad {
				return true
			}
			target = sw
			return false
		})
		if target == nil {
			continue
		}
		var b strings.Builder
		var deflt *ast.CaseClause
		first := true
		for _, c := range target.Body.List {
			cc := c.(*ast.CaseClause)
			if cc.List == nil {
				deflt = cc
				continue
			}
			var conds []string
			for _, e := range cc.List {
				conds = append(conds, "("+text(e)+")")
			}
			if first {
				b.WriteString("if ")
				first = false
			} else {
				b.WriteString(" else if ")
			}
			b.WriteString(strings.Join(conds, " || ") + " {\n")
			for _, st := range cc.Body {
				b.WriteString(text(st) + "\n")
			}
			b.WriteString("}")
		}
		if first {
			continue // only a default arm
		}
		if deflt != nil {
			b.WriteString(" else {\n")
			for _, st := range deflt.Body {
				b.WriteString(text(st) + "\n")
			}
			b.WriteString("}")
		}
		b.WriteString("\n")
		edits[fname] = append(edits[fname], textEdit{tf.Offset(target.Pos()), tf.Offset(target.End()), b.String()})
		done = append(done, name)
	}
	if len(done) == 0 {
		return nil, nil
	}
	out := applyEdits(w, overlay, edits)
	if out == nil {
		return nil, nil
	}
	return out, done
}

// coalesceCopies: `x := E; …; p = x` (x new, p known to the rules, p not mentioned in between, x not used afterwards)
// becomes `p = E; …; p = p`.
func (w *World) coalesceCopies(overlay map[string][]byte) (map[string][]byte, []string) {
	edits := map[string][]textEdit{}
	var done []string
	for _, name := range w.SortedFuncNames() {
		f := w.Funcs[name]
		pinned, ok := pinnedLocals[name]
		if !ok || f.Decl.Body == nil {
			continue
		}
		known := map[string]bool{}
		for _, n := range strings.Fields(pinned) {
			known[n] = true
		}
		if f.Decl.Type.Params != nil {
			for _, fl := range f.Decl.Type.Params.List {
				for _, n := range fl.Names {
					known[n.Name] = true
				}
			}
		}
		info := f.Pkg.TypesInfo
		tf, fname := w.fileOf(f.Decl.Pos())
		found := false
		var lists [][]ast.Stmt
		ast.Inspect(f.Decl.Body, func(x ast.Node) bool {
			switch y := x.(type) {
			case *ast.BlockStmt:
				lists = append(lists, y.List)
			case *ast.CaseClause:
				lists = append(lists, y.Body)
			case *ast.CommClause:
				lists = append(lists, y.Body)
			}
			return true
		})
		mentions := func(n ast.Node, o types.Object) bool {
			hit := false
			ast.Inspect(n, func(y ast.Node) bool {
				if id, ok := y.(*ast.Ident); ok && info.ObjectOf(id) == o {
					hit = true
				}
				return !hit
			})
			return hit
		}
		for _, list := range lists {
			if found {
				break
			}
			for ci, st := range list {
				as, ok := st.(*ast.AssignStmt)
				if !ok || as.Tok != token.ASSIGN || len(as.Lhs) != len(as.Rhs) {
					continue
				}
				for i := range as.Lhs {
					p, ok1 := as.Lhs[i].(*ast.Ident)
					x, ok2 := as.Rhs[i].(*ast.Ident)
					if !ok1 || !ok2 || !known[p.Name] || known[x.Name] || p.Name == "_" {
						continue
					}
					po, xo := info.ObjectOf(p), info.ObjectOf(x)
					if po == nil || xo == nil || !types.Identical(po.Type(), xo.Type()) {
						continue
					}
					if _, isPtr := xo.Type().Underlying().(*types.Pointer); !isPtr {
						continue
					}
					// the definition of x: `x := E` earlier in the same list
					di := -1
					for j := 0; j < ci; j++ {
						if d, ok := list[j].(*ast.AssignStmt); ok && d.Tok == token.DEFINE && len(d.Lhs) == 1 && len(d.Rhs) == 1 {
							if id, ok := d.Lhs[0].(*ast.Ident); ok && info.Defs[id] == xo {
								di = j
							}
						}
					}
					if di < 0 {
						continue
					}
					okBetween := true
					for j := di; j < ci; j++ {
						if mentions(list[j], po) {
							okBetween = false
						}
					}
					for j := ci + 1; j < len(list); j++ {
						if mentions(list[j], xo) {
							okBetween = false
						}
					}
					// x must not be captured or assigned elsewhere
					nAssign := 0
					ast.Inspect(f.Decl.Body, func(y ast.Node) bool {
						switch z := y.(type) {
						case *ast.AssignStmt:
							for _, l := range z.Lhs {
								if id, ok := ast.Unparen(l).(*ast.Ident); ok && info.ObjectOf(id) == xo {
									nAssign++
								}
							}
						case *ast.UnaryExpr:
							if z.Op == token.AND {
								if id, ok := ast.Unparen(z.X).(*ast.Ident); ok && info.ObjectOf(id) == xo {
									nAssign += 2
								}
							}
						case *ast.FuncLit:
							if mentions(z, xo) {
								nAssign += 2
							}
						}
						return true
					})
					if !okBetween || nAssign != 1 {
						continue
					}
					// rename x -> p from its definition to the copy
					d := list[di].(*ast.AssignStmt)
					edits[fname] = append(edits[fname], textEdit{tf.Offset(d.Lhs[0].Pos()), tf.Offset(d.Rhs[0].Pos()), p.Name + " = "})
					for j := di; j <= ci; j++ {
						ast.Inspect(list[j], func(y ast.Node) bool {
							if id, ok := y.(*ast.Ident); ok && info.Uses[id] == xo {
								edits[fname] = append(edits[fname], textEdit{tf.Offset(id.Pos()), tf.Offset(id.End()), p.Name})
							}
							return true
						})
					}
					done = append(done, name+":"+x.Name+"->"+p.Name)
					found = true
					break
				}
				if found {
					break
				}
			}
		}
	}
	if len(done) == 0 {
		return nil, nil
	}
	out := applyEdits(w, overlay, edits)
	if out == nil {
		return nil, nil
	}
	return out, done
}
