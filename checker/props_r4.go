package main

// Rules added after the fourth seeded-change campaign.

import (
	"go/ast"
	"go/constant"
	"go/token"
	"go/types"
	"strings"

	"golang.org/x/tools/go/cfg"
)

// ---- file open flags ---------------------------------------------------------------------------------------

func osConst(f *Func, name string) (int64, bool) {
	for _, imp := range f.Pkg.Types.Imports() {
		if imp.Path() == "os" {
			if c, ok := imp.Scope().Lookup(name).(*types.Const); ok {
				v, exact := constant.Int64Val(c.Val())
				return v, exact
			}
		}
	}
	return 0, false
}

func ruleOpenFlags(c *Ctx, rule string) {
	c.Rule(rule, "the log is opened for appending and no data is cut on open: the os.OpenFile call of the log carries O_APPEND (the writer only ever calls Write, never Seek; without O_APPEND the first record written after a restart overwrites the oldest records that recovery still needs) and neither the log nor the data file is opened with O_TRUNC; the data file is not opened with O_APPEND (its pages are placed with WriteAt)")
	for _, spec := range []struct {
		fn         string
		wantAppend bool
	}{{"storage.newWal", true}, {"storage.newFileStore", false}} {
		f := c.NeedFunc(rule, spec.fn)
		if f == nil {
			continue
		}
		calls := f.Calls(f.Decl.Body, false, "os.OpenFile")
		if len(calls) == 0 {
			if len(f.Calls(f.Decl.Body, false, "os.Create")) > 0 {
				c.Fail(rule, f.Name+"|open-flags", f.Decl.Pos(), "%s opens its file with os.Create, which truncates it: everything stored before the restart is gone", f.Name)
			} else {
				c.Undecided(rule, f.Name+"|open-flags", "no os.OpenFile call found")
			}
			continue
		}
		app, okA := osConst(f, "O_APPEND")
		trunc, okT := osConst(f, "O_TRUNC")
		for i, call := range calls {
			key := f.Name + "|open-flags#" + itoa(i+1)
			if len(call.Args) != 3 || !okA || !okT {
				c.Undecided(rule, key, "flags not evaluated")
				continue
			}
			cv := f.constOf(call.Args[1])
			if cv == nil {
				c.Undecided(rule, key, "the open flags are not a constant expression")
				continue
			}
			flags, _ := constant.Int64Val(constant.ToInt(cv))
			switch {
			case flags&trunc != 0:
				c.Fail(rule, key, call.Pos(), "%s opens its file with O_TRUNC: the stored data is cut off on every open", f.Name)
			case spec.wantAppend && flags&app == 0:
				c.Fail(rule, key, call.Pos(), "the log is opened without O_APPEND: after a restart the writer starts at offset 0 and overwrites the oldest records while newer ones still follow them — recovery replays a mixture and the LSN counter goes backwards")
			case !spec.wantAppend && flags&app != 0:
				c.Fail(rule, key, call.Pos(), "the data file is opened with O_APPEND: WriteAt fails on such a descriptor and no page can be written back")
			default:
				c.OK(rule, key, call.Pos(), 1, "flags %s", f.Src(call.Args[1]))
			}
		}
	}
}

// ---- an optional capability is really there ----------------------------------------------------------------

func ruleCapabilityPresent(c *Ctx, rule string) {
	c.Rule(rule, "an optional capability the code relies on is present: where the log reader is asked `reader.(interface{ Truncate(int64) error })` with the comma-ok form, every concrete type that is stored into that field in non-test code implements the method — otherwise the assertion fails silently and the torn tail of the log is never cut off (wrapping the *os.File in a struct with a named field does not promote its methods)")
	w := c.W
	f := c.NeedFunc(rule, "storage.(*wal).read")
	if f == nil {
		return
	}
	eng := w.TypeSets()
	n := 0
	ast.Inspect(f.Decl.Body, func(x ast.Node) bool {
		ta, ok := x.(*ast.TypeAssertExpr)
		if !ok || ta.Type == nil {
			return true
		}
		it, ok := f.TypeOf(ta.Type).Underlying().(*types.Interface)
		if !ok || it.NumMethods() == 0 {
			return true
		}
		// only comma-ok capability probes (a failing plain assertion would panic and is C18's business)
		n++
		key := f.Name + "|capability|" + types.TypeString(f.TypeOf(ta.Type), func(*types.Package) string { return "" })
		ts := eng.Of(f, ta.X, 0)
		if ts.Top {
			c.Undecided(rule, key, "the set of types stored in %s is not known", f.Src(ta.X))
			return true
		}
		var missing []string
		known := 0
		for name := range ts.Types {
			tsTypesMu.Lock()
			t := tsTypes[name]
			tsTypesMu.Unlock()
			if t == nil {
				continue // nil: the assertion is false for a nil reader anyway
			}
			known++
			if !types.Implements(t, it) {
				missing = append(missing, name)
			}
		}
		sortStrings(missing)
		if len(missing) > 0 {
			c.Fail(rule, key, ta.Pos(), "%s holds a %s, which does not implement %s: the comma-ok assertion is false at run time and the branch that truncates a torn log tail never runs — the next acknowledged statements are appended behind a partial record and are lost at the following recovery", f.Src(ta.X), strings.Join(missing, ", "), f.Src(ta.Type))
		} else {
			c.OK(rule, key, ta.Pos(), known, "every stored type (%s) implements the capability", ts.String())
		}
		return true
	})
	if n == 0 {
		c.Note("%s: the log reader probes no optional capability", rule)
		c.OK(rule, f.Name+"|capability|none", f.Decl.Pos(), 1, "no optional capability is probed")
	}
}

// ---- replay skips a record only on the test of ITS page's LSN ---------------------------------------------

func ruleReplaySkipsOnlyOnPageLSN(c *Ctx, rule string) {
	c.Rule(rule, "replay skips a record only because the page it names already carries it: every `continue` in the replay loop is taken on the skip edge of the comparison of the record's LSN with the last LSN of the page fetched for THAT record — a skip decided from anything else (the highest LSN seen on some other page) drops records of pages that were not flushed, because a flush writes pages in no particular order and a crash can fall between two page writes")
	ri := findReplay(c, rule)
	if ri == nil {
		return
	}
	f := ri.f
	if ri.problem != "" {
		c.Undecided(rule, f.Name+"|shape", "%s", ri.problem)
		return
	}
	n := 0
	var stack []ast.Node
	ast.Inspect(ri.rng.Body, func(x ast.Node) bool {
		if x == nil {
			stack = stack[:len(stack)-1]
			return true
		}
		stack = append(stack, x)
		if _, ok := x.(*ast.FuncLit); ok {
			return true
		}
		br, ok := x.(*ast.BranchStmt)
		if !ok || br.Tok != token.CONTINUE || br.Label != nil {
			return true
		}
		// belongs to the replay loop itself?
		for i := len(stack) - 2; i >= 0; i-- {
			switch stack[i].(type) {
			case *ast.ForStmt, *ast.RangeStmt:
				return true // an inner loop's continue
			}
		}
		n++
		key := f.Name + "|skip#" + itoa(n)
		// the innermost enclosing if
		var guard *ast.IfStmt
		for i := len(stack) - 2; i >= 0 && guard == nil; i-- {
			if ifs, ok := stack[i].(*ast.IfStmt); ok {
				guard = ifs
			}
		}
		if guard == nil {
			c.Fail(rule, key, br.Pos(), "replay skips a record unconditionally")
			return true
		}
		if guard == ri.guard {
			c.OK(rule, key, br.Pos(), 1, "skip on the record-vs-page LSN comparison")
			return true
		}
		// another comparison of the record's LSN with the fetched page's LSN is fine too
		mentionsRow, mentionsNode := false, false
		ast.Inspect(guard.Cond, func(y ast.Node) bool {
			if id, ok := y.(*ast.Ident); ok {
				if f.ObjOf(id) == ri.row {
					mentionsRow = true
				}
				if f.ObjOf(id) == ri.node {
					mentionsNode = true
				}
			}
			return true
		})
		if mentionsRow && mentionsNode {
			c.OK(rule, key, br.Pos(), 1, "skip on a comparison of the record with its own page")
		} else {
			c.Fail(rule, key, br.Pos(), "replay skips a record on `%s`, which does not compare the record with the page it names: records of pages that a torn flush did not write are dropped although their pages lack them", f.Src(guard.Cond))
		}
		return true
	})
	if n == 0 {
		c.Undecided(rule, f.Name+"|skips", "no skip found in the replay loop (the redo guard rule decides that case)")
	}
}

// ---- a join returns the rows it built ------------------------------------------------------------------------

func ruleJoinReturnsBuiltRows(c *Ctx, rule string) {
	c.Rule(rule, "a qualified join returns the rows it built: every success return of the join arm hands back the accumulated output (rows merged or padded to the joined header), never one of its input row sets — an input returned as it is has the width of one side while the header describes both")
	f := c.NeedFunc(rule, "engine.nestedLoopJoin")
	if f == nil {
		return
	}
	g := f.Graph()
	// inputs: first results of the recursive calls
	inputs := map[types.Object]bool{}
	for _, call := range f.Calls(f.Decl.Body, false, "engine.nestedLoopJoin") {
		if o := f.resultVar(f.Decl.Body, call, 0); o != nil {
			inputs[o] = true
		}
	}
	if len(inputs) < 2 {
		c.Undecided(rule, f.Name+"|inputs", "the two recursive input evaluations were not found")
		return
	}
	n := 0
	for _, r := range g.Returns() {
		if len(r.Results) != 3 || !g.ReturnMayBeNil(r) {
			continue
		}
		id, ok := ast.Unparen(r.Results[0]).(*ast.Ident)
		if !ok {
			continue
		}
		n++
		key := f.Name + "|returns-built-rows#" + itoa(n)
		if inputs[f.ObjOf(id)] {
			c.Fail(rule, key, r.Pos(), "nestedLoopJoin returns its input %s unchanged together with the joined header: the rows are narrower than the header (no NULL padding) and selecting a column of the other side indexes past their end", id.Name)
		} else {
			c.OK(rule, key, r.Pos(), 1, "returns %s", id.Name)
		}
	}
	if n == 0 {
		c.Undecided(rule, f.Name+"|returns", "no success return found")
	}
}

// ---- valueSize and valueBytes change together on every path -------------------------------------------------

func ruleSizeWithBytes(c *Ctx, rule string) {
	c.Rule(rule, "a cell's length field follows its bytes on every path: in the functions that change a leaf cell's value, every path from a store of valueSize to a success return also passes a store that REPLACES valueBytes (and vice versa) — writing the new bytes into the old buffer with copy() leaves len(valueBytes) at its old value, the encoder writes all of valueBytes while the decoder reads valueSize bytes, and every following cell of the page is decoded from the wrong position")
	w := c.W
	n := 0
	for _, name := range w.SortedFuncNames() {
		f := w.Funcs[name]
		if f.Pkg != w.Pkgs["storage"] || strings.Contains(name, "decodeLeaf") {
			continue
		}
		g := f.Graph()
		type store struct {
			as    *ast.AssignStmt
			field string
		}
		var stores []store
		inspectBody(f.Decl.Body, func(x ast.Node) bool {
			as, ok := x.(*ast.AssignStmt)
			if !ok {
				return true
			}
			for _, l := range as.Lhs {
				if sel, ok := ast.Unparen(l).(*ast.SelectorExpr); ok {
					if v := fieldVar(f, sel); v != nil && (v.Name() == "valueSize" || v.Name() == "valueBytes") {
						if _, isCell := w.Locks().sharedFld[v]; isCell {
							stores = append(stores, store{as, v.Name()})
						}
					}
				}
			}
			return true
		})
		if len(stores) == 0 {
			continue
		}
		isStore := func(nd ast.Node, field string) bool {
			for _, s := range stores {
				if s.field == field && ast.Node(s.as) == nd {
					return true
				}
			}
			return false
		}
		for i, s := range stores {
			other := "valueBytes"
			if s.field == "valueBytes" {
				other = "valueSize"
			}
			// same statement assigns both?
			both := false
			for _, s2 := range stores {
				if s2.as == s.as && s2.field == other {
					both = true
				}
			}
			n++
			key := f.Name + "|" + s.field + "-with-" + other + "#" + itoa(i+1)
			if both {
				c.OK(rule, key, s.as.Pos(), 1, "both fields in one assignment")
				continue
			}
			loc, ok := g.Locate(s.as)
			if !ok {
				continue
			}
			// a store of the other field before (dominating) also pairs them
			paired := false
			for _, s2 := range stores {
				if s2.field == other {
					if l2, ok := g.Locate(s2.as); ok && g.Dominates(l2, loc) {
						// … provided no path between skips it: dominance is enough
						paired = true
					}
				}
			}
			if paired {
				c.OK(rule, key, s.as.Pos(), 1, "the other field is stored on every path before")
				continue
			}
			miss, _ := g.Forward(&loc, g.SuccessEdges, func(nn ast.Node, at Loc) Verdict {
				if isStore(nn, other) {
					return Cut
				}
				if r, ok := nn.(*ast.ReturnStmt); ok {
					if g.ReturnMayBeNil(r) {
						return Hit
					}
					return Cut
				}
				return Go
			}, func(b *cfg.Block) Verdict { return Hit })
			if miss {
				c.Fail(rule, key, s.as.Pos(), "%s stores %s and can return successfully without storing %s: the cell's length field and the length of its byte slice disagree, so the page image written from it cannot be decoded cell by cell", f.Name, s.field, other)
			} else {
				c.OK(rule, key, s.as.Pos(), 2, "every success path stores %s as well", other)
			}
		}
	}
	if n < 2 {
		c.Undecided(rule, "subjects", "only %d stores of valueSize/valueBytes found", n)
	}
}

// ---- nothing in the storage layer deletes ---------------------------------------------------------------------

func ruleNoDestructiveFS(c *Ctx, rule string) {
	c.Robust(rule)
	c.Rule(rule, "files and directories are never removed behind the user's back: os.Remove, os.RemoveAll, os.Rename and os.Truncate are called only from ClearDataDir (the test helper) — in particular no error path or deferred clean-up of CREATE DATABASE / USE deletes anything: `CREATE DATABASE x` for an existing x is refused AFTER the directory has been 'made', and a clean-up keyed on the returned error would delete the existing database")
	w := c.W
	destructive := []string{"os.Remove", "os.RemoveAll", "os.Rename", "os.Truncate"}
	n := 0
	for _, name := range w.SortedFuncNames() {
		f := w.Funcs[name]
		if f.Pkg != w.Pkgs["storage"] && f.Pkg != w.Pkgs["engine"] {
			continue
		}
		idx := 0
		for _, cs := range w.CG().Sites[f] {
			k := calleeKey(cs.Callee)
			hit := false
			for _, d := range destructive {
				if k == d {
					hit = true
				}
			}
			if !hit {
				continue
			}
			n++
			idx++
			key := f.Name + "|" + k + "#" + itoa(idx)
			if f.Name == "storage.ClearDataDir" {
				c.OK(rule, key, cs.Call.Pos(), 1, "the test helper that wipes the data directory")
			} else {
				c.Fail(rule, key, cs.Call.Pos(), "%s calls %s: a statement (or its error path / deferred clean-up) deletes files — an existing database, its log or its directory can disappear although the statement was refused", f.Name, k)
			}
		}
	}
	if n == 0 {
		c.Undecided(rule, "subjects", "no destructive file-system call found at all (ClearDataDir expected)")
	}
}

// ---- whitespace set of the SQL scanner -----------------------------------------------------------------------

func ruleScannerWhitespace(c *Ctx, rule string) {
	c.Rule(rule, "every kind of line break and blank separates tokens: the scanner keeps text/scanner's default whitespace set (blank, tab, LF, CR) — if the code assigns Scanner.Whitespace, the constant it assigns contains all four; a set without '\\r' turns the carriage return of a CRLF line end into a token and the statement no longer parses")
	w := c.W
	n := 0
	for _, name := range w.SortedFuncNames() {
		f := w.Funcs[name]
		if f.Pkg != w.Pkgs["sql"] || strings.Contains(f.Name, "(*Scanner)") {
			continue
		}
		idx := 0
		ast.Inspect(f.Decl.Body, func(x ast.Node) bool {
			as, ok := x.(*ast.AssignStmt)
			if !ok || len(as.Lhs) != 1 || len(as.Rhs) != 1 {
				return true
			}
			sel, ok := ast.Unparen(as.Lhs[0]).(*ast.SelectorExpr)
			if !ok {
				return true
			}
			v := fieldVar(f, sel)
			if v == nil || v.Name() != "Whitespace" {
				return true
			}
			n++
			idx++
			key := f.Name + "|whitespace#" + itoa(idx)
			cv := f.constOf(as.Rhs[0])
			if cv == nil {
				c.Undecided(rule, key, "Scanner.Whitespace is assigned a non-constant")
				return true
			}
			bits, _ := constant.Uint64Val(constant.ToInt(cv))
			var missing []string
			for _, ch := range []rune{' ', '\t', '\n', '\r'} {
				if bits&(1<<uint(ch)) == 0 {
					missing = append(missing, strings.Trim(strings.ReplaceAll(string([]rune{'\'', ch, '\''}), "\n", "\\n"), ""))
				}
			}
			if len(missing) > 0 {
				desc := []string{}
				for _, ch := range []rune{' ', '\t', '\n', '\r'} {
					if bits&(1<<uint(ch)) == 0 {
						desc = append(desc, map[rune]string{' ': "blank", '\t': "tab", '\n': "LF", '\r': "CR"}[ch])
					}
				}
				c.Fail(rule, key, as.Pos(), "the scanner's whitespace set lacks %s: that character becomes a token of its own and statements containing it (CRLF line ends) fail to parse", strings.Join(desc, ", "))
			} else {
				c.OK(rule, key, as.Pos(), 1, "the assigned set contains blank, tab, LF and CR")
			}
			return true
		})
	}
	if n == 0 {
		c.OK(rule, "sql|whitespace-default", token.NoPos, 1, "Scanner.Whitespace is never assigned: Init's default (blank, tab, LF, CR) applies")
	}
}
