package main

import (
	"go/ast"
	"go/token"
	"go/types"
	"strings"

	"golang.org/x/tools/go/cfg"
)

func init() {
	register(&Property{
		ID:    "C15",
		Run:   runC15,
		Floor: 10,
		Assumptions: []string{
			"container/list semantics; the rules are bound to the list + map representation of LRUCache (a re-implementation makes them undecided, not silent)",
		},
		NotDecided: "step-by-step equivalence with a reference LRU over all operation sequences.",
	})
	register(&Property{
		ID:    "C16",
		Run:   runC16,
		Floor: 8,
		Assumptions: []string{
			"the cache capacity is the compile-time literal in newFileStore; the configuration quantifier itself (all capacities) is out of reach of a static argument and the evidence says so",
		},
		NotDecided: "outcome equality across capacities; nodes mutated through a pointer held across an eviction (needs the dirty-set-fits-capacity premise, a runtime quantity).",
	})
}

func runC15(c *Ctx) {
	defer ruleHitDoesNotEvict(c, "C15.12")
	setF := c.NeedFunc("C15.0", "storage.(*LRUCache).set")
	getF := c.NeedFunc("C15.0", "storage.(*LRUCache).get")
	if setF == nil || getF == nil {
		return
	}
	c.Rule("C15.1", "the eviction victim is tested clean: list.Remove(e) is dominated by the not-dirty edge of a live isDirty() call on the page held by that same element e (not a cached copy of the flag)")
	c.Rule("C15.2", "map and list are updated in pairs: the removed element's key is deleted from the map; the element returned by PushFront is stored in the map under the inserted key, and holds that key and value")
	c.Rule("C15.3", "hit paths promote and refresh: get and set call MoveToFront unconditionally on the found edge; set stores the new page into the found entry; the victim search starts at Back and steps with Prev")
	c.Rule("C15.4", "capacity: PushFront is reachable only on the not-full edge of the capacity test or after a Remove")
	c.Rule("C15.5", "an insertion is refused (return false) only from the edge where the victim search ran off the list (cur == nil)")
	c.Rule("C15.6", "the cache-full refusal is surfaced: setCache turns a false result into ErrLRUCacheFull and all of its callers return that error")

	// hit test: `entry, found := <recv>.cache[key]`
	hitVars := func(f *Func) (entry, found types.Object) {
		inspectBody(f.Decl.Body, func(x ast.Node) bool {
			if as, ok := x.(*ast.AssignStmt); ok && len(as.Lhs) == 2 && len(as.Rhs) == 1 {
				if ix, ok := ast.Unparen(as.Rhs[0]).(*ast.IndexExpr); ok {
					if _, isMap := f.TypeOf(ix.X).Underlying().(*types.Map); isMap {
						if a, ok := as.Lhs[0].(*ast.Ident); ok {
							entry = f.ObjOf(a)
						}
						if b, ok := as.Lhs[1].(*ast.Ident); ok {
							found = f.ObjOf(b)
						}
					}
				}
			}
			return true
		})
		return
	}
	g := setF.Graph()
	removes := setF.Calls(setF.Decl.Body, false, "list.List.Remove")
	pushes := setF.Calls(setF.Decl.Body, false, "list.List.PushFront")
	if len(removes) == 0 || len(pushes) != 1 {
		c.Undecided("C15.1", setF.Name+"|shape", "expected list.Remove calls and one list.PushFront in set (found %d, %d)", len(removes), len(pushes))
		return
	}
	// the eviction is the Remove whose operand is not the hit entry; any other Remove replaces the hit entry
	hitEntry, _ := hitVars(setF)
	var rm *ast.CallExpr
	for _, r := range removes {
		if id, ok := ast.Unparen(r.Args[0]).(*ast.Ident); ok && hitEntry != nil && setF.ObjOf(id) == hitEntry {
			continue
		}
		rm = r
	}
	if rm == nil {
		c.Undecided("C15.1", setF.Name+"|shape", "no eviction (Remove of a searched victim) found in set")
		return
	}
	push := pushes[0]
	// every Remove is followed by the delete of a map key (or the key's re-registration) before the
	// capacity test can be evaluated or the function returns: map and list must agree there
	for i, r := range removes {
		key := setF.Name + "|remove#" + itoa(i+1) + "|map-follows"
		loc, _ := g.Locate(r)
		bad, _ := g.Forward(&loc, nil, func(nn ast.Node, at Loc) Verdict {
			fixed := false
			ast.Inspect(nn, func(y ast.Node) bool {
				if call, ok := y.(*ast.CallExpr); ok {
					if id, ok := call.Fun.(*ast.Ident); ok && id.Name == "delete" {
						fixed = true
					}
				}
				return true
			})
			if as, ok := nn.(*ast.AssignStmt); ok && len(as.Lhs) == 1 {
				if ix, ok := ast.Unparen(as.Lhs[0]).(*ast.IndexExpr); ok {
					if _, isMap := setF.TypeOf(ix.X).Underlying().(*types.Map); isMap {
						fixed = true
					}
				}
			}
			if fixed {
				return Cut
			}
			if e, ok := nn.(ast.Expr); ok && strings.Contains(exprKey(e), "maxNodes") {
				return Hit
			}
			if _, ok := nn.(*ast.ReturnStmt); ok {
				return Hit
			}
			return Go
		}, nil)
		c.Check(!bad, "C15.2", key, r.Pos(), "the map is brought in line before capacity is tested or the function returns", "after this list.Remove the capacity test (or a return) is reached while the removed element's key is still in the map: the cache looks full although an element was dropped, an innocent entry is evicted, and map and list disagree")
	}
	rl, _ := g.Locate(rm)
	victim, _ := ast.Unparen(rm.Args[0]).(*ast.Ident)
	// ---- C15.1
	key := setF.Name + "|evict-only-clean"
	// the victim search may live in a helper of its own (`cur := lru.oldestClean(); if cur == nil { refuse }`): the
	// helper is judged by what it returns, and the caller by refusing on nil
	helperVerdict, helperWhy := victimSearchHelper(setF, victim)
	if victim == nil {
		c.Undecided("C15.1", key, "victim is not a plain variable")
	} else if helperVerdict == 1 {
		c.OK("C15.1", key, rm.Pos(), 2, "the victim comes from %s", helperWhy)
	} else if helperVerdict == 2 {
		c.Undecided("C15.1", key, "the victim comes from a search helper the rule cannot read: %s", helperWhy)
	} else {
		reach, cached, tested := removeReachableWhenDirty(setF, g, setF.ObjOf(victim), rl)
		switch {
		case cached:
			c.Fail("C15.1", key, rm.Pos(), "the victim's dirtiness is read from a flag cached in the cache entry, not from the page: a page dirtied after insertion is evicted unsaved (and cleaned pages stay pinned)")
		case !tested:
			c.Fail("C15.1", key, rm.Pos(), "list.Remove(%s) is reached without any isDirty() test of that element: a dirty (unsaved) page can be evicted", victim.Name)
		case reach:
			c.Fail("C15.1", key, rm.Pos(), "list.Remove(%s) is reachable on a path on which %s's page is dirty: an unsaved page can be evicted", victim.Name, victim.Name)
		default:
			c.OK("C15.1", key, rm.Pos(), 2, "Remove(%s) is unreachable on every path on which %s...isDirty() holds (path-sensitive exploration with the victim's nil-ness tracked)", victim.Name, victim.Name)
		}
	}
	// ---- C15.2
	key = setF.Name + "|remove-deletes-key"
	delOK := false
	inspectBody(setF.Decl.Body, func(x ast.Node) bool {
		if call, ok := x.(*ast.CallExpr); ok {
			if id, ok := call.Fun.(*ast.Ident); ok && id.Name == "delete" && len(call.Args) == 2 {
				k := exprKey(call.Args[1])
				// the entry may have been read into a local first: `e := victim.Value.(*cacheEntry)` … `delete(m, e.key)`
				if sel, ok := ast.Unparen(call.Args[1]).(*ast.SelectorExpr); ok {
					if id, ok := ast.Unparen(sel.X).(*ast.Ident); ok {
						if rhs, _, ok := setF.definedBy(setF.Decl.Body, setF.ObjOf(id)); ok {
							k = exprKey(rhs) + "." + sel.Sel.Name
						}
					}
				}
				if victim != nil && strings.HasPrefix(k, victim.Name+".Value.(*cacheEntry).key") {
					dl, _ := g.Locate(call)
					if g.Dominates(rl, dl) || g.Dominates(dl, rl) {
						delOK = true
					}
				}
			}
		}
		return true
	})
	c.Check(delOK, "C15.2", key, rm.Pos(), "the evicted element's key is deleted from the map on the same path", "list.Remove is not paired with delete(map, <removed element's key>): the map keeps pointing at a dropped page (or another key is dropped)")
	key = setF.Name + "|push-registers"
	pobj := setF.resultVar(setF.Decl.Body, push, 0)
	regOK := false
	var keyParam, valParam types.Object
	if ps := setF.Decl.Type.Params.List; len(ps) >= 2 {
		keyParam, valParam = setF.ObjOf(ps[0].Names[0]), setF.ObjOf(ps[1].Names[0])
	}
	inspectBody(setF.Decl.Body, func(x ast.Node) bool {
		if as, ok := x.(*ast.AssignStmt); ok && len(as.Lhs) == 1 && len(as.Rhs) == 1 {
			if ix, ok := ast.Unparen(as.Lhs[0]).(*ast.IndexExpr); ok {
				kid, ok1 := ast.Unparen(ix.Index).(*ast.Ident)
				rid, ok2 := ast.Unparen(as.Rhs[0]).(*ast.Ident)
				if ok1 && ok2 && setF.ObjOf(kid) == keyParam && pobj != nil && setF.ObjOf(rid) == pobj {
					regOK = true
				}
				// m[key] = list.PushFront(...) without a temporary
				if ok1 && setF.ObjOf(kid) == keyParam && ast.Unparen(as.Rhs[0]) == ast.Expr(push) {
					regOK = true
				}
			}
		}
		return true
	})
	entryOK := false
	if len(push.Args) == 1 {
		ast.Inspect(push.Args[0], func(y ast.Node) bool {
			if lit, ok := y.(*ast.CompositeLit); ok {
				k, v := kvField(lit, "key"), kvField(lit, "val")
				if k != nil && v != nil {
					kid, ok1 := ast.Unparen(k).(*ast.Ident)
					vid, ok2 := ast.Unparen(v).(*ast.Ident)
					if ok1 && ok2 && setF.ObjOf(kid) == keyParam && setF.ObjOf(vid) == valParam {
						entryOK = true
					}
				}
			}
			return true
		})
	}
	c.Check(regOK && entryOK, "C15.2", key, push.Pos(), "the pushed element holds (key, val) and is stored in the map under key", "the element pushed to the list is not registered in the map under the inserted key with the inserted page")
	// ---- C15.3
	for _, f := range []*Func{getF, setF} {
		fg := f.Graph()
		key := f.Name + "|hit-promotes"
		// found edge: cond ident bound to the second result of the map lookup
		entryObj, foundObj := hitVars(f)
		var foundBlk *cfg.Block
		for _, b := range fg.c.Blocks {
			if !fg.Reachable(b) || len(b.Succs) != 2 {
				continue
			}
			if info, ok := fg.EdgeInfo(b, 0); ok {
				cond, succ := ast.Unparen(info.Cond), 0
				if u, ok := cond.(*ast.UnaryExpr); ok && u.Op == token.NOT {
					cond, succ = ast.Unparen(u.X), 1 // `if !found { miss }`: the hit path is the false edge
				}
				if id, ok := cond.(*ast.Ident); ok && foundObj != nil && f.ObjOf(id) == foundObj && foundBlk == nil {
					foundBlk = b.Succs[succ]
				}
			}
		}
		if foundBlk == nil {
			c.Undecided("C15.3", key, "no `if found` hit test")
			continue
		}
		start := Loc{foundBlk, -1}
		miss, _ := fg.Forward(&start, nil, func(nn ast.Node, at Loc) Verdict {
			if fg.containsCall(nn, "list.List.MoveToFront") != nil {
				return Cut
			}
			if _, ok := nn.(*ast.ReturnStmt); ok {
				return Hit
			}
			return Go
		}, func(b *cfg.Block) Verdict { return Hit })
		c.Check(!miss, "C15.3", key, f.Decl.Pos(), "every hit path calls MoveToFront before returning", "a hit can return without MoveToFront: recency is not refreshed and a recently used page is evicted before less recently used ones")
		// MoveToFront's argument is the found entry
		for _, mv := range f.Calls(f.Decl.Body, false, "list.List.MoveToFront") {
			isEntry := false
			if len(mv.Args) == 1 {
				if id, ok := ast.Unparen(mv.Args[0]).(*ast.Ident); ok && entryObj != nil && f.ObjOf(id) == entryObj {
					isEntry = true
				}
			}
			c.Check(isEntry, "C15.3", f.Name+"|promotes-found-entry", mv.Pos(), "the found entry is promoted", "MoveToFront is not applied to the found entry")
		}
	}
	// set stores the new page into the found entry
	key = setF.Name + "|hit-refreshes-page"
	refOK := false
	inspectBody(setF.Decl.Body, func(x ast.Node) bool {
		if as, ok := x.(*ast.AssignStmt); ok && len(as.Lhs) == 1 && len(as.Rhs) == 1 {
			if eo, _ := hitVars(setF); eo != nil && strings.HasPrefix(exprKey(as.Lhs[0]), eo.Name()+".Value.(*cacheEntry).val") {
				if id, ok := ast.Unparen(as.Rhs[0]).(*ast.Ident); ok && setF.ObjOf(id) == valParam {
					refOK = true
				}
			}
		}
		return true
	})
	c.Check(refOK, "C15.3", key, setF.Decl.Pos(), "set on an existing key replaces the cached page", "set on an existing key does not store the new page: a lookup keeps returning the stale page")
	// victim search direction
	key = setF.Name + "|victim-search-from-cold-end"
	backOK, prevOK := false, false
	if victim != nil {
		for _, as := range setF.assignsTo(setF.Decl.Body, setF.ObjOf(victim)) {
			if len(as.Rhs) == 1 {
				if call, ok := ast.Unparen(as.Rhs[0]).(*ast.CallExpr); ok {
					if setF.CallIs(call, "list.List.Back") {
						backOK = true
					}
					if setF.CallIs(call, "list.Element.Prev") && exprKey(call.Fun.(*ast.SelectorExpr).X) == victim.Name {
						prevOK = true
					}
					if setF.CallIs(call, "list.List.Front", "list.Element.Next") {
						backOK = false
						prevOK = false
					}
				}
			}
		}
	}
	if helperVerdict == 1 {
		backOK, prevOK = true, true
	}
	if helperVerdict == 2 {
		c.Undecided("C15.3", key, "the victim comes from a search helper the rule cannot read: %s", helperWhy)
	} else {
		c.Check(backOK && prevOK, "C15.3", key, setF.Decl.Pos(), "search starts at Back() and steps with Prev(); insertion is at the front", "the victim search does not run from the cold end (Back, Prev): the entry evicted is not the least recently used clean one")
	}
	// ---- C15.4
	key = setF.Name + "|capacity"
	pl, _ := g.Locate(push)
	// cut: the full edge of the capacity test unless Remove passed
	viaFullWithoutRemove, _ := g.Forward(nil, func(b *cfg.Block, si int) bool {
		info, ok := g.EdgeInfo(b, si)
		if !ok {
			return true
		}
		if be, ok := ast.Unparen(info.Cond).(*ast.BinaryExpr); ok && strings.Contains(exprKey(be), "maxNodes") {
			full := (be.Op == token.EQL || be.Op == token.GEQ) == info.Val
			if !full {
				return false // explore only the full edge
			}
		}
		return true
	}, func(nn ast.Node, at Loc) Verdict {
		if at == rl {
			return Cut
		}
		if at == pl {
			return Hit
		}
		return Go
	}, nil)
	capTest := false
	inspectBody(setF.Decl.Body, func(x ast.Node) bool {
		if be, ok := x.(*ast.BinaryExpr); ok && strings.Contains(exprKey(be), "maxNodes") && strings.Contains(exprKey(be), "len("+recvName(setF)+".cache)") && (be.Op == token.EQL || be.Op == token.GEQ) {
			capTest = true
		}
		return true
	})
	c.Check(capTest && !viaFullWithoutRemove, "C15.4", key, push.Pos(), "a full cache inserts only after evicting", "an entry can be pushed while the cache is full without an eviction (or there is no len(cache) ==/>= maxNodes test): the cache exceeds its capacity")
	// ---- C15.5
	key = setF.Name + "|refuse-only-when-all-dirty"
	nFalse := 0
	okRef := true
	for _, r := range g.Returns() {
		if len(r.Results) == 1 {
			if cv := setF.constOf(r.Results[0]); cv != nil && cv.String() == "false" {
				nFalse++
				loc, _ := g.Locate(r)
				dom := false
				for _, b := range g.c.Blocks {
					if !g.Reachable(b) || len(b.Succs) != 2 {
						continue
					}
					if info, ok := g.EdgeInfo(b, 0); ok {
						if be, ok := ast.Unparen(info.Cond).(*ast.BinaryExpr); ok && be.Op == token.EQL && isNilIdent(setF, be.Y) && victim != nil && exprKey(be.X) == victim.Name {
							if g.BlockDominates(b.Succs[0], loc.B) {
								dom = true
							}
						}
					}
				}
				if !dom {
					okRef = false
				}
			}
		}
	}
	c.Check(nFalse >= 1 && okRef, "C15.5", key, setF.Decl.Pos(), "return false only where the victim search found no clean entry", "set can refuse an insertion on a path other than 'no clean entry found' (or never refuses)")
	// ---- C15.6
	// refusalSurfaced: in fn, on the edge where LRUCache.set reported false every return carries
	// ErrLRUCacheFull; however the test is written (`if !set {return Err}`, `if set {return nil}; return Err`, …)
	refusalSurfaced := func(fn *Func) (decided, okErr bool) {
		sg := fn.Graph()
		for _, b := range sg.c.Blocks {
			if !sg.Reachable(b) || len(b.Succs) != 2 {
				continue
			}
			info, ok := sg.EdgeInfo(b, 0)
			if !ok || info.Case {
				continue
			}
			cond, refusedSucc := ast.Unparen(info.Cond), 1
			if u, ok := cond.(*ast.UnaryExpr); ok && u.Op == token.NOT {
				cond, refusedSucc = ast.Unparen(u.X), 0
			}
			call, ok := cond.(*ast.CallExpr)
			if !ok || !fn.CallIs(call, "storage.LRUCache.set") {
				continue
			}
			if !decided {
				decided, okErr = true, true
			}
			start := Loc{b.Succs[refusedSucc], -1}
			reached := false
			sg.Forward(&start, nil, func(nn ast.Node, at Loc) Verdict {
				if r, ok := nn.(*ast.ReturnStmt); ok {
					reached = true
					isFull := false
					if len(r.Results) >= 1 {
						if id, ok := ast.Unparen(r.Results[len(r.Results)-1]).(*ast.Ident); ok && id.Name == "ErrLRUCacheFull" {
							isFull = true
						}
					}
					if !isFull {
						okErr = false
					}
					return Cut
				}
				return Go
			}, func(bb *cfg.Block) Verdict { okErr = false; return Cut })
			if !reached {
				okErr = false
			}
		}
		return
	}
	if sc := c.W.F("storage.(*fileStore).setCache"); sc != nil {
		decided, okErr := refusalSurfaced(sc)
		if !decided {
			c.Undecided("C15.6", sc.Name+"|refusal-to-error", "LRUCache.set's result is not tested directly in setCache: which edge returns ErrLRUCacheFull is not decided")
		} else {
			c.Check(okErr, "C15.6", sc.Name+"|refusal-to-error", sc.Decl.Pos(), "a refused insertion becomes ErrLRUCacheFull", "setCache does not turn a refused insertion into ErrLRUCacheFull")
		}
		for _, cs := range c.W.CG().In[sc] {
			key := cs.Caller.Name + "|setCache-error"
			body := cs.Caller.EnclosingBody(cs.Call)
			if ok, how := cs.Caller.errHandled(body, cs.Call); ok {
				c.OK("C15.6", key, cs.Call.Pos(), 1, "cache-full error %s", how)
			} else {
				c.Fail("C15.6", key, cs.Call.Pos(), "the cache-full error is dropped (%s): the caller continues with a page that is not in the cache and its changes are never flushed", how)
			}
		}
	} else {
		// no wrapper: every caller of LRUCache.set outside the cache surfaces the refusal itself
		n := 0
		for _, cs := range c.W.CG().In[setF] {
			if strings.HasPrefix(cs.Caller.Name, "storage.(*LRUCache).") {
				continue
			}
			n++
			key := cs.Caller.Name + "|refusal-to-error"
			decided, okErr := refusalSurfaced(cs.Caller)
			if !decided {
				c.Fail("C15.6", key, cs.Call.Pos(), "%s ignores the result of LRUCache.set: a refused insertion goes unnoticed, the page is not in the cache and its changes are never flushed", cs.Caller.Name)
			} else {
				c.Check(okErr, "C15.6", key, cs.Call.Pos(), "a refused insertion becomes ErrLRUCacheFull", cs.Caller.Name+" does not turn a refused insertion into ErrLRUCacheFull")
			}
		}
		if n == 0 {
			c.Undecided("C15.6", "subjects", "neither setCache nor a direct caller of LRUCache.set found")
		}
	}
	if c.Prop == "C15" {
		c04FlushOrder(c, "C15.7")
	}
	if c.Prop == "C15" {
		ruleKeyTypeAgreement(c, "C15.8")
		c04PageLSN(c, "C15.9")
		ruleCapacityAsGiven(c, "C15.10")
		ruleSetCacheStores(c, "C15.11")
	}
}

func runC16(c *Ctx) {
	defer c02RecordDescribes(c, "C16.14")
	w := c.W
	c.Rule("C16.1", "pages enter memory only through fetch: the data file is read (ReadAt) only there, on the miss edge of LRUCache.get, and the decoded page is registered in the cache before it is returned; the hit path goes through LRUCache.get (which refreshes recency)")
	c.Rule("C16.2", "a page is marked clean only by the flush after its own successful write (clean implies equal to the disk image)")
	c.Rule("C16.3", "only clean pages are evicted (C15.1)")
	c.Rule("C16.4", "every page changed by a tree insert is marked dirty before the statement returns, and every store of cell bytes co-assigns the length the page image carries: otherwise the changed page may be evicted or reloaded stale")
	c.Rule("C16.5", "the cache's representation (map, list, capacity) is touched only by LRUCache's own methods and by the flush's iteration: no other code can look a page up without refreshing its recency or register one behind the cache's back")
	c.Rule("C16.6", "a page that is evicted and read again is the page that was cached: the page codecs are symmetric item by item (C12.1) and the i-th cell goes back into its slot (C12.11)")
	checkCodecPair(c, "C16.6", "storage.(*btreeNode).encodeLeaf", "storage.(*btreeNode).decodeLeaf")
	checkCodecPair(c, "C16.6", "storage.(*btreeNode).encodeInternal", "storage.(*btreeNode).decodeInternal")
	ruleDecodeSlotAgreement(c, "C16.7")
	ruleAppendedPageDirty(c, "C16.13")
	f := c.NeedFunc("C16.1", "storage.(*fileStore).fetch")
	if f != nil {
		g := f.Graph()
		gets := f.Calls(f.Decl.Body, false, "storage.LRUCache.get")
		key := f.Name + "|hit-through-get"
		if len(gets) == 0 {
			c.Fail("C16.1", key, f.Decl.Pos(), "fetch does not look the page up through LRUCache.get: hits do not refresh recency, so a page in use can be evicted and its later changes are lost")
		} else {
			c.OK("C16.1", key, gets[0].Pos(), 1, "lookup through LRUCache.get")
		}
		n := 0
		for _, name := range w.SortedFuncNames() {
			ff := w.Funcs[name]
			for _, rd := range ff.Calls(ff.Decl.Body, true, "os.File.ReadAt") {
				n++
				key := ff.Name + "|ReadAt"
				if ff != f {
					c.FailConfined("C16.1", key, rd.Pos(), "the data file is read outside fileStore.fetch: a second in-memory copy of a page can exist")
					continue
				}
				rl, _ := g.Locate(rd)
				okMiss := false
				if len(gets) > 0 {
					for _, b := range g.c.Blocks {
						if !g.Reachable(b) || len(b.Succs) != 2 {
							continue
						}
						if info, ok := g.EdgeInfo(b, 1); ok {
							if id, ok := ast.Unparen(info.Cond).(*ast.Ident); ok && f.ObjOf(id) == f.resultVar(f.Decl.Body, gets[0], 1) && g.BlockDominates(b.Succs[1], rl.B) {
								okMiss = true
							}
						}
					}
				}
				// registered before returned: every success return after the read passes setCache
				miss, _ := g.Forward(&rl, g.SuccessEdges, func(nn ast.Node, at Loc) Verdict {
					if g.containsCall(nn, "storage.fileStore.setCache", "storage.LRUCache.set") != nil { // directly or through the wrapper
						return Cut
					}
					if r, ok := nn.(*ast.ReturnStmt); ok {
						if g.ReturnMayBeNil(r) {
							return Hit
						}
						return Cut
					}
					return Go
				}, func(b *cfg.Block) Verdict {
					if g.IsNoReturnExit(b) {
						return Go
					}
					return Hit
				})
				switch {
				case !okMiss:
					c.Fail("C16.1", key, rd.Pos(), "the file is read although the page may be cached (not dominated by the miss edge of cache.get): a second copy replaces a possibly dirty cached page")
				case miss:
					c.Fail("C16.1", key, rd.Pos(), "a page read from the file can be returned without being registered in the cache: changes made to it are never flushed")
				default:
					c.OK("C16.1", key, rd.Pos(), 2, "read on the miss edge only; registered before returned")
				}
			}
		}
		if n == 0 {
			c.Undecided("C16.1", "subjects", "no ReadAt found")
		}
		// the registered key is the page's own offset
		for _, sc := range f.Calls(f.Decl.Body, false, "storage.fileStore.setCache") {
			okKey := len(sc.Args) == 2 && strings.HasSuffix(exprKey(sc.Args[0]), ".getFileOffset()") && strings.HasPrefix(exprKey(sc.Args[0]), exprKey(sc.Args[1]))
			c.Check(okKey, "C16.1", f.Name+"|registered-under-own-offset", sc.Pos(), "page registered under its own offset", "the page read is registered under a key other than its own offset")
		}
	}
	c04FlushOrder(c, "C16.2")
	// C16.3: reuse the C15.1 logic by running C15 into a scratch context and copying that obligation
	sub := NewCtx("C16", w)
	runC15(sub)
	for _, o := range sub.Obs {
		if o.Rule == "C15.1" || o.Rule == "C15.2" {
			o.Rule = "C16.3"
			c.Obs = append(c.Obs, o)
		}
		// a refusal while clean pages are cached makes statement outcomes depend on the cache size
		if o.Rule == "C15.4" || o.Rule == "C15.5" {
			o.Rule = "C16.9"
			c.Obs = append(c.Obs, o)
		}
	}
	c.Rule("C16.9", "the cache refuses an insertion only when every cached page is dirty (C15.4, C15.5): a refusal while clean pages remain makes a statement fail with a small cache that succeeds with a large one")
	c04PageLSN(c, "C16.10")
	rulePageObjectFresh(c, "C16.11")
	ruleFlushLoopComplete(c, "C16.12")
	c11MarkDirty(c, "C16.4")
	c08SizeGuard(c, "C16.4s")
	ruleKeyTypeAgreement(c, "C16.7")
	ruleListIterationStable(c, "C16.8")
	// C16.5
	m := w.Locks()
	n := 0
	for _, name := range w.SortedFuncNames() {
		ff := w.Funcs[name]
		if ff.Pkg != w.Pkgs["storage"] {
			continue
		}
		ast.Inspect(ff.Decl.Body, func(x ast.Node) bool {
			sel, ok := x.(*ast.SelectorExpr)
			if !ok {
				return true
			}
			v := fieldVar(ff, sel)
			if v == nil {
				return true
			}
			fn, sh := m.sharedFld[v]
			if !sh || !strings.HasPrefix(fn, "LRUCache.") {
				return true
			}
			n++
			owner := strings.HasPrefix(ff.Name, "storage.(*LRUCache).") || ff.Name == "storage.NewLRU"
			key := ff.Name + "|uses|" + fn
			if owner {
				c.OK("C16.5", key, sel.Pos(), 1, "owner method")
			} else if ff.Name == "storage.(*fileStore).flushPages" {
				// iteration only
				if rs, ok := enclosingLoop(ff.Decl.Body, sel).(*ast.RangeStmt); ok && rs != nil || isRangeOperand(ff, sel) || isLenOperand(ff, sel) {
					c.OK("C16.5", key, sel.Pos(), 1, "the flush iterates the map (no lookup, no registration)")
				} else {
					c.Fail("C16.5", key, sel.Pos(), "the flush uses the cache representation other than by iterating it")
				}
			} else if isRangeOperand(ff, sel) || isLenOperand(ff, sel) {
				// counting or walking the entries neither looks a page up by key nor registers one
				c.OK("C16.5", key, sel.Pos(), 1, "size or iteration only (no lookup by key, no registration)")
			} else {
				c.FailConfined("C16.5", key, sel.Pos(), "%s reads or writes %s directly, bypassing LRUCache.get/set: recency is not refreshed (a page in use can be evicted) or a page is registered without the eviction rules", ff.Name, fn)
			}
			return true
		})
	}
	if n == 0 {
		c.Undecided("C16.5", "subjects", "no use of LRUCache fields found")
	}
	ruleNodeOwnership(c, "C16.6")
	c.Note("C16: the capacity is the literal argument of NewLRU in newFileStore; results for other capacities follow only under the premise 'dirty pages are flushed before they fill the cache', which is a runtime quantity and not decided here")
}

func isRangeOperand(f *Func, sel *ast.SelectorExpr) bool {
	found := false
	ast.Inspect(f.Decl.Body, func(x ast.Node) bool {
		if rs, ok := x.(*ast.RangeStmt); ok && ast.Unparen(rs.X) == ast.Expr(sel) {
			found = true
		}
		return true
	})
	return found
}

// removeReachableWhenDirty explores the CFG of set assuming every isDirty() call on the
// victim's page returns true; conditions are simplified to a constant, to `victim ==/!= nil`,
// or to unknown, and the victim's nil-ness is tracked along the path. It reports whether the
// Remove is still reachable, whether dirtiness is read from a cached (non-page) field, and
// whether any live isDirty test on the victim exists at all.
func removeReachableWhenDirty(f *Func, g *Graph, victim types.Object, target Loc) (reach, cached, tested bool) {
	const (
		unk = iota
		isNil
		notNil
	)
	type simp struct {
		kind string // "const", "nilcmp", "unk"
		val  bool   // const value, or for nilcmp: true means `victim != nil`
	}
	mentions := func(e ast.Expr) bool {
		m := false
		ast.Inspect(e, func(y ast.Node) bool {
			if id, ok := y.(*ast.Ident); ok && f.ObjOf(id) == victim {
				m = true
			}
			return true
		})
		return m
	}
	var simplify func(e ast.Expr) simp
	simplify = func(e ast.Expr) simp {
		e = ast.Unparen(e)
		switch x := e.(type) {
		case *ast.UnaryExpr:
			if x.Op == token.NOT {
				s := simplify(x.X)
				if s.kind != "unk" {
					s.val = !s.val
				}
				return s
			}
		case *ast.CallExpr:
			if f.CallIs(x, "storage.btreeNode.isDirty") && mentions(x) {
				tested = true
				return simp{"const", true}
			}
		case *ast.SelectorExpr:
			if v := fieldVar(f, x); v != nil && strings.Contains(strings.ToLower(v.Name()), "dirty") && mentions(x) {
				if n, isNode := f.w.Locks().sharedFld[v]; isNode && strings.HasPrefix(n, "btreeNode.") {
					tested = true
					return simp{"const", true}
				}
				cached = true
				return simp{"unk", false}
			}
		case *ast.BinaryExpr:
			switch x.Op {
			case token.EQL, token.NEQ:
				if id, ok := ast.Unparen(x.X).(*ast.Ident); ok && f.ObjOf(id) == victim && isNilIdent(f, x.Y) {
					return simp{"nilcmp", x.Op == token.NEQ}
				}
			case token.LAND, token.LOR:
				a, b := simplify(x.X), simplify(x.Y)
				and := x.Op == token.LAND
				for _, p := range [][2]simp{{a, b}, {b, a}} {
					if p[0].kind == "const" {
						if p[0].val == and { // true && b = b ; false || b = b
							return p[1]
						}
						return simp{"const", !and} // false && _ = false ; true || _ = true
					}
				}
				return simp{"unk", false}
			}
		}
		return simp{"unk", false}
	}
	type state struct {
		b   *cfg.Block
		nil int
	}
	seen := map[state]bool{}
	var work []state
	work = append(work, state{g.Entry(), unk})
	for len(work) > 0 {
		st := work[len(work)-1]
		work = work[:len(work)-1]
		if seen[st] {
			continue
		}
		seen[st] = true
		nilness := st.nil
		stop := false
		for i, n := range st.b.Nodes {
			if (Loc{st.b, i}) == target {
				return true, cached, tested
			}
			if as, ok := n.(*ast.AssignStmt); ok {
				for li, l := range as.Lhs {
					if id, ok := l.(*ast.Ident); ok && f.ObjOf(id) == victim {
						nilness = unk
						if len(as.Rhs) == len(as.Lhs) && isNilIdent(f, as.Rhs[li]) {
							nilness = isNil
						}
					}
				}
			}
			if _, ok := n.(*ast.ReturnStmt); ok {
				stop = true
			}
		}
		if stop {
			continue
		}
		if len(st.b.Succs) == 2 {
			if info, ok := g.EdgeInfo(st.b, 0); ok && !info.Case {
				s := simplify(info.Cond)
				for si, succ := range st.b.Succs {
					val := si == 0
					nn := nilness
					switch s.kind {
					case "const":
						if s.val != val {
							continue
						}
					case "nilcmp":
						// s.val: cond is `victim != nil`
						condTrueMeansNotNil := s.val
						isNotNil := val == condTrueMeansNotNil
						if nilness == isNil && isNotNil || nilness == notNil && !isNotNil {
							continue
						}
						if isNotNil {
							nn = notNil
						} else {
							nn = isNil
						}
					}
					work = append(work, state{succ, nn})
				}
				continue
			}
		}
		for _, succ := range st.b.Succs {
			work = append(work, state{succ, nilness})
		}
	}
	return false, cached, tested
}

// isLenOperand: the selector is the operand of len(): a read of the size, no lookup and no registration.
func isLenOperand(f *Func, sel *ast.SelectorExpr) bool {
	found := false
	ast.Inspect(f.Decl.Body, func(x ast.Node) bool {
		if call, ok := x.(*ast.CallExpr); ok && len(call.Args) == 1 && ast.Unparen(call.Args[0]) == ast.Expr(sel) {
			if id, ok := call.Fun.(*ast.Ident); ok && id.Name == "len" {
				found = true
			}
		}
		return true
	})
	return found
}

// victimSearchHelper: 0 = the victim is not produced by a helper; 1 = it is, and the helper returns only elements whose
// page it has just tested not to be dirty, searching from Back() with Prev(); 2 = it is, and that could not be read.
func victimSearchHelper(setF *Func, victim *ast.Ident) (int, string) {
	if victim == nil {
		return 0, ""
	}
	var h *Func
	for _, as := range setF.assignsTo(setF.Decl.Body, setF.ObjOf(victim)) {
		if len(as.Rhs) != 1 {
			continue
		}
		call, ok := ast.Unparen(as.Rhs[0]).(*ast.CallExpr)
		if !ok {
			continue
		}
		if callee := setF.Callee(call); callee != nil {
			if hf := setF.w.FuncOf(callee); hf != nil && hf.Pkg == setF.Pkg {
				if _, pinned := pinnedFuncs[hf.Name]; !pinned {
					h = hf
				}
			}
		}
	}
	if h == nil {
		return victimByCopy(setF, victim)
	}
	name := h.Decl.Name.Name
	back, prev, fwd := false, false, false
	ast.Inspect(h.Decl.Body, func(x ast.Node) bool {
		if call, ok := x.(*ast.CallExpr); ok {
			if h.CallIs(call, "list.List.Back") {
				back = true
			}
			if h.CallIs(call, "list.Element.Prev") {
				prev = true
			}
			if h.CallIs(call, "list.List.Front", "list.Element.Next") {
				fwd = true
			}
		}
		return true
	})
	if !back || !prev || fwd {
		return 2, name + " does not walk the list from Back() with Prev() only"
	}
	// every non-nil return sits in the then-branch of `if !<x>…isDirty()` about the returned element
	ok := true
	nret := 0
	var stack []ast.Node
	ast.Inspect(h.Decl.Body, func(x ast.Node) bool {
		if x == nil {
			stack = stack[:len(stack)-1]
			return true
		}
		stack = append(stack, x)
		ret, isRet := x.(*ast.ReturnStmt)
		if !isRet || len(ret.Results) != 1 || isNilIdent(h, ret.Results[0]) {
			return true
		}
		nret++
		rid, isId := ast.Unparen(ret.Results[0]).(*ast.Ident)
		guarded := false
		for j := len(stack) - 2; j >= 0 && isId; j-- {
			ifs, isIf := stack[j].(*ast.IfStmt)
			if !isIf || j+1 >= len(stack) || stack[j+1] != ast.Node(ifs.Body) {
				continue
			}
			if u, isNot := ast.Unparen(ifs.Cond).(*ast.UnaryExpr); isNot && u.Op == token.NOT {
				k := exprKey(u.X)
				if strings.HasPrefix(k, rid.Name+".Value") && strings.HasSuffix(k, ".isDirty()") {
					guarded = true
				}
			}
		}
		if !guarded {
			ok = false
		}
		return true
	})
	if !ok || nret == 0 {
		return 2, name + " returns an element without having tested that its page is not dirty"
	}
	// the caller refuses when the helper found nothing
	g := setF.Graph()
	refuses := false
	for _, b := range g.c.Blocks {
		if !g.Reachable(b) || len(b.Succs) != 2 {
			continue
		}
		for si := 0; si < 2; si++ {
			if info, okE := g.EdgeInfo(b, si); okE && !info.Case {
				if be, isBin := ast.Unparen(info.Cond).(*ast.BinaryExpr); isBin && isNilIdent(setF, be.Y) && exprKey(be.X) == victim.Name {
					refuses = true
				}
			}
		}
	}
	if !refuses {
		return 2, "set does not test the result of " + name + " for nil"
	}
	return 1, name + ", which walks from Back() with Prev() and returns only an element whose page it has just found not dirty (nil otherwise, which set tests)"
}

// victimByCopy: the search loop runs over a variable of its own and hands the element it found to the victim variable
// (`for c := l.Back(); c != nil; c = c.Prev() { if !c…isDirty() { victim = c; break } }` — the shape a search helper has
// once it is written out at its call site). 1 = every non-nil value the victim receives is such a tested element and
// the search variable walks from Back() with Prev(); 0 = the victim is not assigned by copy; 2 = by copy, unreadable.
func victimByCopy(setF *Func, victim *ast.Ident) (int, string) {
	vobj := setF.ObjOf(victim)
	copies := 0
	okAll := true
	var src types.Object
	var stack []ast.Node
	ast.Inspect(setF.Decl.Body, func(x ast.Node) bool {
		if x == nil {
			stack = stack[:len(stack)-1]
			return true
		}
		stack = append(stack, x)
		as, isAs := x.(*ast.AssignStmt)
		if !isAs || len(as.Lhs) != 1 || len(as.Rhs) != 1 {
			return true
		}
		lid, isId := as.Lhs[0].(*ast.Ident)
		if !isId || setF.ObjOf(lid) != vobj || isNilIdent(setF, as.Rhs[0]) {
			return true
		}
		rid, isRid := ast.Unparen(as.Rhs[0]).(*ast.Ident)
		if !isRid {
			return true
		}
		if t := setF.TypeOf(rid); t == nil || !strings.HasSuffix(typeName(t), "list.Element") {
			return true
		}
		copies++
		src = setF.ObjOf(rid)
		guarded := false
		for j := len(stack) - 2; j >= 0; j-- {
			ifs, isIf := stack[j].(*ast.IfStmt)
			if !isIf {
				continue
			}
			inThen := false
			for k := j + 1; k < len(stack); k++ {
				if stack[k] == ast.Node(ifs.Body) {
					inThen = true
				}
			}
			if !inThen {
				continue
			}
			if u, isNot := ast.Unparen(ifs.Cond).(*ast.UnaryExpr); isNot && u.Op == token.NOT {
				k := exprKey(u.X)
				if strings.HasPrefix(k, rid.Name+".Value") && strings.HasSuffix(k, ".isDirty()") {
					guarded = true
				}
			}
		}
		if !guarded {
			okAll = false
		}
		return true
	})
	if copies == 0 {
		return 0, ""
	}
	if !okAll {
		return 2, "the victim receives an element whose page was not tested on that path"
	}
	back, prev := false, false
	for _, as := range setF.assignsTo(setF.Decl.Body, src) {
		if len(as.Rhs) != 1 {
			continue
		}
		if call, ok := ast.Unparen(as.Rhs[0]).(*ast.CallExpr); ok {
			if setF.CallIs(call, "list.List.Back") {
				back = true
			}
			if setF.CallIs(call, "list.Element.Prev") {
				prev = true
			}
			if setF.CallIs(call, "list.List.Front", "list.Element.Next") {
				return 2, "the search variable moves towards the warm end"
			}
		}
	}
	if !back || !prev {
		return 2, "the search variable does not walk from Back() with Prev()"
	}
	// direct (untested) non-nil assignments to the victim other than the copies?
	for _, as := range setF.assignsTo(setF.Decl.Body, vobj) {
		if len(as.Rhs) == 1 {
			if _, isCall := ast.Unparen(as.Rhs[0]).(*ast.CallExpr); isCall {
				return 2, "the victim is also assigned from a call"
			}
		}
	}
	return 1, "a search loop over " + src.Name() + " that walks from Back() with Prev() and hands over only an element whose page it has just found not dirty (nil otherwise)"
}
