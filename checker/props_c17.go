package main

import (
	"go/ast"
	"go/token"
	"go/types"
	"strings"

	"golang.org/x/tools/go/cfg"
)

func init() {
	register(&Property{
		ID:    "C17",
		Run:   runC17,
		Floor: 10,
		Assumptions: []string{
			"one Session per process; a RelationService that is neither closed nor referenced keeps its 100 ms flush timer running",
		},
		NotDecided: "contents per database over histories; SHOW DATABASES output.",
	})
}

func runC17(c *Ctx) {
	defer func() {
		c.Rule("C17.19", "a database that is selected again continues where it stopped: the file-header codec (fileStore.save / fileStore.open) is symmetric — every counter save writes, open reads back (C02.8)")
		checkCodecPair(c, "C17.19", "storage.(*fileStore).save", "storage.(*fileStore).open")
	}()
	c17Paths(c, "C17.1")
	c17Use(c, "C17.2")
	c17Existence(c, "C17.3")
	ruleNoGlobalState(c, "C17.4")
	ruleCatalogNameMatch(c, "C17.5")
	ruleFilledByIndex(c, "C17.6", "storage.ShowDB")
	ruleSentinelWrapped(c, "C17.7", "storage", "engine")
	ruleProbeReadOnly(c, "C17.8")
	ruleListIterationStable(c, "C17.9")
	ruleOpenFlags(c, "C17.10")
	ruleNoDestructiveFS(c, "C17.11")
	ruleRecoveryVisitsAll(c, "C17.12")
	ruleNoLoopVarCapture(c, "C17.13", "storage", "engine")
	ruleReplayUnconditional(c, "C17.14")
	ruleListEveryDB(c, "C17.15")
	c04FlushOrder(c, "C17.16")
	ruleCloseFlushes(c, "C17.17")
	ruleSessionStateMovesTogether(c, "C17.18")
}

func c17Paths(c *Ctx, rule string) {
	c.Rule(rule, "the three path builders (database directory, data file, log file) derive their path by the same chain filepath.Join(dataPath, strings.ToLower(name)[, constant]) with distinct constants: one directory per lower-cased name, two distinct files in it")
	type chain struct {
		f     *Func
		norm  string
		last  string
		nargs int
		pos   token.Pos
	}
	var chains []chain
	for _, name := range []string{"storage.makeDBDir", "storage.dbFilePath", "storage.walFilePath"} {
		f := c.NeedFunc(rule, name)
		if f == nil {
			return
		}
		joins := f.Calls(f.Decl.Body, false, "filepath.Join")
		if len(joins) != 1 {
			c.Undecided(rule, name+"|join", "expected exactly one filepath.Join")
			return
		}
		j := joins[0]
		ch := chain{f: f, nargs: len(j.Args), pos: j.Pos()}
		if len(j.Args) >= 2 {
			if exprKey(j.Args[0]) != "dataPath" {
				c.Fail(rule, name+"|root", j.Pos(), "the path is not rooted at dataPath")
			}
			ch.norm = normaliseChain(f, j.Args[1])
		}
		if len(j.Args) == 3 {
			if cv := f.constOf(j.Args[2]); cv != nil {
				ch.last = cv.ExactString()
			}
		}
		chains = append(chains, ch)
	}
	ref := chains[0].norm
	for _, ch := range chains {
		key := ch.f.Name + "|name-normalisation"
		ok := ch.norm == ref && strings.Contains(ch.norm, "ToLower")
		c.Check(ok, rule, key, ch.pos, "database name normalised by "+ch.norm, "the database name is normalised by ["+ch.norm+"] here but by ["+ref+"] in makeDBDir: the directory, data file and log of one database name can end up in different places (or two names share files)")
	}
	key := "storage.dbFilePath<->walFilePath|distinct-files"
	ok := chains[1].nargs == 3 && chains[2].nargs == 3 && chains[1].last != "" && chains[2].last != "" && chains[1].last != chains[2].last
	c.Check(ok, rule, key, chains[1].pos, "data file "+chains[1].last+" and log file "+chains[2].last+" are distinct constants", "data file and log file do not have distinct constant names inside the database directory")
	c.Check(chains[0].nargs == 2, rule, "storage.makeDBDir|is-parent", chains[0].pos, "the directory is the parent of both files", "makeDBDir does not create exactly Join(dataPath, normalised name)")
}

// normaliseChain renders the transformation applied to the name parameter, e.g. "strings.ToLower(·)".
func normaliseChain(f *Func, e ast.Expr) string {
	e = ast.Unparen(e)
	switch x := e.(type) {
	case *ast.Ident:
		if _, ok := f.ObjOf(x).(*types.Var); ok {
			return "·"
		}
	case *ast.CallExpr:
		if len(x.Args) == 1 {
			return calleeKey(f.Callee(x)) + "(" + normaliseChain(f, x.Args[0]) + ")"
		}
	}
	return exprKey(e)
}

func c17Use(c *Ctx, rule string) {
	c.Rule(rule, "USE is a typestate transition: session state (CurDB, RelationService) is stored only on the success edge of OpenRelation; the previous service is closed on every path that replaces it, and only after the new one opened; re-selecting the current database is detected with the same (case-insensitive) normalisation the storage layer applies to names, so that no second service is opened over the same files")
	f := c.NeedFunc(rule, "engine.(*Session).ExecQuery")
	if f == nil {
		return
	}
	g := f.Graph()
	opens := f.Calls(f.Decl.Body, false, "storage.OpenRelation")
	if len(opens) != 1 {
		c.Undecided(rule, f.Name+"|open", "expected one OpenRelation call in ExecQuery")
		return
	}
	op := opens[0]
	ol, _ := g.Locate(op)
	es := errSucc(f, g, f.Decl.Body, op)
	if es == nil {
		c.Fail(rule, f.Name+"|open-error", op.Pos(), "the error of OpenRelation is not examined before the session switches over")
		return
	}
	onErrPath := func(l Loc) bool {
		hit := false
		start := Loc{es, -1}
		if es == l.B {
			return true
		}
		g.Forward(&start, nil, func(nn ast.Node, at Loc) Verdict {
			if at == l {
				hit = true
				return Hit
			}
			return Go
		}, nil)
		return hit
	}
	// stores to session fields inside the USE arm
	var useArm *ast.CaseClause
	inspectBody(f.Decl.Body, func(x ast.Node) bool {
		if cc, ok := x.(*ast.CaseClause); ok && cc.Pos() <= op.Pos() && op.End() <= cc.End() {
			useArm = cc
		}
		return true
	})
	if useArm == nil {
		c.Undecided(rule, f.Name+"|arm", "USE arm not found")
		return
	}
	arm := &ast.BlockStmt{List: useArm.Body, Lbrace: useArm.Colon, Rbrace: useArm.End()}
	n := 0
	inspectBody(arm, func(x ast.Node) bool {
		as, ok := x.(*ast.AssignStmt)
		if !ok {
			return true
		}
		for _, l := range as.Lhs {
			sel, ok := ast.Unparen(l).(*ast.SelectorExpr)
			if !ok {
				continue
			}
			v := fieldVar(f, sel)
			if v == nil || (v.Name() != "CurDB" && v.Name() != "RelationService") {
				continue
			}
			n++
			key := f.Name + "|use-stores|" + v.Name()
			sl, _ := g.Locate(as)
			switch {
			case !g.Dominates(ol, sl) && sl != ol:
				c.Fail(rule, key, as.Pos(), "Session.%s is stored before OpenRelation has succeeded: a failed USE leaves the session pointing at a database without a service (the next statement dereferences nil) or at the wrong database", v.Name())
			case sl == ol:
				c.Fail(rule, key, as.Pos(), "Session.%s receives OpenRelation's result before its error is examined: a failed USE stores a nil service", v.Name())
			case onErrPath(sl):
				c.Fail(rule, key, as.Pos(), "Session.%s is stored on the path where OpenRelation failed", v.Name())
			default:
				c.OK(rule, key, as.Pos(), 2, "stored only after OpenRelation succeeded")
			}
		}
		return true
	})
	if n < 2 {
		c.Fail(rule, f.Name+"|use-stores", useArm.Pos(), "USE does not store both CurDB and RelationService")
	}
	// previous service closed on the replacing path, after the open
	key := f.Name + "|use-closes-previous"
	closes := f.Calls(arm, false, "storage.RelationService.Close")
	var prevClose *ast.CallExpr
	prevName := recvName(f) + ".RelationService"
	isPrev := func(e ast.Expr) bool {
		if exprKey(e) == prevName {
			return true
		}
		if id, ok := ast.Unparen(e).(*ast.Ident); ok {
			if rhs, _, ok := f.definedBy(arm, f.ObjOf(id)); ok && exprKey(rhs) == prevName {
				return true
			}
		}
		return false
	}
	for _, cl := range closes {
		if isPrev(cl.Fun.(*ast.SelectorExpr).X) {
			prevClose = cl
		}
	}
	// the session's own Close() closes its service (when there is one): s.Close() on the receiver counts
	if prevClose == nil {
		if sc := c.W.F("engine.(*Session).Close"); sc != nil && len(sc.Calls(sc.Decl.Body, false, "storage.RelationService.Close")) > 0 {
			for _, cl := range f.Calls(arm, false, "engine.Session.Close") {
				if id, ok := ast.Unparen(cl.Fun.(*ast.SelectorExpr).X).(*ast.Ident); ok && id.Name == recvName(f) {
					prevClose = cl
				}
			}
		}
	}
	if prevClose == nil {
		c.Fail(rule, key, useArm.Pos(), "USE replaces the session's service without closing the previous one: its flush timer keeps rewriting the file header from a stale copy (after a restart INSERT fails with 'record already exists')")
	} else {
		cl, _ := g.Locate(prevClose)
		// must be guarded by s.RelationService != nil, dominated by open success, and every success path from open to the store of RelationService passes it when non-nil
		switch {
		case !g.Dominates(ol, cl):
			c.Fail(rule, key, prevClose.Pos(), "the previous service is closed before the new database has been opened: a failed USE leaves the session holding a closed service (its next write fails with 'file already closed')")
		case onErrPath(cl):
			c.Fail(rule, key, prevClose.Pos(), "the previous service is closed on the path where OpenRelation failed")
		default:
			// reaches the store of RelationService without Close while previous != nil?
			var storeLoc *Loc
			inspectBody(arm, func(x ast.Node) bool {
				if as, ok := x.(*ast.AssignStmt); ok {
					for _, l := range as.Lhs {
						if exprKey(l) == recvName(f)+".RelationService" {
							if sl, ok := g.Locate(as); ok {
								storeLoc = &sl
							}
						}
					}
				}
				return true
			})
			leak := false
			if storeLoc != nil {
				leak, _ = g.Forward(&ol, func(b *cfg.Block, si int) bool {
					if !g.SuccessEdges(b, si) {
						return false
					}
					// previous service exists: `s.RelationService != nil` is true
					if info, ok := g.EdgeInfo(b, si); ok {
						if be, ok := ast.Unparen(info.Cond).(*ast.BinaryExpr); ok && isPrev(be.X) && isNilIdent(f, be.Y) {
							if (be.Op == token.NEQ) != info.Val {
								return false
							}
						}
					}
					return true
				}, func(nn ast.Node, at Loc) Verdict {
					if at == cl {
						return Cut
					}
					if at == *storeLoc {
						return Hit
					}
					return Go
				}, nil)
			}
			c.Check(!leak, rule, key, prevClose.Pos(), "closed after the new database opened, on every path that replaces it", "a path replaces the session's service without closing the previous one")
		}
		body := f.EnclosingBody(prevClose)
		if ok, how := f.errHandled(body, prevClose); !ok {
			c.Note("%s: the error of closing the previous service is not examined (%s)", rule, how)
		}
	}
	// re-select detection
	key = f.Name + "|reselect-normalised"
	var reselect ast.Expr
	inspectBody(arm, func(x ast.Node) bool {
		if ifs, ok := x.(*ast.IfStmt); ok && reselect == nil && ifs.Pos() < op.Pos() {
			s := exprKey(ifs.Cond)
			if strings.Contains(s, recvName(f)+".CurDB") && strings.Contains(s, "DBName") {
				reselect = ifs.Cond
			}
		}
		return true
	})
	if reselect == nil {
		c.Fail(rule, key, useArm.Pos(), "USE of the database that is already selected is not detected: a second service is opened over the same files and works from a stale header copy")
	} else {
		s := exprKey(reselect)
		ci := strings.Contains(s, "strings.EqualFold(") || (strings.Count(s, "strings.ToLower(") >= 2)
		c.Check(ci, rule, key, reselect.Pos(), "compared case-insensitively, like the storage layer's ToLower on names", "the 'already selected' test compares names case-sensitively while the storage layer lower-cases them: USE SHOP while shop is selected opens the same files twice")
	}
}

func c17Existence(c *Ctx, rule string) {
	c.Rule(rule, "existence checks dominate file creation: OpenRelation returns ErrDBNotExist before newFileStore (which would create the file); CreateDB returns ErrDBExists before it; the temporary service CreateDB builds (with a running flush timer) is closed on every path after it exists")
	for _, spec := range []struct{ fn, sentinel string }{{"storage.OpenRelation", "ErrDBNotExist"}, {"storage.CreateDB", "ErrDBExists"}} {
		f := c.NeedFunc(rule, spec.fn)
		if f == nil {
			continue
		}
		g := f.Graph()
		key := f.Name + "|exists-before-create"
		var test *ast.IfStmt
		inspectBody(f.Decl.Body, func(x ast.Node) bool {
			if ifs, ok := x.(*ast.IfStmt); ok && test == nil {
				ast.Inspect(ifs.Body, func(y ast.Node) bool {
					if id, ok := y.(*ast.Ident); ok && id.Name == spec.sentinel {
						test = ifs
					}
					return true
				})
			}
			return true
		})
		news := f.Calls(f.Decl.Body, false, "storage.newFileStore")
		if test == nil || len(news) == 0 {
			c.Fail(rule, key, f.Decl.Pos(), "%s has no existence test returning %s before opening the store", spec.fn, spec.sentinel)
			continue
		}
		tl, _ := g.Locate(test.Cond)
		nl, _ := g.Locate(news[0])
		okDom := g.Dominates(tl, nl)
		// polarity
		cond := exprKey(test.Cond)
		exName := "exists"
		for _, call := range f.Calls(f.Decl.Body, false, "storage.dbFilePath") {
			if o := f.resultVar(f.Decl.Body, call, 1); o != nil {
				exName = o.Name()
			}
		}
		okPol := (spec.sentinel == "ErrDBNotExist" && cond == "!"+exName) || (spec.sentinel == "ErrDBExists" && cond == exName)
		c.Check(okDom && okPol, rule, key, test.Pos(), "existence test ("+cond+" -> "+spec.sentinel+") dominates newFileStore", "the existence test does not dominate newFileStore or has the wrong polarity: selecting a missing database creates its file / creating an existing one overwrites its header")
		// the exists flag comes from dbFilePath on the same name
		srcOK := false
		for _, call := range f.Calls(f.Decl.Body, false, "storage.dbFilePath") {
			if o := f.resultVar(f.Decl.Body, call, 1); o != nil && strings.Contains(exprKey(test.Cond), o.Name()) {
				srcOK = true
			}
		}
		c.Check(srcOK, rule, f.Name+"|exists-source", test.Pos(), "exists comes from dbFilePath", "the existence flag is not dbFilePath's result")
	}
	if f := c.W.F("storage.CreateDB"); f != nil {
		key := f.Name + "|temporary-service-closed"
		g := f.Graph()
		var def *ast.DeferStmt
		inspectBody(f.Decl.Body, func(x ast.Node) bool {
			if d, ok := x.(*ast.DeferStmt); ok && f.CallIs(d.Call, "storage.RelationService.Close", "storage.fileStore.close") {
				def = d
			}
			return true
		})
		if def == nil {
			// explicit close on all paths?
			miss, _ := g.Forward(nil, nil, func(nn ast.Node, at Loc) Verdict {
				if g.containsCall(nn, "storage.RelationService.Close", "storage.fileStore.close") != nil {
					return Cut
				}
				if r, ok := nn.(*ast.ReturnStmt); ok {
					if g.ReturnMayBeNil(r) {
						return Hit
					}
					return Cut // an error return ends the path
				}
				return Go
			}, nil)
			c.Check(!miss, rule, key, f.Decl.Pos(), "closed explicitly before every success return", "CreateDB opens a store with a running flush timer and returns without closing it: the leaked timer keeps rewriting the creation-time header over the database's file (after USE elsewhere and back, INSERT fails with 'record already exists')")
		} else {
			// every success return after the service exists is after the defer
			dl, _ := g.Locate(def)
			okAll := true
			for _, r := range g.Returns() {
				if !g.ReturnMayBeNil(r) {
					continue
				}
				rl, _ := g.Locate(r)
				if !g.Dominates(dl, rl) {
					okAll = false
				}
			}
			c.Check(okAll, rule, key, def.Pos(), "defer Close() precedes every success return", "a success return of CreateDB is not covered by the deferred Close")
		}
	}
}
