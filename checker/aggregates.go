package main

// Scalar replacement of aggregates before analysis: a local variable of a struct type the rules have never seen
// (a "carrier" introduced by a refactoring) that is only ever built from literals, copied from another such local and
// read or written field by field is replaced by one local per field. The rules then see the values where they saw
// them on the reference tree. The rewrite preserves behaviour: the variable is never used as a whole (not passed, not
// returned, not address-taken, no methods), so its fields are independent variables already.

import (
	"fmt"
	"go/ast"
	"go/token"
	"go/types"
	"sort"
	"strings"
)

func zeroExpr(t types.Type, qual types.Qualifier) string {
	switch u := t.Underlying().(type) {
	case *types.Basic:
		switch {
		case u.Info()&types.IsBoolean != 0:
			return "false"
		case u.Info()&types.IsString != 0:
			return `""`
		case u.Info()&types.IsNumeric != 0:
			return "0"
		}
		return "nil"
	case *types.Pointer, *types.Slice, *types.Map, *types.Chan, *types.Signature, *types.Interface:
		return "nil"
	}
	return "*new(" + types.TypeString(t, qual) + ")"
}

func (w *World) splitAggregates(overlay map[string][]byte) (map[string][]byte, []string) {
	edits := map[string][]textEdit{}
	var done []string
	for _, name := range w.SortedFuncNames() {
		f := w.Funcs[name]
		if f.Decl.Body == nil {
			continue
		}
		info := f.Pkg.TypesInfo
		tf, fname := w.fileOf(f.Decl.Pos())
		src := readSource(fname, overlay)
		qual := func(p *types.Package) string {
			if p == f.Pkg.Types {
				return ""
			}
			return p.Name()
		}
		// the struct behind a candidate's type (value or pointer), if it is one the rules have never seen
		carrier := func(t types.Type) (*types.Struct, bool) {
			ptr := false
			if p, ok := t.(*types.Pointer); ok {
				t, ptr = p.Elem(), true
			}
			switch n := t.(type) {
			case *types.Named:
				o := n.Obj()
				if o.Pkg() != f.Pkg.Types || o.Parent() != f.Pkg.Types.Scope() || pinnedTypes[pkgKey(o.Pkg().Path())+"."+o.Name()] {
					return nil, false
				}
				st, ok := n.Underlying().(*types.Struct)
				if !ok || n.NumMethods() > 0 {
					return nil, false
				}
				return st, ptr
			case *types.Struct:
				return n, ptr
			}
			return nil, false
		}
		parentOf := map[ast.Node]ast.Node{}
		var stack []ast.Node
		ast.Inspect(f.Decl.Body, func(x ast.Node) bool {
			if x == nil {
				stack = stack[:len(stack)-1]
				return true
			}
			if len(stack) > 0 {
				parentOf[x] = stack[len(stack)-1]
			}
			stack = append(stack, x)
			return true
		})
		type use struct {
			id   *ast.Ident
			kind string // decl, deflit, asglit, copy, field, dummy
			stmt ast.Stmt
			lit  *ast.CompositeLit
			from types.Object
			sel  *ast.SelectorExpr
		}
		type cand struct {
			obj  *types.Var
			st   *types.Struct
			ptr  bool
			uses []*use
			bad  string
		}
		cands := map[types.Object]*cand{}
		var order []*cand
		for id, obj := range info.Defs {
			v, ok := obj.(*types.Var)
			if !ok || v.IsField() || id.Pos() < f.Decl.Body.Pos() || id.End() > f.Decl.Body.End() {
				continue
			}
			st, ptr := carrier(v.Type())
			if st == nil || st.NumFields() == 0 || st.NumFields() > 12 {
				continue
			}
			c := &cand{obj: v, st: st, ptr: ptr}
			cands[obj] = c
			order = append(order, c)
		}
		if len(order) == 0 {
			continue
		}
		sort.Slice(order, func(i, j int) bool { return order[i].obj.Pos() < order[j].obj.Pos() })
		blockMember := func(s ast.Stmt) bool { return isBlockMember(parentOf[s], s) }
		litOf := func(e ast.Expr, c *cand) *ast.CompositeLit {
			e = ast.Unparen(e)
			if c.ptr {
				u, ok := e.(*ast.UnaryExpr)
				if !ok || u.Op != token.AND {
					return nil
				}
				e = ast.Unparen(u.X)
			}
			lit, ok := e.(*ast.CompositeLit)
			if !ok {
				return nil
			}
			if st, _ := carrier(info.TypeOf(lit)); st != c.st {
				return nil
			}
			return lit
		}
		classify := func(c *cand, id *ast.Ident, isDef bool) {
			p := parentOf[id]
			switch y := p.(type) {
			case *ast.ValueSpec:
				if isDef && len(y.Names) == 1 && len(y.Values) == 0 && !c.ptr {
					if gd, ok := parentOf[y].(*ast.GenDecl); ok && len(gd.Specs) == 1 {
						if ds, ok := parentOf[gd].(*ast.DeclStmt); ok && blockMember(ds) {
							c.uses = append(c.uses, &use{id: id, kind: "decl", stmt: ds})
							return
						}
					}
				}
				if isDef && len(y.Names) == 1 && len(y.Values) == 1 {
					if lit := litOf(y.Values[0], c); lit != nil {
						if gd, ok := parentOf[y].(*ast.GenDecl); ok && len(gd.Specs) == 1 {
							if ds, ok := parentOf[gd].(*ast.DeclStmt); ok && blockMember(ds) {
								c.uses = append(c.uses, &use{id: id, kind: "deflit", stmt: ds, lit: lit})
								return
							}
						}
					}
				}
			case *ast.AssignStmt:
				if len(y.Lhs) == 1 && len(y.Rhs) == 1 && y.Lhs[0] == ast.Expr(id) && blockMember(y) {
					if lit := litOf(y.Rhs[0], c); lit != nil {
						if isDef {
							c.uses = append(c.uses, &use{id: id, kind: "deflit", stmt: y, lit: lit})
							return
						}
						if y.Tok == token.ASSIGN && !c.ptr {
							c.uses = append(c.uses, &use{id: id, kind: "asglit", stmt: y, lit: lit})
							return
						}
					}
					if rid, ok := ast.Unparen(y.Rhs[0]).(*ast.Ident); ok && !c.ptr {
						if o := info.ObjectOf(rid); o != nil && cands[o] != nil && cands[o].st == c.st && !cands[o].ptr && o != types.Object(c.obj) {
							k := "copy"
							if isDef {
								k = "defcopy"
							}
							c.uses = append(c.uses, &use{id: id, kind: k, stmt: y, from: o})
							return
						}
					}
				}
				if len(y.Lhs) == 1 && len(y.Rhs) == 1 && y.Rhs[0] == ast.Expr(id) {
					if l, ok := y.Lhs[0].(*ast.Ident); ok && l.Name == "_" && y.Tok == token.ASSIGN {
						c.uses = append(c.uses, &use{id: id, kind: "dummy", stmt: y})
						return
					}
					// the source of a copy into another candidate: judged at the destination
					if l, ok := ast.Unparen(y.Lhs[0]).(*ast.Ident); ok && !c.ptr {
						if o := info.ObjectOf(l); o != nil && cands[o] != nil && cands[o].st == c.st && o != types.Object(c.obj) {
							c.uses = append(c.uses, &use{id: id, kind: "source", stmt: y})
							return
						}
					}
				}
			case *ast.SelectorExpr:
				if y.X == ast.Expr(id) {
					if sel := info.Selections[y]; sel != nil && sel.Kind() == types.FieldVal && len(sel.Index()) == 1 {
						if u, ok := parentOf[y].(*ast.UnaryExpr); ok && u.Op == token.AND {
							break
						}
						c.uses = append(c.uses, &use{id: id, kind: "field", sel: y})
						return
					}
				}
			}
			c.bad = "used as a whole at " + w.Pos(id.Pos())
		}
		for id, obj := range info.Defs {
			if c := cands[obj]; c != nil {
				classify(c, id, true)
			}
		}
		for id, obj := range info.Uses {
			if c := cands[obj]; c != nil && id.Pos() >= f.Decl.Body.Pos() && id.End() <= f.Decl.Body.End() {
				classify(c, id, false)
			}
		}
		// a copy needs both ends
		for changed := true; changed; {
			changed = false
			for _, c := range order {
				if c.bad != "" {
					continue
				}
				ndef := 0
				for _, u := range c.uses {
					if u.from != nil && cands[u.from].bad != "" {
						c.bad = "copied from a variable that is used as a whole"
						changed = true
					}
					if u.kind == "source" {
						// destination must be good
						as := u.stmt.(*ast.AssignStmt)
						if o := info.ObjectOf(ast.Unparen(as.Lhs[0]).(*ast.Ident)); cands[o] == nil || cands[o].bad != "" {
							c.bad = "copied into a variable that is used as a whole"
							changed = true
						}
					}
					if u.kind == "decl" || u.kind == "deflit" || u.kind == "defcopy" {
						ndef++
					}
				}
				if ndef != 1 && c.bad == "" {
					c.bad = "no single declaration"
					changed = true
				}
			}
		}
		var good []*cand
		for _, c := range order {
			if c.bad == "" {
				good = append(good, c)
			}
		}
		if len(good) == 0 {
			continue
		}
		taken := w.takenNames(f)
		fieldVar := map[types.Object][]string{}
		for _, c := range good {
			var names []string
			for i := 0; i < c.st.NumFields(); i++ {
				n := c.obj.Name() + "_" + c.st.Field(i).Name()
				for taken[n] || f.Pkg.Types.Scope().Lookup(n) != nil {
					n += "_"
				}
				taken[n] = true
				names = append(names, n)
			}
			fieldVar[c.obj] = names
		}
		fieldIdx := func(st *types.Struct, name string) int {
			for i := 0; i < st.NumFields(); i++ {
				if st.Field(i).Name() == name {
					return i
				}
			}
			return -1
		}
		// every field selector of a good candidate reads/writes the field's own variable
		skip := map[ast.Node]string{}
		for _, c := range good {
			for _, u := range c.uses {
				if u.kind == "field" {
					skip[u.sel] = fieldVar[c.obj][fieldIdx(c.st, u.sel.Sel.Name)]
				}
			}
		}
		replaced := map[ast.Stmt]bool{}
		failed := false
		var fEdits []textEdit
		var fDone []string
		for _, c := range good {
			fv := fieldVar[c.obj]
			decls := func() string {
				var b strings.Builder
				for i, n := range fv {
					fmt.Fprintf(&b, "var %s %s; _ = %s\n", n, types.TypeString(c.st.Field(i).Type(), qual), n)
				}
				return b.String()
			}
			litAssign := func(lit *ast.CompositeLit, all bool) string {
				var ls, rs []string
				seen := map[int]bool{}
				for i, e := range lit.Elts {
					idx := i
					val := e
					if kv, ok := e.(*ast.KeyValueExpr); ok {
						k, isID := kv.Key.(*ast.Ident)
						if !isID {
							failed = true
							return ""
						}
						idx = fieldIdx(c.st, k.Name)
						val = kv.Value
					}
					if idx < 0 || idx >= len(fv) {
						failed = true
						return ""
					}
					seen[idx] = true
					ls = append(ls, fv[idx])
					rs = append(rs, render(src, tf, info, val, nil, skip))
				}
				if all {
					for i := range fv {
						if !seen[i] {
							ls = append(ls, fv[i])
							rs = append(rs, zeroExpr(c.st.Field(i).Type(), qual))
						}
					}
				}
				if len(ls) == 0 {
					return ""
				}
				return strings.Join(ls, ", ") + " = " + strings.Join(rs, ", ") + "\n"
			}
			for _, u := range c.uses {
				var txt string
				switch u.kind {
				case "decl":
					txt = decls()
				case "deflit":
					txt = decls() + litAssign(u.lit, false)
				case "asglit":
					txt = litAssign(u.lit, true)
				case "copy", "defcopy":
					if u.kind == "defcopy" {
						txt = decls()
					}
					txt += strings.Join(fv, ", ") + " = " + strings.Join(fieldVar[u.from], ", ") + "\n"
				case "dummy":
					txt = "\n"
				default:
					continue
				}
				if replaced[u.stmt] {
					failed = true
				}
				replaced[u.stmt] = true
				fEdits = append(fEdits, textEdit{tf.Offset(u.stmt.Pos()), tf.Offset(u.stmt.End()), "// carrier " + c.obj.Name() + " split into its fields for analysis\n" + txt})
			}
		}
		if failed {
			continue
		}
		// field uses outside the replaced statements
		for _, c := range good {
			for _, u := range c.uses {
				if u.kind != "field" {
					continue
				}
				inside := false
				for p := parentOf[ast.Node(u.sel)]; p != nil; p = parentOf[p] {
					if s, ok := p.(ast.Stmt); ok && replaced[s] {
						inside = true
					}
				}
				// a selector nested in another replaced selector is rendered by the outer one
				for p := parentOf[ast.Node(u.sel)]; p != nil && !inside; p = parentOf[p] {
					if _, ok := skip[p]; ok {
						inside = true
					}
				}
				if !inside {
					fEdits = append(fEdits, textEdit{tf.Offset(u.sel.Pos()), tf.Offset(u.sel.End()), skip[u.sel]})
				}
			}
			fDone = append(fDone, f.Name+":"+c.obj.Name())
		}
		edits[fname] = append(edits[fname], fEdits...)
		done = append(done, fDone...)
	}
	if len(done) == 0 {
		return nil, nil
	}
	out := map[string][]byte{}
	for k, v := range overlay {
		out[k] = v
	}
	for fname, es := range edits {
		src := readSource(fname, overlay)
		sort.Slice(es, func(i, j int) bool { return es[i].start < es[j].start })
		for i := 1; i < len(es); i++ {
			if es[i].start < es[i-1].end {
				return nil, nil
			}
		}
		var b strings.Builder
		last := 0
		for _, e := range es {
			b.Write(src[last:e.start])
			b.WriteString(e.text)
			last = e.end
		}
		b.Write(src[last:])
		out[fname] = []byte(b.String())
	}
	return out, done
}
