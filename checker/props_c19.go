package main

import (
	"fmt"
	"go/ast"
	"go/constant"
	"go/token"
	"go/types"
	"strconv"
	"strings"

	"golang.org/x/tools/go/cfg"
)

func init() {
	register(&Property{
		ID:          "C19",
		Run:         runC19,
		Floor:       10,
		Assumptions: []string{"encoding/csv reports malformed records as *csv.ParseError and positions the reader at the next record"},
		NotDecided:  "that converted values equal the record's fields for all inputs; ordering across the two result channels.",
	})
	register(&Property{
		ID:          "C20",
		Run:         runC20,
		Floor:       5,
		Assumptions: []string{"the vendored terminal delivers typed and pasted runes to handleKey in order"},
		NotDecided:  "that the split is correct for every statement list (only its structural necessary conditions are decided); line breaks inside literals are replaced by a space by design of the console.",
	})
}

func dataTypeConsts(w *World) []string {
	// the constant block that declares TypeInt
	var out []string
	for _, file := range w.Pkgs["storage"].Syntax {
		for _, d := range file.Decls {
			gd, ok := d.(*ast.GenDecl)
			if !ok || gd.Tok != token.CONST {
				continue
			}
			has := false
			var names []string
			for _, sp := range gd.Specs {
				for _, n := range sp.(*ast.ValueSpec).Names {
					names = append(names, n.Name)
					if n.Name == "TypeInt" {
						has = true
					}
				}
			}
			if has {
				out = names
			}
		}
	}
	return out
}

func c19EnumTotality(c *Ctx, rule string) {
	c.Rule(rule, "every switch over the column-type enumeration (TypeInt, TypeVarchar, TypeBoolean, TypeBigInt) is total or has a default that fails (returns an error or panics): a type without an arm is otherwise silently treated as 'nothing to do' (a BIGINT field imported as NULL)")
	w := c.W
	members := dataTypeConsts(w)
	if len(members) < 4 {
		c.Undecided(rule, "anchor|DataType", "column-type constant block not found")
		return
	}
	n := 0
	for _, name := range w.SortedFuncNames() {
		f := w.Funcs[name]
		si := 0
		ast.Inspect(f.Decl.Body, func(x ast.Node) bool {
			sw, ok := x.(*ast.SwitchStmt)
			if !ok || sw.Tag == nil {
				return true
			}
			covered := map[string]bool{}
			var def *ast.CaseClause
			isEnum := false
			for _, s := range sw.Body.List {
				cc := s.(*ast.CaseClause)
				if cc.List == nil {
					def = cc
				}
				for _, e := range cc.List {
					if cst := f.namedConst(e); cst != nil && cst.Pkg() == w.Pkgs["storage"].Types {
						for _, m := range members {
							if m == cst.Name() {
								covered[m] = true
								isEnum = true
							}
						}
					}
				}
			}
			if !isEnum {
				return true
			}
			si++
			n++
			key := f.Name + "|type-switch#" + itoa(si)
			var missing []string
			for _, m := range members {
				if !covered[m] {
					missing = append(missing, m)
				}
			}
			failing := false
			if def != nil {
				for _, st := range def.Body {
					switch y := st.(type) {
					case *ast.ReturnStmt:
						if len(y.Results) > 0 && !isNilIdent(f, ast.Unparen(y.Results[len(y.Results)-1])) {
							failing = true
						}
					case *ast.ExprStmt:
						if call, ok := y.X.(*ast.CallExpr); ok && !f.mayReturn(call) {
							failing = true
						}
					}
				}
			}
			switch {
			case len(missing) == 0:
				c.OK(rule, key, sw.Pos(), len(members), "all %d column types have an arm", len(members))
			case failing:
				c.OK(rule, key, sw.Pos(), len(members), "types without an arm (%s) reach a failing default", strings.Join(missing, ", "))
			default:
				c.Fail(rule, key, sw.Pos(), "the switch has no arm for %s and no failing default: values of that column type are silently skipped", strings.Join(missing, ", "))
			}
			return true
		})
	}
	if n < 4 {
		c.Undecided(rule, "subjects", "only %d switches over the column type found (Validate, Encode, Decode, csvToSql expected)", n)
	}
}

func runC19(c *Ctx) {
	c19EnumTotality(c, "C19.1")
	ruleRowFromRecordOnly(c, "C19.10")
	ruleBlockingErrorSend(c, "C19.12")
	ruleMappingNotReordered(c, "C19.13")
	ruleSentinelWrapped(c, "C19.14", "storage", "engine", "csvimport")
	ruleCheckedNameLookup(c, "C19.15", "csvimport.colDataTypes")
	ruleNoFloatDetour(c, "C19.16", "csvimport.csvToSql")
	ruleErrorsWrappedWithW(c, "C19.17")
	c02RecoveryEnds(c, "C19.18")
	c.Rule("C19.11", "the stored row reads back as the record's values: the row codec is symmetric per column type (every value the writer emits is consumed by the reader, empty strings included) and its length prefixes are byte lengths (C08.4)")
	checkCodecPair(c, "C19.11", "storage.(*Tuple).Encode", "storage.(*Tuple).Decode")
	c.Rule("C19.2", "in the import loop a bad record never stops or alters the others: every error edge before the INSERT (CSV parse error, short record, conversion error) reports and continues; only a non-parse read error or EOF leaves the loop; the short-record guard rejects exactly the records that lack the largest mapped index")
	c.Rule("C19.3", "exactly one single-row INSERT per accepted record, built from the slice csvToSql allocated for that record (make inside csvToSql, one RowValueConstructor)")
	c.Rule("C19.4", "the NULL marker is recognised before any type-specific conversion: the `\\N` test dominates every other store into the output row, and stores nil")
	c.Rule("C19.5", "the separator is the first rune (not the first byte) of the -separator flag; integers are converted base 10; destination column types come from the catalog in destination-column order")
	f := c.NeedFunc("C19.2", "csvimport.doBatchInsert")
	if f != nil {
		lits := f.FuncLits()
		var loopLit *ast.FuncLit
		for _, l := range lits {
			if len(f.Calls(l.Body, false, "engine.EvaluateInsert")) > 0 {
				loopLit = l
			}
		}
		if loopLit == nil {
			c.Undecided("C19.2", f.Name+"|loop", "import goroutine not found")
		} else {
			g := f.LitGraph(loopLit)
			var loop *ast.ForStmt
			inspectBody(loopLit.Body, func(x ast.Node) bool {
				if fs, ok := x.(*ast.ForStmt); ok && loop == nil {
					loop = fs
				}
				return true
			})
			ins := f.Calls(loopLit.Body, false, "engine.EvaluateInsert")
			key := f.Name + "|one-insert-per-record"
			c.Check(len(ins) == 1 && loop != nil && enclosingLoop(loopLit.Body, ins[0]) == ast.Stmt(loop), "C19.3", key, loopLit.Pos(), "one EvaluateInsert per iteration", "the import loop does not execute exactly one INSERT per record")
			// error edges before the insert: each `if err != nil`/guard block must end in continue (or break for non-parse read errors)
			n := 0
			var recObj types.Object
			for _, rd := range f.Calls(loop.Body, false, "csv.Reader.Read") {
				recObj = f.resultVar(loop.Body, rd, 0)
			}
			for _, st := range loop.Body.List {
				ifs, ok := st.(*ast.IfStmt)
				if !ok || len(ins) == 0 || ifs.End() > ins[0].Pos() {
					continue
				}
				// a rejection path tests an error or a record property and leaves the iteration or reports;
				// an observation (`if debug { print }`: no error in the condition, nothing sent, falls through) is not one
				if len(ifs.Body.List) > 0 {
					mentionsErr := false
					ast.Inspect(ifs.Cond, func(y ast.Node) bool {
						if e, ok := y.(ast.Expr); ok {
							if t := f.TypeOf(e); t != nil && isErrorType(t) {
								mentionsErr = true
							}
						}
						return true
					})
					if ifs.Init != nil {
						mentionsErr = true
					}
					_, endsBr := ifs.Body.List[len(ifs.Body.List)-1].(*ast.BranchStmt)
					sends := strings.Contains(exprKeyOfBlock(ifs.Body), "<-")
					usesRecord := false
					ast.Inspect(ifs.Cond, func(y ast.Node) bool {
						if call, ok := y.(*ast.CallExpr); ok {
							if id, ok := call.Fun.(*ast.Ident); ok && id.Name == "len" {
								usesRecord = true
							}
						}
						return true
					})
					if !mentionsErr && !endsBr && !sends && !usesRecord {
						continue
					}
					// a configured skip (`if cfg.skipHeader && line == 1 { continue }`): the condition looks neither
					// at an error nor at the record — nothing is rejected, there is nothing to report
					if !mentionsErr && !usesRecord && !sends {
						reads := false
						ast.Inspect(ifs.Cond, func(y ast.Node) bool {
							if id, ok := y.(*ast.Ident); ok {
								if o := f.ObjOf(id); o != nil && recObj != nil && o == recObj {
									reads = true
								}
							}
							return true
						})
						if !reads {
							continue
						}
					}
				}
				n++
				key := f.Name + "|error-edge#" + itoa(n) + "|" + exprKey(ifs.Cond)
				cond := exprKey(ifs.Cond)
				// the read's error variable under whatever name: `readErr == io.EOF` is `err == io.EOF`
				for _, rd := range f.Calls(loop.Body, false, "csv.Reader.Read") {
					if eo := f.resultVar(loop.Body, rd, 1); eo != nil {
						if be, ok := ast.Unparen(ifs.Cond).(*ast.BinaryExpr); ok {
							if id, ok := ast.Unparen(be.X).(*ast.Ident); ok && f.ObjOf(id) == eo {
								cond = "err" + be.Op.String() + exprKey(be.Y)
							}
						}
					}
				}
				last := ifs.Body.List[len(ifs.Body.List)-1]
				br, isBr := last.(*ast.BranchStmt)
				switch {
				case cond == "err==io.EOF":
					ends := isBr && br.Tok == token.BREAK
					if r, isRet := last.(*ast.ReturnStmt); isRet && len(r.Results) == 0 {
						// `return` where nothing follows the loop in its function (literal) leaves the loop just as well
						ast.Inspect(f.Decl.Body, func(y ast.Node) bool {
							var body *ast.BlockStmt
							switch z := y.(type) {
							case *ast.FuncLit:
								body = z.Body
							}
							if body != nil && len(body.List) > 0 && body.List[len(body.List)-1] == loop {
								ends = true
							}
							return true
						})
					}
					c.Check(ends, "C19.2", key, ifs.Pos(), "EOF ends the import", "EOF does not end the import loop")
				case cond == "err!=nil" && len(f.Calls(ifs.Body, false, "csv.Reader.Read")) == 0 && strings.Contains(exprKeyOfBlock(ifs.Body), "csv.ParseError"):
					// read error: parse errors continue, others break
					okPE := false
					for _, s2 := range ifs.Body.List {
						if in, ok := s2.(*ast.IfStmt); ok && strings.Contains(exprKeyNode(in.Init)+exprKey(in.Cond), "csv.ParseError") && endsWithContinue(in.Body) {
							okPE = true
						}
						// the assertion bound to a variable first: `_, isPE := err.(*csv.ParseError); if isPE { …; continue }`
						if in, ok := s2.(*ast.IfStmt); ok && in.Init == nil && endsWithContinue(in.Body) {
							if id, ok := ast.Unparen(in.Cond).(*ast.Ident); ok {
								if rhs, idx, ok := f.definedBy(ifs.Body, f.ObjOf(id)); ok && idx == 1 && strings.Contains(exprKey(rhs), "csv.ParseError") {
									okPE = true
								}
							}
						}
					}
					// the inverted spelling: `if _, isPE := err.(*csv.ParseError); !isPE { break/return }` … `continue`
					for i2, s2 := range ifs.Body.List {
						in, ok := s2.(*ast.IfStmt)
						if !ok || in.Else != nil || !strings.Contains(exprKeyNode(in.Init)+exprKey(in.Cond), "csv.ParseError") {
							continue
						}
						u, isNot := ast.Unparen(in.Cond).(*ast.UnaryExpr)
						if !isNot || u.Op != token.NOT || len(in.Body.List) == 0 {
							continue
						}
						leaves := false
						switch z := in.Body.List[len(in.Body.List)-1].(type) {
						case *ast.BranchStmt:
							leaves = z.Tok == token.BREAK
						case *ast.ReturnStmt:
							leaves = len(z.Results) == 0
						}
						rest := ifs.Body.List[i2+1:]
						if leaves && len(rest) > 0 {
							if b, ok := rest[len(rest)-1].(*ast.BranchStmt); ok && b.Tok == token.CONTINUE {
								okPE = true
							}
						}
					}
					c.Check(okPE, "C19.2", key, ifs.Pos(), "a malformed record is reported and skipped; other read errors stop the import", "a CSV parse error does not continue with the next record")
				default:
					reports := strings.Contains(exprKeyOfBlock(ifs.Body), "<-")
					c.Check(isBr && br.Tok == token.CONTINUE && reports, "C19.2", key, ifs.Pos(), "reported on the error channel, then continue", "this rejection path does not report the record and continue with the next one (a bad record stops or silently drops the others)")
				}
			}
			if n < 3 {
				c.Undecided("C19.2", f.Name+"|error-edges", "only %d rejection paths found before the INSERT", n)
			}
			// short-record guard polarity
			key = f.Name + "|short-record-guard"
			okGuard := false
			recName, maxName := "?", "?"
			for _, rd := range f.Calls(loop.Body, false, "csv.Reader.Read") {
				if o := f.resultVar(loop.Body, rd, 0); o != nil {
					recName = o.Name()
				}
			}
			inspectBody(loop.Body, func(x ast.Node) bool {
				if ifs, ok := x.(*ast.IfStmt); ok {
					if be, ok := ast.Unparen(ifs.Cond).(*ast.BinaryExpr); ok {
						l, r := exprKey(be.X), exprKey(be.Y)
						if r == "len("+recName+")" {
							maxName = l
							if be.Op == token.GEQ {
								okGuard = endsWithContinue(ifs.Body)
							}
						} else if l == "len("+recName+")" {
							maxName = r
							if be.Op == token.LEQ {
								okGuard = endsWithContinue(ifs.Body)
							}
						}
					}
				}
				return true
			})
			// dominates csvToSql
			c.Check(okGuard, "C19.2", key, loop.Pos(), "records with len <= maxCsvIdx are rejected before conversion", "the short-record guard does not reject exactly the records with len(record) <= largest mapped index: a record one field short reaches csvToSql and indexes out of range (the import goroutine panics and the remaining records are neither stored nor reported)")
			// maxCsvIdx is the maximum of srcCols
			okMax := false
			inspectBody(f.Decl.Body, func(x ast.Node) bool {
				if rs, ok := x.(*ast.RangeStmt); ok && strings.HasSuffix(exprKey(rs.X), ".srcCols") {
					// the element: the range value, or the operand indexed by the range key
					elem := map[string]bool{}
					if rs.Value != nil {
						elem[exprKey(rs.Value)] = true
					}
					if rs.Key != nil {
						elem[exprKey(rs.X)+"["+exprKey(rs.Key)+"]"] = true
					}
					// every store into the maximum inside the loop is `max = elem` where elem >= max is known, or leaves it
					// as it is; or it is max(max, elem)
					g := f.Graph()
					stores, good := 0, 0
					ast.Inspect(rs.Body, func(y ast.Node) bool {
						as, ok := y.(*ast.AssignStmt)
						if !ok || len(as.Lhs) != 1 || len(as.Rhs) != 1 || exprKey(as.Lhs[0]) != maxName {
							return true
						}
						stores++
						rhs := exprKey(as.Rhs[0])
						if rhs == maxName {
							stores-- // max = max
							return true
						}
						if call, ok := ast.Unparen(as.Rhs[0]).(*ast.CallExpr); ok && len(call.Args) == 2 {
							if id, ok := call.Fun.(*ast.Ident); ok && id.Name == "max" {
								a, b := exprKey(call.Args[0]), exprKey(call.Args[1])
								if (a == maxName && elem[b]) || (b == maxName && elem[a]) {
									good++
								}
							}
							return true
						}
						if loc, ok := g.Locate(as); ok && elem[rhs] {
							if g.HoldsAt(loc, Rel{rhs, token.GEQ, maxName}) || g.HoldsAt(loc, Rel{rhs, token.GTR, maxName}) {
								good++
							}
						}
						return true
					})
					if stores > 0 && stores == good {
						okMax = true
					}
				}
				return true
			})
			c.Check(okMax, "C19.2", f.Name+"|max-index", f.Decl.Pos(), "maxCsvIdx = max(srcCols)", "maxCsvIdx is not the maximum of the mapped source indexes")
			// the insert uses the converted row, one row
			key = f.Name + "|row-from-this-record"
			okRow := false
			for _, lit := range f.compositeLitsIn(loop.Body, "sql", "RowValueConstructor") {
				if v := kvField(lit, "RowValueConstructorList"); v != nil {
					if id, ok := ast.Unparen(v).(*ast.Ident); ok {
						for _, call := range f.Calls(loop.Body, false, "csvimport.csvToSql") {
							if f.resultVar(loop.Body, call, 0) == f.ObjOf(id) {
								okRow = true
							}
						}
					}
				}
			}
			nrows := len(f.compositeLitsIn(loop.Body, "sql", "RowValueConstructor"))
			c.Check(okRow && nrows == 1, "C19.3", key, loop.Pos(), "the INSERT carries exactly the row converted from this record", "the INSERT does not carry exactly one row built from this record's conversion")
			_ = g
			_ = cfg.KindBody
		}
	}
	cf := c.NeedFunc("C19.4", "csvimport.csvToSql")
	if cf != nil {
		g := cf.Graph()
		// fresh slice
		fresh := false
		outRow := "?"
		inspectBody(cf.Decl.Body, func(x ast.Node) bool {
			if as, ok := x.(*ast.AssignStmt); ok && as.Tok == token.DEFINE && len(as.Rhs) == 1 {
				if mk, ok := as.Rhs[0].(*ast.CallExpr); ok && len(mk.Args) == 2 {
					if id, ok := mk.Fun.(*ast.Ident); ok && id.Name == "make" && strings.HasSuffix(exprKey(mk.Args[1]), ".srcCols)") {
						fresh = true
						outRow = exprKey(as.Lhs[0])
					}
				}
			}
			return true
		})
		c.Check(fresh, "C19.3", cf.Name+"|fresh-row", cf.Decl.Pos(), "a new row slice of len(srcCols) per record", "csvToSql does not allocate a fresh row of len(srcCols) per record")
		// NULL marker test
		var nullIf *ast.IfStmt
		inspectBody(cf.Decl.Body, func(x ast.Node) bool {
			if ifs, ok := x.(*ast.IfStmt); ok && nullIf == nil {
				if be, ok := ast.Unparen(ifs.Cond).(*ast.BinaryExpr); ok && be.Op == token.EQL {
					if cv := cf.constOf(be.Y); cv != nil && cv.ExactString() == `"\\N"` {
						nullIf = ifs
					}
				}
			}
			return true
		})
		key := cf.Name + "|null-marker-first"
		if nullIf == nil {
			// the marker may have become configurable: a comparison of the field with a non-constant string
			inspectBody(cf.Decl.Body, func(x ast.Node) bool {
				if ifs, ok := x.(*ast.IfStmt); ok && nullIf == nil {
					if be, ok := ast.Unparen(ifs.Cond).(*ast.BinaryExpr); ok && be.Op == token.EQL && cf.constOf(be.Y) == nil && cf.constOf(be.X) == nil {
						if b, ok := cf.TypeOf(be.X).Underlying().(*types.Basic); ok && b.Kind() == types.String && endsWithContinue(ifs.Body) {
							nullIf = ifs
						}
					}
				}
				return true
			})
		}
		if nullIf == nil {
			c.Fail("C19.4", key, cf.Decl.Pos(), "no test for the \\N marker")
		} else {
			nl, _ := g.Locate(nullIf.Cond)
			storesNil := false
			for _, st := range nullIf.Body.List {
				if as, ok := st.(*ast.AssignStmt); ok && strings.HasPrefix(exprKey(as.Lhs[0]), outRow+"[") && isNilIdent(cf, ast.Unparen(as.Rhs[0])) {
					storesNil = true
				}
			}
			early := ""
			inspectBody(cf.Decl.Body, func(x ast.Node) bool {
				if as, ok := x.(*ast.AssignStmt); ok && strings.HasPrefix(exprKey(as.Lhs[0]), outRow+"[") {
					if as.Pos() >= nullIf.Body.Pos() && as.End() <= nullIf.Body.End() {
						return true
					}
					al, _ := g.Locate(as)
					if !g.Dominates(nl, al) {
						early = c.W.Pos(as.Pos())
					}
				}
				return true
			})
			// a fresh row from make() already holds nil at every index; with no earlier store (checked below)
			// the branch may simply continue
			implicitNil := fresh && len(nullIf.Body.List) >= 1
			for _, st := range nullIf.Body.List {
				if _, isBr := st.(*ast.BranchStmt); !isBr {
					implicitNil = false
				}
			}
			switch {
			case !(storesNil || implicitNil) || !endsWithContinue(nullIf.Body):
				c.Fail("C19.4", key, nullIf.Pos(), "the \\N branch does not store nil and continue")
			case early != "":
				c.Fail("C19.4", key, nullIf.Pos(), "a value is stored into the row at %s before the \\N test: a NULL marker in a column of that type is stored as the literal text \\N", early)
			default:
				c.OK("C19.4", key, nullIf.Pos(), 2, "\\N -> nil before any conversion")
			}
		}
		// base-10 integers; index agreement colTypes[i] / srcCols[i]
		okInt := true
		for _, call := range cf.Calls(cf.Decl.Body, false, "strconv.ParseInt") {
			if cv := cf.constOf(call.Args[1]); cv == nil || cv.String() != "10" {
				okInt = false
			}
		}
		c.Check(okInt, "C19.5", cf.Name+"|base-10", cf.Decl.Pos(), "integers are converted base 10", "an integer field is converted with a base other than 10")
		okIdx := false
		badIdx := false
		inspectBody(cf.Decl.Body, func(x ast.Node) bool {
			// every read of colTypes inside the loop over srcCols uses that loop's key: as a switch tag, bound to a
			// local first, or as the key of a table of converters
			if ix, ok := x.(*ast.IndexExpr); ok && strings.HasSuffix(exprKey(ix.X), ".colTypes") {
				if rs, ok := enclosingLoop(cf.Decl.Body, ix).(*ast.RangeStmt); ok && strings.HasSuffix(exprKey(rs.X), ".srcCols") && rs.Key != nil && exprKey(rs.Key) == exprKey(ix.Index) {
					okIdx = true
				} else {
					badIdx = true
				}
			}
			return true
		})
		if badIdx {
			okIdx = false
		}
		c.Check(okIdx, "C19.5", cf.Name+"|type-of-same-position", cf.Decl.Pos(), "field i is converted with the type of destination column i", "the conversion of mapped field i does not use colTypes[i]")
	}
	if mf := c.NeedFunc("C19.5", "csvimport.makeConfig"); mf != nil {
		key := mf.Name + "|separator-first-rune"
		// every value that can become the separator: the literal's field, stores into the field, and what the
		// locals on the way are assigned (a helper that maps "\\t" to a tab is substituted here)
		var cands []ast.Expr
		for _, lit := range mf.compositeLitsIn(mf.Decl.Body, "csvimport", "importCfg") {
			if v := kvField(lit, "separator"); v != nil {
				cands = append(cands, v)
			}
		}
		inspectBody(mf.Decl.Body, func(x ast.Node) bool {
			if as, ok := x.(*ast.AssignStmt); ok && len(as.Lhs) == len(as.Rhs) {
				for i, l := range as.Lhs {
					if sel, ok := ast.Unparen(l).(*ast.SelectorExpr); ok && sel.Sel.Name == "separator" {
						cands = append(cands, as.Rhs[i])
					}
				}
			}
			return true
		})
		seenObj := map[types.Object]bool{}
		okRune, badWhy, unknown := 0, "", ""
		for len(cands) > 0 {
			e := ast.Unparen(cands[0])
			cands = cands[1:]
			sk := exprKey(e)
			switch {
			case mf.constOf(e) != nil:
				okRune++
			case strings.HasPrefix(sk, "[]rune(") && strings.HasSuffix(sk, ")[0]"), strings.Contains(sk, "utf8.DecodeRuneInString"):
				okRune++
			default:
				if id, ok := e.(*ast.Ident); ok {
					if o := mf.ObjOf(id); o != nil && !seenObj[o] {
						seenObj[o] = true
						for _, as := range mf.assignsTo(mf.Decl.Body, o) {
							for i, l := range as.Lhs {
								if lid, ok := ast.Unparen(l).(*ast.Ident); ok && mf.ObjOf(lid) == o && len(as.Lhs) == len(as.Rhs) {
									cands = append(cands, as.Rhs[i])
								}
							}
						}
						continue
					}
					continue
				}
				// the first BYTE of a string
				isByte := false
				ast.Inspect(e, func(y ast.Node) bool {
					if ix, ok := y.(*ast.IndexExpr); ok {
						if b, ok := mf.TypeOf(ix.X).Underlying().(*types.Basic); ok && b.Info()&types.IsString != 0 {
							isByte = true
						}
					}
					return true
				})
				if isByte {
					badWhy = sk
				} else {
					unknown = sk
				}
			}
		}
		switch {
		case badWhy != "":
			c.Fail("C19.5", key, mf.Decl.Pos(), "the separator is taken from %s, a BYTE of the -separator flag, not its first rune: a multi-byte separator becomes a different delimiter and every line parses as one field", badWhy)
		case okRune == 0 || unknown != "":
			if unknown == "" {
				unknown = "no recognisable source"
			}
			if okRune == 0 && unknown == "no recognisable source" {
				c.Fail("C19.5", key, mf.Decl.Pos(), "the separator is not the first RUNE of the -separator flag (e.g. its first byte): a multi-byte separator becomes a different delimiter and every line parses as one field")
			} else {
				c.Undecided("C19.5", key, "where the separator comes from is not decided (%s)", unknown)
			}
		default:
			c.OK("C19.5", key, mf.Decl.Pos(), okRune, "separator = first rune of the flag (or a rune constant)")
		}
	}
	if tf := c.NeedFunc("C19.5", "csvimport.colDataTypes"); tf != nil {
		okOrder := false
		inspectBody(tf.Decl.Body, func(x ast.Node) bool {
			if rs, ok := x.(*ast.RangeStmt); ok && exprKey(rs.X) == paramName(tf, 2) {
				// the type stored at position i is derived from the catalog entry looked up for destination
				// column i (the range value), whatever conversion is applied on the way
				var stores []*ast.AssignStmt
				ast.Inspect(rs.Body, func(y ast.Node) bool {
					if as, ok := y.(*ast.AssignStmt); ok && as.Tok == token.ASSIGN && len(as.Lhs) >= 1 && len(as.Rhs) >= 1 {
						stores = append(stores, as)
					}
					return true
				})
				for _, as := range stores {
					if rs.Key == nil || !strings.HasSuffix(exprKey(as.Lhs[0]), "["+exprKey(rs.Key)+"]") {
						continue
					}
					// the element of this iteration: the range value, or the collection indexed by the range key
					isElem := func(e ast.Expr) bool {
						if rs.Value != nil && exprKey(e) == exprKey(rs.Value) {
							return true
						}
						ix, ok := ast.Unparen(e).(*ast.IndexExpr)
						return ok && exprKey(ix.X) == exprKey(rs.X) && exprKey(ix.Index) == exprKey(rs.Key)
					}
					fromLookup := false
					ast.Inspect(as.Rhs[0], func(y ast.Node) bool {
						switch z := y.(type) {
						case *ast.IndexExpr:
							if isElem(z.Index) {
								fromLookup = true
							}
						case *ast.Ident:
							if rhs, _, ok := tf.definedBy(rs.Body, tf.ObjOf(z)); ok {
								if ix, ok := ast.Unparen(rhs).(*ast.IndexExpr); ok && isElem(ix.Index) {
									fromLookup = true
								}
							}
						}
						return true
					})
					if fromLookup {
						okOrder = true
					}
				}
			}
			return true
		})
		c.Check(okOrder, "C19.5", tf.Name+"|types-in-destination-order", tf.Decl.Pos(), "type i belongs to destination column i", "column types are not collected in destination-column order")
	}
	// the shared pieces of the INSERT path
	sub := NewCtx("C19", c.W)
	c14RowValidationFirst(sub, "C19.6")
	c.Rule("C19.6", sub.Rules["C19.6"])
	for _, o := range sub.Obs {
		if strings.Contains(o.Key, "Insert") {
			c.Obs = append(c.Obs, o)
		}
	}
	_ = types.Typ
	ruleMutatorAtomic(c, "C19.7")
	c18Locks(c, "C19.8")
	ruleErrorsNotDropped(c, "C19.9", "storage.(*BTree).insert", "storage.(*RelationService).Insert", "engine.EvaluateInsert")
}

func exprKeyOfBlock(b *ast.BlockStmt) string {
	var sb strings.Builder
	for _, st := range b.List {
		sb.WriteString(exprKeyNode(st))
		sb.WriteString(";")
	}
	return sb.String()
}

func exprKeyNode(n ast.Node) string {
	if n == nil {
		return ""
	}
	var sb strings.Builder
	ast.Inspect(n, func(x ast.Node) bool {
		switch y := x.(type) {
		case *ast.SendStmt:
			sb.WriteString(exprKey(y.Chan) + "<-")
		case *ast.Ident:
			sb.WriteString(y.Name + " ")
		case *ast.SelectorExpr:
			sb.WriteString(exprKey(y) + " ")
			return false
		}
		return true
	})
	return sb.String()
}

// =========================== C20 ===========================================================

func runC20(c *Ctx) {
	defer ruleEveryStatementSubmitted(c, "C20.9")
	c.Rule("C20.1", "the statement split depends on quote characters: the function that cuts the line at ';' tracks an opening quote character, and a literal is closed only by the SAME character that opened it (comparison with the remembered opening quote, not membership in the set of quote characters); backslash skips the escaped character")
	c.Rule("C20.2", "the submit decision on Enter is taken from the split itself: the condition that submits the line is computed from the split's `rest` position (only blanks follow the last unquoted terminator), not from the last character of the buffer; the submitted statements are exactly the split's result, in order; the buffer is cleared only on submit")
	c.Rule("C20.3", "no input byte is dropped: the key decoder decodes a rune only when the buffered bytes hold a full rune (utf8.FullRune guards utf8.DecodeRune), so a multi-byte character split across two reads is kept for the next read")
	ruleNoAliasedFilter(c, "C20.6", "console")
	ruleRestIndexesItsBuffer(c, "C20.8")
	f := c.W.F("console.splitStatements")
	hk := c.NeedFunc("C20.2", "console.(*Terminal).handleKey")
	if f == nil {
		// the split may be inline in handleKey: T14 on handleKey's Enter arm
		if hk != nil {
			dep := false
			ast.Inspect(hk.Decl.Body, func(x ast.Node) bool {
				if bl, ok := x.(*ast.BasicLit); ok && bl.Kind == token.CHAR && (bl.Value == `'\''` || bl.Value == `'"'`) {
					dep = true
				}
				return true
			})
			c.Check(dep, "C20.1", hk.Name+"|split-sees-quotes", hk.Decl.Pos(), "the split consults quote characters", "the only character the statement split looks at is ';': a semicolon inside a quoted literal ends the statement")
		}
		return
	}
	// C20.1
	var quoteVar types.Object
	inspectBody(f.Decl.Body, func(x ast.Node) bool {
		if vs, ok := x.(*ast.ValueSpec); ok && len(vs.Names) == 1 {
			if b, ok := f.ObjOf(vs.Names[0]).Type().Underlying().(*types.Basic); ok && b.Kind() == types.Int32 {
				quoteVar = f.ObjOf(vs.Names[0])
			}
		}
		return true
	})
	key := f.Name + "|closes-with-opening-quote"
	if quoteVar == nil {
		c.Fail("C20.1", key, f.Decl.Pos(), "the split does not remember which quote character opened the literal (no rune-typed state): any quote character closes a literal, so 'he said \"a; b\"' is cut")
	} else {
		opens, closes := false, false
		ast.Inspect(f.Decl.Body, func(x ast.Node) bool {
			switch y := x.(type) {
			case *ast.AssignStmt:
				if id, ok := y.Lhs[0].(*ast.Ident); ok && f.ObjOf(id) == quoteVar {
					if rid, ok := ast.Unparen(y.Rhs[0]).(*ast.Ident); ok && rid.Name != "" && f.constOf(y.Rhs[0]) == nil {
						opens = true // quote = c
					}
				}
			case *ast.BinaryExpr:
				if y.Op == token.EQL {
					l, lok := ast.Unparen(y.X).(*ast.Ident)
					r, rok := ast.Unparen(y.Y).(*ast.Ident)
					if lok && rok && (f.ObjOf(l) == quoteVar || f.ObjOf(r) == quoteVar) && f.constOf(y.X) == nil && f.constOf(y.Y) == nil {
						closes = true // c == quote
					}
				}
			case *ast.SwitchStmt:
				// switch c { case quote: … }: the same comparison as a tagged switch
				if y.Tag != nil {
					tid, tok := ast.Unparen(y.Tag).(*ast.Ident)
					for _, st := range y.Body.List {
						for _, e := range st.(*ast.CaseClause).List {
							cid, cok := ast.Unparen(e).(*ast.Ident)
							if tok && cok && f.constOf(e) == nil && f.constOf(y.Tag) == nil && (f.ObjOf(cid) == quoteVar || f.ObjOf(tid) == quoteVar) {
								closes = true
							}
						}
					}
				}
			}
			return true
		})
		c.Check(opens && closes, "C20.1", key, f.Decl.Pos(), "the opening quote is remembered and only the same character closes the literal", "a literal is not closed by comparison with the remembered opening quote")
	}
	// the three quote kinds the SQL scanner knows, semicolon and backslash are consulted
	var chars []string
	ast.Inspect(f.Decl.Body, func(x ast.Node) bool {
		if bl, ok := x.(*ast.BasicLit); ok && bl.Kind == token.CHAR {
			chars = append(chars, bl.Value)
		}
		// a character behind a named constant (`stmtTerminator = ';'`)
		if id, ok := x.(*ast.Ident); ok {
			if _, isConst := f.ObjOf(id).(*types.Const); isConst {
				if cv := f.constOf(id); cv != nil && cv.Kind() == constant.Int {
					if v, exact := constant.Int64Val(cv); exact && v > 0 && v < 0x110000 {
						chars = append(chars, strconv.QuoteRune(rune(v)))
					}
				}
			}
		}
		return true
	})
	has := func(s string) bool {
		for _, ch := range chars {
			if ch == s {
				return true
			}
		}
		return false
	}
	c.Check(has(`'\''`) && has(`'"'`) && has(`';'`), "C20.1", f.Name+"|characters", f.Decl.Pos(), "split consults ', \" and ;", "the split does not consult both quote characters and the semicolon")
	c.Check(has(`'\\'`), "C20.1", f.Name+"|escape", f.Decl.Pos(), "a backslash inside a literal skips the next character, as the SQL scanner does", "backslash escapes inside literals are not honoured: 'it\\'s; fine' is cut at the semicolon")
	// the escape is CONSUMED together with the character it escapes (the SQL scanner's scanString does
	// the same: `if ch == '\\' { ch = s.scanEscape(quote) }`): a look-behind test cannot tell an escaped
	// quote from a quote that follows an escaped backslash
	if has(`'\\'`) {
		consumes, lookBehind := false, token.NoPos
		wrongStep := token.NoPos
		var loopVar types.Object
		inspectBody(f.Decl.Body, func(x ast.Node) bool {
			if fs, ok := x.(*ast.ForStmt); ok && loopVar == nil {
				if as, ok := fs.Init.(*ast.AssignStmt); ok && len(as.Lhs) == 1 {
					if id, ok := as.Lhs[0].(*ast.Ident); ok {
						loopVar = f.ObjOf(id)
					}
				}
			}
			if rs, ok := x.(*ast.RangeStmt); ok && loopVar == nil {
				if id, ok := rs.Key.(*ast.Ident); ok {
					loopVar = f.ObjOf(id)
				}
			}
			return true
		})
		isBackslash := func(e ast.Expr) bool {
			bl, ok := ast.Unparen(e).(*ast.BasicLit)
			return ok && bl.Kind == token.CHAR && bl.Value == `'\\'`
		}
		mentionsOffset := func(e ast.Expr) bool {
			off := false
			ast.Inspect(e, func(y ast.Node) bool {
				if ix, ok := y.(*ast.IndexExpr); ok {
					if be, ok := ast.Unparen(ix.Index).(*ast.BinaryExpr); ok && be.Op == token.SUB {
						off = true
					}
				}
				return true
			})
			return off
		}
		ast.Inspect(f.Decl.Body, func(x ast.Node) bool {
			switch y := x.(type) {
			case *ast.BinaryExpr:
				if y.Op == token.EQL || y.Op == token.NEQ {
					other := y.X
					if isBackslash(y.X) {
						other = y.Y
					} else if !isBackslash(y.Y) {
						return true
					}
					if mentionsOffset(other) {
						lookBehind = y.Pos()
					}
				}
			case *ast.IfStmt:
				be, ok := ast.Unparen(y.Cond).(*ast.BinaryExpr)
				if !ok || be.Op != token.EQL || !(isBackslash(be.X) || isBackslash(be.Y)) {
					return true
				}
				ast.Inspect(y.Body, func(z ast.Node) bool {
					switch w := z.(type) {
					case *ast.IncDecStmt:
						if id, ok := w.X.(*ast.Ident); ok && f.ObjOf(id) == loopVar && w.Tok == token.INC {
							consumes = true
						}
					case *ast.AssignStmt:
						if id, ok := w.Lhs[0].(*ast.Ident); ok && (f.ObjOf(id) == loopVar || isBoolVar(f, id)) {
							consumes = true // cur += 1, or an `escaped` state flag
							// exactly ONE more character belongs to the escape (the loop's own step takes the backslash)
							if f.ObjOf(id) == loopVar && w.Tok == token.ADD_ASSIGN && len(w.Rhs) == 1 {
								if cv := f.constOf(w.Rhs[0]); cv != nil && cv.String() != "1" {
									wrongStep = w.Pos()
								}
							}
						}
					}
					return true
				})
			case *ast.CaseClause:
				for _, e := range y.List {
					be, ok := ast.Unparen(e).(*ast.BinaryExpr)
					if ok && be.Op == token.EQL && (isBackslash(be.X) || isBackslash(be.Y)) {
						for _, st := range y.Body {
							ast.Inspect(st, func(z ast.Node) bool {
								if w, ok := z.(*ast.IncDecStmt); ok {
									if id, ok := w.X.(*ast.Ident); ok && f.ObjOf(id) == loopVar {
										consumes = true
									}
								}
								if w, ok := z.(*ast.AssignStmt); ok {
									if id, ok := w.Lhs[0].(*ast.Ident); ok && (f.ObjOf(id) == loopVar || isBoolVar(f, id)) {
										consumes = true
									}
								}
								return true
							})
						}
					}
				}
			}
			return true
		})
		// the backslash test must not be narrowed: a conjunct next to it means only SOME escapes are consumed
		// as a pair, while the SQL scanner consumes a backslash with whatever follows it
		narrowed := token.NoPos
		ast.Inspect(f.Decl.Body, func(x ast.Node) bool {
			be, ok := x.(*ast.BinaryExpr)
			if !ok || be.Op != token.LAND {
				return true
			}
			var hasBS func(e ast.Expr) bool
			hasBS = func(e ast.Expr) bool {
				if b2, ok := ast.Unparen(e).(*ast.BinaryExpr); ok {
					if b2.Op == token.EQL && (isBackslash(b2.X) || isBackslash(b2.Y)) {
						return true
					}
					if b2.Op == token.LAND {
						return hasBS(b2.X) || hasBS(b2.Y)
					}
				}
				return false
			}
			if hasBS(be) {
				// `quote != 0 && c == '\\'` (state test) is fine; a test of the NEXT character is a narrowing
				ast.Inspect(be, func(y ast.Node) bool {
					if ix, ok := y.(*ast.IndexExpr); ok {
						if b3, ok := ast.Unparen(ix.Index).(*ast.BinaryExpr); ok && b3.Op == token.ADD {
							narrowed = be.Pos()
						}
					}
					return true
				})
			}
			return true
		})
		key := f.Name + "|escape-consumes-next"
		switch {
		case wrongStep.IsValid():
			c.Fail("C20.1", key, wrongStep, "the split skips more than the one character a backslash escapes: in a literal that ends in an escaped backslash the closing quote is skipped as well, the literal stays open and the terminating ';' is swallowed")
		case narrowed.IsValid():
			c.Fail("C20.1", key, narrowed, "the split consumes a backslash together with the next character only for some next characters: `\\\\` in front of a closing quote is then read as a backslash followed by an escaped quote, the literal stays open and the terminating ';' is swallowed — the SQL scanner consumes every escape pair")
		case lookBehind.IsValid():
			c.Fail("C20.1", key, lookBehind, "the split decides whether a quote is escaped by looking at the character BEFORE it: for a literal that ends in an escaped backslash ('C:\\\\') the closing quote is taken for an escaped one, the literal stays open and the terminating ';' is swallowed — the SQL scanner consumes escape pairs left to right")
		case consumes:
			c.OK("C20.1", key, f.Decl.Pos(), 2, "a backslash and the character it escapes are consumed as a pair, as in the SQL scanner's scanString")
		default:
			c.Undecided("C20.1", key, "the backslash is consulted but neither consumed with its successor nor used as a look-behind: unknown escape idiom")
		}
	}
	// the cut includes the terminator and starts where the previous one ended
	okCut := false
	ast.Inspect(f.Decl.Body, func(x ast.Node) bool {
		if se, ok := x.(*ast.SliceExpr); ok && exprKey(se.X) == paramName(f, 0) && se.Low != nil && se.High != nil {
			// low = the position variable that is afterwards set to high; high = loop index + 1
			lowName := exprKey(se.Low)
			inspectBody(f.Decl.Body, func(y ast.Node) bool {
				if as, ok := y.(*ast.AssignStmt); ok && len(as.Lhs) == 1 && exprKey(as.Lhs[0]) == lowName && exprKey(as.Rhs[0]) == exprKey(se.High) && strings.HasSuffix(exprKey(se.High), "+1") {
					okCut = true
				}
				return true
			})
		}
		return true
	})
	c.Check(okCut, "C20.1", f.Name+"|cut-range", f.Decl.Pos(), "each statement is line[rest:cur+1] and rest moves to cur+1", "statements are not cut as line[rest:cur+1] (terminator included, no gap, no overlap)")
	// C20.2
	if hk != nil {
		var enter *ast.CaseClause
		inspectBody(hk.Decl.Body, func(x ast.Node) bool {
			if cc, ok := x.(*ast.CaseClause); ok {
				for _, e := range cc.List {
					if exprKey(e) == "keyEnter" {
						enter = cc
					}
				}
			}
			return true
		})
		key := hk.Name + "|submit-decided-by-split"
		if enter == nil {
			c.Undecided("C20.2", key, "Enter arm not found")
		} else {
			arm := &ast.BlockStmt{List: enter.Body}
			calls := hk.Calls(arm, false, "console.splitStatements")
			if len(calls) != 1 {
				c.Fail("C20.2", key, enter.Pos(), "the Enter arm does not call the quote-aware split exactly once")
			} else {
				restObj := hk.resultVar(arm, calls[0], 1)
				stmtsObj := hk.resultVar(arm, calls[0], 0)
				// the submit decision: the if whose condition looks at the split's rest position (wherever the arm
				// places it: other tests — a console command, a continuation line — may come first)
				var submit *ast.IfStmt
				if restObj != nil {
					inspectBody(arm, func(y ast.Node) bool {
						ifs, ok := y.(*ast.IfStmt)
						if !ok || submit != nil {
							return true
						}
						ast.Inspect(ifs.Cond, func(z ast.Node) bool {
							if id, ok := z.(*ast.Ident); ok && hk.ObjOf(id) == restObj {
								submit = ifs
							}
							return true
						})
						return true
					})
				}
				if submit == nil {
					for _, st := range enter.Body {
						if ifs, ok := st.(*ast.IfStmt); ok && submit == nil {
							submit = ifs
						}
					}
				}
				// the statements that run when the line IS submitted: the if's body — or, when the if tests the
				// opposite (something other than blanks follows: continue the line and return), what follows the if
				var submitRegion ast.Node
				if submit != nil {
					submitRegion = submit.Body
					if be, ok := ast.Unparen(submit.Cond).(*ast.BinaryExpr); ok && (be.Op == token.NEQ || be.Op == token.GTR) && terminates(submit.Body.List) && submit.Else == nil {
						if cv := hk.constOf(be.Y); cv != nil && cv.String() == "0" {
							var rest []ast.Stmt
							inspectBody(arm, func(y ast.Node) bool {
								var l []ast.Stmt
								switch b := y.(type) {
								case *ast.BlockStmt:
									l = b.List
								case *ast.CaseClause:
									l = b.Body
								}
								for i, st := range l {
									if st == ast.Stmt(submit) {
										rest = l[i+1:]
									}
								}
								return true
							})
							submitRegion = &ast.BlockStmt{List: rest, Lbrace: submit.End(), Rbrace: enter.End()}
						}
					}
				}
				usesRest := false
				if submit != nil && restObj != nil {
					ast.Inspect(submit.Cond, func(y ast.Node) bool {
						if id, ok := y.(*ast.Ident); ok && hk.ObjOf(id) == restObj {
							usesRest = true
						}
						return true
					})
				}
				callBefore := submit != nil && calls[0].Pos() < submit.Pos()
				appended := false
				if submit != nil && stmtsObj != nil {
					ast.Inspect(submitRegion, func(y ast.Node) bool {
						if id, ok := y.(*ast.Ident); ok && hk.ObjOf(id) == stmtsObj {
							appended = true
						}
						return true
					})
				}
				switch {
				case !usesRest || !callBefore:
					c.Fail("C20.2", key, enter.Pos(), "whether Enter submits the line is not decided from the split's rest position: a line break right after a ';' inside a still-open literal submits the buffer and the unterminated tail is discarded")
				case !appended:
					c202Fail(c, hk, key, enter.Pos(), "the statements handed on are not the split's result")
				default:
					c.OK("C20.2", key, enter.Pos(), 3, "submit iff only blanks follow the split's rest; the split's statements are handed on")
				}
				// the split's statements reach the caller unmodified: no element store, no reassignment
				if stmtsObj != nil {
					rewritten := token.NoPos
					inspectBody(arm, func(y ast.Node) bool {
						as, ok := y.(*ast.AssignStmt)
						if !ok {
							return true
						}
						for li, l := range as.Lhs {
							var base ast.Expr = ast.Unparen(l)
							if ix, ok := base.(*ast.IndexExpr); ok {
								base = ast.Unparen(ix.X)
							}
							id, ok := base.(*ast.Ident)
							if !ok {
								continue
							}
							o := hk.ObjOf(id)
							isLine := false
							if ri := resultIdent(hk, 0); ri != nil && hk.ObjOf(ri) == o {
								isLine = true
							}
							if o != stmtsObj && !isLine {
								continue
							}
							if _, isIdx := ast.Unparen(l).(*ast.IndexExpr); isIdx {
								rewritten = as.Pos()
								continue
							}
							// whole-variable assignment: allowed from the split itself, or line = append(line, stmts...)
							if li < len(as.Rhs) || len(as.Rhs) == 1 {
								rhs := as.Rhs[0]
								if len(as.Rhs) == len(as.Lhs) {
									rhs = as.Rhs[li]
								}
								if call, ok := ast.Unparen(rhs).(*ast.CallExpr); ok {
									if hk.CallIs(call, "console.splitStatements") {
										continue
									}
									if fid, ok := call.Fun.(*ast.Ident); ok && fid.Name == "append" && isLine {
										onlyStmts := len(call.Args) == 2 && call.Ellipsis.IsValid()
										if onlyStmts {
											if aid, ok := ast.Unparen(call.Args[1]).(*ast.Ident); !ok {
												onlyStmts = false
											} else if o2 := hk.ObjOf(aid); o2 != stmtsObj {
												// an alias `out := stmts` is still the split's result
												rhs2, _, ok2 := hk.definedBy(arm, o2)
												rid, isID := rhs2.(*ast.Ident)
												if !ok2 || !isID || hk.ObjOf(rid) != stmtsObj {
													onlyStmts = false
												}
											}
										}
										if onlyStmts {
											continue
										}
									}
								}
								// a reset of the result slice that does not involve the statements is harmless
								mentions := false
								ast.Inspect(rhs, func(z ast.Node) bool {
									if zi, ok := z.(*ast.Ident); ok && hk.ObjOf(zi) == stmtsObj {
										mentions = true
									}
									return true
								})
								if isLine && !mentions {
									continue
								}
								rewritten = as.Pos()
							}
						}
						return true
					})
					c.Check(!rewritten.IsValid(), "C20.2", hk.Name+"|statements-unmodified", enter.Pos(), "the split's statements are handed on as they are", "the Enter arm rewrites the text of the statements between the split and the caller (a whitespace tidy-up is not quote-aware: blanks inside string literals are changed)")
				}
				// buffer cleared only inside the submit branch
				cleared := true
				inspectBody(arm, func(y ast.Node) bool {
					if as, ok := y.(*ast.AssignStmt); ok && exprKey(as.Lhs[0]) == recvName(hk)+".line" && strings.Contains(exprKey(as.Rhs[0]), "[:0]") {
						if submit == nil || as.Pos() < submitRegion.Pos() || as.End() > submitRegion.End() {
							cleared = false
						}
					}
					return true
				})
				if cleared {
					c.OK("C20.2", hk.Name+"|clear-only-on-submit", enter.Pos(), 1, "the buffer is cleared only when it is submitted")
				} else {
					c202Fail(c, hk, hk.Name+"|clear-only-on-submit", enter.Pos(), "the line buffer is cleared on a path that does not submit it")
				}
			}
		}
	}
	// runTerminal hands every piece to the session in order
	if rt := c.NeedFunc("C20.2", "console.runTerminal"); rt != nil {
		okLoop := false
		inspectBody(rt.Decl.Body, func(x ast.Node) bool {
			if rs, ok := x.(*ast.RangeStmt); ok && isReadLineResult(rt, rs.X) {
				if len(rt.Calls(rs.Body, false, "engine.Session.ExecQuery")) == 1 {
					okLoop = true
				}
			}
			return true
		})
		c.Check(okLoop, "C20.2", rt.Name+"|each-piece-once", rt.Decl.Pos(), "every statement of a submitted line is executed once, in order", "runTerminal does not hand each statement of the line to the session exactly once in order")
	}
	ruleVendoredEqualsUpstream(c, "C20.4", vendoredTerminal)
	ruleRemainderInvariant(c, "C20.5")
	ruleBytesDecodedOnlyByKeyReader(c, "C20.7")
	// C20.3
	if bk := c.NeedFunc("C20.3", "console.bytesToKey"); bk != nil {
		g := bk.Graph()
		decs := bk.Calls(bk.Decl.Body, false, "utf8.DecodeRune")
		fulls := bk.Calls(bk.Decl.Body, false, "utf8.FullRune")
		key := bk.Name + "|full-rune-before-decode"
		if len(decs) == 0 {
			c.Undecided("C20.3", key, "no utf8.DecodeRune in bytesToKey")
		} else {
			ok := false
			for _, fr := range fulls {
				fl, _ := g.Locate(fr)
				for _, d := range decs {
					dl, _ := g.Locate(d)
					if g.Dominates(fl, dl) {
						ok = true
					}
				}
			}
			c.Check(ok, "C20.3", key, decs[0].Pos(), "DecodeRune is dominated by a FullRune test", "bytesToKey decodes a rune without first testing utf8.FullRune: the leading bytes of a multi-byte character that straddles a read boundary are consumed as an invalid rune and the character disappears from the statement")
		}
	}
}

// ruleBytesDecodedOnlyByKeyReader: in the console, bytes of the input become characters in one place only.
func ruleBytesDecodedOnlyByKeyReader(c *Ctx, rule string) {
	c.Rule(rule, "input bytes become characters only in bytesToKey (the one place that waits, with utf8.FullRune, until a character is complete): no other function of the console decodes a byte slice — bytes.Runes, utf8.DecodeRune / DecodeLastRune, []rune(string(b)), range over string(b) — because the 256-byte read buffer can end in the middle of a multi-byte character, whose leading bytes would then be decoded as U+FFFD and the character lost from the statement")
	w := c.W
	pkg := w.Pkgs["console"]
	if pkg == nil {
		c.Undecided(rule, "subjects", "package console not loaded")
		return
	}
	n, bad := 0, 0
	isBytes := func(f *Func, e ast.Expr) bool {
		t := f.TypeOf(e)
		if t == nil {
			return false
		}
		sl, ok := t.Underlying().(*types.Slice)
		if !ok {
			return false
		}
		b, ok := sl.Elem().Underlying().(*types.Basic)
		return ok && b.Kind() == types.Uint8
	}
	for _, name := range w.SortedFuncNames() {
		f := w.Funcs[name]
		if f.Pkg != pkg || f.Decl.Body == nil || strings.HasSuffix(w.Fset.Position(f.Decl.Pos()).Filename, "_test.go") {
			continue
		}
		n++
		if f.Name == "console.bytesToKey" {
			continue
		}
		idx := 0
		ast.Inspect(f.Decl.Body, func(x ast.Node) bool {
			switch y := x.(type) {
			case *ast.CallExpr:
				what := ""
				switch {
				case f.CallIs(y, "bytes.Runes", "utf8.DecodeRune", "utf8.DecodeLastRune"):
					what = f.Src(y.Fun)
				case len(y.Args) == 1:
					// []rune(string(b))
					if tv, ok := f.Pkg.TypesInfo.Types[y.Fun]; ok && tv.IsType() {
						if sl, ok := tv.Type.Underlying().(*types.Slice); ok {
							if b, ok := sl.Elem().Underlying().(*types.Basic); ok && b.Kind() == types.Int32 {
								if inner, ok := ast.Unparen(y.Args[0]).(*ast.CallExpr); ok && len(inner.Args) == 1 && isBytes(f, inner.Args[0]) && !wholeInput(f, inner.Args[0]) {
									if itv, ok := f.Pkg.TypesInfo.Types[inner.Fun]; ok && itv.IsType() {
										what = "[]rune(string(…))"
									}
								}
							}
						}
					}
				}
				if what != "" {
					idx++
					bad++
					c.Fail(rule, f.Name+"|decodes-bytes#"+itoa(idx), y.Pos(), "%s turns input bytes into characters with %s instead of leaving it to bytesToKey: a multi-byte character cut by the end of a read is decoded as U+FFFD and lost", f.Name, what)
				}
			case *ast.RangeStmt:
				if inner, ok := ast.Unparen(y.X).(*ast.CallExpr); ok && len(inner.Args) == 1 && isBytes(f, inner.Args[0]) && !wholeInput(f, inner.Args[0]) {
					if itv, ok := f.Pkg.TypesInfo.Types[inner.Fun]; ok && itv.IsType() {
						if b, ok := itv.Type.Underlying().(*types.Basic); ok && b.Kind() == types.String {
							idx++
							bad++
							c.Fail(rule, f.Name+"|decodes-bytes#"+itoa(idx), y.Pos(), "%s ranges over string(bytes) of the input instead of leaving the decoding to bytesToKey: a multi-byte character cut by the end of a read is decoded as U+FFFD and lost", f.Name)
						}
					}
				}
			}
			return true
		})
	}
	if n == 0 {
		c.Undecided(rule, "subjects", "no function of the console found")
		return
	}
	if bad == 0 {
		c.OK(rule, "console|bytes-decoded-by-bytesToKey-only", token.NoPos, n, "%d functions of the console examined, none decodes a byte slice itself", n)
	}
}

// isReadLineResult: the expression is the variable bound to the first result of Terminal.ReadLine.
func isReadLineResult(f *Func, e ast.Expr) bool {
	id, ok := ast.Unparen(e).(*ast.Ident)
	if !ok {
		return false
	}
	for _, call := range f.Calls(f.Decl.Body, false, "console.Terminal.ReadLine") {
		if f.resultVar(f.Decl.Body, call, 0) == f.ObjOf(id) {
			return true
		}
	}
	return false
}

// wholeInput: the byte slice is everything a source had to give (os.ReadFile, io.ReadAll): no character can be cut by
// the end of a read, which is what the key reader's FullRune test is for.
func wholeInput(f *Func, e ast.Expr) bool {
	id, ok := ast.Unparen(e).(*ast.Ident)
	if !ok {
		return false
	}
	defs := f.assignsTo(f.Decl.Body, f.ObjOf(id))
	if len(defs) == 0 {
		return false
	}
	for _, as := range defs {
		if len(as.Rhs) != 1 {
			return false
		}
		call, ok := ast.Unparen(as.Rhs[0]).(*ast.CallExpr)
		if !ok {
			return false
		}
		fn := f.Callee(call)
		if fn == nil || fn.Pkg() == nil {
			return false
		}
		switch fn.Pkg().Path() + "." + fn.Name() {
		case "os.ReadFile", "io.ReadAll", "io/ioutil.ReadFile", "io/ioutil.ReadAll":
		default:
			return false
		}
	}
	return true
}

// c202Fail: a failure of the submit rules in an Enter arm that now runs through helpers the rules have never seen
// (written out at their call sites before analysis) is not decided by shape.
func c202Fail(c *Ctx, hk *Func, key string, pos token.Pos, format string, args ...any) {
	if hs := writtenOutHelpers(hk); len(hs) > 0 {
		c.Undecided("C20.2", key, "the Enter arm was restructured around helpers the rules have never seen (%s); the rule would otherwise report: %s", strings.Join(hs, ", "), fmt.Sprintf(format, args...))
		return
	}
	c.Fail("C20.2", key, pos, format, args...)
}
