package main

// Bracket helpers (analysis-only normalisation, inert on the reference tree).
//
// `withTxn(rm, func() { … })`, `f.withExclusiveLock(f.flushPagesLocked)`: a helper the rules have never seen
// whose whole body is   ACQUIRE(); defer RELEASE(); [return] fn(…)   with fn one of its parameters. At a call
// site in tail position (the call is the operand of the caller's return, or only a `return <local>` follows
// it) the caller is written the way the rules know it:  ACQUIRE(); defer RELEASE(); <what fn does>.
// Nothing but the spelling changes: the deferred release runs where the helper's would have run, because
// nothing but the return follows the call.

import (
	"go/ast"
	"go/token"
	"go/types"
	"strings"
)

type bracketHelper struct {
	f        *Func
	acq, rel *ast.CallExpr
	fnParam  types.Object
	fnCall   *ast.CallExpr
	returns  bool
}

func (w *World) bracketHelperOf(f *Func) *bracketHelper {
	if _, pinned := pinnedFuncs[f.Name]; pinned || w.aliased[f] {
		return nil
	}
	body := f.Decl.Body
	if body == nil || len(body.List) != 3 {
		return nil
	}
	es, ok1 := body.List[0].(*ast.ExprStmt)
	ds, ok2 := body.List[1].(*ast.DeferStmt)
	if !ok1 || !ok2 {
		return nil
	}
	acq, ok := es.X.(*ast.CallExpr)
	if !ok {
		return nil
	}
	h := &bracketHelper{f: f, acq: acq, rel: ds.Call}
	switch last := body.List[2].(type) {
	case *ast.ExprStmt:
		h.fnCall, _ = last.X.(*ast.CallExpr)
	case *ast.ReturnStmt:
		if len(last.Results) == 1 {
			h.fnCall, _ = ast.Unparen(last.Results[0]).(*ast.CallExpr)
			h.returns = true
		}
	}
	if h.fnCall == nil || len(h.fnCall.Args) != 0 {
		return nil
	}
	id, ok := h.fnCall.Fun.(*ast.Ident)
	if !ok {
		return nil
	}
	obj := f.ObjOf(id)
	if !isParamOf(f, obj) {
		return nil
	}
	if _, isSig := obj.Type().Underlying().(*types.Signature); !isSig {
		return nil
	}
	h.fnParam = obj
	return h
}

func (w *World) inlineBracketHelpers(overlay map[string][]byte) (map[string][]byte, []string) {
	helpers := map[*Func]*bracketHelper{}
	for _, name := range w.SortedFuncNames() {
		if h := w.bracketHelperOf(w.Funcs[name]); h != nil {
			helpers[w.Funcs[name]] = h
		}
	}
	if len(helpers) == 0 {
		return nil, nil
	}
	edits := map[string][]textEdit{}
	var done []string
	for _, name := range w.SortedFuncNames() {
		f := w.Funcs[name]
		if f.Decl.Body == nil || helpers[f] != nil {
			continue
		}
		tf, fname := w.fileOf(f.Decl.Pos())
		src := readSource(fname, overlay)
		text := func(n ast.Node) string { return string(src[tf.Offset(n.Pos()):tf.Offset(n.End())]) }
		// only top-level statements of the function body can be in tail position
		list := f.Decl.Body.List
		for i, st := range list {
			var call *ast.CallExpr
			kind := ""
			switch s := st.(type) {
			case *ast.ExprStmt:
				call, _ = s.X.(*ast.CallExpr)
				kind = "stmt"
			case *ast.ReturnStmt:
				if len(s.Results) == 1 {
					call, _ = ast.Unparen(s.Results[0]).(*ast.CallExpr)
					kind = "return"
				}
			}
			if call == nil {
				continue
			}
			h := helpers[w.FuncOf(f.Callee(call))]
			if h == nil {
				continue
			}
			// tail position
			switch kind {
			case "return":
				if i != len(list)-1 {
					continue
				}
			case "stmt":
				okTail := i == len(list)-1
				if i == len(list)-2 {
					if r, ok := list[i+1].(*ast.ReturnStmt); ok {
						okTail = true
						for _, e := range r.Results {
							if _, isId := ast.Unparen(e).(*ast.Ident); !isId {
								okTail = false
							}
						}
					}
				}
				if !okTail {
					continue
				}
			}
			// bind the helper's parameters (and receiver) to the argument texts
			hf := h.f
			htf, hname := w.fileOf(hf.Decl.Pos())
			hsrc := readSource(hname, overlay)
			htext := func(n ast.Node) string { return string(hsrc[htf.Offset(n.Pos()):htf.Offset(n.End())]) }
			bind := map[string]string{}
			simple := true
			if hf.Decl.Recv != nil && len(hf.Decl.Recv.List) == 1 && len(hf.Decl.Recv.List[0].Names) == 1 {
				sel, ok := call.Fun.(*ast.SelectorExpr)
				if !ok || !simpleArg(sel.X) {
					continue
				}
				bind[hf.Decl.Recv.List[0].Names[0].Name] = text(sel.X)
			}
			k := 0
			var fnArg ast.Expr
			for _, fl := range hf.Decl.Type.Params.List {
				for _, nm := range fl.Names {
					if k >= len(call.Args) {
						simple = false
						break
					}
					if hf.ObjOf(nm) == h.fnParam {
						fnArg = call.Args[k]
					} else {
						if !simpleArg(call.Args[k]) {
							simple = false
						}
						bind[nm.Name] = text(call.Args[k])
					}
					k++
				}
			}
			if !simple || fnArg == nil {
				continue
			}
			subst := func(n ast.Node) string {
				// whole-identifier substitution of parameter names in the helper's acquire/release calls
				s := htext(n)
				type rep struct {
					a, b int
					t    string
				}
				var reps []rep
				ast.Inspect(n, func(y ast.Node) bool {
					if id, ok := y.(*ast.Ident); ok {
						if t, ok := bind[id.Name]; ok && hf.ObjOf(id) != nil && isParamOrRecv(hf, hf.ObjOf(id)) {
							reps = append(reps, rep{htf.Offset(id.Pos()) - htf.Offset(n.Pos()), htf.Offset(id.End()) - htf.Offset(n.Pos()), t})
						}
					}
					return true
				})
				for j := len(reps) - 1; j >= 0; j-- {
					s = s[:reps[j].a] + reps[j].t + s[reps[j].b:]
				}
				return s
			}
			var b strings.Builder
			b.WriteString(subst(h.acq) + "\n")
			b.WriteString("defer " + subst(h.rel) + "\n")
			switch a := ast.Unparen(fnArg).(type) {
			case *ast.FuncLit:
				hasReturn := false
				ast.Inspect(a.Body, func(y ast.Node) bool {
					switch y.(type) {
					case *ast.FuncLit:
						return false
					case *ast.ReturnStmt:
						hasReturn = true
					}
					return true
				})
				switch {
				case kind == "return" && h.returns:
					// the closure's returns are the caller's
					b.WriteString(strings.TrimSuffix(strings.TrimPrefix(text(a.Body), "{"), "}"))
				case kind == "stmt" && !hasReturn:
					b.WriteString(strings.TrimSuffix(strings.TrimPrefix(text(a.Body), "{"), "}"))
				default:
					continue
				}
			default:
				if !simpleArg(a) {
					continue
				}
				if kind == "return" {
					b.WriteString("return " + text(a) + "()\n")
				} else {
					b.WriteString(text(a) + "()\n")
				}
			}
			edits[fname] = append(edits[fname], textEdit{tf.Offset(st.Pos()), tf.Offset(st.End()), b.String()})
			done = append(done, name+":"+hf.Decl.Name.Name)
			break // one site per function and round
		}
	}
	if len(done) == 0 {
		return nil, nil
	}
	out := applyEdits(w, overlay, edits)
	if out == nil {
		return nil, nil
	}
	return out, done
}

func isParamOrRecv(f *Func, obj types.Object) bool {
	if isParamOf(f, obj) {
		return true
	}
	if f.Decl.Recv != nil {
		for _, fl := range f.Decl.Recv.List {
			for _, nm := range fl.Names {
				if f.ObjOf(nm) == obj {
					return true
				}
			}
		}
	}
	return false
}

var _ = token.NoPos

// iifeDeferHelpers: a helper the rules have never seen that contains `defer` cannot be substituted statement by
// statement (its deferred calls would run at the caller's end). It can be substituted as what it is: a function
// literal invoked on the spot — `err := recoverDB(db)` becomes `err := func(db string) error { … }(db)`, the
// form InitStorage has in the pinned tree. Parameters stay parameters, so no argument is evaluated twice and
// nothing is renamed; only package-level names hidden by a local of the caller can break it, and then the
// substituted program does not type-check and the step is abandoned.
func (w *World) iifeDeferHelpers(overlay map[string][]byte) (map[string][]byte, []string) {
	edits := map[string][]textEdit{}
	var done []string
	for _, name := range w.SortedFuncNames() {
		h := w.Funcs[name]
		if _, pinned := pinnedFuncs[h.Name]; pinned || w.aliased[h] || h.Decl.Body == nil {
			continue
		}
		if w.helperObstacle(h) != "contains defer" {
			continue
		}
		if w.bracketHelperOf(h) != nil {
			continue
		}
		htf, hname := w.fileOf(h.Decl.Pos())
		hsrc := readSource(hname, overlay)
		htext := func(n ast.Node) string { return string(hsrc[htf.Offset(n.Pos()):htf.Offset(n.End())]) }
		// call sites: all static calls, all in the helper's own package
		var sites []*CallSite
		ok := true
		for _, cs := range w.CG().In[h] {
			if cs.Caller.Pkg != h.Pkg || cs.Caller == h || cs.InGo {
				ok = false
			}
			sites = append(sites, cs)
		}
		// the deferred calls of a goroutine body belong to the goroutine: `go h()` stays as it is
		if !ok || len(sites) == 0 {
			continue
		}
		// parameter list text (receiver first)
		params := ""
		if h.Decl.Recv != nil && len(h.Decl.Recv.List) == 1 {
			fl := h.Decl.Recv.List[0]
			nm := "_"
			if len(fl.Names) == 1 {
				nm = fl.Names[0].Name
			}
			params = nm + " " + htext(fl.Type)
		}
		if h.Decl.Type.Params != nil && len(h.Decl.Type.Params.List) > 0 {
			p := htext(h.Decl.Type.Params)
			p = strings.TrimSuffix(strings.TrimPrefix(p, "("), ")")
			if params != "" && strings.TrimSpace(p) != "" {
				params += ", "
			}
			params += p
		}
		results := ""
		if h.Decl.Type.Results != nil {
			results = " " + htext(h.Decl.Type.Results)
		}
		lit := "func(" + params + ")" + results + " " + htext(h.Decl.Body)
		for _, cs := range sites {
			f := cs.Caller
			tf, fname := w.fileOf(f.Decl.Pos())
			src := readSource(fname, overlay)
			text := func(n ast.Node) string { return string(src[tf.Offset(n.Pos()):tf.Offset(n.End())]) }
			var args []string
			if h.Decl.Recv != nil {
				sel, isSel := cs.Call.Fun.(*ast.SelectorExpr)
				if !isSel {
					ok = false
					break
				}
				recv := text(sel.X)
				// a value receiver called on an addressable pointer (or the reverse) keeps Go's implicit conversion
				_, wantPtr := h.Obj.Type().(*types.Signature).Recv().Type().(*types.Pointer)
				_, havePtr := f.TypeOf(sel.X).(*types.Pointer)
				switch {
				case wantPtr && !havePtr:
					recv = "&" + recv
				case !wantPtr && havePtr:
					recv = "*" + recv
				}
				args = append(args, recv)
			}
			for _, a := range cs.Call.Args {
				args = append(args, text(a))
			}
			tail := ")"
			if cs.Call.Ellipsis.IsValid() {
				tail = "...)"
			}
			edits[fname] = append(edits[fname], textEdit{tf.Offset(cs.Call.Pos()), tf.Offset(cs.Call.End()), lit + "(" + strings.Join(args, ", ") + tail})
		}
		if !ok {
			continue
		}
		// the declaration goes (with its doc comment)
		start := h.Decl.Pos()
		if h.Decl.Doc != nil {
			start = h.Decl.Doc.Pos()
		}
		edits[hname] = append(edits[hname], textEdit{htf.Offset(start), htf.Offset(h.Decl.End()), ""})
		done = append(done, h.Name)
		break // one helper per round: call sites of different helpers may nest
	}
	if len(done) == 0 {
		return nil, nil
	}
	out := applyEdits(w, overlay, edits)
	if out == nil {
		return nil, nil
	}
	return out, done
}
