package main

// Bracket helpers (analysis-only normalisation, inert on the reference tree).
//
// `withTxn(rm, func() { … })`, `f.withExclusiveLock(f.flushPagesLocked)`: a helper the rules have never seen
// whose whole body is   ACQUIRE(); defer RELEASE(); [return] fn(…)   with fn one of its parameters. At a call
// site in tail position (the call is the operand of the caller's return, or only a `return <local>` follows
// it) the caller is written the way the rules know it:  ACQUIRE(); defer RELEASE(); <what fn does>.
// Nothing but the spelling changes: the deferred release runs where the helper's would have run, because
// nothing but the return follows the call.

import (
	"go/ast"
	"go/token"
	"go/types"
	"strconv"
	"strings"
)

type bracketHelper struct {
	f        *Func
	acq, rel *ast.CallExpr
	fnParam  types.Object
	fnCall   *ast.CallExpr
	returns  bool
}

func (w *World) bracketHelperOf(f *Func) *bracketHelper {
	if _, pinned := pinnedFuncs[f.Name]; pinned || w.aliased[f] {
		return nil
	}
	body := f.Decl.Body
	if body == nil || len(body.List) != 3 {
		return nil
	}
	es, ok1 := body.List[0].(*ast.ExprStmt)
	ds, ok2 := body.List[1].(*ast.DeferStmt)
	if !ok1 || !ok2 {
		return nil
	}
	acq, ok := es.X.(*ast.CallExpr)
	if !ok {
		return nil
	}
	h := &bracketHelper{f: f, acq: acq, rel: ds.Call}
	switch last := body.List[2].(type) {
	case *ast.ExprStmt:
		h.fnCall, _ = last.X.(*ast.CallExpr)
	case *ast.ReturnStmt:
		if len(last.Results) == 1 {
			h.fnCall, _ = ast.Unparen(last.Results[0]).(*ast.CallExpr)
			h.returns = true
		}
	}
	if h.fnCall == nil || len(h.fnCall.Args) != 0 {
		return nil
	}
	id, ok := h.fnCall.Fun.(*ast.Ident)
	if !ok {
		return nil
	}
	obj := f.ObjOf(id)
	if !isParamOf(f, obj) {
		return nil
	}
	if _, isSig := obj.Type().Underlying().(*types.Signature); !isSig {
		return nil
	}
	h.fnParam = obj
	return h
}

func (w *World) inlineBracketHelpers(overlay map[string][]byte) (map[string][]byte, []string) {
	helpers := map[*Func]*bracketHelper{}
	for _, name := range w.SortedFuncNames() {
		if h := w.bracketHelperOf(w.Funcs[name]); h != nil {
			helpers[w.Funcs[name]] = h
		}
	}
	if len(helpers) == 0 {
		return nil, nil
	}
	edits := map[string][]textEdit{}
	var done []string
	for _, name := range w.SortedFuncNames() {
		f := w.Funcs[name]
		if f.Decl.Body == nil || helpers[f] != nil {
			continue
		}
		tf, fname := w.fileOf(f.Decl.Pos())
		src := readSource(fname, overlay)
		text := func(n ast.Node) string { return string(src[tf.Offset(n.Pos()):tf.Offset(n.End())]) }
		// only top-level statements of the function body can be in tail position
		list := f.Decl.Body.List
		for i, st := range list {
			var call *ast.CallExpr
			kind := ""
			switch s := st.(type) {
			case *ast.ExprStmt:
				call, _ = s.X.(*ast.CallExpr)
				kind = "stmt"
			case *ast.ReturnStmt:
				if len(s.Results) == 1 {
					call, _ = ast.Unparen(s.Results[0]).(*ast.CallExpr)
					kind = "return"
				}
			case *ast.AssignStmt:
				// `err := inTxn(rm, func() (err error) {…; return X})` followed by the final `return …, err`
				if len(s.Lhs) == 1 && len(s.Rhs) == 1 && (s.Tok == token.DEFINE || s.Tok == token.ASSIGN) {
					if _, isID := s.Lhs[0].(*ast.Ident); isID {
						call, _ = ast.Unparen(s.Rhs[0]).(*ast.CallExpr)
						kind = "assign"
					}
				}
			}
			if call == nil {
				continue
			}
			h := helpers[w.FuncOf(f.Callee(call))]
			if h == nil {
				continue
			}
			// tail position
			switch kind {
			case "return":
				if i != len(list)-1 {
					continue
				}
			case "assign":
				okTail := false
				if i == len(list)-2 {
					if r, ok := list[i+1].(*ast.ReturnStmt); ok {
						okTail = true
						for _, e := range r.Results {
							if _, isId := ast.Unparen(e).(*ast.Ident); !isId {
								okTail = false
							}
						}
					}
				}
				if !okTail || !h.returns {
					continue
				}
			case "stmt":
				okTail := i == len(list)-1
				if i == len(list)-2 {
					if r, ok := list[i+1].(*ast.ReturnStmt); ok {
						okTail = true
						for _, e := range r.Results {
							if _, isId := ast.Unparen(e).(*ast.Ident); !isId {
								okTail = false
							}
						}
					}
				}
				if !okTail {
					continue
				}
			}
			// bind the helper's parameters (and receiver) to the argument texts
			hf := h.f
			htf, hname := w.fileOf(hf.Decl.Pos())
			hsrc := readSource(hname, overlay)
			htext := func(n ast.Node) string { return string(hsrc[htf.Offset(n.Pos()):htf.Offset(n.End())]) }
			bind := map[string]string{}
			simple := true
			if hf.Decl.Recv != nil && len(hf.Decl.Recv.List) == 1 && len(hf.Decl.Recv.List[0].Names) == 1 {
				sel, ok := call.Fun.(*ast.SelectorExpr)
				if !ok || !simpleArg(sel.X) {
					continue
				}
				bind[hf.Decl.Recv.List[0].Names[0].Name] = text(sel.X)
			}
			k := 0
			var fnArg ast.Expr
			for _, fl := range hf.Decl.Type.Params.List {
				for _, nm := range fl.Names {
					if k >= len(call.Args) {
						simple = false
						break
					}
					if hf.ObjOf(nm) == h.fnParam {
						fnArg = call.Args[k]
					} else {
						if !simpleArg(call.Args[k]) {
							simple = false
						}
						bind[nm.Name] = text(call.Args[k])
					}
					k++
				}
			}
			if !simple || fnArg == nil {
				continue
			}
			subst := func(n ast.Node) string {
				// whole-identifier substitution of parameter names in the helper's acquire/release calls
				s := htext(n)
				type rep struct {
					a, b int
					t    string
				}
				var reps []rep
				ast.Inspect(n, func(y ast.Node) bool {
					if id, ok := y.(*ast.Ident); ok {
						if t, ok := bind[id.Name]; ok && hf.ObjOf(id) != nil && isParamOrRecv(hf, hf.ObjOf(id)) {
							reps = append(reps, rep{htf.Offset(id.Pos()) - htf.Offset(n.Pos()), htf.Offset(id.End()) - htf.Offset(n.Pos()), t})
						}
					}
					return true
				})
				for j := len(reps) - 1; j >= 0; j-- {
					s = s[:reps[j].a] + reps[j].t + s[reps[j].b:]
				}
				return s
			}
			var b strings.Builder
			b.WriteString(subst(h.acq) + "\n")
			b.WriteString("defer " + subst(h.rel) + "\n")
			switch a := ast.Unparen(fnArg).(type) {
			case *ast.FuncLit:
				hasReturn := false
				ast.Inspect(a.Body, func(y ast.Node) bool {
					switch y.(type) {
					case *ast.FuncLit:
						return false
					case *ast.ReturnStmt:
						hasReturn = true
					}
					return true
				})
				switch {
				case kind == "assign":
					// one return, the literal's last statement, one result
					nret := 0
					ast.Inspect(a.Body, func(y ast.Node) bool {
						switch y.(type) {
						case *ast.FuncLit:
							return false
						case *ast.ReturnStmt:
							nret++
						}
						return true
					})
					if nret != 1 || len(a.Body.List) == 0 {
						continue
					}
					last, isRet := a.Body.List[len(a.Body.List)-1].(*ast.ReturnStmt)
					if !isRet || len(last.Results) != 1 || a.Type.Results == nil || len(a.Type.Results.List) != 1 {
						continue
					}
					as := st.(*ast.AssignStmt)
					outer := as.Lhs[0].(*ast.Ident).Name
					named := ""
					if rl := a.Type.Results.List[0]; len(rl.Names) == 1 {
						named = rl.Names[0].Name
						b.WriteString("var " + named + " " + text(rl.Type) + "\n")
					} else if len(rl.Names) > 1 {
						continue
					}
					b.WriteString(string(src[tf.Offset(a.Body.Lbrace)+1:tf.Offset(last.Pos())]) + "\n")
					x := text(last.Results[0])
					switch {
					case named != "" && outer == named:
						if x != named {
							b.WriteString(outer + " = " + x + "\n")
						}
					case as.Tok == token.DEFINE:
						b.WriteString(outer + " := " + x + "\n")
					default:
						b.WriteString(outer + " = " + x + "\n")
					}
				case kind == "return" && h.returns:
					// the closure's returns are the caller's
					b.WriteString(strings.TrimSuffix(strings.TrimPrefix(text(a.Body), "{"), "}"))
				case kind == "stmt" && !hasReturn:
					b.WriteString(strings.TrimSuffix(strings.TrimPrefix(text(a.Body), "{"), "}"))
				default:
					continue
				}
			default:
				if !simpleArg(a) {
					continue
				}
				if kind == "return" {
					b.WriteString("return " + text(a) + "()\n")
				} else if kind == "assign" {
					as := st.(*ast.AssignStmt)
					b.WriteString(text(as.Lhs[0]) + " " + as.Tok.String() + " " + text(a) + "()\n")
				} else {
					b.WriteString(text(a) + "()\n")
				}
			}
			edits[fname] = append(edits[fname], textEdit{tf.Offset(st.Pos()), tf.Offset(st.End()), b.String()})
			done = append(done, name+":"+hf.Decl.Name.Name)
			break // one site per function and round
		}
	}
	if len(done) == 0 {
		return nil, nil
	}
	out := applyEdits(w, overlay, edits)
	if out == nil {
		return nil, nil
	}
	return out, done
}

func isParamOrRecv(f *Func, obj types.Object) bool {
	if isParamOf(f, obj) {
		return true
	}
	if f.Decl.Recv != nil {
		for _, fl := range f.Decl.Recv.List {
			for _, nm := range fl.Names {
				if f.ObjOf(nm) == obj {
					return true
				}
			}
		}
	}
	return false
}

var _ = token.NoPos

// iifeDeferHelpers: a helper the rules have never seen that contains `defer` cannot be substituted statement by
// statement (its deferred calls would run at the caller's end). It can be substituted as what it is: a function
// literal invoked on the spot — `err := recoverDB(db)` becomes `err := func(db string) error { … }(db)`, the
// form InitStorage has in the pinned tree. Parameters stay parameters, so no argument is evaluated twice and
// nothing is renamed; only package-level names hidden by a local of the caller can break it, and then the
// substituted program does not type-check and the step is abandoned.
func (w *World) iifeDeferHelpers(overlay map[string][]byte) (map[string][]byte, []string) {
	edits := map[string][]textEdit{}
	var done []string
	for _, name := range w.SortedFuncNames() {
		h := w.Funcs[name]
		if _, pinned := pinnedFuncs[h.Name]; pinned || w.aliased[h] || h.Decl.Body == nil {
			continue
		}
		if w.helperObstacle(h) != "contains defer" {
			continue
		}
		if w.bracketHelperOf(h) != nil {
			continue
		}
		// a helper whose deferred calls only release the lock or transaction bracket it took itself is a
		// self-bracketing unit: the lock analysis follows calls into it, and its body is analysed as a function
		// of its own (a literal's flow is not)
		onlyReleases, defers := true, 0
		ast.Inspect(h.Decl.Body, func(x ast.Node) bool {
			if _, isLit := x.(*ast.FuncLit); isLit {
				return false
			}
			if d, ok := x.(*ast.DeferStmt); ok {
				defers++
				if _, release, isLock := w.Locks().lockCall(h, d.Call); !isLock || !release {
					onlyReleases = false
				}
			}
			return true
		})
		if defers > 0 && onlyReleases {
			continue
		}
		htf, hname := w.fileOf(h.Decl.Pos())
		hsrc := readSource(hname, overlay)
		htext := func(n ast.Node) string { return string(hsrc[htf.Offset(n.Pos()):htf.Offset(n.End())]) }
		// call sites: all static calls, all in the helper's own package
		var sites []*CallSite
		ok := true
		for _, cs := range w.CG().In[h] {
			if cs.Caller.Pkg != h.Pkg || cs.Caller == h || cs.InGo {
				ok = false
			}
			sites = append(sites, cs)
		}
		// the deferred calls of a goroutine body belong to the goroutine: `go h()` stays as it is
		if !ok || len(sites) == 0 {
			continue
		}
		// parameter list text (receiver first)
		params := ""
		if h.Decl.Recv != nil && len(h.Decl.Recv.List) == 1 {
			fl := h.Decl.Recv.List[0]
			nm := "_"
			if len(fl.Names) == 1 {
				nm = fl.Names[0].Name
			}
			params = nm + " " + htext(fl.Type)
		}
		if h.Decl.Type.Params != nil && len(h.Decl.Type.Params.List) > 0 {
			p := htext(h.Decl.Type.Params)
			p = strings.TrimSuffix(strings.TrimPrefix(p, "("), ")")
			if params != "" && strings.TrimSpace(p) != "" {
				params += ", "
			}
			params += p
		}
		results := ""
		if h.Decl.Type.Results != nil {
			results = " " + htext(h.Decl.Type.Results)
		}
		lit := "func(" + params + ")" + results + " " + htext(h.Decl.Body)
		for _, cs := range sites {
			f := cs.Caller
			tf, fname := w.fileOf(f.Decl.Pos())
			src := readSource(fname, overlay)
			text := func(n ast.Node) string { return string(src[tf.Offset(n.Pos()):tf.Offset(n.End())]) }
			var args []string
			if h.Decl.Recv != nil {
				sel, isSel := cs.Call.Fun.(*ast.SelectorExpr)
				if !isSel {
					ok = false
					break
				}
				recv := text(sel.X)
				// a value receiver called on an addressable pointer (or the reverse) keeps Go's implicit conversion
				_, wantPtr := h.Obj.Type().(*types.Signature).Recv().Type().(*types.Pointer)
				_, havePtr := f.TypeOf(sel.X).(*types.Pointer)
				switch {
				case wantPtr && !havePtr:
					recv = "&" + recv
				case !wantPtr && havePtr:
					recv = "*" + recv
				}
				args = append(args, recv)
			}
			for _, a := range cs.Call.Args {
				args = append(args, text(a))
			}
			tail := ")"
			if cs.Call.Ellipsis.IsValid() {
				tail = "...)"
			}
			edits[fname] = append(edits[fname], textEdit{tf.Offset(cs.Call.Pos()), tf.Offset(cs.Call.End()), lit + "(" + strings.Join(args, ", ") + tail})
		}
		if !ok {
			continue
		}
		// the declaration goes (with its doc comment)
		start := h.Decl.Pos()
		if h.Decl.Doc != nil {
			start = h.Decl.Doc.Pos()
		}
		edits[hname] = append(edits[hname], textEdit{htf.Offset(start), htf.Offset(h.Decl.End()), ""})
		done = append(done, h.Name)
		break // one helper per round: call sites of different helpers may nest
	}
	if len(done) == 0 {
		return nil, nil
	}
	out := applyEdits(w, overlay, edits)
	if out == nil {
		return nil, nil
	}
	return out, done
}

// restoreOrientation: a comparison that the pinned version of the function writes one way round and the current
// one the other way round (`b > a` for `a < b`, `nil == x` for `x == nil`, `0 == len(s)`) is turned back. The
// two forms are the same expression; the rules quote the pinned spelling in several places.
func (w *World) restoreOrientation(overlay map[string][]byte) (map[string][]byte, []string) {
	edits := map[string][]textEdit{}
	var done []string
	mir := map[token.Token]token.Token{token.EQL: token.EQL, token.NEQ: token.NEQ, token.LSS: token.GTR, token.GTR: token.LSS, token.LEQ: token.GEQ, token.GEQ: token.LEQ}
	for _, name := range w.SortedFuncNames() {
		f := w.Funcs[name]
		if w.vendoredFunc(f) {
			continue
		}
		pc, ok := pinnedCmps[name]
		if !ok || f.Decl.Body == nil {
			continue
		}
		known := map[string]bool{}
		for _, k := range strings.Split(pc, " | ") {
			known[k] = true
		}
		tf, fname := w.fileOf(f.Decl.Pos())
		src := readSource(fname, overlay)
		n := 0
		ast.Inspect(f.Decl.Body, func(x ast.Node) bool {
			be, ok := x.(*ast.BinaryExpr)
			if !ok {
				return true
			}
			m, isCmp := mir[be.Op]
			if !isCmp || known[exprKey(be)] {
				return true
			}
			flipped := &ast.BinaryExpr{X: be.Y, Op: m, Y: be.X}
			if !known[exprKey(flipped)] {
				return true
			}
			a, m1, m2, b := tf.Offset(be.X.Pos()), tf.Offset(be.X.End()), tf.Offset(be.Y.Pos()), tf.Offset(be.Y.End())
			edits[fname] = append(edits[fname], textEdit{a, b, string(src[m2:b]) + " " + m.String() + " " + string(src[a:m1])})
			n++
			return false
		})
		if n > 0 {
			done = append(done, name)
		}
	}
	if len(done) == 0 {
		return nil, nil
	}
	out := applyEdits(w, overlay, edits)
	if out == nil {
		return nil, nil
	}
	return out, done
}

// canonIncDec: `x += 1` and `x -= 1` as statements are written `x++` / `x--` (the reference tree has no other
// spelling; the two are the same statement).
func (w *World) canonIncDec(overlay map[string][]byte) (map[string][]byte, []string) {
	edits := map[string][]textEdit{}
	var done []string
	for _, name := range w.SortedFuncNames() {
		f := w.Funcs[name]
		if w.vendoredFunc(f) {
			continue
		}
		if f.Decl.Body == nil {
			continue
		}
		tf, fname := w.fileOf(f.Decl.Pos())
		src := readSource(fname, overlay)
		n := 0
		ast.Inspect(f.Decl.Body, func(x ast.Node) bool {
			// `var x = e` in a body is `x := e`
			if ds, ok := x.(*ast.DeclStmt); ok {
				if gd, ok := ds.Decl.(*ast.GenDecl); ok && gd.Tok == token.VAR && !gd.Lparen.IsValid() && len(gd.Specs) == 1 {
					if vs, ok := gd.Specs[0].(*ast.ValueSpec); ok && vs.Type == nil && len(vs.Names) == 1 && len(vs.Values) == 1 && vs.Names[0].Name != "_" {
						a, b := tf.Offset(ds.Pos()), tf.Offset(vs.Values[0].Pos())
						edits[fname] = append(edits[fname], textEdit{a, b, vs.Names[0].Name + " := "})
						n++
					}
				}
				return true
			}
			as, ok := x.(*ast.AssignStmt)
			if !ok || len(as.Lhs) != 1 || len(as.Rhs) != 1 {
				return true
			}
			// `x = x op e` is `x op= e`
			if as.Tok == token.ASSIGN {
				be, ok := ast.Unparen(as.Rhs[0]).(*ast.BinaryExpr)
				if !ok || !pureExpr(as.Lhs[0]) {
					return true
				}
				switch be.Op {
				case token.ADD, token.SUB, token.MUL, token.OR, token.AND:
				default:
					return true
				}
				var other ast.Expr
				if exprKey(be.X) == exprKey(as.Lhs[0]) {
					other = be.Y
				} else if exprKey(be.Y) == exprKey(as.Lhs[0]) && be.Op != token.SUB && pureExpr(be.X) {
					if b, ok := f.TypeOf(as.Lhs[0]).Underlying().(*types.Basic); ok && b.Info()&types.IsInteger != 0 {
						other = be.X
					}
				}
				if other == nil {
					return true
				}
				a, m, b := tf.Offset(as.Pos()), tf.Offset(as.Lhs[0].End()), tf.Offset(as.End())
				edits[fname] = append(edits[fname], textEdit{a, b, string(src[a:m]) + " " + be.Op.String() + "= " + string(src[tf.Offset(other.Pos()):tf.Offset(other.End())])})
				n++
				return true
			}
			if as.Tok != token.ADD_ASSIGN && as.Tok != token.SUB_ASSIGN {
				return true
			}
			if cv := f.constOf(as.Rhs[0]); cv == nil || cv.String() != "1" {
				return true
			}
			if b, ok := f.TypeOf(as.Lhs[0]).Underlying().(*types.Basic); !ok || b.Info()&types.IsInteger == 0 {
				return true
			}
			op := "++"
			if as.Tok == token.SUB_ASSIGN {
				op = "--"
			}
			a, m, b := tf.Offset(as.Pos()), tf.Offset(as.Lhs[0].End()), tf.Offset(as.End())
			edits[fname] = append(edits[fname], textEdit{a, b, string(src[a:m]) + op})
			n++
			return true
		})
		if n > 0 {
			done = append(done, name)
		}
	}
	if len(done) == 0 {
		return nil, nil
	}
	out := applyEdits(w, overlay, edits)
	if out == nil {
		return nil, nil
	}
	return out, done
}

// restoreRangeValues: `for i := range S { v := S[i]; … }` over a collection the pinned function ranged over by
// value is written `for i, v := range S { … }` again (`_` for i when the body does not use it otherwise).
func (w *World) restoreRangeValues(overlay map[string][]byte) (map[string][]byte, []string) {
	edits := map[string][]textEdit{}
	var done []string
	for _, name := range w.SortedFuncNames() {
		f := w.Funcs[name]
		if w.vendoredFunc(f) {
			continue
		}
		pr, ok := pinnedRanges[name]
		if !ok || f.Decl.Body == nil {
			continue
		}
		pinnedR := map[string]bool{}
		for _, r := range strings.Split(pr, " | ") {
			pinnedR[r] = true
		}
		info := f.Pkg.TypesInfo
		tf, fname := w.fileOf(f.Decl.Pos())
		src := readSource(fname, overlay)
		text := func(n ast.Node) string { return string(src[tf.Offset(n.Pos()):tf.Offset(n.End())]) }
		n := 0
		ast.Inspect(f.Decl.Body, func(x ast.Node) bool {
			rs, ok := x.(*ast.RangeStmt)
			if !ok || rs.Tok != token.DEFINE || rs.Value != nil || rs.Key == nil || len(rs.Body.List) == 0 {
				return true
			}
			k, ok := rs.Key.(*ast.Ident)
			if !ok || k.Name == "_" || !pinnedR[exprKey(rs.X)] {
				return true
			}
			first, ok := rs.Body.List[0].(*ast.AssignStmt)
			if !ok || first.Tok != token.DEFINE || len(first.Lhs) != 1 || len(first.Rhs) != 1 {
				return true
			}
			v, ok := first.Lhs[0].(*ast.Ident)
			ix, ok2 := ast.Unparen(first.Rhs[0]).(*ast.IndexExpr)
			if !ok || !ok2 || exprKey(ix.X) != exprKey(rs.X) {
				return true
			}
			if id, ok := ast.Unparen(ix.Index).(*ast.Ident); !ok || info.ObjectOf(id) != info.Defs[k] {
				return true
			}
			// S is not reassigned in the body, v is not assigned again
			bad := false
			vobj := info.Defs[v]
			ast.Inspect(rs.Body, func(y ast.Node) bool {
				if as, ok := y.(*ast.AssignStmt); ok && as != first {
					for _, l := range as.Lhs {
						if exprKey(l) == exprKey(rs.X) {
							bad = true
						}
						if id, ok := ast.Unparen(l).(*ast.Ident); ok && vobj != nil && info.ObjectOf(id) == vobj {
							bad = true
						}
					}
				}
				return true
			})
			if bad {
				return true
			}
			uses := 0
			ast.Inspect(rs.Body, func(y ast.Node) bool {
				if id, ok := y.(*ast.Ident); ok && info.ObjectOf(id) == info.Defs[k] {
					uses++
				}
				return true
			})
			key := k.Name
			if uses == 1 {
				key = "_"
			}
			edits[fname] = append(edits[fname],
				textEdit{tf.Offset(rs.Pos()), tf.Offset(rs.Body.Lbrace), "for " + key + ", " + v.Name + " := range " + text(rs.X) + " "},
				textEdit{tf.Offset(first.Pos()), tf.Offset(first.End()), ""})
			n++
			return true
		})
		if n > 0 {
			done = append(done, name)
		}
	}
	if len(done) == 0 {
		return nil, nil
	}
	out := applyEdits(w, overlay, edits)
	if out == nil {
		return nil, nil
	}
	return out, done
}

// pureExpr: identifiers, field selections and indexings of those by pure expressions (no calls, no receives).
func pureExpr(e ast.Expr) bool {
	switch x := ast.Unparen(e).(type) {
	case *ast.Ident, *ast.BasicLit:
		return true
	case *ast.SelectorExpr:
		return pureExpr(x.X)
	case *ast.IndexExpr:
		return pureExpr(x.X) && pureExpr(x.Index)
	case *ast.StarExpr:
		return pureExpr(x.X)
	}
	return false
}

// sinkSingleUse: a new local `t := e` (e not pure, so normalizeLocals leaves it) that is used exactly once, in
// the statement that follows it, at a place that statement evaluates first and exactly once, is written into
// that place again: `t := g(x); f(t)` is `f(g(x))`.
func (w *World) sinkSingleUse(overlay map[string][]byte) (map[string][]byte, []string) {
	edits := map[string][]textEdit{}
	var done []string
	for _, name := range w.SortedFuncNames() {
		f := w.Funcs[name]
		if w.vendoredFunc(f) {
			continue
		}
		pinned, ok := pinnedLocals[name]
		if !ok || f.Decl.Body == nil {
			continue
		}
		known := map[string]bool{}
		for _, n := range strings.Fields(pinned) {
			known[n] = true
		}
		info := f.Pkg.TypesInfo
		tf, fname := w.fileOf(f.Decl.Pos())
		src := readSource(fname, overlay)
		uses := map[types.Object]int{}
		ast.Inspect(f.Decl.Body, func(x ast.Node) bool {
			if id, ok := x.(*ast.Ident); ok {
				if o := info.Uses[id]; o != nil {
					uses[o]++
				}
			}
			return true
		})
		n := 0
		var visit func(list []ast.Stmt)
		visit = func(list []ast.Stmt) {
			for i := 0; i+1 < len(list); i++ {
				as, ok := list[i].(*ast.AssignStmt)
				if !ok || as.Tok != token.DEFINE || len(as.Rhs) != 1 {
					continue
				}
				// `a, b := f(…)` + `return a, b`, all new and used only there, is `return f(…)`
				if ret, isRet := list[i+1].(*ast.ReturnStmt); isRet && len(as.Lhs) > 1 && len(ret.Results) == len(as.Lhs) {
					all := true
					for j, l := range as.Lhs {
						lid, ok := l.(*ast.Ident)
						rid, ok2 := ret.Results[j].(*ast.Ident)
						if !ok || !ok2 || lid.Name == "_" || known[lid.Name] || info.Defs[lid] == nil || info.Uses[rid] != info.Defs[lid] || uses[info.Defs[lid]] != 1 {
							all = false
							break
						}
					}
					if _, isCall := ast.Unparen(as.Rhs[0]).(*ast.CallExpr); all && isCall {
						rhs := string(src[tf.Offset(as.Rhs[0].Pos()):tf.Offset(as.Rhs[0].End())])
						edits[fname] = append(edits[fname],
							textEdit{tf.Offset(as.Pos()), tf.Offset(as.End()), ""},
							textEdit{tf.Offset(ret.Results[0].Pos()), tf.Offset(ret.Results[len(ret.Results)-1].End()), rhs})
						n++
						i++
					}
					continue
				}
				if len(as.Lhs) != 1 {
					continue
				}
				id, ok := as.Lhs[0].(*ast.Ident)
				if !ok || id.Name == "_" || known[id.Name] {
					continue
				}
				obj := info.Defs[id]
				if obj == nil || uses[obj] != 1 {
					continue
				}
				if _, isLit := ast.Unparen(as.Rhs[0]).(*ast.FuncLit); isLit {
					continue
				}
				// the type the variable got must be the type the place expects: an untyped constant or an
				// interface conversion could differ; only identical static types are moved
				var roots []ast.Expr
				switch s := list[i+1].(type) {
				case *ast.ExprStmt:
					roots = []ast.Expr{s.X}
				case *ast.AssignStmt:
					pure := true
					for _, l := range s.Lhs {
						if !w.pureExpr(f, l) {
							pure = false
						}
					}
					if pure {
						roots = s.Rhs
					}
				case *ast.ReturnStmt:
					roots = s.Results
				case *ast.IfStmt:
					if s.Init == nil {
						roots = []ast.Expr{s.Cond}
					}
				case *ast.SwitchStmt:
					if s.Init == nil && s.Tag != nil {
						roots = []ast.Expr{s.Tag}
					}
				case *ast.RangeStmt:
					roots = []ast.Expr{s.X}
				case *ast.DeferStmt:
					roots = []ast.Expr{s.Call}
				case *ast.GoStmt:
					roots = []ast.Expr{s.Call}
				}
				var use *ast.Ident
				blocked := false
				var first func(e ast.Expr) bool // true: the use was found as the first impure thing evaluated in e
				first = func(e ast.Expr) bool {
					if blocked || e == nil {
						return false
					}
					switch x := e.(type) {
					case *ast.Ident:
						if info.Uses[x] == obj {
							use = x
							return true
						}
						return false
					case *ast.ParenExpr:
						return first(x.X)
					case *ast.SelectorExpr:
						return first(x.X)
					case *ast.StarExpr:
						return first(x.X)
					case *ast.UnaryExpr:
						if x.Op == token.AND || x.Op == token.ARROW {
							if mentions(info, x.X, obj) {
								blocked = true
							}
							if !w.pureExpr(f, x) {
								blocked = true
							}
							return false
						}
						return first(x.X)
					case *ast.TypeAssertExpr:
						return first(x.X)
					case *ast.IndexExpr:
						if first(x.X) {
							return true
						}
						if !w.pureExpr(f, x.X) {
							blocked = true
							return false
						}
						return first(x.Index)
					case *ast.SliceExpr:
						for _, sub := range []ast.Expr{x.X, x.Low, x.High, x.Max} {
							if sub == nil {
								continue
							}
							if first(sub) {
								return true
							}
							if !w.pureExpr(f, sub) {
								blocked = true
								return false
							}
						}
						return false
					case *ast.BinaryExpr:
						if first(x.X) {
							return true
						}
						if x.Op == token.LAND || x.Op == token.LOR {
							if mentions(info, x.Y, obj) {
								blocked = true
							}
							return false
						}
						if !w.pureExpr(f, x.X) {
							blocked = true
							return false
						}
						return first(x.Y)
					case *ast.CallExpr:
						if first(x.Fun) {
							return true
						}
						if tv, isT := info.Types[x.Fun]; !(isT && (tv.IsType() || tv.IsBuiltin())) && !w.pureExpr(f, x.Fun) {
							blocked = true
							return false
						}
						for _, a := range x.Args {
							if first(a) {
								return true
							}
							if !w.pureExpr(f, a) {
								blocked = true
								return false
							}
						}
						return false
					case *ast.CompositeLit:
						for _, el := range x.Elts {
							v := el
							if kv, ok := el.(*ast.KeyValueExpr); ok {
								v = kv.Value
								if _, isStruct := info.TypeOf(x).Underlying().(*types.Struct); !isStruct {
									if first(kv.Key) {
										return true
									}
									if !w.pureExpr(f, kv.Key) {
										blocked = true
										return false
									}
								}
							}
							if first(v) {
								return true
							}
							if !w.pureExpr(f, v) {
								blocked = true
								return false
							}
						}
						return false
					case *ast.KeyValueExpr:
						return false
					case *ast.FuncLit:
						if mentions(info, x, obj) {
							blocked = true
						}
						return false
					}
					return false
				}
				found := false
				for _, r := range roots {
					if first(r) {
						found = true
						break
					}
					if blocked || !w.pureExpr(f, r) {
						break
					}
				}
				if !found || blocked || use == nil {
					continue
				}
				// same static type at the place as the variable has
				if tv, ok := info.Types[as.Rhs[0]]; !ok || tv.Value != nil || !types.Identical(tv.Type, obj.Type()) {
					continue
				}
				rhs := string(src[tf.Offset(as.Rhs[0].Pos()):tf.Offset(as.Rhs[0].End())])
				switch ast.Unparen(as.Rhs[0]).(type) {
				case *ast.BinaryExpr, *ast.UnaryExpr, *ast.StarExpr:
					rhs = "(" + rhs + ")"
				}
				edits[fname] = append(edits[fname],
					textEdit{tf.Offset(as.Pos()), tf.Offset(as.End()), ""},
					textEdit{tf.Offset(use.Pos()), tf.Offset(use.End()), rhs})
				n++
				i++ // the next statement is not a candidate holder in this round
			}
		}
		ast.Inspect(f.Decl.Body, func(x ast.Node) bool {
			switch b := x.(type) {
			case *ast.BlockStmt:
				visit(b.List)
			case *ast.CaseClause:
				visit(b.Body)
			case *ast.CommClause:
				visit(b.Body)
			}
			return true
		})
		if n > 0 {
			done = append(done, name)
		}
	}
	if len(done) == 0 {
		return nil, nil
	}
	out := applyEdits(w, overlay, edits)
	if out == nil {
		return nil, nil
	}
	return out, done
}

func mentions(info *types.Info, n ast.Node, obj types.Object) bool {
	found := false
	ast.Inspect(n, func(x ast.Node) bool {
		if id, ok := x.(*ast.Ident); ok && info.Uses[id] == obj {
			found = true
		}
		return !found
	})
	return found
}

// restoreForClauses: `i := a` followed by `for cond { B; i++ }` (cond mentions i, B has no continue of this
// loop, i is not used after the loop in its block) is the three-clause loop `for i := a; cond; i++ { B }`;
// a block that holds nothing but the result is unwrapped.
func (w *World) restoreForClauses(overlay map[string][]byte) (map[string][]byte, []string) {
	edits := map[string][]textEdit{}
	var done []string
	for _, name := range w.SortedFuncNames() {
		f := w.Funcs[name]
		if w.vendoredFunc(f) {
			continue
		}
		if f.Decl.Body == nil {
			continue
		}
		info := f.Pkg.TypesInfo
		tf, fname := w.fileOf(f.Decl.Pos())
		src := readSource(fname, overlay)
		text := func(n ast.Node) string { return string(src[tf.Offset(n.Pos()):tf.Offset(n.End())]) }
		n := 0
		var visit func(list []ast.Stmt, blk *ast.BlockStmt, nested bool)
		visit = func(list []ast.Stmt, blk *ast.BlockStmt, nested bool) {
			for i := 0; i+1 < len(list); i++ {
				as, ok := list[i].(*ast.AssignStmt)
				if !ok || as.Tok != token.DEFINE || len(as.Lhs) != 1 || len(as.Rhs) != 1 {
					continue
				}
				iv, ok := as.Lhs[0].(*ast.Ident)
				if !ok || info.Defs[iv] == nil {
					continue
				}
				obj := info.Defs[iv]
				fs, ok := list[i+1].(*ast.ForStmt)
				if !ok || fs.Init != nil || fs.Post != nil || fs.Cond == nil || len(fs.Body.List) == 0 || !mentions(info, fs.Cond, obj) {
					continue
				}
				last := fs.Body.List[len(fs.Body.List)-1]
				isStep := false
				switch s := last.(type) {
				case *ast.IncDecStmt:
					if id, ok := ast.Unparen(s.X).(*ast.Ident); ok && info.Uses[id] == obj {
						isStep = true
					}
				case *ast.AssignStmt:
					if len(s.Lhs) == 1 && s.Tok != token.DEFINE {
						if id, ok := ast.Unparen(s.Lhs[0]).(*ast.Ident); ok && info.Uses[id] == obj {
							isStep = true
						}
					}
				}
				if !isStep {
					continue
				}
				bad := false
				ast.Inspect(fs.Body, func(y ast.Node) bool {
					switch z := y.(type) {
					case *ast.ForStmt, *ast.RangeStmt:
						if y != ast.Node(fs) {
							// a continue inside a nested loop belongs to that loop unless labelled
							ast.Inspect(z, func(q ast.Node) bool {
								if b, ok := q.(*ast.BranchStmt); ok && b.Label != nil {
									bad = true
								}
								return true
							})
							return false
						}
					case *ast.FuncLit:
						if mentions(info, z, obj) {
							bad = true // the literal would capture a different variable
						}
						return false
					case *ast.BranchStmt:
						if z.Tok == token.CONTINUE || z.Label != nil {
							bad = true
						}
					}
					return true
				})
				for _, later := range list[i+2:] {
					if mentions(info, later, obj) {
						bad = true
					}
				}
				if bad {
					continue
				}
				body := string(src[tf.Offset(fs.Body.Lbrace)+1 : tf.Offset(last.Pos())])
				loop := "for " + text(as) + "; " + text(fs.Cond) + "; " + text(last) + " {" + body + "}"
				if nested && len(list) == 2 && blk != nil {
					edits[fname] = append(edits[fname], textEdit{tf.Offset(blk.Pos()), tf.Offset(blk.End()), loop})
				} else {
					edits[fname] = append(edits[fname], textEdit{tf.Offset(as.Pos()), tf.Offset(fs.End()), loop})
				}
				n++
				return
			}
		}
		var stack []ast.Node
		ast.Inspect(f.Decl.Body, func(x ast.Node) bool {
			if x == nil {
				stack = stack[:len(stack)-1]
				return true
			}
			var parent ast.Node
			if len(stack) > 0 {
				parent = stack[len(stack)-1]
			}
			stack = append(stack, x)
			if n > 0 {
				return true
			}
			switch b := x.(type) {
			case *ast.BlockStmt:
				// a block statement standing on its own in a statement list (not the body of anything)
				standalone := false
				switch pp := parent.(type) {
				case *ast.BlockStmt:
					standalone = true
				case *ast.CaseClause:
					standalone = true
					_ = pp
				}
				visit(b.List, b, standalone)
			case *ast.CaseClause:
				visit(b.Body, nil, false)
			}
			return true
		})
		if n > 0 {
			done = append(done, name)
		}
	}
	if len(done) == 0 {
		return nil, nil
	}
	out := applyEdits(w, overlay, edits)
	if out == nil {
		return nil, nil
	}
	return out, done
}

// vendoredFunc: functions of the two vendored library copies are compared with their upstream as written and
// are never respelled.
func (w *World) vendoredFunc(f *Func) bool {
	fn := w.Fset.Position(f.Decl.Pos()).Filename
	return strings.HasSuffix(fn, "go_scanner.go") || strings.HasSuffix(fn, "go_terminal.go")
}

// foldFieldInits: `x := T{}` (or `&T{}`) followed directly by `x.A = a`, `x.B = b`, … (distinct fields, values
// that do not mention x) is the keyed literal `x := T{A: a, B: b}` again; the fields are evaluated in the same
// order either way.
func (w *World) foldFieldInits(overlay map[string][]byte) (map[string][]byte, []string) {
	edits := map[string][]textEdit{}
	var done []string
	for _, name := range w.SortedFuncNames() {
		f := w.Funcs[name]
		if w.vendoredFunc(f) || f.Decl.Body == nil {
			continue
		}
		info := f.Pkg.TypesInfo
		tf, fname := w.fileOf(f.Decl.Pos())
		src := readSource(fname, overlay)
		text := func(n ast.Node) string { return string(src[tf.Offset(n.Pos()):tf.Offset(n.End())]) }
		n := 0
		visit := func(list []ast.Stmt) {
			for i := 0; i+1 < len(list); i++ {
				as, ok := list[i].(*ast.AssignStmt)
				if !ok || as.Tok != token.DEFINE || len(as.Lhs) != 1 || len(as.Rhs) != 1 {
					continue
				}
				id, ok := as.Lhs[0].(*ast.Ident)
				if !ok || info.Defs[id] == nil {
					continue
				}
				obj := info.Defs[id]
				e := ast.Unparen(as.Rhs[0])
				if u, ok := e.(*ast.UnaryExpr); ok && u.Op == token.AND {
					e = ast.Unparen(u.X)
				}
				lit, ok := e.(*ast.CompositeLit)
				if !ok || len(lit.Elts) != 0 || lit.Type == nil {
					continue
				}
				if _, isStruct := info.TypeOf(lit).Underlying().(*types.Struct); !isStruct {
					continue
				}
				var kvs []string
				seen := map[string]bool{}
				j := i + 1
				for ; j < len(list); j++ {
					fa, ok := list[j].(*ast.AssignStmt)
					if !ok || fa.Tok != token.ASSIGN || len(fa.Lhs) != 1 || len(fa.Rhs) != 1 {
						break
					}
					sel, ok := fa.Lhs[0].(*ast.SelectorExpr)
					if !ok {
						break
					}
					base, ok := sel.X.(*ast.Ident)
					if !ok || info.Uses[base] != obj || seen[sel.Sel.Name] || mentions(info, fa.Rhs[0], obj) {
						break
					}
					if s := info.Selections[sel]; s == nil || len(s.Index()) != 1 {
						break // a promoted field is not a key of the literal
					}
					seen[sel.Sel.Name] = true
					kvs = append(kvs, sel.Sel.Name+": "+text(fa.Rhs[0]))
				}
				if len(kvs) == 0 {
					continue
				}
				edits[fname] = append(edits[fname],
					textEdit{tf.Offset(lit.Lbrace), tf.Offset(lit.Rbrace) + 1, "{" + strings.Join(kvs, ", ") + "}"},
					textEdit{tf.Offset(list[i+1].Pos()), tf.Offset(list[j-1].End()), ""})
				n++
				i = j - 1
			}
		}
		ast.Inspect(f.Decl.Body, func(x ast.Node) bool {
			switch b := x.(type) {
			case *ast.BlockStmt:
				visit(b.List)
			case *ast.CaseClause:
				visit(b.Body)
			case *ast.CommClause:
				visit(b.Body)
			}
			return true
		})
		if n > 0 {
			done = append(done, name)
		}
	}
	if len(done) == 0 {
		return nil, nil
	}
	out := applyEdits(w, overlay, edits)
	if out == nil {
		return nil, nil
	}
	return out, done
}

// litRunsInBracketHelper: the literal is the function argument of a call to a bracket helper.
func (w *World) litRunsInBracketHelper(f *Func, lit *ast.FuncLit) bool {
	found := false
	ast.Inspect(f.Decl.Body, func(x ast.Node) bool {
		call, ok := x.(*ast.CallExpr)
		if !ok || found {
			return !found
		}
		for _, a := range call.Args {
			if ast.Unparen(a) != ast.Expr(lit) {
				continue
			}
			callee := w.FuncOf(f.Callee(call))
			if callee == nil {
				continue
			}
			h := w.bracketHelperOf(callee)
			if h == nil {
				continue
			}
			// the literal must be the argument bound to the helper's function parameter
			k := 0
			for _, fl := range callee.Decl.Type.Params.List {
				for _, nm := range fl.Names {
					if k < len(call.Args) && ast.Unparen(call.Args[k]) == ast.Expr(lit) && callee.ObjOf(nm) == h.fnParam {
						found = true
					}
					k++
				}
			}
		}
		return !found
	})
	return found
}

// restoreTailIndexLoops: `for _, v := range S[lo:] { B }` in a function whose pinned version does not range over
// that sub-slice is the index loop `for i := lo; i < len(S); i++ { v := S[i]; B }` (S and v not assigned in B):
// the rules know the tail of a sequence as an index range.
func (w *World) restoreTailIndexLoops(overlay map[string][]byte) (map[string][]byte, []string) {
	edits := map[string][]textEdit{}
	var done []string
	for _, name := range w.SortedFuncNames() {
		f := w.Funcs[name]
		if _, pinned := pinnedFuncs[name]; !pinned || f.Decl.Body == nil || w.vendoredFunc(f) {
			continue
		}
		pinnedR := map[string]bool{}
		for _, r := range strings.Split(pinnedRanges[name], " | ") {
			pinnedR[r] = true
		}
		info := f.Pkg.TypesInfo
		tf, fname := w.fileOf(f.Decl.Pos())
		src := readSource(fname, overlay)
		text := func(n ast.Node) string { return string(src[tf.Offset(n.Pos()):tf.Offset(n.End())]) }
		taken := w.takenNames(f)
		n := 0
		ast.Inspect(f.Decl.Body, func(x ast.Node) bool {
			rs, ok := x.(*ast.RangeStmt)
			if !ok || rs.Tok != token.DEFINE || rs.Value == nil || n > 0 {
				return true
			}
			if k, ok := rs.Key.(*ast.Ident); !ok || k.Name != "_" {
				return true
			}
			v, ok := rs.Value.(*ast.Ident)
			if !ok || v.Name == "_" {
				return true
			}
			se, ok := ast.Unparen(rs.X).(*ast.SliceExpr)
			if !ok || se.Low == nil || se.High != nil || se.Max != nil || pinnedR[exprKey(rs.X)] || !pureExpr(se.X) || !w.pureExpr(f, se.Low) {
				return true
			}
			if _, isSlice := info.TypeOf(se.X).Underlying().(*types.Slice); !isSlice {
				return true
			}
			bad := false
			vobj := info.Defs[v]
			ast.Inspect(rs.Body, func(y ast.Node) bool {
				switch z := y.(type) {
				case *ast.AssignStmt:
					for _, l := range z.Lhs {
						if exprKey(l) == exprKey(se.X) {
							bad = true
						}
						if id, ok := ast.Unparen(l).(*ast.Ident); ok && info.ObjectOf(id) == vobj {
							bad = true
						}
					}
				case *ast.UnaryExpr:
					if z.Op == token.AND {
						if id, ok := ast.Unparen(z.X).(*ast.Ident); ok && info.ObjectOf(id) == vobj {
							bad = true
						}
					}
				case *ast.FuncLit:
					if mentions(info, z, vobj) {
						bad = true
					}
				}
				return true
			})
			if bad {
				return true
			}
			idx := "i"
			for k := 0; taken[idx]; k++ {
				idx = "i" + strconv.Itoa(k)
			}
			taken[idx] = true
			s := text(se.X)
			hdr := "for " + idx + " := " + text(se.Low) + "; " + idx + " < len(" + s + "); " + idx + "++ {\n" + v.Name + " := " + s + "[" + idx + "]\n"
			edits[fname] = append(edits[fname], textEdit{tf.Offset(rs.Pos()), tf.Offset(rs.Body.Lbrace) + 1, hdr})
			n++
			return true
		})
		if n > 0 {
			done = append(done, name)
		}
	}
	if len(done) == 0 {
		return nil, nil
	}
	out := applyEdits(w, overlay, edits)
	if out == nil {
		return nil, nil
	}
	return out, done
}
