package main

import (
	"go/ast"
	"go/token"
	"go/types"
	"strings"

	"golang.org/x/tools/go/cfg"
)

func init() {
	register(&Property{
		ID:    "C18",
		Run:   runC18,
		Floor: 40,
		Assumptions: []string{
			"statements reach the engine through Session.ExecQuery; direct callers of Evaluate* build statements with the parser's invariants",
			"T6 enforces a discipline slightly stronger than 'cannot panic': an unchecked assertion that is safe for a reason neither the type-set inference nor a reviewed exception (with its re-checked side condition) covers is reported",
			"the data file is not corrupted behind the engine's back (fetch's kind-byte panic, decode errors)",
		},
		NotDecided: "bounds of variable indices into row values (except the join padding width); termination of the page-chain loops (scanRight/scanLeft/findCell follow links whose acyclicity is C11's subject); memory exhaustion.",
	})
}

type exception struct {
	fn     string // function name (Func.Name)
	match  string // substring of the construct key
	reason string
	check  func(c *Ctx) (bool, string) // re-checked side condition
}

func c18Exceptions() []exception {
	always := func(*Ctx) (bool, string) { return true, "" }
	return []exception{
		{"engine.aggregateRows", "].(int64)", "aggregate accumulators: projectColumns seeds every COUNT/AVG column of every row with an int64 and aggregateRows stores int64 back", sideAccumulators},
		{"engine.EvaluateInsert", "QueryExpression.(sql.TableValueConstructor)", "the parser's Insert production and csvimport store a TableValueConstructor before the statement can be evaluated", sideInsertSource},
		{"engine.projectColumns", "[0]", "Parser.SelectList never returns an empty list on success", sideSelectListNonEmpty},
		{"engine.EvaluateCreateTable", "panic", "every table element the parser appends has one of the four column types assigned", sideColumnTypeAssigned},
		{"engine.sortColumns", "panic", "row values are produced by Tuple.Decode (int64, string, bool) or are absent/NULL (handled by the nil arm)", sideRowValueTypes},
		{"storage.", ".Value.(*cacheEntry)", "every element pushed on the LRU list holds a *cacheEntry", sideLRUElements},
		{"storage.(*FieldDef).Validate", ".(int64)", "dominated by the reflect.Kind test of the same arm", sideValidateKind},
		{"storage.(*Tuple).Encode", ".(", "the value passed Validate for this column type (C08.1) and Validate's arm demands the asserted kind (C08.2)", sideEncodeValidated},
		{"storage.(*RelationService).getRelationFileOffset", ".Vals[", "catalog row decoded with the fixed sys_pages schema, whose writers fill every column", sideCatalogSchemas},
		{"storage.(*RelationService).getRelationSchema", ".Vals[", "catalog row decoded with the fixed sys_schema schema, whose writers fill every column", sideCatalogSchemas},
		{"storage.(*BTree).scanRight", ".offsets[0]", "an internal node always holds at least one cell: a new root is created with one, and an internal split keeps floor(n/2) >= 1 and moves n-floor(n/2)-1 >= 1 cells for n = maxInternalNodeCells >= 3", sideInternalNonEmpty},
		{"storage.(*btreeNode).split", ".offsets[0]", "a leaf is split only when it is full (C11.2), so the moved upper half [mid,len) is non-empty for maxLeafNodeCells >= 2", sideLeafSplitNonEmpty},
		{"storage.(*FieldDef).Validate", "panic", "the switch covers every column type (C19.1); type codes in the catalog are written from validated CREATE TABLE statements", sideEnumTotal},
		{"storage.(*Tuple).Decode", "panic", "the switch covers every column type (C19.1)", sideEnumTotal},
		{"storage.(*btreeNode).encodeLeaf", "panic", "page-size arithmetic (C12.2) with the occupancy (C11.2) and value-size (C08.3) bounds makes the encoded size exactly pageSize", always},
		{"storage.(*btreeNode).encodeInternal", "panic", "page-size arithmetic (C12.2) with the occupancy bound (C11.2) makes the encoded size exactly pageSize", always},
		{"storage.(*wal).flush", "panic", "io.Writer contract: a nil error implies n == len(p)", always},
		{"storage.(*wal).read", "panic", "io.ReadFull contract: a nil error implies n == len(buf)", always},
		{"storage.(*fileStore).fetch", "panic", "byte 0 of a page written by the encoders is one of the two kind constants (C12.3); an all-zero page reads as InternalNode", always},
	}
}

func runC18(c *Ctx) {
	c18PanicSources(c, "C18.1")
	c18NoService(c, "C18.2")
	c18Locks(c, "C18.3")
	c06Arms(c, "C18.4")
	ruleLookupErrors(c, "C18.5")
	ruleMutatorAtomic(c, "C18.6")
	ruleNoSelfFormat(c, "C18.7", "engine", "storage", "sql")
	ruleFilledByIndex(c, "C18.8", "storage.ShowDB")
	ruleNoArithmeticOnStatementInts(c, "C18.9")
	ruleReflectNil(c, "C18.10", "engine", "storage")
	ruleSessionStateMovesTogether(c, "C18.11")
	ruleCatalogNotATarget(c, "C18.12")
	c17Use(c, "C18.13")
}

func c18PanicSources(c *Ctx, rule string) {
	c.Rule(rule, "every panic source in engine and storage reachable from Session.ExecQuery is discharged: type assertions are checked (comma-ok / type switch), or proven by type-set inference (every store to the asserted field / every return of the producing function yields exactly that type; nil excluded by a dominating != nil test), or covered by a reviewed exception whose side condition is re-checked on every run; explicit panics are unreachable by the same arguments; constant indexes are dominated by a length guard")
	w := c.W
	entry := c.NeedFunc(rule, "engine.(*Session).ExecQuery")
	if entry == nil {
		return
	}
	cone := w.CG().Reach(entry)
	ts := w.TypeSets()
	exc := c18Exceptions()
	excResult := map[string]struct {
		ok  bool
		why string
	}{}
	lookupExc := func(f *Func, key string) (*exception, bool, string) {
		for i := range exc {
			x := &exc[i]
			if strings.HasPrefix(f.Name, x.fn) && strings.Contains(key, x.match) {
				id := x.fn + "|" + x.match
				r, done := excResult[id]
				if !done {
					ok, why := x.check(c)
					r = struct {
						ok  bool
						why string
					}{ok, why}
					excResult[id] = r
				}
				return x, r.ok, r.why
			}
		}
		return nil, false, ""
	}
	n := 0
	for _, f := range sortedFuncs(cone) {
		if f.Pkg != w.Pkgs["engine"] && f.Pkg != w.Pkgs["storage"] {
			continue
		}
		g := f.Graph()
		parent := map[ast.Node]ast.Node{}
		var stack []ast.Node
		ast.Inspect(f.Decl.Body, func(x ast.Node) bool {
			if x == nil {
				stack = stack[:len(stack)-1]
				return false
			}
			if len(stack) > 0 {
				parent[x] = stack[len(stack)-1]
			}
			stack = append(stack, x)
			return true
		})
		ast.Inspect(f.Decl.Body, func(x ast.Node) bool {
			switch y := x.(type) {
			case *ast.TypeAssertExpr:
				if y.Type == nil {
					return true
				}
				key := f.Name + "|assert|" + exprKey(y.X) + ".(" + exprKey(y.Type) + ")"
				commaOK := false
				switch p := parent[y].(type) {
				case *ast.AssignStmt:
					commaOK = len(p.Lhs) == 2 && len(p.Rhs) == 1 && p.Rhs[0] == ast.Expr(y)
				case *ast.ValueSpec:
					commaOK = len(p.Names) == 2 && len(p.Values) == 1
				}
				n++
				if commaOK {
					c.OK(rule, key, y.Pos(), 1, "checked (comma-ok) assertion")
					return true
				}
				want := typeName(f.TypeOf(y.Type))
				if inMatchingTypeSwitchArm(f, y) {
					c.OK(rule, key, y.Pos(), 1, "inside the arm of a type switch over the same operand for the same type")
					return true
				}
				set := ts.Of(f, y.X, 0)
				if flt, ok := filteredBefore(f, y, parent); ok && (set.Top || len(flt.Types) < len(set.Types)) {
					set = flt
				}
				if nilGuarded(f, y) || nilReturnedBefore(f, y, parent) {
					set = set.without("nil")
				}
				if !set.Top && len(set.Types) == 1 && set.Types[want] {
					c.OK(rule, key, y.Pos(), 2, "type set of the operand is %s", set)
					return true
				}
				if x, ok, why := lookupExc(f, key); x != nil {
					if ok {
						c.OK(rule, key, y.Pos(), 2, "reviewed exception: %s (side condition re-checked)", x.reason)
					} else {
						excBroken(c, rule, key, y.Pos(), "unchecked assertion", x.reason, why)
					}
					return true
				}
				witness := "a value of unknown type"
				if !set.Top {
					for k := range set.Types {
						if k != want {
							witness = k
						}
					}
				}
				c.Fail(rule, key, y.Pos(), "unchecked type assertion to %s on a value that can hold %s (witness: %s): a statement that puts such a value here crashes the engine", want, set, witness)
			case *ast.CallExpr:
				id, ok := y.Fun.(*ast.Ident)
				if !ok || id.Name != "panic" {
					return true
				}
				if _, isB := f.Pkg.TypesInfo.Uses[id].(*types.Builtin); !isB {
					return true
				}
				n++
				key := f.Name + "|panic|" + firstStringArg(f, y)
				// unreachable: dominated by the !ok edge of a checked assertion proven by type sets
				if loc, okL := g.Locate(y); okL && panicBehindProvenAssertion(f, g, ts, loc) {
					c.OK(rule, key, y.Pos(), 2, "unreachable: guarded by the failure edge of an assertion whose operand's type set proves it always succeeds")
					return true
				}
				if x, ok, why := lookupExc(f, key); x != nil {
					if ok {
						c.OK(rule, key, y.Pos(), 2, "reviewed exception: %s (side condition re-checked)", x.reason)
					} else {
						excBroken(c, rule, key, y.Pos(), "explicit panic", x.reason, why)
					}
					return true
				}
				if bad, why := newPanicVerdict(f, y); bad {
					c.Fail(rule, key, y.Pos(), "explicit panic reachable from statement execution: %s", why)
				} else {
					c.Undecided(rule, key, "a new explicit panic at %s that no reviewed argument covers: %s", w.Pos(y.Pos()), why)
				}
			case *ast.IndexExpr:
				cv := f.constOf(y.Index)
				if cv == nil {
					return true
				}
				if _, isSlice := f.TypeOf(y.X).Underlying().(*types.Slice); !isSlice {
					return true
				}
				n++
				key := f.Name + "|index|" + exprKey(y)
				if id, isId := ast.Unparen(y.X).(*ast.Ident); isId {
					made := false
					for _, as := range f.assignsTo(f.Decl.Body, f.ObjOf(id)) {
						if len(as.Rhs) == 1 {
							if mk, isMk := ast.Unparen(as.Rhs[0]).(*ast.CallExpr); isMk && len(mk.Args) >= 2 {
								if fid, isF := mk.Fun.(*ast.Ident); isF && fid.Name == "make" {
									// the length is a constant, or a constant plus lengths (header + len(payload))
									if a, ok1 := minLenOf(f, mk.Args[1]); ok1 {
										if b, ok2 := constantInt(cv); ok2 && b < a {
											made = true
										}
									}
								}
							}
						}
					}
					if made && len(f.assignsTo(f.Decl.Body, f.ObjOf(id))) == 1 {
						c.OK(rule, key, y.Pos(), 1, "constant index below the constant length the slice was made with")
						return true
					}
				}
				if loc, ok := g.Locate(y); ok && dominatedByReturnGuard(f, g, loc, func(cond ast.Expr) bool {
					s := exprKey(cond)
					return strings.HasPrefix(s, "len("+exprKey(y.X)+")==0") || strings.HasPrefix(s, "len("+exprKey(y.X)+")<")
				}) {
					c.OK(rule, key, y.Pos(), 1, "dominated by a length guard")
					return true
				}
				if x, ok, why := lookupExc(f, key); x != nil {
					if ok {
						c.OK(rule, key, y.Pos(), 2, "reviewed exception: %s (side condition re-checked)", x.reason)
					} else {
						excBroken(c, rule, key, y.Pos(), "constant index", x.reason, why)
					}
					return true
				}
				c.Fail(rule, key, y.Pos(), "constant index into a slice without a dominating length guard")
			}
			return true
		})
	}
	if n < 30 {
		c.Undecided(rule, "subjects", "only %d panic sources enumerated in the ExecQuery cone", n)
	}
}

func firstStringArg(f *Func, call *ast.CallExpr) string {
	s := ""
	ast.Inspect(call, func(x ast.Node) bool {
		if bl, ok := x.(*ast.BasicLit); ok && bl.Kind == token.STRING && s == "" {
			s = bl.Value
		}
		return true
	})
	if len(s) > 40 {
		s = s[:40]
	}
	return s
}

// nilGuarded: the assertion sits in the body of `if <operand> != nil`.
func nilGuarded(f *Func, ta *ast.TypeAssertExpr) bool {
	want := exprKey(ta.X) + "!=nil"
	ok := false
	ast.Inspect(f.Decl.Body, func(x ast.Node) bool {
		if ifs, isIf := x.(*ast.IfStmt); isIf && exprKey(ifs.Cond) == want && ifs.Body.Pos() <= ta.Pos() && ta.End() <= ifs.Body.End() {
			ok = true
		}
		return true
	})
	return ok
}

func panicBehindProvenAssertion(f *Func, g *Graph, ts *tsEngine, loc Loc) bool {
	found := false
	inspectBody(f.Decl.Body, func(x ast.Node) bool {
		ifs, ok := x.(*ast.IfStmt)
		if !ok || !strings.HasPrefix(exprKey(ifs.Cond), "!") || !(ifs.Body.Pos() <= g.Node(loc).Pos() && g.Node(loc).End() <= ifs.Body.End()) {
			return true
		}
		// the nearest preceding `v, ok := X.(T)`
		var best *ast.AssignStmt
		ast.Inspect(f.Decl.Body, func(y ast.Node) bool {
			if as, isAs := y.(*ast.AssignStmt); isAs && as.End() <= ifs.Pos() && len(as.Lhs) == 2 && len(as.Rhs) == 1 && "!"+exprKey(as.Lhs[1]) == exprKey(ifs.Cond) {
				if best == nil || as.Pos() > best.Pos() {
					best = as
				}
			}
			return true
		})
		if best != nil {
			if ta, isTA := ast.Unparen(best.Rhs[0]).(*ast.TypeAssertExpr); isTA && ta.Type != nil {
				set := ts.Of(f, ta.X, 0)
				if !set.Top && len(set.Types) == 1 && set.Types[typeName(f.TypeOf(ta.Type))] {
					found = true
				}
			}
		}
		return true
	})
	return found
}

// ---- side conditions of the reviewed exceptions -------------------------------------------

func sideAccumulators(c *Ctx) (bool, string) {
	f := c.W.F("engine.projectColumns")
	if f == nil {
		return false, "projectColumns not found"
	}
	okAll := true
	seen := 0
	why := ""
	inspectBody(f.Decl.Body, func(x ast.Node) bool {
		cc, ok := x.(*ast.CaseClause)
		if !ok {
			return true
		}
		isAgg := false
		for _, e := range cc.List {
			if s := exprKey(e); s == "sql.Average" || s == "sql.Count" {
				isAgg = true
			}
		}
		if !isAgg {
			return true
		}
		ast.Inspect(cc, func(y ast.Node) bool {
			if call, ok := y.(*ast.CallExpr); ok {
				if id, ok := call.Fun.(*ast.Ident); ok && id.Name == "append" && len(call.Args) == 2 {
					seen++
					if t := f.TypeOf(call.Args[1]); t == nil || typeName(t) != "int64" {
						okAll = false
						why = "projectColumns seeds an aggregate column with a value of type " + typeName(t)
					}
				}
			}
			return true
		})
		return true
	})
	if seen < 2 {
		return false, "the COUNT/AVG seeding appends were not found in projectColumns"
	}
	af := c.W.F("engine.aggregateRows")
	if af != nil {
		// a select column has one kind: the arms of other aggregates (a MIN/MAX feature) store into their own columns
		otherArm := func(n ast.Node) bool {
			other := false
			inspectBody(af.Decl.Body, func(y ast.Node) bool {
				cc, ok := y.(*ast.CaseClause)
				if !ok || !(cc.Pos() <= n.Pos() && n.End() <= cc.End()) || len(cc.List) == 0 {
					return true
				}
				mine, typed := false, false
				for _, e := range cc.List {
					k := exprKey(e)
					if strings.HasPrefix(k, "sql.") {
						typed = true
					}
					if k == "sql.Average" || k == "sql.Count" {
						mine = true
					}
				}
				if typed && !mine {
					other = true
				}
				return true
			})
			return other
		}
		inspectBody(af.Decl.Body, func(x ast.Node) bool {
			if as, ok := x.(*ast.AssignStmt); ok && len(as.Lhs) == 1 && strings.Contains(exprKey(as.Lhs[0]), ".Vals[") && strings.HasSuffix(exprKey(as.Lhs[0]), "]") && !otherArm(as) {
				if t := af.TypeOf(as.Rhs[0]); t == nil || typeName(t) != "int64" {
					okAll = false
					why = "aggregateRows stores a " + typeName(t) + " into an accumulator column"
				}
			}
			return true
		})
	}
	return okAll, why
}

func sideInsertSource(c *Ctx) (bool, string) {
	f := c.W.F("sql.(*Parser).Insert")
	if f == nil {
		return false, "Parser.Insert not found"
	}
	g := f.Graph()
	var store *ast.AssignStmt
	inspectBody(f.Decl.Body, func(x ast.Node) bool {
		if as, ok := x.(*ast.AssignStmt); ok && len(as.Lhs) == 1 && strings.HasSuffix(exprKey(as.Lhs[0]), ".QueryExpression") {
			if t := f.TypeOf(as.Rhs[0]); t != nil && typeName(t) == "sql.TableValueConstructor" {
				store = as
			}
		}
		return true
	})
	// a production that was re-arranged around a type the rules have never seen is not read by shape
	soft := ""
	if why := c.W.opaque(f); why != "" {
		soft = "UNDECIDED: Parser.Insert " + why + " — "
	}
	if store == nil {
		return false, soft + "Parser.Insert does not store a TableValueConstructor"
	}
	sl, _ := g.Locate(store)
	for _, r := range g.Returns() {
		if !g.ReturnMayBeNil(r) {
			continue
		}
		rl, _ := g.Locate(r)
		if !g.Dominates(sl, rl) {
			return false, soft + "a success return of Parser.Insert is not preceded by the store of the value constructor"
		}
	}
	if cf := c.W.F("csvimport.doBatchInsert"); cf != nil {
		for _, l := range cf.FuncLits() {
			ins := cf.Calls(l.Body, false, "engine.EvaluateInsert")
			if len(ins) == 0 {
				continue
			}
			lg := cf.LitGraph(l)
			il, _ := lg.Locate(ins[0])
			okStore := false
			inspectBody(l.Body, func(x ast.Node) bool {
				if as, ok := x.(*ast.AssignStmt); ok && strings.HasSuffix(exprKey(as.Lhs[0]), ".QueryExpression") {
					if al, ok := lg.Locate(as); ok && lg.Dominates(al, il) {
						okStore = true
					}
				}
				return true
			})
			if !okStore {
				return false, "csvimport evaluates an INSERT without having stored its value constructor"
			}
		}
	}
	return true, ""
}

func sideSelectListNonEmpty(c *Ctx) (bool, string) {
	f := c.W.F("sql.(*Parser).SelectList")
	if f == nil {
		return false, "Parser.SelectList not found"
	}
	g := f.Graph()
	bad, _ := g.Forward(nil, g.SuccessEdges, func(n ast.Node, at Loc) Verdict {
		grew := false
		ast.Inspect(n, func(y ast.Node) bool {
			if call, ok := y.(*ast.CallExpr); ok {
				if id, ok := call.Fun.(*ast.Ident); ok && id.Name == "append" {
					grew = true
				}
			}
			return true
		})
		if grew {
			return Cut
		}
		if r, ok := n.(*ast.ReturnStmt); ok {
			if g.ReturnMayBeNil(r) && !failingRequireMatch(f, r) {
				return Hit
			}
			return Cut
		}
		return Go
	}, nil)
	if bad {
		return false, "Parser.SelectList can return an empty list successfully"
	}
	return true, ""
}

func sideColumnTypeAssigned(c *Ctx) (bool, string) {
	f := c.W.F("sql.(*Parser).TableElements")
	if f == nil {
		return false, "Parser.TableElements not found"
	}
	ts := c.W.TypeSets()
	// field set
	var fld *types.Var
	if obj, ok := c.W.Pkgs["sql"].Types.Scope().Lookup("ColumnDefinition").(*types.TypeName); ok {
		st := obj.Type().Underlying().(*types.Struct)
		for i := 0; i < st.NumFields(); i++ {
			if st.Field(i).Name() == "DataType" {
				fld = st.Field(i)
			}
		}
	}
	if fld == nil {
		return false, "ColumnDefinition.DataType not found"
	}
	set := ts.ofField(fld, 0).without("nil")
	// the arms CREATE TABLE has: the case types of the type switch over the column's DataType
	want := map[string]bool{}
	if ct := c.W.F("engine.EvaluateCreateTable"); ct != nil {
		ast.Inspect(ct.Decl.Body, func(x ast.Node) bool {
			ts, ok := x.(*ast.TypeSwitchStmt)
			if !ok {
				return true
			}
			for _, cl := range ts.Body.List {
				cc := cl.(*ast.CaseClause)
				for _, e := range cc.List {
					if t := ct.TypeOf(e); t != nil {
						want[typeName(t)] = true
					}
				}
			}
			return true
		})
	}
	if len(want) == 0 {
		return false, "EvaluateCreateTable has no type switch over the column types"
	}
	if set.Top {
		return false, "ColumnDefinition.DataType can hold anything"
	}
	for k := range set.Types {
		if !want[k] {
			return false, "ColumnDefinition.DataType can hold " + k + ", for which CREATE TABLE has no arm"
		}
	}
	// the append of the element is preceded by an assignment of DataType on every path
	g := f.Graph()
	var app ast.Node
	inspectBody(f.Decl.Body, func(x ast.Node) bool {
		if as, ok := x.(*ast.AssignStmt); ok && len(as.Rhs) == 1 {
			if call, isCall := ast.Unparen(as.Rhs[0]).(*ast.CallExpr); isCall {
				if id, isId := call.Fun.(*ast.Ident); isId && id.Name == "append" {
					app = as
				}
			}
		}
		return true
	})
	if app == nil {
		return false, "the element append was not found"
	}
	al, _ := g.Locate(app)
	var loopBody *cfg.Block
	for _, b := range g.c.Blocks {
		if b.Kind == cfg.KindForBody {
			loopBody = b
		}
	}
	if loopBody == nil {
		return false, "element loop not found"
	}
	start := Loc{loopBody, -1}
	unassigned, _ := g.Forward(&start, nil, func(n ast.Node, at Loc) Verdict {
		if as, ok := n.(*ast.AssignStmt); ok && strings.HasSuffix(exprKey(as.Lhs[0]), ".DataType") {
			return Cut
		}
		// the element built as a literal that names its DataType
		lit := false
		ast.Inspect(n, func(y ast.Node) bool {
			if cl, ok := y.(*ast.CompositeLit); ok && kvField(cl, "DataType") != nil {
				lit = true
			}
			return true
		})
		if lit {
			return Cut
		}
		if at == al {
			return Hit
		}
		return Go
	}, nil)
	if unassigned {
		if hs := writtenOutHelpers(f); len(hs) > 0 || c.W.opaque(f) != "" {
			return false, "UNDECIDED: Parser.TableElements was restructured around helpers the rules have never seen — whether every appended element has its column type is not decided"
		}
		return false, "a table element can be appended without a column type"
	}
	return true, ""
}

func sideRowValueTypes(c *Ctx) (bool, string) {
	f := c.W.F("storage.(*Tuple).Decode")
	if f == nil {
		return false, "Tuple.Decode not found"
	}
	okT := true
	why := ""
	// the values Decode stores into the row's map, by type-set inference over whatever route they take
	ts := c.W.TypeSets()
	stores := 0
	ast.Inspect(f.Decl.Body, func(x ast.Node) bool {
		as, ok := x.(*ast.AssignStmt)
		if !ok || len(as.Lhs) != len(as.Rhs) {
			return true
		}
		for i, l := range as.Lhs {
			ix, ok := ast.Unparen(l).(*ast.IndexExpr)
			if !ok || !strings.HasSuffix(exprKey(ix.X), "Vals") && !strings.HasSuffix(exprKey(ix.X), "vals") {
				continue
			}
			stores++
			set := ts.Of(f, as.Rhs[i], 0)
			if set.Top {
				okT = false
				why = "UNDECIDED: the type of the value Tuple.Decode stores (" + exprKey(as.Rhs[i]) + ") could not be inferred"
				continue
			}
			for k := range set.Types {
				switch k {
				case "int64", "string", "bool", "nil":
				default:
					okT = false
					why = "Tuple.Decode produces a value of type " + k
				}
			}
		}
		return true
	})
	if stores == 0 {
		return false, "UNDECIDED: no store into the row's value map found in Tuple.Decode"
	}
	sf := c.W.F("engine.sortColumns")
	hasNil := false
	if sf != nil {
		ast.Inspect(sf.Decl.Body, func(x ast.Node) bool {
			if cc, ok := x.(*ast.CaseClause); ok {
				for _, e := range cc.List {
					if exprKey(e) == "nil" {
						hasNil = true
					}
				}
			}
			return true
		})
	}
	if !hasNil {
		return false, "the comparator has no arm for NULL"
	}
	return okT, why
}

func sideLRUElements(c *Ctx) (bool, string) {
	w := c.W
	for _, name := range w.SortedFuncNames() {
		f := w.Funcs[name]
		if f.Pkg != w.Pkgs["storage"] {
			continue
		}
		for _, call := range f.Calls(f.Decl.Body, true, "list.List.PushFront", "list.List.PushBack", "list.List.InsertBefore", "list.List.InsertAfter") {
			if t := f.TypeOf(call.Args[0]); t == nil || typeName(t) != "*storage.cacheEntry" {
				return false, f.Name + " puts a " + typeName(f.TypeOf(call.Args[0])) + " on the LRU list"
			}
		}
		bad := ""
		ast.Inspect(f.Decl.Body, func(x ast.Node) bool {
			if as, ok := x.(*ast.AssignStmt); ok {
				for _, l := range as.Lhs {
					if sel, ok := ast.Unparen(l).(*ast.SelectorExpr); ok && sel.Sel.Name == "Value" {
						if t := f.TypeOf(sel.X); t != nil && typeName(t) == "*list.Element" {
							bad = f.Name + " assigns list.Element.Value directly"
						}
					}
				}
			}
			return true
		})
		if bad != "" {
			return false, bad
		}
	}
	return true, ""
}

func sideValidateKind(c *Ctx) (bool, string) {
	f := c.W.F("storage.(*FieldDef).Validate")
	if f == nil {
		return false, "Validate not found"
	}
	g := f.Graph()
	okAll := true
	ast.Inspect(f.Decl.Body, func(x ast.Node) bool {
		ta, ok := x.(*ast.TypeAssertExpr)
		if !ok || ta.Type == nil {
			return true
		}
		loc, _ := g.Locate(ta)
		if !dominatedByReturnGuard(f, g, loc, func(cond ast.Expr) bool {
			s := exprKey(cond)
			return strings.HasPrefix(s, "reflect.TypeOf("+paramName(f, 0)+").Kind()!=reflect.Int64")
		}) {
			okAll = false
		}
		return true
	})
	if !okAll {
		// the kind test may compare with a value looked up in a table (fieldKinds[f.DataType]): which kind the
		// arm of the assertion gets is then a fact about the table, which this side condition does not read
		soft := true
		ast.Inspect(f.Decl.Body, func(x ast.Node) bool {
			ta, ok := x.(*ast.TypeAssertExpr)
			if !ok || ta.Type == nil {
				return true
			}
			loc, _ := g.Locate(ta)
			if !dominatedByReturnGuard(f, g, loc, func(cond ast.Expr) bool {
				be, ok := ast.Unparen(cond).(*ast.BinaryExpr)
				if !ok || be.Op != token.NEQ || !strings.HasPrefix(exprKey(be.X), "reflect.TypeOf("+paramName(f, 0)+").Kind()") {
					return false
				}
				_, isLocal := ast.Unparen(be.Y).(*ast.Ident)
				return isLocal
			}) {
				soft = false
			}
			return true
		})
		if soft {
			return false, "UNDECIDED: the kind test of Validate compares with a value taken from a table — "
		}
		return false, "an assertion in Validate is not dominated by the kind test"
	}
	return true, ""
}

func sideEncodeValidated(c *Ctx) (bool, string) {
	sub := NewCtx("C18", c.W)
	c08ValidateDominates(sub, "x")
	c08IntRange(sub, "y")
	keep := NewCtx("C18", c.W)
	for _, o := range sub.Obs {
		if o.Rule == "x" || strings.Contains(o.Key, "|kind|") {
			keep.Obs = append(keep.Obs, o)
		}
	}
	return subVerdict(keep)
}

func sideCatalogSchemas(c *Ctx) (bool, string) {
	w := c.W
	// schema literals: field name -> DataType constant
	schemas := map[string]map[string]string{}
	for _, file := range w.Pkgs["storage"].Syntax {
		ast.Inspect(file, func(n ast.Node) bool {
			vs, ok := n.(*ast.ValueSpec)
			if !ok || len(vs.Names) != 1 || len(vs.Values) != 1 {
				return true
			}
			name := vs.Names[0].Name
			if name != "pageTableSchema" && name != "schemaTableSchema" {
				return true
			}
			m := map[string]string{}
			ast.Inspect(vs.Values[0], func(y ast.Node) bool {
				if lit, ok := y.(*ast.CompositeLit); ok {
					nm, dt := kvField(lit, "Name"), kvField(lit, "DataType")
					if nm != nil && dt != nil {
						if bl, ok := nm.(*ast.BasicLit); ok {
							m[strings.Trim(bl.Value, `"`)] = exprKey(dt)
						}
					}
				}
				return true
			})
			schemas[name] = m
			return true
		})
	}
	produced := map[string]string{"TypeVarchar": "string", "TypeInt": "int64", "TypeBigInt": "int64", "TypeBoolean": "bool"}
	for _, spec := range []struct{ fn, schema string }{{"storage.(*RelationService).getRelationFileOffset", "pageTableSchema"}, {"storage.(*RelationService).getRelationSchema", "schemaTableSchema"}} {
		f := w.F(spec.fn)
		if f == nil {
			return false, spec.fn + " not found"
		}
		bad := ""
		ast.Inspect(f.Decl.Body, func(x ast.Node) bool {
			ta, ok := x.(*ast.TypeAssertExpr)
			if !ok || ta.Type == nil {
				return true
			}
			ix, ok := ast.Unparen(ta.X).(*ast.IndexExpr)
			if !ok {
				return true
			}
			bl, ok := ix.Index.(*ast.BasicLit)
			if !ok {
				return true
			}
			col := strings.Trim(bl.Value, `"`)
			dt, has := schemas[spec.schema][col]
			if !has {
				bad = "column " + col + " is not in " + spec.schema
			} else if produced[dt] != exprKey(ta.Type) {
				bad = "column " + col + " has type " + dt + " (decoded as " + produced[dt] + ") but is asserted to " + exprKey(ta.Type)
			}
			return true
		})
		if bad != "" {
			return false, bad
		}
		// the tuple is decoded with that schema
		okSchema := false
		for _, lit := range f.compositeLitsIn(f.Decl.Body, "storage", "Tuple") {
			if r := kvField(lit, "Relation"); r != nil && exprKey(r) == "&"+spec.schema {
				okSchema = true
			}
		}
		if !okSchema {
			return false, spec.fn + " does not decode with " + spec.schema
		}
	}
	// writers fill every column
	for _, spec := range []struct{ fn, schema string }{{"storage.(*RelationService).insertPageTable", "pageTableSchema"}, {"storage.(*RelationService).insertSchemaTable", "schemaTableSchema"}} {
		f := w.F(spec.fn)
		if f == nil {
			return false, spec.fn + " not found"
		}
		for _, lit := range f.compositeLitsIn(f.Decl.Body, "storage", "Tuple") {
			vals := kvField(lit, "Vals")
			ml, ok := vals.(*ast.CompositeLit)
			if !ok {
				continue
			}
			have := map[string]bool{}
			for _, el := range ml.Elts {
				if kv, ok := el.(*ast.KeyValueExpr); ok {
					if bl, ok := kv.Key.(*ast.BasicLit); ok {
						have[strings.Trim(bl.Value, `"`)] = true
					}
				}
			}
			for col := range schemas[spec.schema] {
				if !have[col] {
					return false, spec.fn + " writes catalog rows without column " + col + " (it would read back as NULL and fail the assertion)"
				}
			}
		}
	}
	return true, ""
}

func sideEnumTotal(c *Ctx) (bool, string) {
	sub := NewCtx("C18", c.W)
	c19EnumTotality(sub, "x")
	keep := NewCtx("C18", c.W)
	for _, o := range sub.Obs {
		if strings.HasPrefix(o.Key, "storage.") {
			keep.Obs = append(keep.Obs, o)
		}
	}
	return subVerdict(keep)
}

// ---- C18.2 ------------------------------------------------------------------------------------

func c18NoService(c *Ctx, rule string) {
	c.Rule(rule, "no statement runs without a database: every use of the session's RelationService in ExecQuery's statement arms is dominated by the `CurDB == \"\"` return, and CurDB is made non-empty only together with a successfully opened service (C17.2)")
	f := c.NeedFunc(rule, "engine.(*Session).ExecQuery")
	if f == nil {
		return
	}
	g := f.Graph()
	n := 0
	inspectBody(f.Decl.Body, func(x ast.Node) bool {
		call, ok := x.(*ast.CallExpr)
		if !ok {
			return true
		}
		uses := false
		for _, a := range call.Args {
			if exprKey(a) == recvName(f)+".RelationService" {
				uses = true
			}
		}
		if !uses {
			return true
		}
		n++
		key := f.Name + "|uses-service|" + exprKey(call.Fun)
		loc, _ := g.Locate(call)
		ok = dominatedByReturnGuard(f, g, loc, func(cond ast.Expr) bool {
			k := exprKey(cond)
			return k == recvName(f)+`.CurDB==""` || k == "len("+recvName(f)+".CurDB)==0"
		})
		c.Check(ok, rule, key, call.Pos(), "dominated by the no-database return", "the statement is evaluated without the `please select a database` guard: with no USE (or after a failed one) the nil service is dereferenced")
		return true
	})
	if n < 5 {
		c.Undecided(rule, "subjects", "only %d statement arms using the service found", n)
	}
	// coupling with C17.2
	sub := NewCtx("C18", c.W)
	c17Use(sub, "x")
	for _, o := range sub.Obs {
		if strings.Contains(o.Key, "use-stores") {
			o.Rule = rule
			c.Obs = append(c.Obs, o)
		}
	}
}

// ---- C18.3 --------------------------------------------------------------------------------------

func c18Locks(c *Ctx, rule string) {
	c.Robust(rule)
	c.Rule(rule, "no statement can hang on the store lock: every acquisition of the store's RWMutex (directly or through StartTxn/lockShared/lockExclusive) is released on every path to the function's exit (deferred, or explicitly before each return), and no further acquisition of the store lock is reachable from inside a bracket (sync.RWMutex self-deadlocks on a nested exclusive acquisition, and on a nested shared one as soon as the flusher waits for the exclusive lock; the flush CREATE TABLE ends with must run after its bracket is released)")
	w := c.W
	m := w.Locks()
	cg := w.CG()
	// functions that acquire the store lock (either kind): a nested acquisition deadlocks — an
	// exclusive one always, a shared one as soon as the flusher is waiting for the exclusive lock
	// (sync.RWMutex blocks new readers behind a waiting writer)
	excl := map[*Func]bool{}
	for f := range m.acquire {
		excl[f] = true
	}
	for _, name := range w.SortedFuncNames() {
		f := w.Funcs[name]
		ast.Inspect(f.Decl.Body, func(x ast.Node) bool {
			if call, ok := x.(*ast.CallExpr); ok {
				if _, rel, ok := m.primitiveLockCall(f, call); ok && !rel {
					excl[f] = true
				}
			}
			return true
		})
	}
	mayExcl := map[*Func]bool{}
	for f := range excl {
		mayExcl[f] = true
	}
	for changed := true; changed; {
		changed = false
		for _, name := range w.SortedFuncNames() {
			f := w.Funcs[name]
			if mayExcl[f] {
				continue
			}
			for _, cs := range cg.Sites[f] {
				if cs.InGo {
					continue // runs on another goroutine
				}
				for _, t := range cs.Targets {
					if mayExcl[t] {
						mayExcl[f] = true
						changed = true
					}
				}
			}
		}
	}
	n := 0
	for _, name := range w.SortedFuncNames() {
		f := w.Funcs[name]
		if _, isA := m.acquire[f]; isA {
			continue
		}
		if _, isR := m.release[f]; isR {
			continue
		}
		g := f.Graph()
		br := m.BracketsOf(g)
		if len(br.acqs) == 0 {
			continue
		}
		for i, a := range br.acqs {
			n++
			key := f.Name + "|acquire#" + itoa(i+1)
			leaked := false
			for _, u := range br.Unpaired() {
				if u.loc == a.loc {
					leaked = true
				}
			}
			if leaked {
				c.Fail(rule, key, a.call.Pos(), "the store lock acquired here is not released on every path to the function's exit: the next exclusive acquisition (the 100 ms flush, CREATE TABLE's flush, Close) blocks forever")
			} else {
				c.OK(rule, key, a.call.Pos(), 1, "released on every exit")
			}
			// another acquisition inside this bracket?
			key = f.Name + "|no-exclusive-inside#" + itoa(i+1)
			bad := ""
			for _, cs := range cg.Sites[f] {
				if cs.InGo {
					continue
				}
				node := ast.Node(cs.Call)
				if l := outermostLit(f, cs.Call); l != nil {
					node = l
				}
				loc, ok := g.Locate(node)
				if !ok || loc == a.loc {
					continue
				}
				in, _ := br.Inside(loc, a.kind)
				if !in {
					continue
				}
				if _, isLockCall, _ := m.lockCall(f, cs.Call); isLockCall {
					continue // the bracket's own release
				}
				for _, t := range cs.Targets {
					if _, isRel := m.release[t]; isRel {
						continue
					}
					if mayExcl[t] {
						path := cg.PathTo(t, func(x *Func) bool { return excl[x] })
						bad = f.Src(cs.Call.Fun) + " at " + w.Pos(cs.Call.Pos()) + " reaches another acquisition of the store lock (" + strings.Join(path, " -> ") + ") while the lock is held"
					}
				}
			}
			if bad != "" {
				c.Fail(rule, key, a.call.Pos(), "%s: the goroutine deadlocks with itself and the statement never returns", bad)
			} else {
				c.OK(rule, key, a.call.Pos(), len(cg.Sites[f]), "no call inside the bracket can reach an exclusive acquisition")
			}
		}
	}
	if n < 5 {
		c.Undecided(rule, "subjects", "only %d lock acquisitions found", n)
	}
}

// failingRequireMatch: `return x, p.requireMatch(T)` inside `if p.Cur().Type != T`: the match cannot succeed.
func failingRequireMatch(f *Func, r *ast.ReturnStmt) bool {
	if len(r.Results) == 0 {
		return false
	}
	call, ok := ast.Unparen(r.Results[len(r.Results)-1]).(*ast.CallExpr)
	if !ok || !f.CallIs(call, "sql.Parser.requireMatch") || len(call.Args) != 1 {
		return false
	}
	// requireMatch(T) fails where the current token is known not to be T, however that test is written
	g := f.Graph()
	loc, ok := g.Locate(r)
	if !ok {
		return false
	}
	return g.HoldsAt(loc, Rel{recvName(f) + ".Cur().Type", token.NEQ, exprKey(call.Args[0])})
}

func sideInternalNonEmpty(c *Ctx) (bool, string) {
	n, ok := storageConst(c.W, "maxInternalNodeCells")
	if !ok || n < 3 {
		return false, "maxInternalNodeCells < 3: an internal split could leave a node without cells"
	}
	sub := NewCtx("C18", c.W)
	c11NewRoot(sub, "x")
	c11ParentUpdate(sub, "y")
	return subVerdict(sub)
}

func sideLeafSplitNonEmpty(c *Ctx) (bool, string) {
	n, ok := storageConst(c.W, "maxLeafNodeCells")
	if !ok || n < 2 {
		return false, "maxLeafNodeCells < 2: the upper half of a splitting leaf could be empty"
	}
	sub := NewCtx("C18", c.W)
	c11Fullness(sub, "x")
	c11SplitArithmetic(sub, "y")
	return subVerdict(sub)
}

// inMatchingTypeSwitchArm: X.(T) inside `switch X.(type) { case T: ... }` (X a plain variable that is not reassigned in the arm).
func inMatchingTypeSwitchArm(f *Func, ta *ast.TypeAssertExpr) bool {
	ok := false
	ast.Inspect(f.Decl.Body, func(x ast.Node) bool {
		ts, isTS := x.(*ast.TypeSwitchStmt)
		if !isTS {
			return true
		}
		var subj ast.Expr
		switch a := ts.Assign.(type) {
		case *ast.ExprStmt:
			if t, isT := a.X.(*ast.TypeAssertExpr); isT {
				subj = t.X
			}
		}
		if subj == nil || exprKey(subj) != exprKey(ta.X) {
			return true
		}
		if _, isId := ast.Unparen(subj).(*ast.Ident); !isId {
			return true
		}
		for _, s := range ts.Body.List {
			cc := s.(*ast.CaseClause)
			if cc.Pos() <= ta.Pos() && ta.End() <= cc.End() && len(cc.List) == 1 && exprKey(cc.List[0]) == exprKey(ta.Type) {
				ok = true
			}
		}
		return true
	})
	return ok
}

// subVerdict: the side condition of a reviewed exception is a set of obligations decided by other rules.
func subVerdict(sub *Ctx) (bool, string) {
	und := ""
	for _, o := range sub.Obs {
		switch o.Status {
		case Violated:
			return false, o.Detail
		case Undecided:
			if und == "" {
				und = o.Detail
			}
		}
	}
	if und != "" {
		return false, "UNDECIDED: " + und
	}
	return true, ""
}

// excBroken reports an exception whose side condition does not hold — as a violation when a rule says it is broken,
// as undecided when the rules it rests on could not read the code.
func excBroken(c *Ctx, rule, key string, pos token.Pos, kind, reason, why string) {
	if strings.HasPrefix(why, "UNDECIDED: ") {
		c.Undecided(rule, key, "%s at %s rests on a reviewed argument (%s) whose side condition could not be decided: %s", kind, c.W.Pos(pos), reason, strings.TrimPrefix(why, "UNDECIDED: "))
		return
	}
	c.Fail(rule, key, pos, "%s whose reviewed justification no longer holds: %s — %s", kind, reason, why)
}

// minLenOf: a lower bound of an integer expression built from constants, len(…) calls and +.
func minLenOf(f *Func, e ast.Expr) (int64, bool) {
	e = ast.Unparen(f.stripConv(e))
	if cv := f.constOf(e); cv != nil {
		return constantInt(cv)
	}
	switch x := e.(type) {
	case *ast.BinaryExpr:
		if x.Op == token.ADD {
			a, ok1 := minLenOf(f, x.X)
			b, ok2 := minLenOf(f, x.Y)
			return a + b, ok1 && ok2
		}
	case *ast.CallExpr:
		if id, ok := x.Fun.(*ast.Ident); ok && (id.Name == "len" || id.Name == "cap") {
			if _, isB := f.ObjOf(id).(*types.Builtin); isB {
				return 0, true
			}
		}
	}
	return 0, false
}

// earlierSiblings calls fn for every statement that lexically precedes n in a statement list enclosing it
// (an earlier sibling of n or of one of its ancestors), nearest first; such a statement has run to its end
// when n is reached (labels and goto do not occur in mkdb). Lone blocks are looked into.
func earlierSiblings(n ast.Node, parent map[ast.Node]ast.Node, fn func(s ast.Stmt) bool) {
	for cur := n; cur != nil; cur = parent[cur] {
		var list []ast.Stmt
		switch p := parent[cur].(type) {
		case *ast.BlockStmt:
			list = p.List
		case *ast.CaseClause:
			list = p.Body
		case *ast.FuncLit:
			return
		default:
			continue
		}
		idx := -1
		for i, s := range list {
			if ast.Node(s) == cur {
				idx = i
			}
		}
		for i := idx - 1; i >= 0; i-- {
			s := list[i]
			for {
				b, ok := s.(*ast.BlockStmt)
				if !ok || len(b.List) != 1 {
					break
				}
				s = b.List[0]
			}
			if !fn(s) {
				return
			}
		}
	}
}

func endsInReturn(list []ast.Stmt) bool {
	if len(list) == 0 {
		return false
	}
	_, ok := list[len(list)-1].(*ast.ReturnStmt)
	return ok
}

// assignedBetween: is the variable x (an identifier) assigned at a position in [from, to)?
func assignedBetween(f *Func, x ast.Expr, from, to token.Pos) bool {
	id, ok := ast.Unparen(x).(*ast.Ident)
	if !ok {
		return true
	}
	obj := f.ObjOf(id)
	hit := false
	ast.Inspect(f.Decl.Body, func(n ast.Node) bool {
		switch y := n.(type) {
		case *ast.AssignStmt:
			if y.Pos() >= from && y.Pos() < to {
				for _, l := range y.Lhs {
					if li, ok := ast.Unparen(l).(*ast.Ident); ok && f.ObjOf(li) == obj {
						hit = true
					}
				}
			}
		case *ast.UnaryExpr:
			if y.Op == token.AND {
				if li, ok := ast.Unparen(y.X).(*ast.Ident); ok && f.ObjOf(li) == obj {
					hit = true
				}
			}
		case *ast.RangeStmt:
			for _, l := range []ast.Expr{y.Key, y.Value} {
				if li, ok := l.(*ast.Ident); ok && y.Pos() >= from && y.Pos() < to && f.ObjOf(li) == obj {
					hit = true
				}
			}
		}
		return true
	})
	return hit
}

// filteredBefore: the asserted variable went through a type switch earlier on the way (`switch x.(type)` with a
// default that returns): past it, x holds one of the types named by the arms that do not return.
func filteredBefore(f *Func, ta *ast.TypeAssertExpr, parent map[ast.Node]ast.Node) (TS, bool) {
	if _, ok := ast.Unparen(ta.X).(*ast.Ident); !ok {
		return TS{}, false
	}
	var out TS
	found := false
	earlierSiblings(ta, parent, func(s ast.Stmt) bool {
		sw, ok := s.(*ast.TypeSwitchStmt)
		if !ok || sw.Init != nil {
			return true
		}
		var operand ast.Expr
		switch a := sw.Assign.(type) {
		case *ast.ExprStmt:
			if t, ok := ast.Unparen(a.X).(*ast.TypeAssertExpr); ok {
				operand = t.X
			}
		case *ast.AssignStmt:
			if len(a.Rhs) == 1 {
				if t, ok := ast.Unparen(a.Rhs[0]).(*ast.TypeAssertExpr); ok {
					operand = t.X
				}
			}
		}
		if operand == nil || exprKey(ast.Unparen(operand)) != exprKey(ast.Unparen(ta.X)) {
			return true
		}
		if assignedBetween(f, ta.X, sw.Pos(), ta.Pos()) {
			return false
		}
		set := tsOf()
		hasDefault := false
		for _, cl := range sw.Body.List {
			cc := cl.(*ast.CaseClause)
			if cc.List == nil {
				hasDefault = true
				if !endsInReturn(cc.Body) {
					return false
				}
				continue
			}
			if endsInReturn(cc.Body) {
				continue
			}
			for _, e := range cc.List {
				if id, ok := e.(*ast.Ident); ok && id.Name == "nil" {
					set.Types["nil"] = true
					continue
				}
				t := f.TypeOf(e)
				if t == nil || isInterface(t) {
					return false
				}
				set.Types[typeName(t)] = true
			}
		}
		if !hasDefault {
			return false
		}
		out, found = set, true
		return false
	})
	return out, found
}

// nilReturnedBefore: an earlier `if x == nil { … return }` (or `x == nil || …`) on the way excludes nil.
func nilReturnedBefore(f *Func, ta *ast.TypeAssertExpr, parent map[ast.Node]ast.Node) bool {
	if _, ok := ast.Unparen(ta.X).(*ast.Ident); !ok {
		return false
	}
	want := exprKey(ast.Unparen(ta.X)) + "==nil"
	found := false
	earlierSiblings(ta, parent, func(s ast.Stmt) bool {
		ifs, ok := s.(*ast.IfStmt)
		if !ok || ifs.Init != nil || !endsInReturn(ifs.Body.List) {
			return true
		}
		var disj func(e ast.Expr) bool
		disj = func(e ast.Expr) bool {
			e = ast.Unparen(e)
			if exprKey(e) == want {
				return true
			}
			if be, ok := e.(*ast.BinaryExpr); ok && be.Op == token.LOR {
				return disj(be.X) || disj(be.Y)
			}
			return false
		}
		if disj(ifs.Cond) && !assignedBetween(f, ta.X, ifs.Pos(), ta.Pos()) {
			found = true
			return false
		}
		return true
	})
	return found
}
