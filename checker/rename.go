package main

// Rename normalisation (DESIGN.md §2.8). A renamed unexported field, type or function is the same program
// under new spellings. The rules name their anchors by the spellings of the pinned tree, so before analysis
// a rename that can be identified beyond doubt — the pinned name is gone, exactly one new name of the same
// kind, in the same place, with the same type/shape took its place — is undone at source level (in the
// overlay, never in /repo). Anything ambiguous is left alone; the affected functions are then opaque.

import (
	"go/ast"
	"go/types"
	"sort"
	"strings"
)

func typeStr(t types.Type) string {
	return types.TypeString(t, func(p *types.Package) string { return p.Name() })
}

// structFieldsString renders "name type; name type" of a struct type.
func structFieldsString(st *types.Struct) string {
	var parts []string
	for i := 0; i < st.NumFields(); i++ {
		f := st.Field(i)
		parts = append(parts, f.Name()+" "+typeStr(f.Type()))
	}
	return strings.Join(parts, "; ")
}

// typeShape: the underlying type plus the method names, with the type's own name blanked.
func typeShape(tn *types.TypeName) string {
	named, ok := tn.Type().(*types.Named)
	if !ok {
		return typeStr(tn.Type().Underlying())
	}
	var ms []string
	for i := 0; i < named.NumMethods(); i++ {
		ms = append(ms, named.Method(i).Name())
	}
	sort.Strings(ms)
	self := tn.Pkg().Name() + "." + tn.Name()
	u := typeStr(named.Underlying())
	if st, ok := named.Underlying().(*types.Struct); ok {
		// field names may have been renamed along with the type: the shape is the sequence of field types
		var ts []string
		for i := 0; i < st.NumFields(); i++ {
			ts = append(ts, typeStr(st.Field(i).Type()))
		}
		u = "struct{" + strings.Join(ts, "; ") + "}"
	}
	s := u + " | " + strings.Join(ms, ",")
	return strings.ReplaceAll(s, self, "SELF")
}

func (w *World) renameRound(overlay map[string][]byte) (map[string][]byte, []string) {
	if len(pinnedTypeShapes) == 0 {
		return nil, nil
	}
	type ren struct {
		obj types.Object
		to  string
	}
	var rens []ren
	var done []string
	for k, p := range w.Pkgs {
		sc := p.Types.Scope()
		// types
		missingT := map[string][]string{} // shape -> pinned names gone
		for name, shape := range pinnedTypeShapes {
			if !strings.HasPrefix(name, k+".") {
				continue
			}
			if sc.Lookup(strings.TrimPrefix(name, k+".")) == nil {
				missingT[shape] = append(missingT[shape], strings.TrimPrefix(name, k+"."))
			}
		}
		freshT := map[string][]*types.TypeName{}
		for _, n := range sc.Names() {
			tn, ok := sc.Lookup(n).(*types.TypeName)
			if !ok || pinnedTypes[k+"."+n] {
				continue
			}
			freshT[typeShape(tn)] = append(freshT[typeShape(tn)], tn)
		}
		for shape, gone := range missingT {
			if len(gone) == 1 && len(freshT[shape]) == 1 {
				rens = append(rens, ren{freshT[shape][0], gone[0]})
				done = append(done, "type "+k+"."+freshT[shape][0].Name()+" is "+gone[0]+" under a new name")
			}
		}
		// fields
		for _, n := range sc.Names() {
			tn, ok := sc.Lookup(n).(*types.TypeName)
			if !ok {
				continue
			}
			st, ok := tn.Type().Underlying().(*types.Struct)
			if !ok {
				continue
			}
			pinned, ok := pinnedFields[k+"."+n]
			if !ok {
				continue
			}
			want := map[string]string{} // name -> type
			for _, part := range strings.Split(pinned, "; ") {
				if i := strings.Index(part, " "); i > 0 {
					want[part[:i]] = part[i+1:]
				}
			}
			have := map[string]*types.Var{}
			for i := 0; i < st.NumFields(); i++ {
				have[st.Field(i).Name()] = st.Field(i)
			}
			goneByType := map[string][]string{}
			for name, t := range want {
				if have[name] == nil {
					goneByType[t] = append(goneByType[t], name)
				}
			}
			freshByType := map[string][]*types.Var{}
			for name, v := range have {
				if _, ok := want[name]; !ok {
					freshByType[typeStr(v.Type())] = append(freshByType[typeStr(v.Type())], v)
				}
			}
			matched := map[*types.Var]bool{}
			for t, gone := range goneByType {
				if len(gone) == 1 && len(freshByType[t]) == 1 {
					rens = append(rens, ren{freshByType[t][0], gone[0]})
					matched[freshByType[t][0]] = true
					done = append(done, "field "+k+"."+n+"."+freshByType[t][0].Name()+" is "+gone[0]+" under a new name")
				}
			}
			// several fields of one type renamed at once: the position in the struct decides
			parts := strings.Split(pinned, "; ")
			if len(parts) == st.NumFields() {
				for i, part := range parts {
					j := strings.Index(part, " ")
					if j <= 0 {
						continue
					}
					oldName, oldType := part[:j], part[j+1:]
					cur := st.Field(i)
					if cur.Name() != oldName && have[oldName] == nil && typeStr(cur.Type()) == oldType && !matched[cur] {
						if _, stillPinned := want[cur.Name()]; !stillPinned {
							rens = append(rens, ren{cur, oldName})
							matched[cur] = true
							done = append(done, "field "+k+"."+n+"."+cur.Name()+" is "+oldName+" under a new name (same position and type)")
						}
					}
				}
			}
		}
	}
	if len(rens) == 0 {
		return nil, nil
	}
	target := map[types.Object]string{}
	for _, r := range rens {
		target[r.obj] = r.to
	}
	edits := map[string][]textEdit{}
	for _, p := range w.Pkgs {
		add := func(id *ast.Ident, obj types.Object) {
			to, ok := target[obj]
			if !ok {
				return
			}
			tf, fname := w.fileOf(id.Pos())
			if tf == nil {
				return
			}
			edits[fname] = append(edits[fname], textEdit{tf.Offset(id.Pos()), tf.Offset(id.End()), to})
		}
		for id, obj := range p.TypesInfo.Defs {
			if obj != nil {
				add(id, obj)
			}
		}
		for id, obj := range p.TypesInfo.Uses {
			add(id, obj)
		}
	}
	out := map[string][]byte{}
	for k, v := range overlay {
		out[k] = v
	}
	for fname, es := range edits {
		src := readSource(fname, overlay)
		sort.Slice(es, func(i, j int) bool { return es[i].start < es[j].start })
		var b strings.Builder
		last := 0
		for i, e := range es {
			if i > 0 && e.start == es[i-1].start {
				continue // embedded fields are both a Def and a Use
			}
			if e.start < last {
				return nil, nil
			}
			b.Write(src[last:e.start])
			b.WriteString(e.text)
			last = e.end
		}
		b.Write(src[last:])
		out[fname] = []byte(b.String())
	}
	sort.Strings(done)
	return out, done
}
