package main

// Forward substitution of locals the rules have never seen (DESIGN.md §2.8).
// A refactoring often binds a sub-expression to a new local (`midCell :=
// n.internalCells[mid]`, `payload := buf.Bytes()`); the rules compare access
// paths and would lose the connection. A local is substituted into its uses,
// at source level and for analysis only, when
//   - its name is not a local of the pinned version of the function,
//   - it is defined exactly once by `x := e` (single variable) and never assigned again, nor address-taken,
//   - e is free of side effects (selectors, indexing, arithmetic, conversions, type assertions,
//     len/cap, calls of side-effect-free functions), and
//   - nothing e reads is written between the definition and the last use.
// Everything else is left as it is.

import (
	"go/ast"
	"go/token"
	"go/types"
	"sort"
	"strings"
)

func localNames(f *Func) []string {
	set := map[string]bool{}
	info := f.Pkg.TypesInfo
	ast.Inspect(f.Decl, func(x ast.Node) bool {
		if id, ok := x.(*ast.Ident); ok {
			if v, ok := info.Defs[id].(*types.Var); ok && !v.IsField() {
				set[id.Name] = true
			}
		}
		return true
	})
	var out []string
	for n := range set {
		out = append(out, n)
	}
	sort.Strings(out)
	return out
}

var pureLib = map[string]bool{
	"bytes.Buffer.Bytes": true, "bytes.Buffer.Len": true, "bytes.Buffer.String": true,
	"strings.Builder.String": true, "strings.Builder.Len": true,
}

func pureLibCall(k string) bool {
	if pureLib[k] {
		return true
	}
	for _, p := range []string{"strings.", "unicode.", "utf8.", "strconv.", "math.", "filepath.", "bytes.Equal", "bytes.Compare", "fmt.Sprint", "errors.Is", "errors.As"} {
		if strings.HasPrefix(k, p) && strings.Count(k, ".") == 1 {
			return true
		}
	}
	return false
}

// pureFunc: the function has no effect besides computing its results.
func (w *World) pureFunc(f *Func, seen map[*Func]bool) bool {
	if v, ok := w.memo["pure:"+f.Name]; ok {
		return v.(bool)
	}
	if seen[f] {
		return false
	}
	seen[f] = true
	info := f.Pkg.TypesInfo
	isLocal := func(e ast.Expr) bool {
		id, ok := ast.Unparen(e).(*ast.Ident)
		if !ok {
			return false
		}
		if id.Name == "_" {
			return true
		}
		v, ok := info.ObjectOf(id).(*types.Var)
		return ok && v.Pkg() != nil && v.Parent() != v.Pkg().Scope() && !v.IsField()
	}
	pure := true
	ast.Inspect(f.Decl.Body, func(x ast.Node) bool {
		if !pure {
			return false
		}
		switch y := x.(type) {
		case *ast.AssignStmt:
			for _, l := range y.Lhs {
				if !isLocal(l) {
					// element store into a local slice/map built here is still local state, but be strict
					pure = false
				}
			}
		case *ast.IncDecStmt:
			if !isLocal(y.X) {
				pure = false
			}
		case *ast.SendStmt, *ast.GoStmt, *ast.DeferStmt:
			pure = false
		case *ast.UnaryExpr:
			if y.Op == token.ARROW {
				pure = false
			}
		case *ast.CallExpr:
			if tv, ok := info.Types[y.Fun]; ok && tv.IsType() {
				return true
			}
			if id, ok := ast.Unparen(y.Fun).(*ast.Ident); ok {
				if _, isB := info.ObjectOf(id).(*types.Builtin); isB {
					switch id.Name {
					case "len", "cap", "append", "make", "new", "min", "max":
						return true
					}
					pure = false
					return false
				}
			}
			callee := f.Callee(y)
			if callee == nil {
				pure = false
				return false
			}
			if pureLibCall(calleeKey(callee)) {
				return true
			}
			ts := w.resolve(callee)
			if len(ts) == 0 {
				pure = false
				return false
			}
			for _, t := range ts {
				if !w.pureFunc(t, seen) {
					pure = false
				}
			}
		}
		return true
	})
	w.memo["pure:"+f.Name] = pure
	return pure
}

func (w *World) pureExpr(f *Func, e ast.Expr) bool {
	info := f.Pkg.TypesInfo
	ok := true
	ast.Inspect(e, func(x ast.Node) bool {
		if !ok {
			return false
		}
		switch y := x.(type) {
		case *ast.FuncLit:
			ok = false
		case *ast.UnaryExpr:
			if y.Op == token.ARROW || y.Op == token.AND {
				ok = false
			}
		case *ast.CompositeLit:
			ok = false // a fresh object: identity matters
		case *ast.CallExpr:
			if tv, isT := info.Types[y.Fun]; isT && tv.IsType() {
				return true
			}
			if id, isID := ast.Unparen(y.Fun).(*ast.Ident); isID {
				if _, isB := info.ObjectOf(id).(*types.Builtin); isB {
					if id.Name == "len" || id.Name == "cap" || id.Name == "min" || id.Name == "max" {
						return true
					}
					ok = false
					return false
				}
			}
			callee := f.Callee(y)
			if callee == nil {
				ok = false
				return false
			}
			if pureLibCall(calleeKey(callee)) {
				return true
			}
			ts := w.resolve(callee)
			if len(ts) == 0 {
				ok = false
				return false
			}
			for _, t := range ts {
				if !w.pureFunc(t, map[*Func]bool{}) {
					ok = false
				}
			}
		}
		return true
	})
	return ok
}

// normalizeLocals returns source edits that substitute new single-definition locals.
func (w *World) normalizeLocals(overlay map[string][]byte) (map[string][]byte, []string) {
	edits := map[string][]textEdit{}
	var done []string
	for _, name := range w.SortedFuncNames() {
		f := w.Funcs[name]
		pinned, ok := pinnedLocals[name]
		if !ok {
			continue // unknown functions are handled by the helper pass
		}
		known := map[string]bool{}
		for _, n := range strings.Fields(pinned) {
			known[n] = true
		}
		info := f.Pkg.TypesInfo
		tf, fname := w.fileOf(f.Decl.Pos())
		src := readSource(fname, overlay)
		// candidate definitions
		type cand struct {
			obj  types.Object
			as   *ast.AssignStmt
			rhs  ast.Expr
			uses []*ast.Ident
			idx  int
		}
		cands := map[types.Object]*cand{}
		bad := map[types.Object]bool{}
		var stack []ast.Node
		parentOf := map[ast.Node]ast.Node{}
		ast.Inspect(f.Decl.Body, func(x ast.Node) bool {
			if x == nil {
				stack = stack[:len(stack)-1]
				return true
			}
			if len(stack) > 0 {
				parentOf[x] = stack[len(stack)-1]
			}
			stack = append(stack, x)
			return true
		})
		ast.Inspect(f.Decl.Body, func(x ast.Node) bool {
			switch y := x.(type) {
			case *ast.AssignStmt:
				if y.Tok == token.DEFINE && len(y.Lhs) == len(y.Rhs) && isBlockMember(parentOf[y], y) {
					// `x := e`, or one pair of the parallel form `x, y := e1, e2`
					for i, l := range y.Lhs {
						if id, ok := l.(*ast.Ident); ok && id.Name != "_" && !known[id.Name] {
							if obj := info.Defs[id]; obj != nil {
								cands[obj] = &cand{obj: obj, as: y, rhs: y.Rhs[i], idx: i}
							}
						}
					}
				}
				if y.Tok != token.DEFINE {
					for _, l := range y.Lhs {
						if id, ok := ast.Unparen(l).(*ast.Ident); ok {
							bad[info.ObjectOf(id)] = true
						}
					}
				} else {
					for _, l := range y.Lhs {
						if id, ok := l.(*ast.Ident); ok && info.Defs[id] == nil {
							bad[info.ObjectOf(id)] = true // redefinition through a multi-variable :=
						}
					}
				}
			case *ast.IncDecStmt:
				if id, ok := ast.Unparen(y.X).(*ast.Ident); ok {
					bad[info.ObjectOf(id)] = true
				}
			case *ast.UnaryExpr:
				if y.Op == token.AND {
					if id, ok := ast.Unparen(y.X).(*ast.Ident); ok {
						bad[info.ObjectOf(id)] = true
					}
				}
			case *ast.RangeStmt:
				if y.Tok == token.ASSIGN {
					for _, l := range []ast.Expr{y.Key, y.Value} {
						if id, ok := l.(*ast.Ident); ok {
							bad[info.ObjectOf(id)] = true
						}
					}
				}
			}
			return true
		})
		for id, obj := range info.Uses {
			if c := cands[obj]; c != nil && id.Pos() >= f.Decl.Body.Pos() && id.End() <= f.Decl.Body.End() {
				c.uses = append(c.uses, id)
			}
		}
		// `_ = x` (written by the helper pass to keep a binding used) is not a use; it goes when x goes
		dummy := map[types.Object][]*ast.AssignStmt{}
		for _, c := range cands {
			var real []*ast.Ident
			for _, u := range c.uses {
				if as, ok := parentOf[ast.Node(u)].(*ast.AssignStmt); ok && len(as.Lhs) == 1 && len(as.Rhs) == 1 && as.Rhs[0] == ast.Expr(u) {
					if l, ok := as.Lhs[0].(*ast.Ident); ok && l.Name == "_" {
						dummy[c.obj] = append(dummy[c.obj], as)
						continue
					}
				}
				real = append(real, u)
			}
			c.uses = real
		}
		var objs []*cand
		for _, c := range cands {
			objs = append(objs, c)
		}
		sort.Slice(objs, func(i, j int) bool { return objs[i].as.Pos() < objs[j].as.Pos() })
		// pass 0 finds out which candidates could be substituted at all; pass 1 substitutes the first one whose
		// expression mentions no such candidate (a mention of a local that has to stay is no obstacle)
		elig := map[types.Object]bool{}
		for pass := 0; pass < 2; pass++ {
			for _, c := range objs {
				if bad[c.obj] || len(c.uses) == 0 {
					continue
				}
				sroa := map[*ast.Ident]ast.Expr{} // use -> field value, for a struct literal read field by field
				if lit, ok := ast.Unparen(c.rhs).(*ast.CompositeLit); ok {
					if _, isStruct := info.TypeOf(lit).Underlying().(*types.Struct); isStruct {
						vals := map[string]ast.Expr{}
						keyed := true
						for _, e := range lit.Elts {
							kv, isKV := e.(*ast.KeyValueExpr)
							if !isKV {
								keyed = false
								break
							}
							if k, ok := kv.Key.(*ast.Ident); ok {
								vals[k.Name] = kv.Value
							}
						}
						all := keyed && len(lit.Elts) > 0
						for _, u := range c.uses {
							sel, isSel := parentOf[ast.Node(u)].(*ast.SelectorExpr)
							if !isSel || sel.X != ast.Expr(u) || vals[sel.Sel.Name] == nil {
								all = false
								break
							}
							// the field must only be read
							switch pp := parentOf[ast.Node(sel)].(type) {
							case *ast.AssignStmt:
								for _, l := range pp.Lhs {
									if l == ast.Expr(sel) {
										all = false
									}
								}
							case *ast.UnaryExpr:
								if pp.Op == token.AND {
									all = false
								}
							case *ast.IncDecStmt:
								all = false
							}
							sroa[u] = vals[sel.Sel.Name]
						}
						for _, v := range vals {
							if !w.pureExpr(f, v) {
								all = false
							}
						}
						if !all {
							continue
						}
					}
				}
				if len(sroa) > 0 {
					// handled below with the common clobber check: the reads are those of all field values
				} else if lit, ok := ast.Unparen(c.rhs).(*ast.CompositeLit); ok {
					// a literal table used once, as the operand of a range: substituting keeps the single evaluation
					okLit := len(c.uses) == 1
					if okLit {
						rs, isRange := parentOf[ast.Node(c.uses[0])].(*ast.RangeStmt)
						okLit = isRange && ast.Unparen(rs.X) == ast.Expr(c.uses[0])
					}
					for _, e := range lit.Elts {
						if !okLit {
							break
						}
						if kv, isKV := e.(*ast.KeyValueExpr); isKV {
							e = kv.Value
						}
						if u, ok := ast.Unparen(e).(*ast.UnaryExpr); ok && u.Op == token.AND {
							e = u.X
						}
						if !w.pureExpr(f, e) {
							okLit = false
						}
					}
					if !okLit {
						continue
					}
				} else if !w.pureExpr(f, c.rhs) {
					continue
				}
				// a use inside a function literal sees later states: skip
				inLit := false
				for _, u := range c.uses {
					for p := parentOf[ast.Node(u)]; p != nil; p = parentOf[p] {
						if lit, ok := p.(*ast.FuncLit); ok {
							// a literal that contains the definition as well runs them in program order; only the
							// bindings the helper substitution wrote there are taken out again (a local the author
							// wrote inside a closure may be one the rules know under another name)
							if !(lit.Pos() <= c.as.Pos() && c.as.End() <= lit.End()) || !helperBinding(c.obj.Name()) {
								inLit = true
							}
						}
					}
				}
				if inLit {
					continue
				}
				// the RHS must not mention another candidate (keep it simple: one level per pass)
				mentions := false
				reads := map[types.Object]bool{}
				// which first-level fields of each variable the expression reads ("" = the variable as a whole)
				readFields := map[types.Object]map[string]bool{}
				var readPaths []string
				var rstack []ast.Node
				ast.Inspect(c.rhs, func(x ast.Node) bool {
					if x == nil {
						rstack = rstack[:len(rstack)-1]
						return true
					}
					rstack = append(rstack, x)
					if id, ok := x.(*ast.Ident); ok {
						o := info.ObjectOf(id)
						if cands[o] != nil && pass == 1 && elig[o] {
							mentions = true
						}
						if _, isVar := o.(*types.Var); isVar {
							reads[o] = true
							fld := ""
							if len(rstack) >= 2 {
								if sel, ok := rstack[len(rstack)-2].(*ast.SelectorExpr); ok && sel.X == ast.Expr(id) {
									if s := info.Selections[sel]; s != nil && s.Kind() == types.FieldVal {
										fld = sel.Sel.Name
									}
								}
							}
							if readFields[o] == nil {
								readFields[o] = map[string]bool{}
							}
							readFields[o][fld] = true
						}
					}
					return true
				})
				// the first-level field a store through `o.f…` writes ("" = o itself or an element of it)
				storedField := func(e ast.Expr) string {
					var last string
					for {
						switch y := ast.Unparen(e).(type) {
						case *ast.SelectorExpr:
							if s := info.Selections[y]; s != nil && s.Kind() == types.FieldVal {
								last = y.Sel.Name
							} else {
								last = ""
							}
							e = y.X
						case *ast.IndexExpr:
							last = ""
							e = y.X
						case *ast.StarExpr:
							last = ""
							e = y.X
						case *ast.SliceExpr:
							last = ""
							e = y.X
						default:
							return last
						}
					}
				}
				if mentions {
					continue
				}
				_ = readPaths
				sort.Slice(c.uses, func(i, j int) bool { return c.uses[i].Pos() < c.uses[j].Pos() })
				lo, hi := c.as.End(), c.uses[len(c.uses)-1].Pos()
				// extend to the end of any loop that contains a use but not the definition
				for _, u := range c.uses {
					for p := parentOf[ast.Node(u)]; p != nil; p = parentOf[p] {
						switch p.(type) {
						case *ast.ForStmt, *ast.RangeStmt:
							if !(p.Pos() <= c.as.Pos() && c.as.End() <= p.End()) && p.End() > hi {
								hi = p.End()
							}
						}
					}
				}
				// nothing the expression reads is written in (lo, hi): assignments, ++, &x, calls that receive it
				clobber := false
				useStmt := map[ast.Node]bool{}
				for _, u := range c.uses {
					useStmt[u] = true
				}
				rootObj := func(e ast.Expr) types.Object {
					for {
						switch y := ast.Unparen(e).(type) {
						case *ast.Ident:
							return info.ObjectOf(y)
						case *ast.SelectorExpr:
							e = y.X
						case *ast.IndexExpr:
							e = y.X
						case *ast.StarExpr:
							e = y.X
						case *ast.SliceExpr:
							e = y.X
						default:
							return nil
						}
					}
				}
				ast.Inspect(f.Decl.Body, func(x ast.Node) bool {
					if x == nil || clobber {
						return false
					}
					if x.End() <= lo || x.Pos() >= hi {
						if x.Pos() >= hi {
							return false
						}
						return true
					}
					switch y := x.(type) {
					case *ast.AssignStmt:
						if y.Pos() < lo {
							return true
						}
						for _, l := range y.Lhs {
							if o := rootObj(l); o != nil && reads[o] {
								// a store into another field of the same variable does not change what was read
								if sf := storedField(l); sf != "" && !readFields[o][""] && !readFields[o][sf] {
									continue
								}
								// the assignment that is itself the last use reads before it writes
								if !(y.End() >= hi && within(y, c.uses[len(c.uses)-1])) {
									clobber = true
								}
							}
						}
					case *ast.IncDecStmt:
						if o := rootObj(y.X); o != nil && reads[o] && y.Pos() >= lo {
							clobber = true
						}
					case *ast.UnaryExpr:
						if y.Op == token.AND && y.Pos() >= lo {
							if o := rootObj(y.X); o != nil && reads[o] {
								clobber = true
							}
						}
					case *ast.CallExpr:
						if y.Pos() < lo {
							return true
						}
						if tv, ok := info.Types[y.Fun]; ok && tv.IsType() {
							return true
						}
						if within(y, c.uses[len(c.uses)-1]) {
							return true // its operands are evaluated before it runs
						}
						callee := f.Callee(y)
						isPure := false
						if callee != nil {
							if pureLibCall(calleeKey(callee)) {
								isPure = true
							}
							ts := w.resolve(callee)
							if len(ts) > 0 {
								isPure = true
								for _, t := range ts {
									if !w.pureFunc(t, map[*Func]bool{}) {
										isPure = false
									}
								}
							}
						}
						if id, ok := ast.Unparen(y.Fun).(*ast.Ident); ok {
							if _, isB := info.ObjectOf(id).(*types.Builtin); isB && (id.Name == "len" || id.Name == "cap") {
								isPure = true
							}
						}
						if isPure {
							return true
						}
						// an impure call may write anything reachable from its receiver and arguments, and any
						// state reachable from a pointer the expression reads through
						touch := func(e ast.Expr) {
							if o := rootObj(e); o != nil && reads[o] {
								// a call that receives o.g can change what hangs off o.g, not another field of o
								if sf := storedField(e); sf != "" && !readFields[o][""] && !readFields[o][sf] {
									return
								}
								clobber = true
							}
						}
						if sel, ok := ast.Unparen(y.Fun).(*ast.SelectorExpr); ok {
							// a method that only stores into some fields of its receiver changes nothing else
							limited := false
							if o := rootObj(sel.X); o != nil && reads[o] && callee != nil {
								if _, isId := ast.Unparen(sel.X).(*ast.Ident); isId {
									ts := w.resolve(callee)
									if len(ts) > 0 {
										limited = true
										for _, t := range ts {
											fields, ok := w.receiverWrites(t)
											if !ok || readFields[o][""] {
												limited = false
												break
											}
											for fld := range fields {
												if readFields[o][fld] {
													limited = false
												}
											}
										}
									}
								}
							}
							if !limited {
								touch(sel.X)
							}
						}
						for _, a := range y.Args {
							touch(a)
						}
					}
					return true
				})
				if clobber {
					continue
				}
				if pass == 0 {
					elig[c.obj] = true
					continue
				}
				if len(sroa) > 0 {
					for _, u := range c.uses {
						sel := parentOf[ast.Node(u)].(*ast.SelectorExpr)
						v := sroa[u]
						edits[fname] = append(edits[fname], textEdit{tf.Offset(sel.Pos()), tf.Offset(sel.End()), "(" + string(src[tf.Offset(v.Pos()):tf.Offset(v.End())]) + ")"})
					}
					edits[fname] = append(edits[fname], textEdit{tf.Offset(c.as.Pos()), tf.Offset(c.as.End()), dropPair(src, tf, c.as, c.idx, "// struct literal "+c.obj.Name()+" read field by field: substituted for analysis")})
					for _, d := range dummy[c.obj] {
						edits[fname] = append(edits[fname], textEdit{tf.Offset(d.Pos()), tf.Offset(d.End()), ""})
					}
					done = append(done, f.Name+":"+c.obj.Name())
					break
				}
				// substitute
				rhsText := string(src[tf.Offset(c.rhs.Pos()):tf.Offset(c.rhs.End())])
				needParen := true
				switch ast.Unparen(c.rhs).(type) {
				case *ast.Ident, *ast.SelectorExpr, *ast.IndexExpr, *ast.CallExpr, *ast.BasicLit, *ast.TypeAssertExpr, *ast.ParenExpr:
					needParen = false
				}
				if needParen {
					rhsText = "(" + rhsText + ")"
				}
				for _, u := range c.uses {
					edits[fname] = append(edits[fname], textEdit{tf.Offset(u.Pos()), tf.Offset(u.End()), rhsText})
				}
				edits[fname] = append(edits[fname], textEdit{tf.Offset(c.as.Pos()), tf.Offset(c.as.End()), dropPair(src, tf, c.as, c.idx, "// local "+c.obj.Name()+" substituted into its uses for analysis")})
				for _, d := range dummy[c.obj] {
					edits[fname] = append(edits[fname], textEdit{tf.Offset(d.Pos()), tf.Offset(d.End()), ""})
				}
				done = append(done, f.Name+":"+c.obj.Name())
				break // one substitution per function per round keeps edits disjoint
			}
		}
	}
	if len(done) == 0 {
		return nil, nil
	}
	out := map[string][]byte{}
	for k, v := range overlay {
		out[k] = v
	}
	for fname, es := range edits {
		src := readSource(fname, overlay)
		sort.Slice(es, func(i, j int) bool { return es[i].start < es[j].start })
		for i := 1; i < len(es); i++ {
			if es[i].start < es[i-1].end {
				return nil, nil
			}
		}
		var b strings.Builder
		last := 0
		for _, e := range es {
			b.Write(src[last:e.start])
			b.WriteString(e.text)
			last = e.end
		}
		b.Write(src[last:])
		out[fname] = []byte(b.String())
	}
	return out, done
}

// unrollLiteralRanges: `for _, v := range []T{e1, …, en} { B }` (no index variable, no break/continue that
// targets the loop) becomes B[v:=e1]; …; B[v:=en]. Table-driven codecs then read like the copy-pasted
// sequence they replaced.
func (w *World) unrollLiteralRanges(overlay map[string][]byte) (map[string][]byte, []string) {
	edits := map[string][]textEdit{}
	var done []string
	for _, name := range w.SortedFuncNames() {
		f := w.Funcs[name]
		info := f.Pkg.TypesInfo
		tf, fname := w.fileOf(f.Decl.Pos())
		src := readSource(fname, overlay)
		found := false
		ast.Inspect(f.Decl.Body, func(x ast.Node) bool {
			if found {
				return false
			}
			rs, ok := x.(*ast.RangeStmt)
			if !ok || rs.Tok != token.DEFINE {
				return true
			}
			lit, ok := ast.Unparen(rs.X).(*ast.CompositeLit)
			litTF, litSrc, litInfo := tf, src, info
			if !ok {
				// a package-level table that is only ever read: `var joinQualifiers = [...]struct{…}{ {LEFT, LEFT_JOIN}, … }`
				if id, isId := ast.Unparen(rs.X).(*ast.Ident); isId {
					if tl, tinfo := w.readOnlyTable(info.ObjectOf(id)); tl != nil {
						lit, ok = tl, true
						litInfo = tinfo
						var tname string
						litTF, tname = w.fileOf(tl.Pos())
						litSrc = readSource(tname, overlay)
					}
				}
			}
			if !ok || len(lit.Elts) == 0 || len(lit.Elts) > 16 {
				return true
			}
			switch litInfo.TypeOf(lit).Underlying().(type) {
			case *types.Slice, *types.Array:
			default:
				return true
			}
			if k, ok := rs.Key.(*ast.Ident); !ok || k.Name != "_" {
				return true
			}
			vid, ok := rs.Value.(*ast.Ident)
			if !ok || vid.Name == "_" {
				return true
			}
			for _, e := range lit.Elts {
				if _, isKV := e.(*ast.KeyValueExpr); isKV {
					return true
				}
			}
			// a search loop `for _, v := range T { if C(v) { …; break } }` is the chain if C(v1) {…} else if C(v2) {…} …
			searchIf := (*ast.IfStmt)(nil)
			if containsBranch(rs.Body) {
				if len(rs.Body.List) != 1 {
					return true
				}
				ifs, ok := rs.Body.List[0].(*ast.IfStmt)
				if !ok || ifs.Else != nil || ifs.Init != nil || len(ifs.Body.List) == 0 {
					return true
				}
				br, ok := ifs.Body.List[len(ifs.Body.List)-1].(*ast.BranchStmt)
				if !ok || br.Tok != token.BREAK || br.Label != nil {
					return true
				}
				inner := &ast.BlockStmt{List: ifs.Body.List[:len(ifs.Body.List)-1]}
				if containsBranch(inner) {
					return true
				}
				searchIf = ifs
			}
			// the loop variable is only read
			vobj := info.Defs[vid]
			written := false
			ast.Inspect(rs.Body, func(y ast.Node) bool {
				switch z := y.(type) {
				case *ast.AssignStmt:
					for _, l := range z.Lhs {
						if id, ok := ast.Unparen(l).(*ast.Ident); ok && info.ObjectOf(id) == vobj {
							written = true
						}
					}
				case *ast.UnaryExpr:
					if z.Op == token.AND {
						if id, ok := ast.Unparen(z.X).(*ast.Ident); ok && info.ObjectOf(id) == vobj {
							written = true
						}
					}
				case *ast.FuncLit:
					written = true
				}
				return true
			})
			if written {
				return true
			}
			// elements that are struct literals are taken apart: every use of the loop variable must be v.field
			fieldText := func(e ast.Expr, field string) (string, bool) {
				cl, ok := ast.Unparen(e).(*ast.CompositeLit)
				if !ok {
					return "", false
				}
				st, ok := litInfo.TypeOf(cl).Underlying().(*types.Struct)
				if !ok {
					return "", false
				}
				for i, el := range cl.Elts {
					if kv, ok := el.(*ast.KeyValueExpr); ok {
						if k, ok := kv.Key.(*ast.Ident); ok && k.Name == field {
							return "(" + string(litSrc[litTF.Offset(kv.Value.Pos()):litTF.Offset(kv.Value.End())]) + ")", true
						}
						continue
					}
					if i < st.NumFields() && st.Field(i).Name() == field {
						return "(" + string(litSrc[litTF.Offset(el.Pos()):litTF.Offset(el.End())]) + ")", true
					}
				}
				return "", false
			}
			structElems := false
			if len(lit.Elts) > 0 {
				if cl, ok := ast.Unparen(lit.Elts[0]).(*ast.CompositeLit); ok {
					if _, isSt := litInfo.TypeOf(cl).Underlying().(*types.Struct); isSt {
						structElems = true
					}
				}
			}
			var selUses []*ast.SelectorExpr
			if structElems {
				whole := false
				inSel := map[*ast.Ident]bool{}
				ast.Inspect(rs.Body, func(y ast.Node) bool {
					if sel, ok := y.(*ast.SelectorExpr); ok {
						if id, ok := ast.Unparen(sel.X).(*ast.Ident); ok && info.ObjectOf(id) == vobj {
							selUses = append(selUses, sel)
							inSel[id] = true
						}
					}
					return true
				})
				ast.Inspect(rs.Body, func(y ast.Node) bool {
					if id, ok := y.(*ast.Ident); ok && info.ObjectOf(id) == vobj && !inSel[id] {
						whole = true
					}
					return true
				})
				if whole {
					return true
				}
			} else if litTF != tf {
				// elements of a table declared elsewhere are substituted as text: only self-contained expressions
				for _, e := range lit.Elts {
					if !simpleArg(e) {
						return true
					}
				}
			}
			renderFor := func(n ast.Node, e ast.Expr) (string, bool) {
				if !structElems {
					et := "(" + string(litSrc[litTF.Offset(e.Pos()):litTF.Offset(e.End())]) + ")"
					return render(src, tf, info, n, map[types.Object]string{vobj: et}, nil), true
				}
				skip := map[ast.Node]string{}
				for _, sel := range selUses {
					t, ok := fieldText(e, sel.Sel.Name)
					if !ok {
						return "", false
					}
					skip[sel] = t
				}
				return render(src, tf, info, n, nil, skip), true
			}
			var b strings.Builder
			b.WriteString("// range over a literal unrolled for analysis\n")
			failed := false
			for i, e := range lit.Elts {
				if searchIf != nil {
					cond, ok1 := renderFor(searchIf.Cond, e)
					body, ok2 := renderFor(&ast.BlockStmt{Lbrace: searchIf.Body.Lbrace, List: searchIf.Body.List[:len(searchIf.Body.List)-1], Rbrace: searchIf.Body.List[len(searchIf.Body.List)-1].Pos() - 1}, e)
					if !ok1 || !ok2 {
						failed = true
						break
					}
					if i > 0 {
						b.WriteString(" else ")
					}
					b.WriteString("if " + cond + " " + strings.TrimRight(body, " \t\n"))
					if !strings.HasSuffix(strings.TrimRight(body, " \t\n"), "}") {
						b.WriteString("}")
					}
					continue
				}
				t, ok := renderFor(rs.Body, e)
				if !ok {
					failed = true
					break
				}
				b.WriteString(t)
				b.WriteString("\n")
			}
			if failed {
				return true
			}
			b.WriteString("\n")
			edits[fname] = append(edits[fname], textEdit{tf.Offset(rs.Pos()), tf.Offset(rs.End()), b.String()})
			done = append(done, f.Name)
			found = true
			return false
		})
	}
	if len(done) == 0 {
		return nil, nil
	}
	out := map[string][]byte{}
	for k, v := range overlay {
		out[k] = v
	}
	for fname, es := range edits {
		src := readSource(fname, overlay)
		sort.Slice(es, func(i, j int) bool { return es[i].start < es[j].start })
		for i := 1; i < len(es); i++ {
			if es[i].start < es[i-1].end {
				return nil, nil
			}
		}
		var b strings.Builder
		last := 0
		for _, e := range es {
			b.Write(src[last:e.start])
			b.WriteString(e.text)
			last = e.end
		}
		b.Write(src[last:])
		out[fname] = []byte(b.String())
	}
	return out, done
}

// ---- loop forms ------------------------------------------------------------------------------------------

// restoreLoops: two purely syntactic loop rewrites are undone before analysis.
//   - `for i := 0; i < len(S); i++ { x := S[i]; … }` where the pinned version of the function ranged over S
//     becomes `for i, x := range S { … }` again (S and i not assigned in the body);
//   - `for more := true; more; more = E { B }` (B has no continue, `more` is not used in B) becomes the
//     do-while `for { B; if !(E) { break } }` it stands for.
func (w *World) restoreLoops(overlay map[string][]byte) (map[string][]byte, []string) {
	edits := map[string][]textEdit{}
	var done []string
	for _, name := range w.SortedFuncNames() {
		f := w.Funcs[name]
		info := f.Pkg.TypesInfo
		tf, fname := w.fileOf(f.Decl.Pos())
		src := readSource(fname, overlay)
		text := func(n ast.Node) string { return string(src[tf.Offset(n.Pos()):tf.Offset(n.End())]) }
		pinnedR := map[string]bool{}
		for _, r := range strings.Split(pinnedRanges[name], " | ") {
			if r != "" {
				pinnedR[r] = true
			}
		}
		haveRange := map[string]bool{}
		ast.Inspect(f.Decl.Body, func(x ast.Node) bool {
			if rs, ok := x.(*ast.RangeStmt); ok {
				haveRange[exprKey(rs.X)] = true
			}
			return true
		})
		one := false
		ast.Inspect(f.Decl.Body, func(x ast.Node) bool {
			if one {
				return false
			}
			fs, ok := x.(*ast.ForStmt)
			if !ok || fs.Init == nil || fs.Cond == nil || fs.Post == nil {
				return true
			}
			init, ok := fs.Init.(*ast.AssignStmt)
			if !ok || init.Tok != token.DEFINE || len(init.Lhs) != 1 || len(init.Rhs) != 1 {
				return true
			}
			iv, ok := init.Lhs[0].(*ast.Ident)
			if !ok {
				return true
			}
			iobj := info.Defs[iv]
			assignedIn := func(n ast.Node, obj types.Object) bool {
				hit := false
				ast.Inspect(n, func(y ast.Node) bool {
					switch z := y.(type) {
					case *ast.AssignStmt:
						for _, l := range z.Lhs {
							if id, ok := ast.Unparen(l).(*ast.Ident); ok && info.ObjectOf(id) == obj {
								hit = true
							}
						}
					case *ast.IncDecStmt:
						if id, ok := ast.Unparen(z.X).(*ast.Ident); ok && info.ObjectOf(id) == obj {
							hit = true
						}
					case *ast.UnaryExpr:
						if z.Op == token.AND {
							if id, ok := ast.Unparen(z.X).(*ast.Ident); ok && info.ObjectOf(id) == obj {
								hit = true
							}
						}
					}
					return true
				})
				return hit
			}
			usedIn := func(n ast.Node, obj types.Object) int {
				c := 0
				ast.Inspect(n, func(y ast.Node) bool {
					if id, ok := y.(*ast.Ident); ok && info.ObjectOf(id) == obj {
						c++
					}
					return true
				})
				return c
			}
			// (2) flag loop
			if cv := f.constOf(init.Rhs[0]); cv != nil && cv.String() == "true" {
				cid, ok1 := ast.Unparen(fs.Cond).(*ast.Ident)
				post, ok2 := fs.Post.(*ast.AssignStmt)
				if ok1 && ok2 && info.ObjectOf(cid) == iobj && post.Tok == token.ASSIGN && len(post.Lhs) == 1 && len(post.Rhs) == 1 {
					if pid, ok := post.Lhs[0].(*ast.Ident); ok && info.ObjectOf(pid) == iobj && usedIn(fs.Body, iobj) == 0 {
						hasContinue := false
						ast.Inspect(fs.Body, func(y ast.Node) bool {
							switch z := y.(type) {
							case *ast.FuncLit, *ast.ForStmt, *ast.RangeStmt:
								return false
							case *ast.BranchStmt:
								if z.Tok == token.CONTINUE {
									hasContinue = true
								}
							}
							return true
						})
						if !hasContinue {
							body := text(fs.Body)
							body = strings.TrimSuffix(strings.TrimSpace(body), "}")
							edits[fname] = append(edits[fname], textEdit{tf.Offset(fs.Pos()), tf.Offset(fs.End()),
								"for " + body + "\nif !(" + text(post.Rhs[0]) + ") {\nbreak\n}\n}"})
							done = append(done, f.Name+": flag loop written as do-while")
							one = true
							return false
						}
					}
				}
				return true
			}
			// (1) index loop over a slice the pinned function ranged over
			if cv := f.constOf(init.Rhs[0]); cv == nil || cv.String() != "0" {
				return true
			}
			cond, ok := ast.Unparen(fs.Cond).(*ast.BinaryExpr)
			if !ok || cond.Op != token.LSS {
				return true
			}
			if id, ok := ast.Unparen(cond.X).(*ast.Ident); !ok || info.ObjectOf(id) != iobj {
				return true
			}
			lc, ok := ast.Unparen(cond.Y).(*ast.CallExpr)
			if !ok || len(lc.Args) != 1 {
				return true
			}
			if id, ok := lc.Fun.(*ast.Ident); !ok || id.Name != "len" {
				return true
			}
			S := lc.Args[0]
			sk := exprKey(S)
			if !pinnedR[sk] || haveRange[sk] {
				return true
			}
			if inc, ok := fs.Post.(*ast.IncDecStmt); !ok || inc.Tok != token.INC {
				return true
			} else if id, ok := ast.Unparen(inc.X).(*ast.Ident); !ok || info.ObjectOf(id) != iobj {
				return true
			}
			if assignedIn(fs.Body, iobj) {
				return true
			}
			// S itself (a variable) must not be reassigned in the body
			if sid, ok := ast.Unparen(S).(*ast.Ident); ok && assignedIn(fs.Body, info.ObjectOf(sid)) {
				return true
			}
			head := "for " + iv.Name + " := range " + text(S) + " "
			bodyStart := fs.Body.Pos()
			if len(fs.Body.List) > 0 {
				if as, ok := fs.Body.List[0].(*ast.AssignStmt); ok && as.Tok == token.DEFINE && len(as.Lhs) == 1 && len(as.Rhs) == 1 {
					if ix, ok := ast.Unparen(as.Rhs[0]).(*ast.IndexExpr); ok && exprKey(ix.X) == sk {
						if id, ok := ast.Unparen(ix.Index).(*ast.Ident); ok && info.ObjectOf(id) == iobj {
							if xv, ok := as.Lhs[0].(*ast.Ident); ok {
								k := iv.Name
								if usedIn(fs.Body, iobj) == 1 {
									k = "_"
								}
								head = "for " + k + ", " + xv.Name + " := range " + text(S) + " "
								// drop the first statement
								edits[fname] = append(edits[fname], textEdit{tf.Offset(as.Pos()), tf.Offset(as.End()), ""})
							}
						}
					}
				}
			}
			edits[fname] = append(edits[fname], textEdit{tf.Offset(fs.Pos()), tf.Offset(bodyStart), head})
			done = append(done, f.Name+": index loop over "+sk+" written as range again")
			one = true
			return false
		})
	}
	if len(done) == 0 {
		return nil, nil
	}
	out := map[string][]byte{}
	for k, v := range overlay {
		out[k] = v
	}
	for fname, es := range edits {
		src := readSource(fname, overlay)
		sort.Slice(es, func(i, j int) bool { return es[i].start < es[j].start })
		for i := 1; i < len(es); i++ {
			if es[i].start < es[i-1].end {
				return nil, nil
			}
		}
		var b strings.Builder
		last := 0
		for _, e := range es {
			b.Write(src[last:e.start])
			b.WriteString(e.text)
			last = e.end
		}
		b.Write(src[last:])
		out[fname] = []byte(b.String())
	}
	return out, done
}

// dropPair renders the define statement without its idx-th pair (a comment when nothing is left).
func dropPair(src []byte, tf *token.File, as *ast.AssignStmt, idx int, comment string) string {
	if len(as.Lhs) == 1 {
		return comment
	}
	var l, r []string
	for i := range as.Lhs {
		if i == idx {
			continue
		}
		l = append(l, string(src[tf.Offset(as.Lhs[i].Pos()):tf.Offset(as.Lhs[i].End())]))
		r = append(r, string(src[tf.Offset(as.Rhs[i].Pos()):tf.Offset(as.Rhs[i].End())]))
	}
	return strings.Join(l, ", ") + " := " + strings.Join(r, ", ") + " " + comment
}

// helperBinding: a name the helper substitution made up (x_h12).
func helperBinding(name string) bool {
	i := strings.LastIndex(name, "_h")
	if i <= 0 || i+2 >= len(name) {
		return false
	}
	for _, r := range name[i+2:] {
		if r < '0' || r > '9' {
			return false
		}
	}
	return true
}

// readOnlyTable: obj is a package-level variable of the repository that is initialised with a composite literal
// and never assigned, address-taken or indexed on the left of an assignment in non-test code.
func (w *World) readOnlyTable(obj types.Object) (*ast.CompositeLit, *types.Info) {
	v, ok := obj.(*types.Var)
	if !ok || v.Pkg() == nil || v.Parent() != v.Pkg().Scope() || pkgKey(v.Pkg().Path()) == "" {
		return nil, nil
	}
	var lit *ast.CompositeLit
	var linfo *types.Info
	for _, p := range w.Pkgs {
		if p.Types != v.Pkg() {
			continue
		}
		for _, file := range p.Syntax {
			for _, d := range file.Decls {
				gd, ok := d.(*ast.GenDecl)
				if !ok {
					continue
				}
				for _, sp := range gd.Specs {
					vs, ok := sp.(*ast.ValueSpec)
					if !ok {
						continue
					}
					for i, nm := range vs.Names {
						if p.TypesInfo.Defs[nm] == obj && i < len(vs.Values) {
							lit, _ = ast.Unparen(vs.Values[i]).(*ast.CompositeLit)
							linfo = p.TypesInfo
						}
					}
				}
			}
		}
	}
	if lit == nil {
		return nil, nil
	}
	written := false
	for _, f := range w.Funcs {
		ast.Inspect(f.Decl.Body, func(x ast.Node) bool {
			switch y := x.(type) {
			case *ast.AssignStmt:
				for _, l := range y.Lhs {
					root := l
					for {
						switch z := ast.Unparen(root).(type) {
						case *ast.IndexExpr:
							root = z.X
							continue
						case *ast.SelectorExpr:
							root = z.X
							continue
						}
						break
					}
					if id, ok := ast.Unparen(root).(*ast.Ident); ok && f.ObjOf(id) == obj {
						written = true
					}
				}
			case *ast.UnaryExpr:
				if y.Op == token.AND {
					if id, ok := ast.Unparen(y.X).(*ast.Ident); ok && f.ObjOf(id) == obj {
						written = true
					}
				}
			}
			return true
		})
	}
	if written {
		return nil, nil
	}
	return lit, linfo
}
