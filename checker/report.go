package main

import (
	"crypto/sha1"
	"encoding/json"
	"fmt"
	"go/token"
	"os"
	"path/filepath"
	"sort"
	"strings"
)

type Status string

const (
	Discharged Status = "discharged"
	Violated   Status = "violated"
	Undecided  Status = "undecided"
)

// Ob is one obligation: a rule applied to one subject construct.
type Ob struct {
	Rule    string `json:"rule"`
	Key     string `json:"key"` // pkg.Func|construct|operand — never a line number
	Status  Status `json:"status"`
	At      string `json:"at"`       // file:line of the subject
	Detail  string `json:"detail"`   // what discharged it, or the offending path
	Checked int    `json:"examined"` // paths / call sites / table rows examined while deciding
	Known   bool   `json:"known_finding,omitempty"`
}

// Ctx collects the obligations of one property on one loaded world.
type Ctx struct {
	Prop      string
	W         *World
	Obs       []*Ob
	Notes     []string          // advisory, never affects the verdict
	Rules     map[string]string // rule id -> sentence (for evidence.explanation)
	ruleOrder []string
	// robust: rules decided over the call graph (lock brackets, who-may-call, reachability): they follow
	// unknown helpers by construction, so opacity does not weaken their reports
	robust map[string]bool
}

// Robust marks a rule as interprocedural: its violations are reported even in functions that are opaque
// to the shape rules.
func (c *Ctx) Robust(rule string) {
	if c.robust == nil {
		c.robust = map[string]bool{}
	}
	c.robust[rule] = true
}

func NewCtx(prop string, w *World) *Ctx {
	c := &Ctx{Prop: prop, W: w, Rules: map[string]string{}}
	if w != nil {
		for _, h := range w.Inlined {
			c.Notes = append(c.Notes, "helper "+h+" is unknown to the rules: its body was substituted at its call sites before analysis (positions below refer to the substituted source)")
		}
		c.Notes = append(c.Notes, w.Renamed...)
		c.Notes = append(c.Notes, w.InlineNotes...)
	}
	return c
}

func (c *Ctx) Rule(id, text string) {
	if _, ok := c.Rules[id]; !ok {
		c.ruleOrder = append(c.ruleOrder, id)
	}
	c.Rules[id] = text
}

func (c *Ctx) add(rule, key string, st Status, pos token.Pos, examined int, format string, args ...any) *Ob {
	o := &Ob{Rule: rule, Key: key, Status: st, At: c.W.Pos(pos), Detail: fmt.Sprintf(format, args...), Checked: examined}
	c.Obs = append(c.Obs, o)
	return o
}

func (c *Ctx) OK(rule, key string, pos token.Pos, examined int, format string, args ...any) {
	c.add(rule, key, Discharged, pos, examined, format, args...)
}

func (c *Ctx) Fail(rule, key string, pos token.Pos, format string, args ...any) {
	// a function that uses constructs the rules have never seen (a new type that carries its data, a helper
	// that could not be made transparent, a changed signature) cannot be judged by shape: undecided, not violated
	if why := c.W.opaqueKey(key); why != "" && !c.robust[rule] {
		c.add(rule, key, Undecided, token.NoPos, 0, "not decided, %s — the rule would otherwise report: %s", why, fmt.Sprintf(format, args...))
		return
	}
	c.add(rule, key, Violated, pos, 1, format, args...)
}

// FailConfined records the violation of a confinement rule ("only these functions may touch X"): such a rule speaks
// about every function, the ones it has never seen included, so opacity does not soften it.
func (c *Ctx) FailConfined(rule, key string, pos token.Pos, format string, args ...any) {
	c.add(rule, key, Violated, pos, 1, format, args...)
}

func (c *Ctx) Undecided(rule, key string, format string, args ...any) {
	c.add(rule, key, Undecided, token.NoPos, 0, format, args...)
}

// Check records OK when cond holds, otherwise a violation.
func (c *Ctx) Check(cond bool, rule, key string, pos token.Pos, okMsg, failMsg string) bool {
	if cond {
		c.OK(rule, key, pos, 1, "%s", okMsg)
	} else {
		c.Fail(rule, key, pos, "%s", failMsg)
	}
	return cond
}

func (c *Ctx) Note(format string, args ...any) {
	c.Notes = append(c.Notes, fmt.Sprintf(format, args...))
}

// NeedFunc resolves an anchored function; a missing anchor makes the property undecided.
func (c *Ctx) NeedFunc(rule, name string) *Func {
	f := c.W.F(name)
	if f == nil {
		c.Undecided(rule, "anchor|"+name, "anchor function %s not found in /repo (renamed or removed): the rule has lost its subject", name)
	}
	return f
}

// ---- known findings -----------------------------------------------------------

type KnownFinding struct {
	Property string `json:"property"`
	Rule     string `json:"rule"`
	Key      string `json:"key"`
	What     string `json:"what"`
	Status   string `json:"status"` // "open" or "fixed"
	Commit   string `json:"commit,omitempty"`
}

func loadKnown(path string) ([]KnownFinding, error) {
	data, err := os.ReadFile(path)
	if err != nil {
		if os.IsNotExist(err) {
			return nil, nil
		}
		return nil, err
	}
	var out []KnownFinding
	for _, line := range strings.Split(string(data), "\n") {
		line = strings.TrimSpace(line)
		if line == "" || strings.HasPrefix(line, "#") {
			continue
		}
		if strings.HasPrefix(line, "fixed:") {
			continue // human-readable record of a repaired defect: suppresses nothing
		}
		var k KnownFinding
		if err := json.Unmarshal([]byte(line), &k); err != nil {
			return nil, fmt.Errorf("known findings: %v in %q", err, line)
		}
		out = append(out, k)
	}
	return out, nil
}

func keyHash(s string) string {
	h := sha1.Sum([]byte(s))
	return fmt.Sprintf("%x", h[:5])
}

// ---- verdict + output -------------------------------------------------------------

type Result struct {
	Violations int
	Known      int
	Undecided  int
	Lines      []string
}

// Finish prints the report lines for the context and writes replay files.
func (c *Ctx) Finish(verifDir string, known []KnownFinding, writeReplay bool) Result {
	var r Result
	sort.SliceStable(c.Obs, func(i, j int) bool {
		if c.Obs[i].Rule != c.Obs[j].Rule {
			return c.Obs[i].Rule < c.Obs[j].Rule
		}
		return c.Obs[i].Key < c.Obs[j].Key
	})
	for _, o := range c.Obs {
		switch o.Status {
		case Violated:
			var kf *KnownFinding
			for i := range known {
				k := &known[i]
				if k.Status == "open" && k.Property == c.Prop && k.Rule == o.Rule && k.Key == o.Key {
					kf = k
				}
			}
			if kf != nil {
				o.Known = true
				r.Known++
				r.Lines = append(r.Lines, fmt.Sprintf("KNOWN-FINDING: property=%s %s %s at %s: %s", c.Prop, o.Rule, o.Key, o.At, kf.What))
				continue
			}
			r.Violations++
			rel := filepath.Join("replay", c.Prop, o.Rule+"-"+keyHash(o.Key)+".json")
			if writeReplay {
				p := filepath.Join(verifDir, rel)
				os.MkdirAll(filepath.Dir(p), 0o755)
				data, _ := json.MarshalIndent(map[string]any{
					"property": c.Prop, "rule": o.Rule, "rule_text": c.Rules[o.Rule], "key": o.Key,
					"at": o.At, "diagnosis": o.Detail, "config": c.W.Config,
				}, "", " ")
				os.WriteFile(p, append(data, '\n'), 0o644)
			}
			r.Lines = append(r.Lines, fmt.Sprintf("%s %s at %s: %s", o.Rule, o.Key, o.At, o.Detail))
			r.Lines = append(r.Lines, fmt.Sprintf("VIOLATION property=%s replay=%s", c.Prop, filepath.Join(verifDir, rel)))
		case Undecided:
			r.Undecided++
			r.Lines = append(r.Lines, fmt.Sprintf("UNDECIDED property=%s %s %s: %s", c.Prop, o.Rule, o.Key, o.Detail))
		}
	}
	return r
}

func (c *Ctx) RuleTexts() []string {
	var out []string
	for _, id := range c.ruleOrder {
		out = append(out, id+": "+c.Rules[id])
	}
	return out
}
