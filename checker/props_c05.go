package main

import (
	"fmt"
	"go/ast"
	"go/constant"
	"go/token"
	"go/types"
	"sort"
	"strconv"
	"strings"

	"golang.org/x/tools/go/cfg"
)

func init() {
	register(&Property{
		ID:    "C05",
		Run:   runC05,
		Floor: 25,
		Assumptions: []string{
			"operand sides are recognised by the evaluator's local names for the left and right value (lhs/rhs and their shadowing re-declarations)",
		},
		NotDecided: "projection contents, stability of equal keys, arithmetic inside limit()/offset(); equality of results with a reference evaluator over all table contents.",
	})
	register(&Property{
		ID:          "C06",
		Run:         runC06,
		Floor:       12,
		Assumptions: []string{"join inputs are produced left then right, matching the header order lFields ++ rFields"},
		NotDecided:  "multiset equality of join results; alias scoping over long chains.",
	})
	register(&Property{
		ID:          "C07",
		Run:         runC07,
		Floor:       5,
		Assumptions: []string{"AVG operands are integers (C18 turns anything else into an error)"},
		NotDecided:  "the numerical values of COUNT/AVG beyond the structural clauses below (group-key injectivity, per-column counters, seeds, rounding placement).",
	})
}

func runC05(c *Ctx) {
	defer ruleVendoredEqualsUpstream(c, "C05.23", vendoredScanner)
	c05Pipeline(c, "C05.1")
	c05Comparisons(c, "C05.2")
	c05TwoCharOps(c, "C05.3")
	c05BoolOps(c, "C05.4")
	c05Layering(c, "C05.4p")
	c05SortComparator(c, "C05.5")
	c05LimitOffset(c, "C05.6")
	c05KeywordLookup(c, "C05.7")
	c05FreshRows(c, "C05.8")
	c.Rule("C05.9", "values compared by WHERE are the values stored: the row codec is symmetric per column type (C08.4)")
	checkCodecPair(c, "C05.9", "storage.(*Tuple).Encode", "storage.(*Tuple).Decode")
	c11SplitArithmetic(c, "C05.10")
	c11SiblingLinks(c, "C05.10l")
	ruleStripQuotes(c, "C05.11")
	ruleCurOncePerNext(c, "C05.12")
	ruleExactCompare(c, "C05.13")
	c08Literals(c, "C05.14")
	ruleNoArithmeticOnStatementInts(c, "C05.15")
	ruleLimitOnlyAtTheEnd(c, "C05.16")
	ruleNoErrorSwallow(c, "C05.17", "engine")
	ruleStatementTextUnmodified(c, "C05.18")
	ruleValueKindTotality(c, "C05.19", func(f *Func) bool { return f.Pkg == c.W.Pkgs["engine"] && !aggregateCone(f) }, 5)
	ruleHeaderFieldsAreCopies(c, "C05.20")
	ruleFetchFreshFields(c, "C05.21")
	ruleThreeWayArmsAgree(c, "C05.22", "engine", "storage")
}

// aggregateCone: the functions that compute aggregates (C07's subjects); everything else in engine serves C05/C06.
func aggregateCone(f *Func) bool {
	switch f.Name {
	case "engine.aggregateRows", "engine.projectColumns", "engine.emptyAggregateRow":
		return true
	}
	if _, pinned := pinnedFuncs[f.Name]; pinned {
		return false
	}
	// a function the rules have never seen belongs to the aggregate code if only that code reaches it
	cg := f.w.CG()
	others := false
	for name, g := range f.w.Funcs {
		if _, pinned := pinnedFuncs[name]; !pinned || g.Pkg != f.Pkg {
			continue
		}
		isAgg := name == "engine.aggregateRows" || name == "engine.projectColumns" || name == "engine.emptyAggregateRow"
		if !isAgg && directlyCalls(cg, g, f) {
			others = true
		}
	}
	return !others
}

func directlyCalls(cg *CG, from, to *Func) bool {
	for _, site := range cg.Sites[from] {
		for _, callee := range site.Targets {
			if callee == to {
				return true
			}
		}
	}
	return false
}

// ---- C05.1 ---------------------------------------------------------------------

func c05Pipeline(c *Ctx, rule string) {
	c.Rule(rule, "EvaluateSelect applies its stages in the order filter -> project -> aggregate -> sort -> offset -> limit: each stage's call dominates the next one's")
	f := c.NeedFunc(rule, "engine.EvaluateSelect")
	if f == nil {
		return
	}
	g := f.Graph()
	stages := []string{"engine.filterRows", "engine.projectColumns", "engine.aggregateRows", "engine.sortColumns", "engine.offset", "engine.limit"}
	var locs []Loc
	var calls []*ast.CallExpr
	for _, s := range stages {
		cs := f.Calls(f.Decl.Body, false, s)
		if len(cs) == 0 {
			c.Fail(rule, f.Name+"|stage|"+s, f.Decl.Pos(), "stage %s is not applied", s)
			return
		}
		// the one that is applied to the joined rows (the last, for projectColumns the no-FROM shortcut comes first)
		call := cs[len(cs)-1]
		l, _ := g.Locate(call)
		locs = append(locs, l)
		calls = append(calls, call)
	}
	for i := 0; i+1 < len(stages); i++ {
		key := f.Name + "|order|" + stages[i][7:] + "<" + stages[i+1][7:]
		// "dominates" is too strong for conditional stages (filter, offset, limit): require that the later stage cannot be followed by the earlier one
		after, _ := g.Forward(&locs[i+1], nil, func(n ast.Node, at Loc) Verdict {
			if at == locs[i] {
				return Hit
			}
			return Go
		}, nil)
		before := g.Dominates(locs[i], locs[i+1]) || calls[i].Pos() < calls[i+1].Pos()
		c.Check(!after && before, rule, key, calls[i+1].Pos(), stages[i][7:]+" precedes "+stages[i+1][7:], stages[i+1][7:]+" can run before "+stages[i][7:]+": e.g. LIMIT applied before OFFSET or before sorting returns the wrong rows")
	}
	// each stage's result feeds the next: rows variable is reassigned from the call
	for i, call := range calls {
		name := stages[i][7:]
		if name == "sortColumns" {
			continue // sorts in place
		}
		key := f.Name + "|feeds|" + name
		obj := f.resultVar(f.Decl.Body, call, 0)
		c.Check(obj != nil, rule, key, call.Pos(), "result of "+name+" is kept", "the result of "+name+" is discarded")
	}
}

// ---- C05.2 -----------------------------------------------------------------------

var opOfToken = map[string]token.Token{"EQ": token.EQL, "NEQ": token.NEQ, "GT": token.GTR, "GTE": token.GEQ, "LT": token.LSS, "LTE": token.LEQ}

// sideOf tells whether an identifier denotes the left (1) or right (2) operand value.
// Sides are resolved by dataflow: a variable defined from a call whose first argument is
// X.LHS / X.RHS, from rows[i] / rows[j] of a comparator closure (first / second parameter),
// or by asserting / type-switching a variable that already has a side.
func sideOf(f *Func, id *ast.Ident) int {
	m, ok := f.w.memo["sides:"+f.Name].(map[types.Object]int)
	if !ok {
		m = buildSides(f)
		f.w.memo["sides:"+f.Name] = m
	}
	return m[f.ObjOf(id)]
}

func buildSides(f *Func) map[types.Object]int {
	m := map[types.Object]int{}
	// comparator closures: parameter 0 indexes the left row, parameter 1 the right row
	idxSide := map[types.Object]int{}
	for _, l := range f.FuncLits() {
		k := 0
		for _, p := range l.Type.Params.List {
			for _, n := range p.Names {
				if k < 2 {
					idxSide[f.ObjOf(n)] = k + 1
				}
				k++
			}
		}
	}
	sideOfExpr := func(e ast.Expr) int {
		e = stripAssert(e)
		if id, ok := e.(*ast.Ident); ok {
			return m[f.ObjOf(id)]
		}
		if call, ok := e.(*ast.CallExpr); ok && len(call.Args) > 0 {
			if sel, ok := ast.Unparen(call.Args[0]).(*ast.SelectorExpr); ok {
				switch sel.Sel.Name {
				case "LHS":
					return 1
				case "RHS":
					return 2
				}
			}
		}
		side := 0
		ast.Inspect(e, func(n ast.Node) bool {
			if ix, ok := n.(*ast.IndexExpr); ok {
				if id, ok := ast.Unparen(ix.Index).(*ast.Ident); ok {
					if s := idxSide[f.ObjOf(id)]; s != 0 && side == 0 {
						side = s
					}
				}
			}
			return true
		})
		return side
	}
	for changed := true; changed; {
		changed = false
		ast.Inspect(f.Decl.Body, func(n ast.Node) bool {
			switch y := n.(type) {
			case *ast.AssignStmt:
				if len(y.Rhs) == 1 && len(y.Lhs) >= 1 {
					if id, ok := y.Lhs[0].(*ast.Ident); ok && id.Name != "_" {
						if s := sideOfExpr(y.Rhs[0]); s != 0 && m[f.ObjOf(id)] == 0 {
							m[f.ObjOf(id)] = s
							changed = true
						}
					}
				}
			case *ast.TypeSwitchStmt:
				as, ok := y.Assign.(*ast.AssignStmt)
				if !ok || len(as.Rhs) != 1 {
					return true
				}
				s := sideOfExpr(as.Rhs[0])
				if s == 0 {
					return true
				}
				for _, cl := range y.Body.List {
					if obj := f.Pkg.TypesInfo.Implicits[cl]; obj != nil && m[obj] == 0 {
						m[obj] = s
						changed = true
					}
				}
			}
			return true
		})
	}
	return m
}

func mirror(op token.Token) token.Token {
	switch op {
	case token.LSS:
		return token.GTR
	case token.GTR:
		return token.LSS
	case token.LEQ:
		return token.GEQ
	case token.GEQ:
		return token.LEQ
	}
	return op
}

// normalisedCompare: expression compares left with right using op (after normalising sides). ok=false if not a lhs/rhs comparison.
func normalisedCompare(f *Func, e ast.Expr) (token.Token, bool) {
	be, ok := ast.Unparen(e).(*ast.BinaryExpr)
	if !ok {
		return 0, false
	}
	switch be.Op {
	case token.EQL, token.NEQ, token.LSS, token.LEQ, token.GTR, token.GEQ:
	default:
		return 0, false
	}
	l, lok := stripAssert(be.X).(*ast.Ident)
	r, rok := stripAssert(be.Y).(*ast.Ident)
	if lok && rok {
		a, b := sideOf(f, l), sideOf(f, r)
		if a == 1 && b == 2 {
			return be.Op, true
		}
		if a == 2 && b == 1 {
			return mirror(be.Op), true
		}
		return 0, false
	}
	// strings.Compare(x, y) OP 0
	if call, ok := ast.Unparen(be.X).(*ast.CallExpr); ok && f.CallIs(call, "strings.Compare") && len(call.Args) == 2 {
		if cv := f.constOf(be.Y); cv != nil && cv.String() == "0" {
			x, xok := stripAssert(call.Args[0]).(*ast.Ident)
			y, yok := stripAssert(call.Args[1]).(*ast.Ident)
			if xok && yok {
				a, b := sideOf(f, x), sideOf(f, y)
				if a == 1 && b == 2 {
					return be.Op, true
				}
				if a == 2 && b == 1 {
					return mirror(be.Op), true
				}
			}
		}
	}
	return 0, false
}

func c05Comparisons(c *Ctx, rule string) {
	c.Rule(rule, "comparison dispatch agrees with the token: inside `case K` of evalComparisonPredicate every returned comparison between the left and right value (directly or through strings.Compare(l, r) ⋈ 0, sides normalised) uses the Go operator of K; the case set equals the operator set the parser accepts for a comparison; the switch is over the predicate's CompOp and the operands are evaluated from LHS and RHS respectively")
	f := c.NeedFunc(rule, "engine.evalComparisonPredicate")
	if f == nil {
		return
	}
	// every switch over the predicate's CompOp (a feature may dispatch operators of its own in a switch of their own)
	var sw *ast.SwitchStmt
	var clauses []*ast.CaseClause
	inspectBody(f.Decl.Body, func(x ast.Node) bool {
		if s, ok := x.(*ast.SwitchStmt); ok && s.Tag != nil && strings.HasSuffix(exprKey(s.Tag), ".CompOp") {
			if sw == nil {
				sw = s
			}
			for _, cs := range s.Body.List {
				clauses = append(clauses, cs.(*ast.CaseClause))
			}
		}
		return true
	})
	if sw == nil {
		c.Undecided(rule, f.Name+"|switch", "no switch over CompOp")
		return
	}
	seen := map[string]bool{}
	for _, cc := range clauses {
		for _, e := range cc.List {
			cst := f.namedConst(e)
			if cst == nil {
				continue
			}
			want, known := opOfToken[cst.Name()]
			key := f.Name + "|case|" + cst.Name()
			if !known {
				// an operator that is not one of the scanner's comparison tokens (IS NULL, BETWEEN, … added by a
				// feature): nothing in the token table says what it must compute
				c.Note("%s: case %s of evalComparisonPredicate is not a comparison operator token; not checked", rule, cst.Name())
				continue
			}
			seen[cst.Name()] = true
			n := 0
			bad := ""
			ast.Inspect(cc, func(y ast.Node) bool {
				r, ok := y.(*ast.ReturnStmt)
				if !ok || len(r.Results) != 2 {
					return true
				}
				if op, ok := normalisedCompare(f, r.Results[0]); ok {
					n++
					if op != want {
						bad = "returns left " + op.String() + " right at " + c.W.Pos(r.Pos())
					}
				}
				return true
			})
			switch {
			case bad != "":
				c.Fail(rule, key, cc.Pos(), "the %s arm %s, expected %s: the operator written in the query is evaluated as another one for that operand type", cst.Name(), bad, want)
			case n == 0:
				if hs := writtenOutHelpers(f); len(hs) > 0 {
					c.Undecided(rule, key, "the %s arm returns no direct comparison of the two operands, and the function now computes through helper code the rules have never seen (%s, written out at its call sites): whether the value it tests is the comparison of the operands is not decided", cst.Name(), strings.Join(hs, ", "))
				} else {
					c.Fail(rule, key, cc.Pos(), "the %s arm returns no comparison of the two operands", cst.Name())
				}
			default:
				c.OK(rule, key, cc.Pos(), n, "%d comparisons, all `left %s right`", n, want)
			}
		}
	}
	// parser's accepted set
	if pf := c.W.F("sql.(*Parser).ComparisonPredicate"); pf != nil {
		// the operator is taken by the one match call that lists the comparison operators (other match calls in the
		// production belong to its operands): the call that shares the most tokens with the evaluator's arms
		var toks []string
		best := -1
		inspectBody(pf.Decl.Body, func(x ast.Node) bool {
			if call, ok := x.(*ast.CallExpr); ok && pf.CallIs(call, "sql.Parser.match") && len(call.Args) > 1 {
				var these []string
				overlap := 0
				for _, a := range call.Args {
					if cst := pf.namedConst(a); cst != nil {
						these = append(these, cst.Name())
						if seen[cst.Name()] {
							overlap++
						}
					}
				}
				if overlap > best {
					best, toks = overlap, these
				}
			}
			return true
		})
		// operators handled through a table keyed by the operator (`ops[q.CompOp]`) have an arm there
		viaTable := false
		ast.Inspect(f.Decl.Body, func(x ast.Node) bool {
			if ix, ok := x.(*ast.IndexExpr); ok && exprKey(ix.Index) == exprKey(sw.Tag) {
				for k := range tableLiteral(f, ix.X) {
					if !seen[k] {
						seen[k] = true
						viaTable = true
					}
				}
			}
			return true
		})
		var have []string
		for k := range seen {
			have = append(have, k)
		}
		sort.Strings(toks)
		sort.Strings(have)
		if viaTable && strings.Join(toks, ",") == strings.Join(have, ",") {
			c.Undecided(rule, f.Name+"|case-set", "some comparison operators are evaluated through a table of functions: the set of operators is complete, what each entry computes is not analysed")
			return
		}
		c.Check(strings.Join(toks, ",") == strings.Join(have, ","), rule, f.Name+"|case-set", sw.Pos(), "evaluator arms = operators accepted by the parser: "+strings.Join(have, ","), "the parser accepts ["+strings.Join(toks, ",")+"] as comparison operators but the evaluator has arms for ["+strings.Join(have, ",")+"]")
		// CompOp is the matched token
		okOp := false
		for _, lit := range pf.compositeLitsIn(pf.Decl.Body, "sql", "ComparisonPredicate") {
			if v := kvField(lit, "CompOp"); v != nil && exprKey(v) == recvName(pf)+".Prev().Type" {
				okOp = true
			}
			if v := kvField(lit, "LHS"); v == nil {
				okOp = false
			} else if id, isId := ast.Unparen(v).(*ast.Ident); !isId {
				okOp = false
			} else if rhs, _, ok := pf.definedBy(pf.Decl.Body, pf.ObjOf(id)); !ok || !strings.HasSuffix(exprKey(rhs), ".ValueExpression()") {
				okOp = false
			}
		}
		c.Check(okOp, rule, pf.Name+"|stores-matched-operator", pf.Decl.Pos(), "CompOp is the operator token just matched; LHS is the expression parsed first", "the comparison node does not store the matched operator token / the first operand as LHS")
	}
	// operands: lhs from q.LHS, rhs from q.RHS
	leftOK, rightOK, crossed := false, false, false
	inspectBody(f.Decl.Body, func(x ast.Node) bool {
		if as, ok := x.(*ast.AssignStmt); ok && len(as.Lhs) == 2 && len(as.Rhs) == 1 {
			if call, ok := as.Rhs[0].(*ast.CallExpr); ok && f.CallIs(call, "engine.evalPrimary") && len(call.Args) >= 1 {
				if id, ok := as.Lhs[0].(*ast.Ident); ok {
					fromL := strings.HasSuffix(exprKey(call.Args[0]), ".LHS")
					fromR := strings.HasSuffix(exprKey(call.Args[0]), ".RHS")
					switch sideOf(f, id) {
					case 1:
						leftOK = leftOK || fromL
						crossed = crossed || fromR
					case 2:
						rightOK = rightOK || fromR
						crossed = crossed || fromL
					}
				}
			}
		}
		return true
	})
	c.Check(leftOK && rightOK && !crossed, rule, f.Name+"|operand-sides", f.Decl.Pos(), "lhs is evaluated from LHS and rhs from RHS", "the left/right values are not evaluated from the predicate's LHS/RHS respectively")
}

// ---- C05.4 --------------------------------------------------------------------------

func c05BoolOps(c *Ctx, rule string) {
	c.Rule(rule, "OR and AND mean || and &&: evaluate dispatches SearchCondition to evalOr and BooleanTerm to evalAnd; evalOr returns lhs || rhs and evalAnd lhs && rhs; both operands are evaluated on every path (no short circuit: an ambiguous or unknown column in the right operand must be reported even when the left one decides the result)")
	ev := c.NeedFunc(rule, "engine.evaluate")
	if ev != nil {
		want := map[string]string{"SearchCondition": "evalOr", "BooleanTerm": "evalAnd", "Predicate": "evalComparisonPredicate"}
		got := map[string]string{}
		inspectBody(ev.Decl.Body, func(x ast.Node) bool {
			if cc, ok := x.(*ast.CaseClause); ok {
				for _, e := range cc.List {
					if tv, ok := ev.Pkg.TypesInfo.Types[e]; ok && tv.IsType() {
						if n, ok := tv.Type.(*types.Named); ok {
							for _, st := range cc.Body {
								if r, ok := st.(*ast.ReturnStmt); ok && len(r.Results) == 1 {
									if call, ok := r.Results[0].(*ast.CallExpr); ok {
										if fn := ev.Callee(call); fn != nil {
											got[n.Obj().Name()] = fn.Name()
										}
									}
								}
							}
						}
					}
				}
			}
			return true
		})
		for k, v := range want {
			c.Check(got[k] == v, rule, ev.Name+"|dispatch|"+k, ev.Decl.Pos(), k+" -> "+v, "evaluate dispatches "+k+" to "+got[k]+", expected "+v)
		}
	}
	for _, spec := range []struct {
		fn string
		op token.Token
	}{{"engine.evalOr", token.LOR}, {"engine.evalAnd", token.LAND}} {
		f := c.NeedFunc(rule, spec.fn)
		if f == nil {
			continue
		}
		g := f.Graph()
		// the boolean result
		var res *ast.ReturnStmt
		for _, r := range g.Returns() {
			if len(r.Results) == 2 {
				if be, ok := ast.Unparen(r.Results[0]).(*ast.BinaryExpr); ok && (be.Op == token.LOR || be.Op == token.LAND) {
					res = r
				}
			}
		}
		key := f.Name + "|operator"
		if res == nil {
			c.Fail(rule, key, f.Decl.Pos(), "no return of a boolean combination of the two operands")
			continue
		}
		be := ast.Unparen(res.Results[0]).(*ast.BinaryExpr)
		l, lok := ast.Unparen(be.X).(*ast.Ident)
		r, rok := ast.Unparen(be.Y).(*ast.Ident)
		if be.Op == spec.op && (!lok || !rok || sideOf(f, l) == 0 || sideOf(f, r) == 0) {
			c.Undecided(rule, key, "%s returns a combination with %s, but which operand each side of it holds is not decided (the values reach the return through copies the side analysis does not follow)", spec.fn, spec.op.String())
			continue
		}
		okOp := be.Op == spec.op && lok && rok && sideOf(f, l)+sideOf(f, r) == 3
		c.Check(okOp, rule, key, res.Pos(), "returns lhs "+spec.op.String()+" rhs", spec.fn+" combines its operands with "+be.Op.String()+" instead of "+spec.op.String())
		// both operands evaluated on every path to every return that is not an evaluation error of the FIRST operand
		evals := f.Calls(f.Decl.Body, false, "engine.evaluate")
		key = f.Name + "|evaluates-both"
		if len(evals) != 2 {
			c.Fail(rule, key, f.Decl.Pos(), "expected exactly two operand evaluations, found %d", len(evals))
			continue
		}
		l1, _ := g.Locate(evals[0])
		l2, _ := g.Locate(evals[1])
		// from the first evaluation's success edge, every return must be preceded by the second evaluation
		skip, _ := g.Forward(&l1, g.SuccessEdges, func(n ast.Node, at Loc) Verdict {
			if at == l2 {
				return Cut
			}
			if _, ok := n.(*ast.ReturnStmt); ok {
				return Hit
			}
			return Go
		}, func(b *cfg.Block) Verdict { return Hit })
		sides := strings.HasSuffix(exprKey(evals[0].Args[0]), ".LHS") && strings.HasSuffix(exprKey(evals[1].Args[0]), ".RHS")
		switch {
		case skip:
			c.Fail(rule, key, evals[1].Pos(), "%s can return without evaluating its right operand (short circuit): errors in the right operand — an ambiguous or unknown column — are silently accepted when the left operand decides", spec.fn)
		case !sides:
			c.Fail(rule, key, evals[0].Pos(), "the operands are not evaluated from LHS then RHS")
		default:
			c.OK(rule, key, evals[1].Pos(), 2, "both operands are evaluated before any result is returned")
		}
	}
}

// ---- precedence by layering (C05.4p / C10.6) -------------------------------------------

func c05Layering(c *Ctx, rule string) {
	c.Rule(rule, "precedence by recursive descent: productions are layered OrCondition -> AndCondition -> Predicate -> ComparisonPredicate -> ValueExpression; a layer calls only the next lower layer and itself (never a higher one), OR is matched only in OrCondition and AND only in AndCondition, and the node built for OR/AND holds the already parsed left side and the recursively parsed right side of the same layer")
	layers := []string{"OrCondition", "AndCondition", "Predicate", "ComparisonPredicate", "ValueExpression"}
	rank := map[string]int{}
	for i, l := range layers {
		rank[l] = i
	}
	for i, l := range layers {
		f := c.NeedFunc(rule, "sql.(*Parser)."+l)
		if f == nil {
			return
		}
		key := f.Name + "|calls"
		var bad []string
		callsNext := false
		for _, cs := range c.W.CG().Sites[f] {
			for _, t := range cs.Targets {
				name := t.Decl.Name.Name
				r, isLayer := rank[name]
				if !isLayer || !strings.HasPrefix(t.Name, "sql.(*Parser).") {
					continue
				}
				switch {
				case r == i: // self recursion allowed for the two looping layers
					if i > 1 {
						bad = append(bad, name)
					}
				case r == i+1:
					callsNext = true
				default:
					bad = append(bad, name)
				}
			}
		}
		if len(bad) > 0 {
			c.Fail(rule, key, f.Decl.Pos(), "%s calls %v: an operand of a tighter-binding operator is parsed by a looser layer, so `a AND b OR c` no longer groups as (a AND b) OR c", l, bad)
		} else if i+1 < len(layers) && !callsNext {
			c.Fail(rule, key, f.Decl.Pos(), "%s does not descend into %s", l, layers[i+1])
		} else {
			c.OK(rule, key, f.Decl.Pos(), len(c.W.CG().Sites[f]), "calls only the next layer (and itself)")
		}
	}
	for _, spec := range []struct{ fn, tok, node, self string }{{"OrCondition", "OR", "SearchCondition", "OrCondition"}, {"AndCondition", "AND", "BooleanTerm", "AndCondition"}} {
		f := c.W.F("sql.(*Parser)." + spec.fn)
		if f == nil {
			continue
		}
		key := f.Name + "|builds|" + spec.node
		okTok := false
		inspectBody(f.Decl.Body, func(x ast.Node) bool {
			if fs, ok := x.(*ast.ForStmt); ok {
				if call, ok := isMatchCall(f, fs.Cond); ok && len(call.Args) == 1 {
					if cst := f.namedConst(call.Args[0]); cst != nil && cst.Name() == spec.tok {
						okTok = true
					}
				}
			}
			return true
		})
		lits := f.compositeLitsIn(f.Decl.Body, "sql", spec.node)
		// at least one node of the layer's kind is built, and EVERY right side that is parsed here is parsed
		// by this same layer (a node may be assembled in several steps, e.g. to re-associate a conjunction)
		okLit := len(lits) >= 1
		okRHS, nRHS := true, 0
		inspectBody(f.Decl.Body, func(x ast.Node) bool {
			if as, ok := x.(*ast.AssignStmt); ok && len(as.Lhs) == 2 && len(as.Rhs) == 1 && strings.HasSuffix(exprKey(as.Lhs[0]), ".RHS") {
				if call, ok := as.Rhs[0].(*ast.CallExpr); ok {
					nRHS++
					if fn := f.Callee(call); fn == nil || fnName(fn) != spec.self {
						okRHS = false
					}
				}
			}
			return true
		})
		if nRHS == 0 {
			okRHS = false
		}
		// other keyword must not be matched here
		other := map[string]string{"OR": "AND", "AND": "OR"}[spec.tok]
		matchesOther := false
		ast.Inspect(f.Decl.Body, func(x ast.Node) bool {
			if call, ok := x.(*ast.CallExpr); ok && f.CallIs(call, "sql.Parser.match") {
				for _, a := range call.Args {
					if cst := f.namedConst(a); cst != nil && cst.Name() == other {
						matchesOther = true
					}
				}
			}
			return true
		})
		c.Check(okTok && okLit && okRHS && !matchesOther, rule, key, f.Decl.Pos(), spec.fn+" loops on "+spec.tok+" and builds "+spec.node+"{LHS, RHS: "+spec.self+"()}", spec.fn+" does not loop on "+spec.tok+" building "+spec.node+" with the right side parsed by "+spec.self+" (or matches "+other+")")
	}
}

// ---- C05.5 -----------------------------------------------------------------------------

// evalBool evaluates a boolean expression over identifiers lhs/rhs (by side) for given values.
func evalBool(f *Func, e ast.Expr, l, r bool) (bool, bool) {
	switch x := ast.Unparen(e).(type) {
	case *ast.Ident:
		switch sideOf(f, x) {
		case 1:
			return l, true
		case 2:
			return r, true
		}
		if x.Name == "true" {
			return true, true
		}
		if x.Name == "false" {
			return false, true
		}
		if isCommaOK(f, x) {
			return true, true // the comma-ok result of asserting the right value to the left value's type
		}
	case *ast.UnaryExpr:
		if x.Op == token.NOT {
			v, ok := evalBool(f, x.X, l, r)
			return !v, ok
		}
	case *ast.BinaryExpr:
		a, ok1 := evalBool(f, x.X, l, r)
		b, ok2 := evalBool(f, x.Y, l, r)
		if !ok1 || !ok2 {
			return false, false
		}
		switch x.Op {
		case token.LAND:
			return a && b, true
		case token.LOR:
			return a || b, true
		case token.EQL:
			return a == b, true
		case token.NEQ:
			return a != b, true
		}
	}
	return false, false
}

func c05SortComparator(c *Ctx, rule string) {
	c.Rule(rule, "the sort comparator orders each type ascending and flips exactly for DESC: in the per-type arms the 'less' value is left < right for integers, strings.Compare(left,right) < 0 for strings, false < true for booleans (decided by evaluating the expression on the two unequal assignments); the value is negated exactly on the edge where the key's ordering token equals DESC; keys are compared in ORDER BY order and equal keys fall through to the next key")
	f := c.NeedFunc(rule, "engine.sortColumns")
	if f == nil {
		return
	}
	lits := f.FuncLits()
	if len(lits) != 1 {
		c.Undecided(rule, f.Name+"|comparator", "expected one comparator closure")
		return
	}
	cmp := lits[0]
	var sw *ast.TypeSwitchStmt
	ast.Inspect(cmp.Body, func(x ast.Node) bool {
		if s, ok := x.(*ast.TypeSwitchStmt); ok && sw == nil {
			sw = s
		}
		return true
	})
	if sw == nil {
		c.Undecided(rule, f.Name+"|type-switch", "no type switch over the left value")
		return
	}
	var lessVar string
	for _, s := range sw.Body.List {
		cc := s.(*ast.CaseClause)
		for _, e := range cc.List {
			tn := exprKey(e)
			key := f.Name + "|arm|" + tn
			if tn == "nil" {
				continue
			}
			var rhs ast.Expr
			for _, st := range cc.Body {
				if as, ok := st.(*ast.AssignStmt); ok && len(as.Lhs) == 1 && len(as.Rhs) == 1 && as.Tok == token.ASSIGN {
					if id, ok := as.Lhs[0].(*ast.Ident); ok {
						lessVar = id.Name
						rhs = as.Rhs[0]
					}
				}
			}
			if rhs == nil {
				c.Fail(rule, key, cc.Pos(), "the %s arm does not compute the comparison result", tn)
				continue
			}
			// strip a leading `ok &&`
			core := ast.Unparen(rhs)
			if be, ok := core.(*ast.BinaryExpr); ok && be.Op == token.LAND {
				if id, ok := ast.Unparen(be.X).(*ast.Ident); ok && isCommaOK(f, id) {
					core = ast.Unparen(be.Y)
				}
			}
			switch tn {
			case "int64", "string":
				op, ok := normalisedCompare(f, core)
				c.Check(ok && op == token.LSS, rule, key, cc.Pos(), "less = left < right", "the "+tn+" arm does not compute left < right (computes "+exprKey(rhs)+"): ORDER BY sorts this type in the wrong direction")
			case "bool":
				v1, ok1 := evalBool(f, core, false, true)
				v2, ok2 := evalBool(f, core, true, false)
				if !ok1 || !ok2 {
					c.Undecided(rule, key, "boolean comparison %s not understood", exprKey(rhs))
				} else {
					c.Check(v1 && !v2, rule, key, cc.Pos(), "less = (left is false and right is true)", "the bool arm computes "+exprKey(rhs)+", which is not `false < true`: ORDER BY on a boolean key puts true before false for ASC")
				}
			default:
				c.Note("%s: arm for %s not checked", rule, tn)
			}
		}
	}
	// DESC negation: the statements that follow the per-type arms are evaluated on the four assignments of
	// (less, this key is DESC); the comparator must return less XOR desc. How the direction is spelled —
	// tested in place, resolved up front into a []bool or into a field of a per-key struct — does not matter.
	key := f.Name + "|desc-negates"
	dq := newDescQuery(f, cmp)
	var tail []ast.Stmt
	ast.Inspect(cmp.Body, func(x ast.Node) bool {
		if blk, ok := x.(*ast.BlockStmt); ok && tail == nil {
			for i, st := range blk.List {
				if st == ast.Stmt(sw) {
					tail = blk.List[i+1:]
				}
			}
		}
		return true
	})
	verdict, why := "", ""
	if lessVar == "" || len(tail) == 0 {
		verdict, why = "undecided", "the comparator does not end in statements that return the per-type result"
	} else {
		for _, L := range []bool{false, true} {
			for _, D := range []bool{false, true} {
				got, st := dq.run(tail, lessVar, L, D)
				switch {
				case st == "unknown" && verdict == "":
					verdict, why = "undecided", "the comparator does not test the ordering specification in a form the rule knows"
				case st == "wrongkey":
					verdict, why = "fail", "the ordering consulted is not that of the key being compared"
				case st == "" && got != (L != D) && verdict != "fail":
					verdict, why = "fail", "the comparison result is not negated exactly for DESC keys (of the key being compared)"
				}
			}
		}
	}
	switch verdict {
	case "undecided":
		c.Undecided(rule, key, "%s", why)
	case "fail":
		c.Fail(rule, key, cmp.Pos(), "%s", why)
	default:
		c.OK(rule, key, cmp.Pos(), 4, "negated exactly when the current key's ordering is DESC")
	}
	// equal keys continue; result returned per key
	key = f.Name + "|equal-keys-fall-through"
	okEq := false
	ast.Inspect(cmp.Body, func(x ast.Node) bool {
		if ifs, ok := x.(*ast.IfStmt); ok {
			if be, ok := ast.Unparen(ifs.Cond).(*ast.BinaryExpr); ok && be.Op == token.EQL {
				l, lok := ast.Unparen(be.X).(*ast.Ident)
				r, rok := ast.Unparen(be.Y).(*ast.Ident)
				if lok && rok && sideOf(f, l)+sideOf(f, r) == 3 && endsWithContinue(ifs.Body) {
					okEq = true
				}
			}
		}
		return true
	})
	c.Check(okEq, rule, key, cmp.Pos(), "equal values move on to the next sort key", "equal key values do not fall through to the next ORDER BY key")
	// the comparator's first parameter selects the left value, the second the right value
	okIJ := 0
	ast.Inspect(cmp.Body, func(x ast.Node) bool {
		if as, ok := x.(*ast.AssignStmt); ok && len(as.Lhs) == 1 && len(as.Rhs) == 1 {
			if id, ok := as.Lhs[0].(*ast.Ident); ok {
				s := exprKey(as.Rhs[0])
				if sideOf(f, id) == 1 && strings.Contains(s, "["+litParamName(cmp, 0)+"].") {
					okIJ++
				}
				if sideOf(f, id) == 2 && strings.Contains(s, "["+litParamName(cmp, 1)+"].") {
					okIJ++
				}
			}
		}
		return true
	})
	c.Check(okIJ == 2, rule, f.Name+"|i-left-j-right", cmp.Pos(), "less(i, j) compares row i (left) with row j (right)", "less(i, j) does not take its left value from row i and its right value from row j")
}

// ---- C05.6 -------------------------------------------------------------------------------

func c05LimitOffset(c *Ctx, rule string) {
	c.Rule(rule, "LIMIT/OFFSET fields are paired: in EvaluateSelect the OffsetActive flag guards a call of offset with the Offset value and LimitActive a call of limit with the Limit value")
	f := c.NeedFunc(rule, "engine.EvaluateSelect")
	if f == nil {
		return
	}
	for _, kw := range []string{"Offset", "Limit"} {
		key := f.Name + "|" + kw
		okPair := false
		inspectBody(f.Decl.Body, func(x ast.Node) bool {
			ifs, ok := x.(*ast.IfStmt)
			if !ok || !strings.HasSuffix(exprKey(ifs.Cond), "."+kw+"Active") {
				return true
			}
			for _, call := range f.Calls(ifs.Body, false, "engine."+strings.ToLower(kw)) {
				if len(call.Args) != 2 {
					continue
				}
				arg := f.stripConv(call.Args[0])
				if id, ok := ast.Unparen(arg).(*ast.Ident); ok {
					// the value carried through a local
					if rhs, _, ok := f.definedBy(f.Decl.Body, f.ObjOf(id)); ok {
						arg = f.stripConv(rhs)
					}
				}
				if strings.HasSuffix(exprKey(arg), "."+kw) {
					okPair = true
				}
			}
			return true
		})
		c.Check(okPair, rule, key, f.Decl.Pos(), kw+"Active guards "+strings.ToLower(kw)+"(…."+kw+")", "the "+kw+"Active flag does not guard a call of "+strings.ToLower(kw)+" with the "+kw+" value")
	}
	// helpers keep a prefix / suffix
	if lf := c.W.F("engine.limit"); lf != nil {
		ok := false
		inspectBody(lf.Decl.Body, func(x ast.Node) bool {
			if r, isRet := x.(*ast.ReturnStmt); isRet && len(r.Results) == 1 {
				if s, isS := ast.Unparen(r.Results[0]).(*ast.SliceExpr); isS && s.High != nil && exprKey(s.High) == paramName(lf, 0) && (s.Low == nil || exprKey(s.Low) == "0") {
					ok = true
				}
			}
			return true
		})
		c.Check(ok, rule, lf.Name+"|prefix", lf.Decl.Pos(), "limit keeps rows[0:limit]", "limit does not keep the first `limit` rows")
	}
	if of := c.W.F("engine.offset"); of != nil {
		ok := false
		inspectBody(of.Decl.Body, func(x ast.Node) bool {
			if r, isRet := x.(*ast.ReturnStmt); isRet && len(r.Results) == 1 {
				if s, isS := ast.Unparen(r.Results[0]).(*ast.SliceExpr); isS && s.Low != nil && exprKey(s.Low) == paramName(of, 0) && s.High == nil {
					ok = true
				}
			}
			return true
		})
		c.Check(ok, rule, of.Name+"|suffix", of.Decl.Pos(), "offset keeps rows[offset:]", "offset does not drop exactly the first `offset` rows")
	}
}

// ---- C05.8 / C06.4: no aliasing of row storage -----------------------------------------------

func c05FreshRows(c *Ctx, rule string) {
	c.Rule(rule, "projected and joined rows get their own storage: the slice that replaces row.Vals in projectColumns is built by append onto a fresh (nil/empty/make) slice, never onto a re-slice of the row being read; Row.Merge builds its result by appending both inputs onto a fresh slice, never onto the receiver's backing array")
	if f := c.NeedFunc(rule, "engine.projectColumns"); f != nil {
		key := f.Name + "|new-values-fresh"
		var tgt types.Object
		// the row being projected, under whatever name: the variable whose Vals field is replaced
		rowVals := "row.Vals"
		inspectBody(f.Decl.Body, func(x ast.Node) bool {
			if as, ok := x.(*ast.AssignStmt); ok && len(as.Lhs) == 1 {
				if sel, ok := ast.Unparen(as.Lhs[0]).(*ast.SelectorExpr); ok && sel.Sel.Name == "Vals" {
					if _, isId := ast.Unparen(sel.X).(*ast.Ident); isId {
						rowVals = exprKey(as.Lhs[0])
					}
				}
			}
			return true
		})
		inspectBody(f.Decl.Body, func(x ast.Node) bool {
			if as, ok := x.(*ast.AssignStmt); ok && len(as.Lhs) == 1 && exprKey(as.Lhs[0]) == rowVals {
				if id, ok := ast.Unparen(as.Rhs[0]).(*ast.Ident); ok {
					tgt = f.ObjOf(id)
				}
			}
			return true
		})
		if tgt == nil {
			c.Undecided(rule, key, "no `row.Vals = <new slice>` found")
		} else {
			aliased := ""
			ast.Inspect(f.Decl.Body, func(x ast.Node) bool {
				switch y := x.(type) {
				case *ast.AssignStmt:
					for i, l := range y.Lhs {
						if id, ok := l.(*ast.Ident); ok && f.ObjOf(id) == tgt && i < len(y.Rhs) {
							if _, self := f.isSelfAppend(y, tgt); self {
								continue
							}
							if strings.Contains(exprKey(y.Rhs[i]), rowVals) {
								aliased = exprKey(y.Rhs[i])
							}
						}
					}
				case *ast.ValueSpec:
					for i, nm := range y.Names {
						if f.ObjOf(nm) == tgt && i < len(y.Values) && strings.Contains(exprKey(y.Values[i]), rowVals) {
							aliased = exprKey(y.Values[i])
						}
					}
				}
				return true
			})
			c.Check(aliased == "", rule, key, f.Decl.Pos(), "new values are appended onto a fresh slice", "the projected values are written into "+aliased+", the backing array of the row still being read: later select-list elements read slots that were already overwritten")
		}
	}
	if f := c.NeedFunc(rule, "storage.(*Row).Merge"); f != nil {
		key := f.Name + "|fresh-result"
		bad := ""
		recv := ""
		if f.Decl.Recv != nil && len(f.Decl.Recv.List[0].Names) == 1 {
			recv = f.Decl.Recv.List[0].Names[0].Name
		}
		ast.Inspect(f.Decl.Body, func(x ast.Node) bool {
			if call, ok := x.(*ast.CallExpr); ok {
				if id, ok := call.Fun.(*ast.Ident); ok && id.Name == "append" && len(call.Args) >= 1 {
					base := exprKey(call.Args[0])
					if base == recv+".Vals" || strings.HasPrefix(base, recv+".Vals[") || base == "row.Vals" {
						bad = exprKey(call)
					}
				}
			}
			return true
		})
		c.Check(bad == "", rule, key, f.Decl.Pos(), "the merged row is appended onto a fresh slice", "Merge builds its result with "+bad+": when the receiver's slice has spare capacity, joined rows built from the same row share one backing array and overwrite each other's right-hand columns")
	}
}

// =========================== C06 =======================================================

func runC06(c *Ctx) {
	c06JoinMapping(c, "C06.1")
	c06Arms(c, "C06.2")
	c06Ambiguity(c, "C06.3")
	c05FreshRows(c, "C06.4")
	c05BoolOps(c, "C06.5")
	ruleJoinNoEarlyReturn(c, "C06.6")
	ruleLookupKeys(c, "C06.7")
	c05Layering(c, "C06.8")
	ruleJoinReturnsBuiltRows(c, "C06.9")
	ruleNoErrorSwallow(c, "C06.10", "engine")
}

func c06JoinMapping(c *Ctx, rule string) {
	c.Rule(rule, "join keywords map to themselves: in FromClause the arm that matched LEFT yields LEFT_JOIN, RIGHT yields RIGHT_JOIN, INNER or no keyword yields INNER_JOIN; the join type stored in each QualifiedJoin is assigned on every path of THAT loop iteration (it cannot be inherited from the previous join); every join type the parser can store has an arm in the executor")
	f := c.NeedFunc(rule, "sql.(*Parser).FromClause")
	if f == nil {
		return
	}
	g := f.Graph()
	lits := f.compositeLitsIn(f.Decl.Body, "sql", "QualifiedJoin")
	if len(lits) != 1 {
		c.Undecided(rule, f.Name+"|literal", "expected one QualifiedJoin literal")
		return
	}
	jtExpr := kvField(lits[0], "JoinType")
	jid, ok := ast.Unparen(jtExpr).(*ast.Ident)
	if !ok {
		c.Undecided(rule, f.Name+"|jointype", "JoinType is not a variable")
		return
	}
	jobj := f.ObjOf(jid)
	// mapping
	want := map[string]string{"LEFT": "LEFT_JOIN", "RIGHT": "RIGHT_JOIN"}
	got := map[string]string{}
	stored := map[string]bool{}
	hasDefaultInner := false
	// the edge on which p.match(K) succeeded (val) or failed (!val) dominates the store: the spelling — a tagless
	// switch, an if/else chain, a helper — does not matter
	matchEdge := func(loc Loc, kw string, val bool) bool {
		for _, b := range g.c.Blocks {
			if !g.Reachable(b) || len(b.Succs) != 2 {
				continue
			}
			for si := 0; si < 2; si++ {
				info, ok := g.EdgeInfo(b, si)
				if !ok {
					continue
				}
				test, ok := info.Test()
				if !ok {
					continue
				}
				cond, v := ast.Unparen(test), info.Val
				for {
					u, isNot := cond.(*ast.UnaryExpr)
					if !isNot || u.Op != token.NOT {
						break
					}
					cond, v = ast.Unparen(u.X), !v
				}
				got := ""
				if call, isCall := isMatchCall(f, cond); isCall && len(call.Args) == 1 {
					if cst := f.namedConst(call.Args[0]); cst != nil {
						got = cst.Name()
					}
				} else if be, isCmp := cond.(*ast.BinaryExpr); isCmp && be.Op == token.EQL && strings.HasSuffix(exprKey(be.X), ".Type") {
					// the decision taken on the current token's type before it is consumed
					if cst := f.namedConst(be.Y); cst != nil {
						got = cst.Name()
					}
				}
				if got != kw || v != val {
					continue
				}
				s := b.Succs[si]
				if g.BlockDominates(s, loc.B) && onlyPred(g, s, b) {
					return true
				}
			}
		}
		return false
	}
	// the variables whose value is copied into the stored join type (results of an extracted decision)
	srcs := map[types.Object]bool{jobj: true}
	for changed := true; changed; {
		changed = false
		inspectBody(f.Decl.Body, func(x ast.Node) bool {
			if as, ok := x.(*ast.AssignStmt); ok && len(as.Lhs) == len(as.Rhs) {
				for i, l := range as.Lhs {
					lid, ok1 := l.(*ast.Ident)
					rid, ok2 := ast.Unparen(as.Rhs[i]).(*ast.Ident)
					if ok1 && ok2 && srcs[f.ObjOf(lid)] && f.ObjOf(rid) != nil && !srcs[f.ObjOf(rid)] {
						if _, isVar := f.ObjOf(rid).(*types.Var); isVar {
							srcs[f.ObjOf(rid)] = true
							changed = true
						}
					}
				}
			}
			return true
		})
	}
	inspectBody(f.Decl.Body, func(x ast.Node) bool {
		as0, ok := x.(*ast.AssignStmt)
		if !ok || len(as0.Lhs) != len(as0.Rhs) {
			return true
		}
		var as *ast.AssignStmt
		var cst *types.Const
		for i, l := range as0.Lhs {
			if id, ok := l.(*ast.Ident); ok && srcs[f.ObjOf(id)] {
				if k := f.namedConst(as0.Rhs[i]); k != nil {
					as, cst = as0, k
				}
			}
		}
		if as == nil {
			return true
		}
		val := cst.Name()
		stored[val] = true
		loc, ok := g.Locate(as)
		if !ok {
			return true
		}
		for _, kw := range []string{"LEFT", "RIGHT", "INNER"} {
			if matchEdge(loc, kw, true) {
				if prev, dup := got[kw]; !dup || prev == val {
					got[kw] = val
				} else {
					got[kw] = prev + "/" + val
				}
			}
		}
		if val == "INNER_JOIN" && matchEdge(loc, "LEFT", false) && matchEdge(loc, "RIGHT", false) {
			hasDefaultInner = true
		}
		return true
	})
	// the mapping written as a table: `if v, ok := table[p.Cur().Type]; ok { jt = v }` over an initial INNER_JOIN
	inspectBody(f.Decl.Body, func(x ast.Node) bool {
		as, ok := x.(*ast.AssignStmt)
		if !ok || len(as.Lhs) != len(as.Rhs) {
			return true
		}
		for i, l := range as.Lhs {
			lid, ok := l.(*ast.Ident)
			if !ok || !srcs[f.ObjOf(lid)] {
				continue
			}
			rid, ok := ast.Unparen(as.Rhs[i]).(*ast.Ident)
			if !ok {
				continue
			}
			if rhs, _, ok := f.definedBy(f.Decl.Body, f.ObjOf(rid)); ok {
				if ix, ok := ast.Unparen(rhs).(*ast.IndexExpr); ok && strings.HasSuffix(exprKey(ix.Index), ".Type") {
					for k, v := range tableLiteral(f, ix.X) {
						if cst := f.namedConst(v); cst != nil {
							if _, dup := got[k]; !dup {
								got[k] = cst.Name()
							}
							stored[cst.Name()] = true
						}
					}
				}
			}
		}
		return true
	})
	ast.Inspect(f.Decl.Body, func(x ast.Node) bool {
		if vs, ok := x.(*ast.ValueSpec); ok {
			for i, nm := range vs.Names {
				if srcs[f.ObjOf(nm)] && i < len(vs.Values) {
					if cst := f.namedConst(vs.Values[i]); cst != nil {
						stored[cst.Name()] = true
						if cst.Name() == "INNER_JOIN" {
							if _, l := got["LEFT"]; l {
								if _, r := got["RIGHT"]; r {
									hasDefaultInner = true // every other value comes from the table of prefixes
								}
							}
						}
					}
				}
			}
		}
		return true
	})
	for k, v := range want {
		c.Check(got[k] == v, rule, f.Name+"|keyword|"+k, f.Decl.Pos(), k+" -> "+v, "the "+k+" keyword yields join type "+got[k]+", expected "+v)
	}
	c.Check(hasDefaultInner, rule, f.Name+"|keyword|default", f.Decl.Pos(), "no keyword (and INNER) -> INNER_JOIN", "a join without LEFT/RIGHT does not default to INNER_JOIN")
	// must-assign per iteration: from the loop body entry to the literal, jt is assigned on every path
	key := f.Name + "|jointype-assigned-per-join"
	var loopBody *cfg.Block
	for _, b := range g.c.Blocks {
		if b.Kind == cfg.KindForBody {
			if fs, ok := b.Stmt.(*ast.ForStmt); ok && fs.Body.Pos() <= lits[0].Pos() && lits[0].End() <= fs.Body.End() {
				loopBody = b
			}
		}
	}
	if loopBody == nil {
		c.Undecided(rule, key, "join loop not found")
	} else {
		litLoc, _ := g.Locate(lits[0])
		start := Loc{loopBody, -1}
		// a variable declared inside the loop body starts every iteration with its zero value: nothing is inherited
		fresh := false
		if fs, ok := loopBody.Stmt.(*ast.ForStmt); ok && jobj.Pos() >= fs.Body.Pos() && jobj.Pos() < fs.Body.End() {
			fresh = true
		}
		unassigned, _ := g.Forward(&start, nil, func(n ast.Node, at Loc) Verdict {
			if fresh {
				return Cut
			}
			if as, ok := n.(*ast.AssignStmt); ok {
				for i, l := range as.Lhs {
					if id, ok := l.(*ast.Ident); ok && f.ObjOf(id) == jobj && i < len(as.Rhs) && f.namedConst(as.Rhs[i]) != nil {
						return Cut
					}
				}
			}
			if at == litLoc {
				return Hit
			}
			return Go
		}, nil)
		c.Check(!unassigned, rule, key, lits[0].Pos(), "every path of an iteration assigns the join type before it is stored", "a path through the join loop stores the join type without assigning it in that iteration: an explicit INNER JOIN after a LEFT/RIGHT JOIN inherits the previous join's type")
	}
	// executor arms
	if ef := c.NeedFunc(rule, "engine.nestedLoopJoin"); ef != nil {
		arms := map[string]bool{}
		inspectBody(ef.Decl.Body, func(x ast.Node) bool {
			if cc, ok := x.(*ast.CaseClause); ok {
				for _, e := range cc.List {
					if cst := ef.namedConst(e); cst != nil && strings.HasSuffix(cst.Name(), "_JOIN") {
						arms[cst.Name()] = true
					}
				}
			}
			return true
		})
		var names []string
		for k := range stored {
			names = append(names, k)
		}
		sort.Strings(names)
		for _, k := range names {
			c.Check(arms[k], rule, ef.Name+"|arm|"+k, ef.Decl.Pos(), "executor has an arm for "+k, "the parser can store "+k+" but the executor has no arm for it: such a join silently returns no rows")
		}
	}
}

func c06Arms(c *Ctx, rule string) {
	c.Rule(rule, "in every arm of nestedLoopJoin the merged row is left.Merge(right), matching the header order (left fields ++ right fields); the LEFT arm pads with a row of len(right fields) NULLs as the argument, the RIGHT arm with len(left fields) NULLs as the receiver; the padded row is appended exactly on the not-matched edge after the inner loop; the outer loop runs over the preserved side. Left/right rows and fields are identified by dataflow: the results of the recursive calls on the join's LHS and RHS")
	f := c.NeedFunc(rule, "engine.nestedLoopJoin")
	if f == nil {
		return
	}
	// roles: results of nestedLoopJoin(rm, v.LHS) and nestedLoopJoin(rm, v.RHS)
	var lRows, lFields, rRows, rFields types.Object
	for _, call := range f.Calls(f.Decl.Body, false, "engine.nestedLoopJoin") {
		if len(call.Args) != 2 {
			continue
		}
		switch {
		case strings.HasSuffix(exprKey(call.Args[1]), ".LHS"):
			lRows, lFields = f.resultVar(f.Decl.Body, call, 0), f.resultVar(f.Decl.Body, call, 1)
		case strings.HasSuffix(exprKey(call.Args[1]), ".RHS"):
			rRows, rFields = f.resultVar(f.Decl.Body, call, 0), f.resultVar(f.Decl.Body, call, 1)
		}
	}
	if lRows == nil || lFields == nil || rRows == nil || rFields == nil {
		c.Undecided(rule, f.Name+"|roles", "the recursive evaluation of the join's LHS and RHS was not found")
		return
	}
	objOf := func(e ast.Expr) types.Object {
		if id, ok := ast.Unparen(e).(*ast.Ident); ok {
			return f.ObjOf(id)
		}
		return nil
	}
	// header: H = append(H, lFields...) then append(H, rFields...)
	var header types.Object
	var appended []types.Object
	inspectBody(f.Decl.Body, func(x ast.Node) bool {
		if as, ok := x.(*ast.AssignStmt); ok && len(as.Lhs) == 1 && len(as.Rhs) == 1 {
			if args, self := f.isSelfAppend(as, objOf(as.Lhs[0])); self && len(args) == 1 {
				if o := objOf(args[0]); o == lFields || o == rFields {
					header = objOf(as.Lhs[0])
					appended = append(appended, o)
				}
			}
		}
		return true
	})
	okHeader := len(appended) == 2 && appended[0] == lFields && appended[1] == rFields
	c.Check(okHeader, rule, f.Name+"|header-order", f.Decl.Pos(), "header = left fields ++ right fields", "the joined header is not the left side's fields followed by the right side's fields")
	inspectBody(f.Decl.Body, func(x ast.Node) bool {
		cc, ok := x.(*ast.CaseClause)
		if !ok {
			return true
		}
		for _, e := range cc.List {
			cst := f.namedConst(e)
			if cst == nil || !strings.HasSuffix(cst.Name(), "_JOIN") {
				continue
			}
			arm := &ast.BlockStmt{List: cc.Body}
			key := f.Name + "|" + cst.Name()
			if cst.Name() != "INNER_JOIN" && cst.Name() != "LEFT_JOIN" && cst.Name() != "RIGHT_JOIN" {
				c.Undecided(rule, key, "%s is a join type the rules have never seen: what its arm has to do (condition or not, padding or not) is not known to them", cst.Name())
				continue
			}
			if len(cc.List) > 1 {
				// several join types share one arm (their difference is decided by a flag inside): the per-arm
				// shape rules do not apply
				c.Undecided(rule, key, "the arm for %s is shared with other join types; what it does for each of them is decided at run time inside the arm and is not analysed", cst.Name())
				continue
			}
			var problems []string
			// row roles inside this arm: range variables over lRows / rRows; pad rows made with len(lFields)/len(rFields)
			side := map[types.Object]int{} // 1 = left width, 2 = right width
			var padSides []int
			ast.Inspect(arm, func(y ast.Node) bool {
				switch z := y.(type) {
				case *ast.RangeStmt:
					if v, ok := z.Value.(*ast.Ident); ok {
						switch objOf(z.X) {
						case lRows:
							side[f.ObjOf(v)] = 1
						case rRows:
							side[f.ObjOf(v)] = 2
						}
					}
				case *ast.AssignStmt:
					if len(z.Lhs) == 1 && len(z.Rhs) == 1 {
						ast.Inspect(z.Rhs[0], func(w ast.Node) bool {
							if mk, ok := w.(*ast.CallExpr); ok {
								if id, ok := mk.Fun.(*ast.Ident); ok && id.Name == "make" && len(mk.Args) == 2 {
									if ln, ok := ast.Unparen(mk.Args[1]).(*ast.CallExpr); ok && len(ln.Args) == 1 {
										switch objOf(ln.Args[0]) {
										case lFields:
											side[objOf(z.Lhs[0])] = 1
											padSides = append(padSides, 1)
										case rFields:
											side[objOf(z.Lhs[0])] = 2
											padSides = append(padSides, 2)
										}
									}
								}
							}
							return true
						})
					}
				}
				return true
			})
			merges := f.Calls(arm, false, "storage.Row.Merge")
			for _, m := range merges {
				recv := objOf(m.Fun.(*ast.SelectorExpr).X)
				arg := objOf(m.Args[0])
				if side[recv] != 1 || side[arg] != 2 {
					problems = append(problems, exprKey(m)+" does not put a left-width row first and a right-width row second")
				}
			}
			switch cst.Name() {
			case "INNER_JOIN":
				if len(merges) != 1 {
					problems = append(problems, "expected one Merge")
				}
			case "LEFT_JOIN", "RIGHT_JOIN":
				if len(merges) != 2 {
					problems = append(problems, "expected two Merges (matched rows and padded rows)")
				}
				wantPad := map[string]int{"LEFT_JOIN": 2, "RIGHT_JOIN": 1}[cst.Name()]
				havePad := false
				for _, p := range padSides {
					if p == wantPad {
						havePad = true
					}
				}
				if !havePad {
					problems = append(problems, "the NULL padding row does not have the width of the other side: for tables of different widths the padded columns shift or a later column reference indexes out of range")
				}
				wantOuter := map[string]types.Object{"LEFT_JOIN": lRows, "RIGHT_JOIN": rRows}[cst.Name()]
				outerOK := false
				// the outermost range loops of the arm, wherever they sit (directly in the clause, or inside the
				// block a substituted helper leaves behind)
				var outerLoops []*ast.RangeStmt
				var walkOuter func(n ast.Node)
				walkOuter = func(n ast.Node) {
					ast.Inspect(n, func(y ast.Node) bool {
						if y == nil || y == n {
							return true
						}
						switch z := y.(type) {
						case *ast.RangeStmt:
							outerLoops = append(outerLoops, z)
							return false
						case *ast.ForStmt, *ast.FuncLit:
							return false
						}
						return true
					})
				}
				for _, st := range cc.Body {
					if rs, ok := st.(*ast.RangeStmt); ok {
						outerLoops = append(outerLoops, rs)
						continue
					}
					walkOuter(st)
				}
				for _, rs := range outerLoops {
					if objOf(rs.X) != wantOuter {
						continue
					}
					outerOK = true
					// matched flag: a bool defined false at the top of the outer body, set true in the inner loop, tested negated after it
					var flag types.Object
					for _, s2 := range rs.Body.List {
						if as, ok := s2.(*ast.AssignStmt); ok && as.Tok == token.DEFINE && len(as.Rhs) == 1 {
							if cv := f.constOf(as.Rhs[0]); cv != nil && cv.String() == "false" {
								flag = objOf(as.Lhs[0])
							}
						}
					}
					okUnmatched := false
					for _, s2 := range rs.Body.List {
						if ifs, ok := s2.(*ast.IfStmt); ok {
							if u, ok := ast.Unparen(ifs.Cond).(*ast.UnaryExpr); ok && u.Op == token.NOT && flag != nil && objOf(u.X) == flag {
								if len(f.Calls(ifs.Body, false, "storage.Row.Merge")) == 1 {
									okUnmatched = true
								}
							}
						}
					}
					if flag == nil {
						problems = append(problems, "the matched flag is not reset for every outer row")
					} else if !okUnmatched {
						problems = append(problems, "the padded row is not appended on the not-matched edge after the inner loop")
					}
				}
				if !outerOK {
					problems = append(problems, "the outer loop does not run over the preserved side")
				}
			}
			// the join condition is evaluated on the merged row with the merged header
			evs := f.Calls(arm, false, "engine.evaluate")
			okEval := false
			if len(evs) == 1 && len(evs[0].Args) == 3 && strings.HasSuffix(exprKey(evs[0].Args[0]), ".JoinCondition") && objOf(evs[0].Args[1]) == header {
				if rowObj := objOf(evs[0].Args[2]); rowObj != nil {
					if rhs, _, ok := f.definedBy(arm, rowObj); ok {
						if call, ok := ast.Unparen(rhs).(*ast.CallExpr); ok && f.CallIs(call, "storage.Row.Merge") {
							okEval = true
						}
					}
				}
			}
			if !okEval {
				problems = append(problems, "the ON condition is not evaluated on the merged row with the merged header")
			}
			if len(problems) > 0 {
				c.Fail(rule, key, cc.Pos(), "%s", strings.Join(problems, "; "))
			} else {
				c.OK(rule, key, cc.Pos(), len(merges)+2, "merge order, padding width, outer side and unmatched-row placement agree with the header order")
			}
		}
		return true
	})
}

func c06Ambiguity(c *Ctx, rule string) {
	c.Rule(rule, "an unqualified column that exists on both sides is rejected: the unqualified lookup returns ErrFieldAmbiguous on a second match; a qualified reference is resolved by a lookup that compares both the column name and the table id; findColumnInFieldList chooses between them by the presence of a qualifier; the table id of a scanned table is its alias when it has one and its name otherwise")
	if f := c.NeedFunc(rule, "storage.Fields.LookupFieldIdx"); f != nil {
		okAmb := false
		inspectBody(f.Decl.Body, func(x ast.Node) bool {
			if ifs, ok := x.(*ast.IfStmt); ok {
				if be, ok := ast.Unparen(ifs.Cond).(*ast.BinaryExpr); ok && (be.Op == token.GTR || be.Op == token.GEQ || be.Op == token.NEQ) {
					ast.Inspect(ifs.Body, func(y ast.Node) bool {
						if id, ok := y.(*ast.Ident); ok && id.Name == "ErrFieldAmbiguous" {
							okAmb = true
						}
						return true
					})
				}
			}
			return true
		})
		c.Check(okAmb, rule, f.Name+"|second-match-is-ambiguous", f.Decl.Pos(), "a second match returns ErrFieldAmbiguous", "the unqualified lookup does not return ErrFieldAmbiguous when the name matches twice: it resolves silently to one side")
		// … and under no further condition: what governs the ambiguity return is the name comparison and the
		// "already found" marker, nothing else about the element (a test of the table id lets two same-named
		// columns of one table id — a self-join without aliases — resolve silently to the left one)
		if okAmb {
			var stack []ast.Node
			extra := ""
			var extraPos token.Pos
			ast.Inspect(f.Decl.Body, func(x ast.Node) bool {
				if x == nil {
					stack = stack[:len(stack)-1]
					return true
				}
				stack = append(stack, x)
				ret, ok := x.(*ast.ReturnStmt)
				if !ok {
					return true
				}
				mentionsAmb := false
				ast.Inspect(ret, func(y ast.Node) bool {
					if id, ok := y.(*ast.Ident); ok && id.Name == "ErrFieldAmbiguous" {
						mentionsAmb = true
					}
					return true
				})
				if !mentionsAmb {
					return true
				}
				for i := len(stack) - 2; i >= 0; i-- {
					ifs, ok := stack[i].(*ast.IfStmt)
					if !ok {
						continue
					}
					ast.Inspect(ifs.Cond, func(y ast.Node) bool {
						switch z := y.(type) {
						case *ast.SelectorExpr:
							if v := fieldVar(f, z); v != nil && v.Name() != "Column" {
								extra, extraPos = f.Src(ifs.Cond), ifs.Cond.Pos()
							}
						case *ast.CallExpr:
							if id, ok := z.Fun.(*ast.Ident); !ok || id.Name != "len" {
								extra, extraPos = f.Src(ifs.Cond), ifs.Cond.Pos()
							}
						}
						return true
					})
				}
				return true
			})
			if extra != "" {
				c.Fail(rule, f.Name+"|ambiguity-unconditional", extraPos, "the ambiguity of a name that matches twice is reported only when %s: two same-named columns for which this is false (the same table on both sides of a join without aliases) resolve silently to the first one", extra)
			} else {
				c.OK(rule, f.Name+"|ambiguity-unconditional", f.Decl.Pos(), 1, "nothing but the name comparison and the found marker governs the ambiguity return")
			}
		}
	}
	if f := c.NeedFunc(rule, "storage.Fields.LookupColIdxByID"); f != nil {
		// the success return sits where both comparisons are known to hold, however the test is written
		// (`if a && b { return }`, `if !a || !b { continue }; return`, nested ifs)
		okBoth := false
		g := f.Graph()
		inspectBody(f.Decl.Body, func(x ast.Node) bool {
			rs, ok := x.(*ast.RangeStmt)
			if !ok {
				return true
			}
			vid, ok := rs.Value.(*ast.Ident)
			if !ok {
				return true
			}
			for _, r := range g.Returns() {
				if r.Pos() < rs.Body.Pos() || r.End() > rs.Body.End() || !g.ReturnMayBeNil(r) {
					continue
				}
				loc, ok := g.Locate(r)
				if !ok {
					continue
				}
				if g.HoldsAt(loc, Rel{vid.Name + ".Column", token.EQL, paramName(f, 1)}) && g.HoldsAt(loc, Rel{vid.Name + ".TableID", token.EQL, paramName(f, 0)}) {
					okBoth = true
				}
			}
			return true
		})
		c.Check(okBoth, rule, f.Name+"|compares-column-and-table", f.Decl.Pos(), "qualified lookup compares column AND table id", "the qualified lookup does not compare both the column name and the table id: t1.id can resolve to t2.id")
	}
	if f := c.NeedFunc(rule, "engine.findColumnInFieldList"); f != nil {
		okSel := false
		inspectBody(f.Decl.Body, func(x ast.Node) bool {
			if ifs, ok := x.(*ast.IfStmt); ok && exprKey(ifs.Cond) == paramName(f, 0)+".Qualifier!=\"\"" {
				if len(f.Calls(ifs.Body, false, "storage.Fields.LookupColIdxByID")) == 1 {
					okSel = true
				}
			}
			return true
		})
		tail := len(f.Calls(f.Decl.Body, false, "storage.Fields.LookupFieldIdx")) == 1
		c.Check(okSel && tail, rule, f.Name+"|qualifier-selects-lookup", f.Decl.Pos(), "qualified -> by table id; unqualified -> ambiguity-checking lookup", "findColumnInFieldList does not route qualified references to LookupColIdxByID and unqualified ones to LookupFieldIdx")
	}
	if f := c.NeedFunc(rule, "engine.nestedLoopJoin"); f != nil {
		okAlias := false
		inspectBody(f.Decl.Body, func(x ast.Node) bool {
			if ifs, ok := x.(*ast.IfStmt); ok && strings.HasSuffix(exprKey(ifs.Cond), ".CorrelationName!=nil") {
				for _, st := range ifs.Body.List {
					if as, ok := st.(*ast.AssignStmt); ok && strings.Contains(exprKey(as.Rhs[0]), ".CorrelationName") {
						okAlias = true
					}
				}
			}
			return true
		})
		def := false
		inspectBody(f.Decl.Body, func(x ast.Node) bool {
			if as, ok := x.(*ast.AssignStmt); ok && as.Tok == token.DEFINE && len(as.Rhs) == 1 && strings.HasSuffix(exprKey(as.Rhs[0]), ".Name") {
				if t := f.TypeOf(as.Rhs[0]); t != nil && typeName(t) == "string" {
					def = true
				}
			}
			return true
		})
		c.Check(okAlias && def, rule, f.Name+"|table-id", f.Decl.Pos(), "table id = alias if present, else name", "the table id of a scanned table is not its alias when present and its name otherwise")
		// the Field objects the id is written into belong to this occurrence of the table alone: they come from
		// the relation manager's Fetch in this very invocation (a fresh list per call). A list that is kept and
		// handed out again shares its *Field pointers: the second occurrence's alias overwrites the first one's
		inspectBody(f.Decl.Body, func(x ast.Node) bool {
			as, ok := x.(*ast.AssignStmt)
			if !ok || len(as.Lhs) != 1 {
				return true
			}
			sel, ok := ast.Unparen(as.Lhs[0]).(*ast.SelectorExpr)
			if !ok || sel.Sel.Name != "TableID" {
				return true
			}
			v := fieldVar(f, sel)
			if v == nil || !namedTypeIs(f.TypeOf(sel.X), "storage", "Field") {
				return true
			}
			key := f.Name + "|table-id-written-into-own-fields"
			// the element variable ranges over a list …
			var list ast.Expr
			if id, ok := ast.Unparen(sel.X).(*ast.Ident); ok {
				inspectBody(f.Decl.Body, func(y ast.Node) bool {
					if rs, ok := y.(*ast.RangeStmt); ok {
						if vid, ok := rs.Value.(*ast.Ident); ok && f.ObjOf(vid) == f.ObjOf(id) {
							list = rs.X
						}
					}
					return true
				})
			}
			lid, ok := ast.Unparen(list).(*ast.Ident)
			if list == nil || !ok {
				c.Undecided(rule, key, "the field whose table id is written is not the element of a range over a local list")
				return true
			}
			// … every definition of which is the Fetch of the relation manager (followed through plain copies)
			fresh, other, unknown := 0, "", ""
			seenObj := map[types.Object]bool{}
			var defsOf func(obj types.Object, before token.Pos, depth int)
			defsOf = func(obj types.Object, before token.Pos, depth int) {
				if seenObj[obj] || depth > 4 {
					return
				}
				seenObj[obj] = true
				inspectBody(f.Decl.Body, func(y ast.Node) bool {
					das, ok := y.(*ast.AssignStmt)
					if !ok {
						return true
					}
					for i, l := range das.Lhs {
						id, ok := l.(*ast.Ident)
						if !ok || f.ObjOf(id) != obj {
							continue
						}
						var rhs ast.Expr
						if len(das.Rhs) == 1 {
							rhs = das.Rhs[0]
						} else if i < len(das.Rhs) {
							rhs = das.Rhs[i]
						}
						switch r := ast.Unparen(rhs).(type) {
						case *ast.CallExpr:
							switch {
							case f.CallIs(r, "engine.RelationManager.Fetch"):
								fresh++
							case len(das.Rhs) == 1 && len(das.Lhs) > 1:
								unknown = f.Src(r.Fun)
							default:
								other = f.Src(rhs) // make(…), a conversion, append(…): a list put together here
							}
						case *ast.Ident:
							if o := f.ObjOf(r); o != nil && r.Name != "nil" {
								defsOf(o, das.Pos(), depth+1)
							}
						default:
							other = f.Src(rhs)
						}
					}
					return true
				})
			}
			defsOf(f.ObjOf(lid), as.Pos(), 0)
			if other == "" && unknown != "" {
				c.Undecided(rule, key, "the field list comes from %s, which the rule does not follow", unknown)
				return true
			}
			switch {
			case other != "":
				c.FailConfined(rule, key, as.Pos(), "nestedLoopJoin writes the table id into fields that come from %s, not from the relation manager's Fetch of this invocation: a field list that is kept and handed out again shares its *Field objects, so the alias of a later occurrence of the table overwrites that of an earlier one (a self-join under two aliases resolves both to the same side)", other)
			case fresh > 0:
				c.OK(rule, key, as.Pos(), fresh, "the fields come from RelationManager.Fetch in this invocation")
			default:
				c.Undecided(rule, key, "where the field list comes from is not decided")
			}
			return true
		})
	}
}

// =========================== C07 ==============================================================

func runC07(c *Ctx) {
	defer c06Arms(c, "C07.16")
	defer ruleMadeThenAppended(c, "C07.17", "engine")
	defer ruleGroupByAlwaysGroups(c, "C07.15")
	c.Rule("C07.1", "the GROUP BY list accepts its comma separator (C10.1 applied to GroupByClause)")
	sub := NewCtx("C07", c.W)
	c10Lists(sub, "C07.1")
	for _, o := range sub.Obs {
		if strings.Contains(o.Key, "GroupByClause") {
			c.Obs = append(c.Obs, o)
		}
	}
	c07Rounding(c, "C07.2")
	c07GroupKey(c, "C07.3")
	c07Seeds(c, "C07.4")
	ruleAvgRounding(c, "C07.5")
	ruleLookupKeys(c, "C07.6")
	c05FreshRows(c, "C07.7")
	c08FreshDecodeTarget(c, "C07.8")
	ruleJoinNoEarlyReturn(c, "C07.9")
	c.Rule("C07.10", "values aggregated are the values stored: the row codec is symmetric per column type (C08.4)")
	checkCodecPair(c, "C07.10", "storage.(*Tuple).Encode", "storage.(*Tuple).Decode")
	ruleLimitOnlyAtTheEnd(c, "C07.11")
	ruleValueKindTotality(c, "C07.12", func(f *Func) bool { return f.Pkg == c.W.Pkgs["engine"] && aggregateCone(f) }, 0)
	ruleGroupByResolution(c, "C07.13")
	ruleStatementFieldsFromProductions(c, "C07.14")
}

func c07Rounding(c *Ctx, rule string) {
	c.Rule(rule, "no rounded value re-enters the average: the operand of math.Round in the AVG arm must not depend on a read of the location the rounded result is stored to (a running average that is rounded at every step depends on row order: 0,1,0,0 -> 1 but 0,0,0,1 -> 0)")
	f := c.NeedFunc(rule, "engine.aggregateRows")
	if f == nil {
		return
	}
	var arm *ast.CaseClause
	inspectBody(f.Decl.Body, func(x ast.Node) bool {
		if cc, ok := x.(*ast.CaseClause); ok {
			for _, e := range cc.List {
				if exprKey(e) == "sql.Average" {
					arm = cc
				}
			}
		}
		return true
	})
	key := f.Name + "|avg|rounding"
	if arm == nil {
		c.Undecided(rule, key, "no AVG arm in aggregateRows")
		return
	}
	body := &ast.BlockStmt{List: arm.Body}
	rounds := f.Calls(body, false, "math.Round")
	if len(rounds) == 0 {
		c.Note("%s: the AVG arm does not call math.Round; rounding placement not checked", rule)
		c.OK(rule, key, arm.Pos(), 1, "no rounding inside the accumulation")
		return
	}
	// dest: location that finally receives the rounded value
	dest := ""
	inspectBody(body, func(x ast.Node) bool {
		if as, ok := x.(*ast.AssignStmt); ok && len(as.Lhs) == 1 && strings.Contains(exprKey(as.Lhs[0]), ".Vals[") {
			dest = exprKey(as.Lhs[0])
		}
		return true
	})
	// variables feeding Round
	feeds := map[string]bool{}
	var addIdents func(e ast.Node)
	addIdents = func(e ast.Node) {
		ast.Inspect(e, func(y ast.Node) bool {
			if id, ok := y.(*ast.Ident); ok {
				feeds[id.Name] = true
			}
			return true
		})
	}
	addIdents(rounds[0])
	readsDest := strings.Contains(exprKey(rounds[0]), dest) && dest != ""
	for changed := true; changed; {
		changed = false
		inspectBody(body, func(x ast.Node) bool {
			if as, ok := x.(*ast.AssignStmt); ok && len(as.Lhs) == 1 {
				if id, ok := as.Lhs[0].(*ast.Ident); ok && feeds[id.Name] {
					if dest != "" && strings.Contains(exprKey(as.Rhs[0]), dest) && !readsDest {
						readsDest = true
						changed = true
					}
					before := len(feeds)
					addIdents(as.Rhs[0])
					if len(feeds) != before {
						changed = true
					}
				}
			}
			return true
		})
	}
	if readsDest {
		c.Fail(rule, key, rounds[0].Pos(), "the value rounded by math.Round is computed from %s, which holds the previous (already rounded) average: AVG depends on row order and differs from round(sum/count)", dest)
	} else {
		c.OK(rule, key, rounds[0].Pos(), 1, "the rounded value is computed from exact accumulators only")
	}
}

func c07GroupKey(c *Ctx, rule string) {
	c.Rule(rule, "two rows fall in the same group only if all grouping values are equal: the group key is built from self-delimiting fragments (a %%#v rendering, which quotes strings and prints integers, booleans and NULL distinctly, followed by a constant delimiter), and the per-aggregate counter key contains the group key plus the position of the aggregate in the select list (the column reference alone does not tell avg(v), avg(v) apart)")
	f := c.NeedFunc(rule, "engine.aggregateRows")
	if f == nil {
		return
	}
	key := f.Name + "|group-key"
	// the group key is whatever text the grouping values (elements of a row's Vals) are rendered into, in
	// aggregateRows itself, its closures, or a helper it calls: every such rendering is examined
	type site struct {
		fn     *Func
		call   *ast.CallExpr
		format string
		known  bool
	}
	var sites []site
	var plain []ast.Node
	isVal := func(g *Func, e ast.Expr) bool {
		ix, ok := ast.Unparen(e).(*ast.IndexExpr)
		if !ok {
			return false
		}
		sel, ok := ast.Unparen(ix.X).(*ast.SelectorExpr)
		return ok && sel.Sel.Name == "Vals"
	}
	scan := func(g *Func) {
		ast.Inspect(g.Decl.Body, func(x ast.Node) bool {
			call, ok := x.(*ast.CallExpr)
			if !ok {
				return true
			}
			fa := -1
			switch {
			case g.CallIs(call, "fmt.Sprintf"):
				fa = 0
			case g.CallIs(call, "fmt.Fprintf", "fmt.Appendf"):
				fa = 1
			case g.CallIs(call, "fmt.Sprint", "fmt.Sprintln", "fmt.Fprint", "fmt.Fprintln", "fmt.Append", "fmt.Appendln"):
				for _, a := range call.Args {
					if isVal(g, a) {
						plain = append(plain, call)
					}
				}
				return true
			default:
				return true
			}
			if len(call.Args) <= fa {
				return true
			}
			uses := false
			for _, a := range call.Args[fa+1:] {
				if isVal(g, a) {
					uses = true
				}
			}
			if !uses {
				return true
			}
			st := site{fn: g, call: call}
			if cv := g.constOf(call.Args[fa]); cv != nil && cv.Kind() == constant.String {
				st.format, st.known = constant.StringVal(cv), true
			}
			sites = append(sites, st)
			return true
		})
	}
	scan(f)
	for _, g := range sortedFuncs(c.W.CG().Reach(f)) {
		if g != f && g.Pkg == f.Pkg && !strings.HasPrefix(g.Name, "engine.project") && g.Name != "engine.evaluate" {
			if _, pinned := pinnedFuncs[g.Name]; !pinned {
				scan(g)
			}
		}
	}
	switch {
	case len(plain) > 0:
		c.Fail(rule, key, plain[0].Pos(), "a grouping value is rendered with a Print-style call (no quoting of strings, no delimiter of its own): ('x,','y') and ('x',',y'), (1,23) and (12,3), or NULL and the string '<nil>' produce the same key and their groups merge")
	case len(sites) == 0:
		c.Undecided(rule, key, "no rendering of a grouping value (fmt.Sprintf/Fprintf over an element of Vals) found in aggregateRows or its helpers")
	default:
		for _, st := range sites {
			if !st.known {
				c.Undecided(rule, key, "the format of a group-key rendering is not a constant")
				continue
			}
			format := strconv.Quote(st.format)
			quoting := strings.Contains(st.format, "%#v") // %q would render integers as character literals
			rest := strings.NewReplacer("%q", "", "%#v", "", "%v", "", "%s", "", "%d", "").Replace(st.format)
			delimited := len(rest) > 0
			switch {
			case !quoting:
				c.Fail(rule, key, st.call.Pos(), "group-key fragments are rendered with format %s: string values are not quoted, so ('x,','y') and ('x',',y'), (1,23) and (12,3), or NULL and the string '<nil>' produce the same key and their groups merge", format)
			case !delimited:
				c.Fail(rule, key, st.call.Pos(), "group-key fragments (format %s) are concatenated without a delimiter: (1,23) and (12,3) merge", format)
			default:
				c.OK(rule, key, st.call.Pos(), 1, "fragments %s are quoted and delimited", format)
			}
		}
	}
	// counter key
	key = f.Name + "|counter-key"
	// the counter key is what the per-aggregate row counters (a map from string to an integer wider than the
	// row index: map[string]int64) are indexed with
	var ck ast.Expr
	inspectBody(f.Decl.Body, func(x ast.Node) bool {
		ix, ok := x.(*ast.IndexExpr)
		if !ok || ck != nil {
			return true
		}
		mt, ok := f.TypeOf(ix.X).Underlying().(*types.Map)
		if !ok {
			return true
		}
		kb, ok1 := mt.Key().Underlying().(*types.Basic)
		vb, ok2 := mt.Elem().Underlying().(*types.Basic)
		if !ok1 || !ok2 || kb.Kind() != types.String || vb.Kind() != types.Int64 {
			return true
		}
		ck = ix.Index
		if id, ok := ast.Unparen(ix.Index).(*ast.Ident); ok {
			if rhs, _, ok := f.definedBy(f.Decl.Body, f.ObjOf(id)); ok && rhs != nil {
				ck = rhs
			}
		}
		return true
	})
	if ck == nil {
		c.Note("%s: no per-aggregate counter key (countKey) found; not checked", rule)
		return
	}
	// the column identity is the POSITION in the select list (the key of the loop over it): the same column
	// reference can be averaged twice (avg(v), avg(v)), and two counters must not become one
	hasGroup, hasCol := false, false
	var posObjs []types.Object
	// the group key is the string the group -> row map (a map[string]int) is indexed with
	groupKeyObjs := map[types.Object]bool{}
	ast.Inspect(f.Decl.Body, func(y ast.Node) bool {
		if ix, ok := y.(*ast.IndexExpr); ok {
			if mt, ok := f.TypeOf(ix.X).Underlying().(*types.Map); ok {
				kb, ok1 := mt.Key().Underlying().(*types.Basic)
				vb, ok2 := mt.Elem().Underlying().(*types.Basic)
				if ok1 && ok2 && kb.Kind() == types.String && vb.Kind() == types.Int {
					if id, ok := ast.Unparen(ix.Index).(*ast.Ident); ok {
						groupKeyObjs[f.ObjOf(id)] = true
					}
				}
			}
		}
		return true
	})
	ast.Inspect(f.Decl.Body, func(y ast.Node) bool {
		if rs, ok := y.(*ast.RangeStmt); ok && rs.Body.Pos() <= ck.Pos() && ck.End() <= rs.Body.End() {
			if t := f.TypeOf(rs.X); t != nil && namedTypeIs(t, "sql", "SelectList") {
				if k, ok := rs.Key.(*ast.Ident); ok && k.Name != "_" {
					posObjs = append(posObjs, f.ObjOf(k))
				}
			}
		}
		return true
	})
	ast.Inspect(ck, func(y ast.Node) bool {
		if id, ok := y.(*ast.Ident); ok {
			if groupKeyObjs[f.ObjOf(id)] {
				hasGroup = true
			}
			for _, o := range posObjs {
				if f.ObjOf(id) == o {
					hasCol = true
				}
			}
		}
		return true
	})
	c.Check(hasGroup && hasCol, rule, key, ck.Pos(), "counter key = group key + position of the select column", "the AVG counter key ("+exprKey(ck)+") does not contain the group key plus the position of the aggregate in the select list: avg(x.v) and avg(y.v) — or avg(v) written twice — share one counter, which is advanced once per column and row, and the averages are wrong")
}

func c07Seeds(c *Ctx, rule string) {
	c.Rule(rule, "per-row seeds: the COUNT seed is declared inside the COUNT arm (so it is reset for every COUNT column), is 1 for COUNT(*) and 1 exactly when the column value is not NULL for COUNT(col); the empty-input row holds int64 zeros for COUNT and AVG")
	f := c.NeedFunc(rule, "engine.projectColumns")
	if f != nil {
		var arm *ast.CaseClause
		inspectBody(f.Decl.Body, func(x ast.Node) bool {
			if cc, ok := x.(*ast.CaseClause); ok {
				for _, e := range cc.List {
					if exprKey(e) == "sql.Count" && len(f.Calls(cc, false, "engine.findColumnInFieldList")) == 0 {
						// the seeding arm: it appends
						app := false
						ast.Inspect(cc, func(y ast.Node) bool {
							if call, ok := y.(*ast.CallExpr); ok {
								if id, ok := call.Fun.(*ast.Ident); ok && id.Name == "append" {
									app = true
								}
							}
							return true
						})
						if app {
							arm = cc
						}
					}
				}
			}
			return true
		})
		key := f.Name + "|count-seed"
		if arm == nil {
			c.Undecided(rule, key, "COUNT seeding arm not found")
		} else {
			// the arm is evaluated on the three cases (COUNT(*); COUNT(col) with the column NULL; … not NULL):
			// what it appends must be 1, 0, 1 — however the seed is spelled (0 raised to 1, or 1 lowered to 0)
			verdict, why := "", ""
			for _, cs := range []struct {
				hasCol, isNull bool
				want           int64
				what           string
			}{{false, false, 1, "COUNT(*)"}, {true, true, 0, "COUNT(col) on a NULL value"}, {true, false, 1, "COUNT(col) on a value"}} {
				got, st := runSeedArm(f, arm.Body, cs.hasCol, cs.isNull)
				switch {
				case st == "outer":
					verdict, why = "fail", "the COUNT seed is not initialised inside the COUNT arm: with several COUNT columns a later COUNT(col) inherits the previous column's seed and counts NULLs"
				case st != "" && verdict == "":
					verdict, why = "undecided", "the COUNT arm is not in a form the rule can evaluate ("+st+")"
				case st == "" && got != cs.want && verdict != "fail":
					verdict = "fail"
					if cs.hasCol && cs.isNull {
						why = "COUNT(col) does not test the column value against NULL (or counts a NULL as 1)"
					} else {
						why = fmt.Sprintf("the COUNT seed for %s is %d, not %d", cs.what, got, cs.want)
					}
				}
			}
			switch verdict {
			case "fail":
				c.Fail(rule, key, arm.Pos(), "%s", why)
			case "undecided":
				c.Undecided(rule, key, "%s", why)
			default:
				c.OK(rule, key, arm.Pos(), 3, "seed reset per COUNT column; COUNT(*) seeds 1, COUNT(col) seeds 1 exactly for a non-NULL value")
			}
		}
	}
	if ef := c.NeedFunc(rule, "engine.emptyAggregateRow"); ef != nil {
		okZero := false
		inspectBody(ef.Decl.Body, func(x ast.Node) bool {
			if cc, ok := x.(*ast.CaseClause); ok {
				var names []string
				for _, e := range cc.List {
					names = append(names, exprKey(e))
				}
				sort.Strings(names)
				if strings.Join(names, ",") == "sql.Average,sql.Count" {
					ast.Inspect(cc, func(y ast.Node) bool {
						if call, ok := y.(*ast.CallExpr); ok && exprKey(call) == "int64(0)" {
							okZero = true
						}
						return true
					})
				}
			}
			return true
		})
		c.Check(okZero, rule, ef.Name+"|zeros", ef.Decl.Pos(), "COUNT and AVG over no rows are int64(0)", "the empty-input row does not hold int64(0) for COUNT and AVG")
	}
}

// stripAssert removes parentheses and type assertions: rhs.(int64) -> rhs.
func stripAssert(e ast.Expr) ast.Expr {
	for {
		e = ast.Unparen(e)
		ta, ok := e.(*ast.TypeAssertExpr)
		if !ok {
			return e
		}
		e = ta.X
	}
}

// isCommaOK: the identifier is the second variable of a `v, ok := x.(T)` definition.
func isCommaOK(f *Func, id *ast.Ident) bool {
	obj := f.ObjOf(id)
	found := false
	ast.Inspect(f.Decl.Body, func(n ast.Node) bool {
		if as, ok := n.(*ast.AssignStmt); ok && len(as.Lhs) == 2 && len(as.Rhs) == 1 {
			if _, isTA := ast.Unparen(as.Rhs[0]).(*ast.TypeAssertExpr); isTA {
				if l, ok := as.Lhs[1].(*ast.Ident); ok && f.ObjOf(l) == obj {
					found = true
				}
			}
		}
		return true
	})
	return found
}

// descQuery recognises, inside a sort comparator, the expressions that mean "the key being compared is
// DESC" (polarity true) or "… is ASC" (polarity false), and evaluates the comparator's tail.
type descQuery struct {
	f      *Func
	cmp    *ast.FuncLit
	keyIdx types.Object // range key of the comparator's loop over the sort keys
	keyVal types.Object // range value
}

func newDescQuery(f *Func, cmp *ast.FuncLit) *descQuery {
	q := &descQuery{f: f, cmp: cmp}
	ast.Inspect(cmp.Body, func(z ast.Node) bool {
		if rs, ok := z.(*ast.RangeStmt); ok && q.keyIdx == nil && q.keyVal == nil {
			if k, ok := rs.Key.(*ast.Ident); ok && k.Name != "_" {
				q.keyIdx = f.ObjOf(k)
			}
			if v, ok := rs.Value.(*ast.Ident); ok && v.Name != "_" {
				q.keyVal = f.ObjOf(v)
			}
		}
		return true
	})
	return q
}

// direct reports whether e compares an ordering specification with DESC / ASC: (isDesc polarity, recognised)
func (q *descQuery) direct(e ast.Expr) (bool, bool) {
	be, ok := ast.Unparen(e).(*ast.BinaryExpr)
	if !ok || (be.Op != token.EQL && be.Op != token.NEQ) {
		return false, false
	}
	x, y := be.X, be.Y
	cst := q.f.namedConst(y)
	if cst == nil {
		cst = q.f.namedConst(x)
		x = y
	}
	if cst == nil || !strings.Contains(exprKey(x), "OrderingSpecification") {
		return false, false
	}
	switch cst.Name() {
	case "DESC":
		return be.Op == token.EQL, true
	case "ASC":
		return be.Op == token.NEQ, true
	}
	return false, false
}

func (q *descQuery) mentions(e ast.Expr, obj types.Object) bool {
	hit := false
	ast.Inspect(e, func(n ast.Node) bool {
		if id, ok := n.(*ast.Ident); ok && obj != nil && q.f.ObjOf(id) == obj {
			hit = true
		}
		return true
	})
	return hit
}

// desc classifies e: status "" with the polarity (true: e holds iff the key is DESC), "wrongkey" when e is a
// direction but of another key than the one being compared, "unknown" otherwise.
func (q *descQuery) desc(e ast.Expr, depth int) (bool, string) {
	f := q.f
	e = ast.Unparen(e)
	if depth > 4 {
		return false, "unknown"
	}
	if u, ok := e.(*ast.UnaryExpr); ok && u.Op == token.NOT {
		p, st := q.desc(u.X, depth+1)
		return !p, st
	}
	if pol, ok := q.direct(e); ok {
		// ssl[k].OrderingSpecification.Type == DESC with k the loop's key, or spec.… with spec the loop's value
		if q.mentions(e, q.keyIdx) || q.mentions(e, q.keyVal) {
			return pol, ""
		}
		return pol, "wrongkey"
	}
	switch x := e.(type) {
	case *ast.Ident:
		if rhs, _, ok := f.definedBy(q.cmp.Body, f.ObjOf(x)); ok && rhs != nil {
			return q.desc(rhs, depth+1)
		}
	case *ast.IndexExpr:
		// descs[k]: a []bool filled in step with the key positions
		sid, ok := ast.Unparen(x.X).(*ast.Ident)
		if !ok {
			break
		}
		for _, as := range f.assignsTo(f.Decl.Body, f.ObjOf(sid)) {
			if args, self := f.isSelfAppend(as, f.ObjOf(sid)); self && len(args) == 1 && enclosingLoop(f.Decl.Body, as) != nil {
				if pol, ok := q.direct(args[0]); ok {
					if id, ok := ast.Unparen(x.Index).(*ast.Ident); ok && q.keyIdx != nil && f.ObjOf(id) == q.keyIdx {
						return pol, ""
					}
					return pol, "wrongkey"
				}
			}
		}
	case *ast.SelectorExpr:
		// key.desc: a field of the per-key struct the comparator ranges over; every literal of that struct sets
		// the field from the direction of the specification it is built for
		sel := f.Pkg.TypesInfo.Selections[x]
		if sel == nil || sel.Kind() != types.FieldVal {
			break
		}
		fld, _ := sel.Obj().(*types.Var)
		pol, seen, bad := false, 0, false
		for _, g := range f.w.Funcs {
			if g.Pkg != f.Pkg {
				continue
			}
			ast.Inspect(g.Decl.Body, func(n ast.Node) bool {
				lit, ok := n.(*ast.CompositeLit)
				if !ok {
					return true
				}
				st, ok := g.TypeOf(lit).Underlying().(*types.Struct)
				if !ok {
					return true
				}
				has := false
				for i := 0; i < st.NumFields(); i++ {
					if st.Field(i) == fld {
						has = true
					}
				}
				if !has {
					return true
				}
				v := kvField(lit, fld.Name())
				if v == nil {
					bad = true
					return true
				}
				dq := &descQuery{f: g}
				p, ok := dq.direct(v)
				if !ok || (seen > 0 && p != pol) {
					bad = true
					return true
				}
				pol = p
				seen++
				return true
			})
		}
		// stores into the field outside literals make it unknown
		for _, g := range f.w.Funcs {
			if g.Pkg != f.Pkg {
				continue
			}
			ast.Inspect(g.Decl.Body, func(n ast.Node) bool {
				if as, ok := n.(*ast.AssignStmt); ok {
					for _, l := range as.Lhs {
						if s2, ok := ast.Unparen(l).(*ast.SelectorExpr); ok {
							if ss := g.Pkg.TypesInfo.Selections[s2]; ss != nil && ss.Obj() == types.Object(fld) {
								bad = true
							}
						}
					}
				}
				return true
			})
		}
		if bad || seen == 0 {
			break
		}
		if id, ok := ast.Unparen(x.X).(*ast.Ident); ok && q.keyVal != nil && f.ObjOf(id) == q.keyVal {
			return pol, ""
		}
		if ix, ok := ast.Unparen(x.X).(*ast.IndexExpr); ok {
			if id, ok := ast.Unparen(ix.Index).(*ast.Ident); ok && q.keyIdx != nil && f.ObjOf(id) == q.keyIdx {
				return pol, ""
			}
		}
		return pol, "wrongkey"
	}
	return false, "unknown"
}

// run executes the comparator's tail with less = L and "this key is DESC" = D and returns what it returns.
func (q *descQuery) run(stmts []ast.Stmt, lessVar string, L, D bool) (bool, string) {
	env := map[string]bool{lessVar: L}
	var eval func(e ast.Expr) (bool, string)
	eval = func(e ast.Expr) (bool, string) {
		e = ast.Unparen(e)
		if p, st := q.desc(e, 0); st != "unknown" {
			return p == D, st
		}
		switch x := e.(type) {
		case *ast.Ident:
			if v, ok := env[x.Name]; ok {
				return v, ""
			}
			if x.Name == "true" || x.Name == "false" {
				return x.Name == "true", ""
			}
		case *ast.UnaryExpr:
			if x.Op == token.NOT {
				v, st := eval(x.X)
				return !v, st
			}
		case *ast.BinaryExpr:
			a, s1 := eval(x.X)
			b, s2 := eval(x.Y)
			if s1 != "" {
				return false, s1
			}
			if s2 != "" {
				return false, s2
			}
			switch x.Op {
			case token.EQL:
				return a == b, ""
			case token.NEQ:
				return a != b, ""
			case token.LAND:
				return a && b, ""
			case token.LOR:
				return a || b, ""
			}
		}
		return false, "unknown"
	}
	var exec func(list []ast.Stmt) (bool, bool, string) // value, returned, status
	exec = func(list []ast.Stmt) (bool, bool, string) {
		for _, st := range list {
			switch s := st.(type) {
			case *ast.ReturnStmt:
				if len(s.Results) != 1 {
					return false, true, "unknown"
				}
				v, status := eval(s.Results[0])
				return v, true, status
			case *ast.AssignStmt:
				if len(s.Lhs) != 1 || len(s.Rhs) != 1 {
					return false, true, "unknown"
				}
				id, ok := s.Lhs[0].(*ast.Ident)
				if !ok {
					return false, true, "unknown"
				}
				if _, st := q.desc(s.Rhs[0], 0); st != "unknown" && s.Tok == token.DEFINE {
					continue // a local naming the direction: resolved where it is used
				}
				v, status := eval(s.Rhs[0])
				if status != "" {
					return false, true, status
				}
				env[id.Name] = v
			case *ast.IfStmt:
				if s.Init != nil {
					return false, true, "unknown"
				}
				cv, status := eval(s.Cond)
				if status != "" {
					return false, true, status
				}
				var branch []ast.Stmt
				if cv {
					branch = s.Body.List
				} else if s.Else != nil {
					if b, ok := s.Else.(*ast.BlockStmt); ok {
						branch = b.List
					} else {
						branch = []ast.Stmt{s.Else}
					}
				}
				if v, ret, status := exec(branch); ret || status != "" {
					return v, ret, status
				}
			case *ast.EmptyStmt:
			default:
				return false, true, "unknown"
			}
		}
		return false, false, ""
	}
	v, ret, status := exec(stmts)
	if status == "" && !ret {
		return false, "unknown"
	}
	return v, status
}

// runSeedArm executes the statements of the COUNT seeding arm with "the argument is a column reference" =
// hasCol and "that column's value in this row is NULL" = isNull, and returns the value it appends.
// status: "" ok, "outer" when the appended variable is not defined inside the arm, else a reason.
func runSeedArm(f *Func, stmts []ast.Stmt, hasCol, isNull bool) (int64, string) {
	ints := map[types.Object]int64{}
	var result *int64
	atom := func(e ast.Expr) (bool, bool) {
		e = ast.Unparen(e)
		switch x := e.(type) {
		case *ast.Ident:
			if isCommaOK(f, x) {
				return hasCol, true
			}
		case *ast.BinaryExpr:
			if (x.Op == token.EQL || x.Op == token.NEQ) && (isNilIdent(f, x.Y) || isNilIdent(f, x.X)) {
				v := x.X
				if isNilIdent(f, x.X) {
					v = x.Y
				}
				txt := f.provenanceText(v)
				if strings.Contains(txt, ".Vals[") {
					return isNull == (x.Op == token.EQL), true
				}
			}
		}
		return false, false
	}
	var evalB func(e ast.Expr) (bool, bool)
	evalB = func(e ast.Expr) (bool, bool) {
		e = ast.Unparen(e)
		if v, ok := atom(e); ok {
			return v, true
		}
		switch x := e.(type) {
		case *ast.UnaryExpr:
			if x.Op == token.NOT {
				v, ok := evalB(x.X)
				return !v, ok
			}
		case *ast.BinaryExpr:
			if x.Op == token.LAND || x.Op == token.LOR {
				a, ok1 := evalB(x.X)
				// short circuit: the right operand may be meaningless when the left one decides
				if ok1 && x.Op == token.LAND && !a {
					return false, true
				}
				if ok1 && x.Op == token.LOR && a {
					return true, true
				}
				b, ok2 := evalB(x.Y)
				if !ok1 || !ok2 {
					return false, false
				}
				if x.Op == token.LAND {
					return a && b, true
				}
				return a || b, true
			}
		}
		return false, false
	}
	evalI := func(e ast.Expr) (int64, string) {
		e = ast.Unparen(f.stripConv(e))
		if cv := f.constOf(e); cv != nil {
			if n, ok := constant.Int64Val(constant.ToInt(cv)); ok {
				return n, ""
			}
		}
		if id, ok := e.(*ast.Ident); ok {
			if n, ok := ints[f.ObjOf(id)]; ok {
				return n, ""
			}
			if _, isVar := f.ObjOf(id).(*types.Var); isVar {
				return 0, "outer"
			}
		}
		return 0, "the appended value " + exprKey(e) + " is not a constant selection"
	}
	var exec func(list []ast.Stmt) string
	exec = func(list []ast.Stmt) string {
		for _, st := range list {
			if result != nil {
				return ""
			}
			switch s := st.(type) {
			case *ast.AssignStmt:
				// the append
				done := false
				for _, r := range s.Rhs {
					if call, ok := ast.Unparen(r).(*ast.CallExpr); ok {
						if id, ok := call.Fun.(*ast.Ident); ok && id.Name == "append" && len(call.Args) == 2 {
							n, status := evalI(call.Args[1])
							if status != "" {
								return status
							}
							result = &n
							done = true
						}
					}
				}
				if done {
					continue
				}
				if len(s.Lhs) == 1 && len(s.Rhs) == 1 {
					if id, ok := s.Lhs[0].(*ast.Ident); ok {
						if b, isB := f.TypeOf(id).Underlying().(*types.Basic); isB && b.Info()&types.IsInteger != 0 {
							if cv := f.constOf(f.stripConv(s.Rhs[0])); cv != nil {
								if n, ok := constant.Int64Val(constant.ToInt(cv)); ok {
									ints[f.ObjOf(id)] = n
									continue
								}
							}
							if _, tracked := ints[f.ObjOf(id)]; tracked {
								return "the seed is assigned " + exprKey(s.Rhs[0])
							}
						}
					}
				}
				// other definitions (idx := lookup[colRef], colRef, hasColRef := …) do not matter
			case *ast.IfStmt:
				cv, ok := evalB(s.Cond)
				if !ok {
					return "condition " + exprKey(s.Cond)
				}
				var branch []ast.Stmt
				if cv {
					branch = s.Body.List
				} else if s.Else != nil {
					if b, ok := s.Else.(*ast.BlockStmt); ok {
						branch = b.List
					} else {
						branch = []ast.Stmt{s.Else}
					}
				}
				if status := exec(branch); status != "" {
					return status
				}
			case *ast.BlockStmt:
				if status := exec(s.List); status != "" {
					return status
				}
			case *ast.DeclStmt, *ast.EmptyStmt, *ast.ExprStmt:
			default:
				return fmt.Sprintf("statement %T", st)
			}
		}
		return ""
	}
	if status := exec(stmts); status != "" {
		return 0, status
	}
	if result == nil {
		return 0, "nothing is appended"
	}
	return *result, ""
}
